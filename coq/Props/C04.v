(** Property C04: parallel execution never changes the result. *)
From Vicut Require Import Base.Prelude Model.Format Model.Drivers Model.Sched
  Proofs.DriverProofs Proofs.SchedProofs.
From Coq Require Import Permutation.

(** (1) In whatever order the tagged results are collected, [sort_by_key] on the
    unit index gives them back in input order. *)
Theorem C04_sort_restores_order :
  forall (A : Type) (items : list A) (collected : list (nat * A)),
    Permutation collected (tag_from 0 items) ->
    map snd (sort_tagged collected) = items.
Proof. intros; now apply sort_restores_order. Qed.

(** (2) Schedule independence: for every number of workers, every assignment
    of units to workers, every order within a worker and whatever registers
    each worker thread holds, the sorted results are the per-unit results in
    input order - because [execute] starts by resetting the registers. *)
Theorem C04_schedule_independent :
  forall (regs : Type) (regs0 : regs) (body : regs -> text -> outcome (list record) * regs)
         (units : list text) (sched : list (regs * list (nat * text))),
    Permutation (flat_map snd sched) (tag_from 0 units) ->
    map snd (sort_tagged (run_sched regs (execute regs regs0 body) sched))
    = map (fun t => fst (body regs0 t)) units.
Proof. intros; now apply schedule_independent. Qed.

(** (3) Isolation: what a worker produces for its units is independent of the
    registers it starts with and of the units it ran before. *)
Theorem C04_isolation :
  forall (regs : Type) (regs0 : regs) (body : regs -> text -> outcome (list record) * regs)
         (units : list (nat * text)) (r : regs),
    worker regs (execute regs regs0 body) r units
    = map (fun it => (fst it, fst (body regs0 (snd it)))) units.
Proof. intros; apply worker_isolated. Qed.

(** (4) Without the reset (the pinned revision) two schedules of the same two
    units give different results. *)
Theorem C04_without_reset_refuted :
  exists (body : text -> text -> outcome (list record) * text)
         (s1 s2 : list (text * list (nat * text))),
    Permutation (flat_map snd s1) (flat_map snd s2) /\
    map snd (sort_tagged (run_sched text (execute_noreset text body) s1))
    <> map snd (sort_tagged (run_sched text (execute_noreset text body) s2)).
Proof. exact noreset_schedule_dependent. Qed.

(** (5) Parallel equals serial up to serial's extra final newline (single file,
    printing): the same payload, serial adds one newline. *)
Theorem C04_serial_framing :
  forall (unit : option text -> text -> outcome (list record)) (o : dopts)
         (p content : text) (recs : list record) (t : text) (s : dstate),
    do_files o = [p] -> do_inplace o = false -> do_json o = false ->
    fs_read (d_fs s) p = Some content -> unit (Some p) content = Ok recs ->
    format_output (do_fmt o) recs = Ok t ->
    files_parallel unit o s = (out s t, Done)
    /\ files_serial unit o (do_files o) [] s = (out s (t ++ [10]), Done).
Proof.
  intros unit o p content recs t s Hf Hi Hj Hr Hu Ht. split.
  - unfold files_parallel. rewrite Hf. cbn [read_all]. rewrite Hr. cbn [exec_all]. rewrite Hu.
    rewrite Hj. cbn [andb]. unfold files_emit. cbn [fmt_results]. rewrite Ht. cbn [emit_all].
    rewrite Hi. unfold multi. rewrite Hf. reflexivity.
  - rewrite Hf. cbn [files_serial]. rewrite Hr, Hu, Hj, Ht, Hi. unfold multi. rewrite Hf.
    reflexivity.
Qed.

Print Assumptions C04_sort_restores_order.
Print Assumptions C04_schedule_independent.
Print Assumptions C04_isolation.
Print Assumptions C04_without_reset_refuted.
Print Assumptions C04_serial_framing.
