(** Property C10: no input makes vicut crash or hang.

    What is proved here is proved about the modelled components: every one of
    them is a total Gallina function (the kernel's guard condition is the
    termination proof; none uses fuel that a theorem below does not show to be
    sufficient) and none of their failing outcomes is a panic. The editor core
    (motions, verbs, mode parsers) and the vic interpreter are not modelled;
    for them the check is the input stream of tools/vplib/props/c10.py, which
    is a test and is labelled as one in the evidence. *)
From Vicut Require Import Base.Prelude Model.Args Model.Keys Model.Format Model.Drivers Model.Undo
  Proofs.TotalProofs Proofs.UndoProofs.

(** (1) The argument parser: for every argument vector, every stack of open
    -g/-v scopes and every answer of the file system, [Opts::parse] ends with
    an option set or with the usage error, never with a panic - this covers
    missing operands, -r counts larger than the command list, -r inside and
    after scopes, unclosed scopes and stray --else/--end. *)
Theorem C10_parse_graceful :
  forall (file_ok : text -> bool) (args : list text),
    match parse file_ok args with Ok _ | Exit1 => True | Panic _ | OutOfFuel => False end.
Proof. exact parse_graceful. Qed.
Print Assumptions C10_parse_graceful.

(** (2) The key reader: a returned key costs at least one byte of the key
    string, so the key loop ends after at most one iteration per byte ... *)
Theorem C10_read_key_progress :
  forall (r : reader) (k : key) (r' : reader),
    read_key r = (Some k, r') -> (length (r_bytes r') < length (r_bytes r))%nat.
Proof. exact read_key_progress. Qed.
Print Assumptions C10_read_key_progress.

Theorem C10_read_keys_bound :
  forall (f : nat) (r : reader), (length (fst (read_keys f r)) <= length (r_bytes r))%nat.
Proof. exact read_keys_bound. Qed.
Print Assumptions C10_read_keys_bound.

(** ... and the fuel the model gives the loop is never what stops it. *)
Theorem C10_read_keys_fuel :
  forall (bs : list N) (extra : nat),
    read_keys (S (length bs) + extra) (mkReader bs false) = keys_of bs.
Proof. exact keys_of_fuel. Qed.
Print Assumptions C10_read_keys_fuel.

(** (3) Output formatting ends with text or (template naming an unknown field)
    with the error exit. *)
Theorem C10_format_graceful :
  forall (f : fmt) (recs : list record),
    match format_output f recs with Ok _ | Exit1 => True | Panic _ | OutOfFuel => False end.
Proof. exact format_output_graceful. Qed.
Print Assumptions C10_format_graceful.

(** (4) The five drivers and [main]'s dispatch: if no unit of work ([execute] on
    one input) panics, the run does not panic - whatever the options, files,
    file-system state and input. *)
Theorem C10_drivers_no_panic :
  forall (unit : option text -> text -> outcome (list record)) (o : dopts),
    (forall f t, match unit f t with Ok _ | Exit1 => True | Panic _ | OutOfFuel => False end) ->
    forall (linewise serial : bool) (input : text) (s : dstate),
      snd (run_main unit o linewise serial input s) <> Failed true.
Proof. exact run_main_no_panic. Qed.
Print Assumptions C10_drivers_no_panic.

(** (5) Undo and redo have no failing outcome at all and never leave the set
    of earlier states (this is C07_no_new_states, restated for this property
    because undo was the largest source of panics on the original tree). *)
Theorem C10_undo_total :
  forall (t : text) (ops : list uop), In (u_buf (urun t ops)) (t :: cmd_texts ops).
Proof. exact no_new_states. Qed.
Print Assumptions C10_undo_total.

(** the premise of (4) is satisfiable, and a malformed vector really is refused *)
Example C10_example :
  parse (fun _ => false) [T "-r"; T "9"; T "9"] = Ok (top_repeat opts0 9 9)
  /\ parse (fun _ => false) [T "-c"; T "-x"] = Exit1.
Proof. vm_compute. split; reflexivity. Qed.
