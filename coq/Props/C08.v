(** Property C08: edits are local and conserve text. The buffer is its list of
    grapheme clusters (multi-byte clusters included); a motion contributes only
    the cluster range [s, e) it selects, so every statement holds for every
    motion and text object. *)
From Vicut Require Import Base.Prelude Model.Text Model.Edit Proofs.EditProofs.

(** (1) delete / change: the register gets exactly the removed text and the
    text outside the span is preserved. *)
Theorem C08_delete :
  forall (cl : list text) (s e : nat),
    (s <= e)%nat -> (e <= length cl)%nat ->
    let '(rest, reg) := delete_range cl s e in
    exists pre mid post,
      concat cl = pre ++ mid ++ post /\ concat rest = pre ++ post /\ reg = RSpan mid
      /\ pre = concat (firstn s cl) /\ post = concat (skipn e cl).
Proof. exact delete_local. Qed.

Theorem C08_delete_lines :
  forall (cl : list text) (s e : nat),
    (s <= e)%nat -> (e <= length cl)%nat ->
    let '(rest, reg) := delete_lines cl s e in
    exists pre mid post,
      concat cl = pre ++ mid ++ post /\ concat rest = pre ++ post /\ reg = RLine (with_newline mid).
Proof. exact delete_lines_local. Qed.

(** (2) yank: the text is untouched and the register holds the covered span -
    the same text a delete over that span would have removed. *)
Theorem C08_yank :
  forall (cl : list text) (s e : nat),
    (s <= e)%nat -> (e <= length cl)%nat ->
    let '(rest, reg) := yank_range cl s e in
    rest = cl /\ exists pre mid post, concat cl = pre ++ mid ++ post /\ reg = RSpan mid.
Proof. exact yank_local. Qed.

Theorem C08_yank_eq_delete :
  forall (cl : list text) (s e : nat), snd (yank_range cl s e) = snd (delete_range cl s e).
Proof. exact yank_eq_delete. Qed.

(** (3) put: exactly the register's text is inserted; delete then put at the
    same place restores the text. *)
Theorem C08_put :
  forall (cl : list text) (i : nat) (pieces : list text),
    concat (insert_span cl i pieces) = concat (firstn i cl) ++ concat pieces ++ concat (skipn i cl)
    /\ concat cl = concat (firstn i cl) ++ concat (skipn i cl).
Proof. exact put_local. Qed.

Theorem C08_delete_put_inverse :
  forall (cl : list text) (s e : nat),
    (s <= e)%nat -> (e <= length cl)%nat ->
    concat (insert_span (fst (drain cl s e)) s (sub_clusters cl s e)) = concat cl.
Proof. exact delete_put_inverse. Qed.

(** (4) registers: upper-case names append, lower-case names overwrite. *)
Theorem C08_append : forall a b : text, reg_store true (RSpan a) (RSpan b) = RSpan (a ++ b).
Proof. exact append_spans. Qed.
Theorem C08_overwrite : forall (a new : regcontent), reg_store false a new = new.
Proof. exact overwrite. Qed.

(** (5) case operators: the number of clusters is preserved, everything outside
    the span is preserved cluster by cluster, inside only one-character
    clusters are mapped. *)
Theorem C08_case_shape :
  forall (f : N -> N) (cl : list text) (s e : nat),
    (s <= e)%nat -> (e <= length cl)%nat ->
    let cl' := case_range f cl s e in
    length cl' = length cl
    /\ firstn s cl' = firstn s cl /\ skipn e cl' = skipn e cl
    /\ Forall2 (fun c c' => c' = map_cluster f c) (sub_clusters cl s e) (sub_clusters cl' s e).
Proof. exact case_preserves_shape. Qed.

Theorem C08_toggle_letters_only :
  forall c : N, toggle_char c <> c -> (is_lower c || is_upper c) = true.
Proof. exact toggle_only_letters. Qed.

Example C08_example :
  let cl := [T "h"; [233]; T "l"; T "l"; T "o"] in
  delete_range cl 1 3 = ([T "h"; T "l"; T "o"], RSpan ([233] ++ T "l")).
Proof. reflexivity. Qed.

Print Assumptions C08_delete.
Print Assumptions C08_delete_lines.
Print Assumptions C08_yank.
Print Assumptions C08_yank_eq_delete.
Print Assumptions C08_put.
Print Assumptions C08_delete_put_inverse.
Print Assumptions C08_append.
Print Assumptions C08_overwrite.
Print Assumptions C08_case_shape.
Print Assumptions C08_toggle_letters_only.
