(** Property C14: all output formats carry the same records. *)
From Vicut Require Import Base.Prelude Model.Format Proofs.FormatProofs.

(** (1) Whatever characters a field (or a field name) contains - quotes,
    backslashes, control characters, newlines, braces, non-ASCII - the JSON
    string written for it decodes, by the RFC 8259 escape rules, to exactly
    that text, and decoding stops exactly at its closing quote. *)
Theorem C14_json_string_roundtrip :
  forall s rest : text, json_parse_string (json_string s ++ rest) = Some (s, rest).
Proof. exact json_string_roundtrip. Qed.

(** (2) Keys: after a [-n] (or at the start) the j-th cut of the group gets key
    j unless it was given a name; values are the cut texts in order. *)
Theorem C14_numbering :
  forall (l : list (option text * text)) (c : ctx),
    let c' := fold_left (fun c nv => ctx_field (fst nv) (Some (snd nv)) c) l (ctx_break c) in
    map fst (fields c') = keys_from 0 l /\ map snd (fields c') = map snd l.
Proof. exact numbering_after_break. Qed.

(** (3) With no [-c] at all the default/delimiter rendering is the final buffer. *)
Theorem C14_verbatim :
  forall delim buf : text, format_standard delim (ctx_finish false true false buf ctx0) = buf.
Proof. exact verbatim_no_cut. Qed.

(** (4) Templates: literal text is copied, a closed placeholder whose field
    exists is replaced by the field text, an unknown one is an error. *)
Theorem C14_template_literal :
  forall (r : record) (lit cur rest : text),
    forallb plain_char lit = true ->
    tmpl_scan r None cur (lit ++ rest) = tmpl_scan r None (cur ++ lit) rest.
Proof. intros; now apply tmpl_literal. Qed.

Theorem C14_template_hole :
  forall (r : record) (name cur rest v : text),
    forallb plain_char name = true -> lookup name r = Some v ->
    tmpl_scan r None cur (123 :: 123 :: name ++ 125 :: 125 :: rest)
    = tmpl_scan r None (cur ++ v) rest.
Proof. exact tmpl_hole. Qed.

Theorem C14_template_unknown :
  forall (r : record) (name cur rest : text),
    forallb plain_char name = true -> lookup name r = None ->
    tmpl_scan r None cur (123 :: 123 :: name ++ 125 :: 125 :: rest) = None.
Proof. exact tmpl_unknown. Qed.

(** Known finding (class duplicate-name): two fields with the same key in one
    record cannot both be carried by a JSON object; the later one wins. *)
Theorem C14_duplicate_name_refuted :
  exists r : record, List.length r = 2%nat /\ List.length (to_map r) = 1%nat
                     /\ to_map r = [(T "k", T "second")].
Proof. exists [(T "k", T "first"); (T "k", T "second")]. vm_compute. repeat split. Qed.

Example C14_example :
  format_json [[(T "2", T "b""x"); (T "1", [97; 10; 233])]; []]
  = T "[" ++ [10] ++ T "  {" ++ [10] ++ T "    ""1"": ""a\n" ++ [233] ++ T """," ++ [10]
      ++ T "    ""2"": ""b\""x""" ++ [10] ++ T "  }," ++ [10] ++ T "  {}" ++ [10] ++ T "]".
Proof. vm_compute. reflexivity. Qed.

Print Assumptions C14_json_string_roundtrip.
Print Assumptions C14_numbering.
Print Assumptions C14_verbatim.
Print Assumptions C14_template_literal.
Print Assumptions C14_template_hole.
Print Assumptions C14_template_unknown.
Print Assumptions C14_duplicate_name_refuted.
