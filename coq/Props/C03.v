(** Property C03: --linewise equals running every line alone, in input order. *)
From Vicut Require Import Base.Prelude Model.Format Model.Drivers Model.Sched
  Proofs.DriverProofs Proofs.SchedProofs.
From Coq Require Import Permutation.

(** (1) Splitting loses, duplicates, merges and reorders nothing: the lines
    concatenate back to the input; each is non-empty and contains a newline
    only as its terminator. *)
Theorem C03_split_concat : forall t : text, concat (get_lines t) = t.
Proof. exact get_lines_concat. Qed.

Theorem C03_split_shape :
  forall t : text,
    Forall (fun l => l <> [] /\ exists body, ~ In 10 body /\ (l = body ++ [10] \/ l = body))
           (get_lines t).
Proof. exact get_lines_shape. Qed.

(** (2) The stdin driver: the records of the run are the records of the lines,
    each executed alone from fresh registers, in input order; outside JSON the
    output is the outputs of the lines, each formatted on its own, put together
    in input order (JSON is one document over the concatenated records). *)
Theorem C03_stdin_records :
  forall (unit : option text -> text -> outcome (list record)) (o : dopts) (input : text)
         (s : dstate) (rs : list (list record)) (output : text),
    units_seq unit None (get_lines input) = Ok rs ->
    format_linewise o rs = Ok output ->
    linewise_stdin unit o input s = (out s (output ++ [10]), Done).
Proof.
  intros unit o input s rs output Hu Hf. unfold linewise_stdin. now rewrite Hu, Hf.
Qed.
Print Assumptions C03_stdin_records.
Theorem C03_linewise_is_concatenation :
  forall (o : dopts) (rs : list (list record)) (ts : list text),
    do_json o = false ->
    Forall2 (fun r t => format_output (do_fmt o) r = Ok t) rs ts ->
    format_linewise o rs = Ok (concat ts).
Proof.
  intros o rs ts Hj H. unfold format_linewise. rewrite Hj. now apply fmt_units_concat.
Qed.
Print Assumptions C03_linewise_is_concatenation.
(** (3) Renderings concatenate: template and delimiter output of the
    concatenated records is the concatenation of the per-line outputs. *)
Theorem C03_template_concat :
  forall (t : text) (r1 r2 : list record) (o1 o2 : text),
    format_template t r1 = Ok o1 -> format_template t r2 = Ok o2 ->
    format_template t (r1 ++ r2) = Ok (o1 ++ o2).
Proof. intros; now apply format_template_app. Qed.

Theorem C03_delimiter_concat :
  forall (d : text) (r1 r2 : list record),
    flat_map (std_line d) (r1 ++ r2) = flat_map (std_line d) r1 ++ flat_map (std_line d) r2.
Proof. intros; apply std_lines_app. Qed.

(** (4) No line is influenced by another: whatever thread ran whatever lines
    before, in whatever order results are collected, the sorted result is the
    list of per-line results in input order. *)
Theorem C03_lines_independent :
  forall (regs : Type) (regs0 : regs) (body : regs -> text -> outcome (list record) * regs)
         (lines : list text) (sched : list (regs * list (nat * text))),
    Permutation (flat_map snd sched) (tag_from 0 lines) ->
    map snd (sort_tagged (run_sched regs (execute regs regs0 body) sched))
    = map (fun t => fst (body regs0 t)) lines.
Proof. intros; now apply schedule_independent. Qed.

Example C03_example :
  get_lines (T "ab" ++ [10; 10] ++ T "c") = [T "ab" ++ [10]; [10]; T "c"].
Proof. reflexivity. Qed.

Print Assumptions C03_split_concat.
Print Assumptions C03_split_shape.
Print Assumptions C03_stdin_records.
Print Assumptions C03_template_concat.
Print Assumptions C03_delimiter_concat.
Print Assumptions C03_lines_independent.
