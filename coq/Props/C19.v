(** Property C19: a search lands on the next match and nowhere else.
    "Match" = what the regex engine's [find_iter] reports on the whole buffer
    ([starts]: the byte offsets of the matches, in increasing order). *)
From Vicut Require Import Base.Prelude Model.Search Proofs.SearchProofs.

(** (1) [/P]: the result is a match of P; if a match starts after the cursor it
    is the first such match, otherwise the first match of the buffer. *)
Theorem C19_forward :
  forall (starts : list nat) (cur r : nat),
    search_fwd starts cur = Some r ->
    In r starts /\
    ((cur < r)%nat /\ (exists i, nth_error starts i = Some r /\
                                 forall j y, (j < i)%nat -> nth_error starts j = Some y -> (y <= cur)%nat)
     \/ (forall x, In x starts -> (x <= cur)%nat) /\ nth_error starts 0 = Some r).
Proof. exact search_fwd_spec. Qed.

(** (2) [?P] mirrors this towards the start. *)
Theorem C19_backward :
  forall (starts : list nat) (cur r : nat),
    search_bwd starts cur = Some r ->
    In r starts /\
    ((r < cur)%nat /\ (exists i, nth_error starts i = Some r /\
                                 forall j y, (i < j)%nat -> nth_error starts j = Some y -> (cur <= y)%nat)
     \/ (forall x, In x starts -> (cur <= x)%nat) /\ nth_error starts (length starts - 1) = Some r).
Proof. exact search_bwd_spec. Qed.

(** (3) [n]/[N] without count are the search in the same/opposite direction;
    they always land on a match; a count is that many presses. *)
Theorem C19_n_is_search :
  forall (starts : list nat) (cur : nat),
    match_step starts cur true 1 = search_fwd starts cur
    /\ match_step starts cur false 1 = search_bwd starts cur.
Proof. exact match_step_one. Qed.

Theorem C19_n_lands_on_match :
  forall (starts : list nat) (cur : nat) (fwd : bool) (count r : nat),
    match_step starts cur fwd count = Some r -> In r starts.
Proof. exact match_step_in. Qed.

Theorem C19_count_is_repetition :
  forall (starts : list nat) (cur k : nat),
    increasing starts -> starts <> [] ->
    match_step starts cur true (S k)
    = option_map (fun r => Nat.iter k (press starts) r) (search_fwd starts cur).
Proof. exact count_is_repetition. Qed.

(** (4) P matches nowhere: every search motion is Null (cursor and text stay). *)
Theorem C19_nomatch :
  forall (cur : nat) (fwd : bool) (count : nat),
    search_fwd [] cur = None /\ search_bwd [] cur = None /\ match_step [] cur fwd count = None.
Proof. exact search_nomatch. Qed.

(** (5) the cursor ends on the cluster whose first byte is the match start *)
Theorem C19_cursor_on_match_start :
  forall (gidx : list nat) (i b : nat),
    NoDup gidx -> nth_error gidx i = Some b -> index_of_byte gidx b = Some i.
Proof. exact index_of_byte_nth. Qed.

Example C19_example :
  let starts := [0; 8; 16]%nat in
  search_fwd starts 0 = Some 8%nat /\ search_fwd starts 16 = Some 0%nat /\
  search_bwd starts 0 = Some 16%nat /\ match_step starts 8 true 5 = Some 0%nat /\
  match_step starts 8 false 2 = Some 16%nat.
Proof. vm_compute. repeat split. Qed.

Print Assumptions C19_forward.
Print Assumptions C19_backward.
Print Assumptions C19_n_is_search.
Print Assumptions C19_n_lands_on_match.
Print Assumptions C19_count_is_repetition.
Print Assumptions C19_nomatch.
Print Assumptions C19_cursor_on_match_start.
