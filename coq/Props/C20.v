(** Property C20: dot repeats the last change exactly. *)
From Vicut Require Import Base.Prelude Model.Dot Proofs.DotProofs.

(** (1) For every line-buffer semantics [lb_exec]: after a repeatable change X
    and any commands in between that are not repeatable (motions, yanks,
    searches, failed commands), '.' leaves the line buffer - text, cursor,
    registers - exactly as executing X again does. *)
Theorem C20_dot_is_retyping :
  forall (lb vicmd : Type) (lb_exec : vicmd -> lb -> lb) (repeatable : vicmd -> bool)
         (with_count : nat -> vicmd -> vicmd) (X : vicmd) (between : list vicmd) (s : vstate lb vicmd),
    repeatable X = true ->
    forallb (fun c => negb (repeatable c)) between = true ->
    v_lb lb vicmd (do_dot lb vicmd lb_exec with_count 1 (run_cmds lb vicmd lb_exec repeatable between (do_cmd lb vicmd lb_exec repeatable X s)))
    = v_lb lb vicmd (do_cmd lb vicmd lb_exec repeatable X (run_cmds lb vicmd lb_exec repeatable between (do_cmd lb vicmd lb_exec repeatable X s))).
Proof. intros; now apply dot_is_retyping. Qed.

(** (2) What '.' repeats is not changed by what happens in between. *)
Theorem C20_between_keeps_repeat :
  forall (lb vicmd : Type) (lb_exec : vicmd -> lb -> lb) (repeatable : vicmd -> bool)
         (cs : list vicmd) (s : vstate lb vicmd),
    forallb (fun c => negb (repeatable c)) cs = true ->
    v_repeat lb vicmd (run_cmds lb vicmd lb_exec repeatable cs s) = v_repeat lb vicmd s.
Proof. intros; now apply between_keeps_repeat. Qed.

(** (3) Chains: X . . . (k dots) = X typed k+1 times. *)
Theorem C20_chain :
  forall (lb vicmd : Type) (lb_exec : vicmd -> lb -> lb) (repeatable : vicmd -> bool)
         (with_count : nat -> vicmd -> vicmd) (X : vicmd) (k : nat) (s : vstate lb vicmd),
    repeatable X = true ->
    v_lb lb vicmd (Nat.iter k (do_dot lb vicmd lb_exec with_count 1) (do_cmd lb vicmd lb_exec repeatable X s))
    = v_lb lb vicmd (Nat.iter k (do_cmd lb vicmd lb_exec repeatable X) (do_cmd lb vicmd lb_exec repeatable X s)).
Proof. intros; now apply dot_chain. Qed.

(** (4) A count given to '.' executes the stored command with that count. *)
Theorem C20_count :
  forall (lb vicmd : Type) (lb_exec : vicmd -> lb -> lb) (repeatable : vicmd -> bool)
         (with_count : nat -> vicmd -> vicmd) (X : vicmd) (n : nat) (s : vstate lb vicmd),
    repeatable X = true -> (1 < n)%nat ->
    v_lb lb vicmd (do_dot lb vicmd lb_exec with_count n (do_cmd lb vicmd lb_exec repeatable X s))
    = lb_exec (with_count n X) (lb_exec X (v_lb lb vicmd s)).
Proof. intros; now apply dot_count. Qed.

Print Assumptions C20_dot_is_retyping.
Print Assumptions C20_between_keeps_repeat.
Print Assumptions C20_chain.
Print Assumptions C20_count.
