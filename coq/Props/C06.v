(** Property C06: in-place editing is all-or-nothing across files. *)
From Vicut Require Import Base.Prelude Model.Format Model.Drivers Proofs.DriverProofs Proofs.BackupProofs.

(** (1) Default / pooled driver: if any named file cannot be read, or the
    processing of any file aborts (exit or panic), the run fails and the file
    system and stdout are exactly as before - for every file system, every set
    and position of faulty files, with or without [--backup]. *)
Theorem C06_parallel_atomic :
  forall (unit : option text -> text -> outcome (list record)) (o : dopts) (s : dstate),
    (read_all (d_fs s) (do_files o) = None \/
     exists work, read_all (d_fs s) (do_files o) = Some work /\
                  forall r, exec_all unit work <> Ok r) ->
    exists b, files_parallel unit o s = (s, Failed b).
Proof. intros; now apply files_parallel_atomic. Qed.

(** (2) The same for the parallel [--linewise] driver. *)
Theorem C06_linewise_parallel_atomic :
  forall (unit : option text -> text -> outcome (list record)) (o : dopts) (s : dstate),
    (read_all (d_fs s) (do_files o) = None \/
     exists work, read_all (d_fs s) (do_files o) = Some work /\
                  forall r, lw_exec_all unit o work <> Ok r) ->
    exists b, lw_files_parallel unit o s = (s, Failed b).
Proof. intros; now apply lw_files_parallel_atomic. Qed.

(** (3) A formatting error (a template naming a field some file does not have)
    is detected before the first write. *)
Theorem C06_format_error_atomic :
  forall (o : dopts) results (s : dstate),
    (forall payloads, fmt_results o results <> Ok payloads) ->
    exists b, files_emit o results s = (s, Failed b).
Proof. intros; now apply files_emit_atomic. Qed.

(** (4) The write phase of the parallel drivers with [--backup], as the code has it since the repair (every backup first,
    then every file): when a backup cannot be made - the file has vanished since it was read - the run fails, nothing is
    printed, and every named file, indeed everything that is not a backup sibling, is as it was.  Backup names must not
    be names of files of the run. *)
Theorem C06_backup_fault_atomic :
  forall (o : dopts) (l : list (text * text)) (s : dstate),
    do_backup o = true ->
    snd (backup_all (map fst l) (d_fs s)) = false ->
    (forall p q, In p (map fst l) -> In q (map fst l) -> backup_path (T "bak") q <> p) ->
    exists s', emit_two_phase o l s = (s', Failed false)
      /\ d_out s' = d_out s
      /\ (forall p, In p (map fst l) -> fs_get (d_fs s') p = fs_get (d_fs s) p)
      /\ (forall q, ~ In q (map (backup_path (T "bak")) (map fst l)) -> fs_get (d_fs s') q = fs_get (d_fs s) q).
Proof. exact two_phase_fault_atomic. Qed.

(** three files, the second one gone: the first has its backup, no file is rewritten *)
Example C06_backup_fault_example :
  let o := mkDO (FStandard (T " ")) false true true [T "a"; T "b"; T "c"] in
  let s := mkD [(T "a", FText (T "1")); (T "c", FText (T "3"))] [] in
  emit_two_phase o [(T "a", T "x"); (T "b", T "y"); (T "c", T "z")] s
  = (mkD [(T "a", FText (T "1")); (T "c", FText (T "3")); (T "a..bak", FText (T "1"))] [], Failed false).
Proof. vm_compute. reflexivity. Qed.

(** Known finding (class serial-driver): [--serial] reads, executes and writes
    file by file; a fault in a later file leaves the earlier ones rewritten. *)
Theorem C06_serial_refuted :
  exists (unit : option text -> text -> outcome (list record)) (o : dopts) (s : dstate) s',
    do_inplace o = true /\ do_files o = [T "a"; T "b"] /\
    fs_get (d_fs s) (T "b") = Some FBad /\
    files_serial unit o (do_files o) [] s = (s', Failed false) /\
    fs_get (d_fs s') (T "a") <> fs_get (d_fs s) (T "a").
Proof.
  exists (fun _ t => Ok [[(T "0", T "edited")]]),
         (mkDO (FStandard (T " ")) false true false [T "a"; T "b"]),
         (mkD [(T "a", FText (T "orig")); (T "b", FBad)] []).
  eexists. repeat split; try reflexivity. vm_compute. discriminate.
Qed.

Print Assumptions C06_parallel_atomic.
Print Assumptions C06_linewise_parallel_atomic.
Print Assumptions C06_format_error_atomic.
Print Assumptions C06_serial_refuted.

Print Assumptions C06_backup_fault_atomic.
