(** Property C13: -g runs on exactly the matching lines, -v on exactly the others. *)
From Vicut Require Import Base.Prelude Model.Args Model.Exec Model.Global Proofs.GlobalProofs.

(** (1) The scope runs for a line iff the line is one of the text's lines and
    matches (for -v: does not match) - each such line exactly once. *)
Theorem C13_visited_exactly :
  forall (matches : text -> bool) (cl : list text) (pol : bool) (n : nat),
    In n (global_lines matches cl pol)
    <-> In n (scanned cl) /\ matches (line_text cl n) = pol.
Proof. exact visited_exactly. Qed.

Theorem C13_visited_once :
  forall (matches : text -> bool) (cl : list text) (pol : bool),
    NoDup (global_lines matches cl pol).
Proof. exact visited_once. Qed.

(** (2) -v runs on exactly the complementary set. *)
Theorem C13_complement :
  forall (matches : text -> bool) (cl : list text) (n : nat),
    In n (scanned cl) ->
    (In n (global_lines matches cl true) <-> ~ In n (global_lines matches cl false)).
Proof. exact complement. Qed.

(** (3) Lines are visited last to first, and editing at or after the start of a
    line does not move that start - so the cursor is put on the first character
    of every visited line as long as the scope's commands leave the text before
    their line alone. *)
Theorem C13_descending :
  forall (matches : text -> bool) (cl : list text) (pol : bool) (i j x y : nat),
    (i < j)%nat ->
    nth_error (global_lines matches cl pol) i = Some x ->
    nth_error (global_lines matches cl pol) j = Some y -> (y < x)%nat.
Proof. exact visited_descending. Qed.

Theorem C13_line_start_stable :
  forall (cl cl' : list text) (n : nat),
    let s := line_start cl n in
    firstn s cl = firstn s cl' ->
    (n <= length (filter is_nl (firstn s cl)))%nat ->
    line_start cl' n = s.
Proof. exact line_start_stable. Qed.

(** (4) The --else branch runs once if and only if no line is visited. *)
Theorem C13_else :
  forall (st : Type) (do_move : text -> st -> st) (do_cut : option text -> text -> st -> st)
         (do_next snm descend ascend : st -> st) (glines : bool -> text -> st -> list nat)
         (goto_line : nat -> st -> option st) (pol : bool) (pat : text) (th e : list cmd) (s : st),
    let ex := exec st do_move do_cut do_next snm descend ascend glines goto_line in
    let sq := seq st do_move do_cut do_next snm descend ascend glines goto_line in
    (glines pol pat s = [] -> ex (CGlobal pol pat th (Some e)) s = ascend (sq e (descend s)))
    /\ (glines pol pat s <> [] ->
        ex (CGlobal pol pat th (Some e)) s = ex (CGlobal pol pat th None) s).
Proof.
  intros. split; intros H; unfold ex; rewrite !exec_global.
  - now rewrite H.
  - destruct (glines pol pat s); [congruence|reflexivity].
Qed.

(** a final newline does not start another line; an empty line in the middle is a line *)
Example C13_example :
  let cl := [T "f"; T "o"; [10]; [10]; T "b"; [10]] in
  scanned cl = [0; 1; 2]%nat /\
  global_lines (fun t => text_eqb t (T "fo")) cl false = [2; 1]%nat.
Proof. vm_compute. split; reflexivity. Qed.

Print Assumptions C13_visited_exactly.
Print Assumptions C13_visited_once.
Print Assumptions C13_complement.
Print Assumptions C13_descending.
Print Assumptions C13_line_start_stable.
Print Assumptions C13_else.
