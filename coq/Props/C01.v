(** Property C01: a cut field is exactly the text spanned by the cursor's
    movement (or the selected text). *)
From Vicut Require Import Base.Prelude Model.Text Proofs.TextProofs.

(** (1) Slicing through a fresh cache (the cache holds the byte offsets of a
    segmentation [cl] of the buffer) returns whole clusters of the current
    text: the slice [s,e) is the concatenation of clusters s..e-1 - for every
    segmentation, multi-byte clusters included. *)
Theorem C01_slice_is_cluster_aligned :
  forall (cl : list text) (s e : nat),
    (s <= e)%nat -> (e <= length cl)%nat -> (s < length cl)%nat ->
    slice_idx (concat cl) (offsets cl) s e = Some (concat (sub_clusters cl s e)).
Proof. exact slice_fresh. Qed.

(** (2) ... and that stretch is contiguous in the buffer. *)
Theorem C01_contiguous :
  forall (cl : list text) (s e : nat),
    (s <= e)%nat -> (e <= length cl)%nat ->
    concat cl = concat (firstn s cl) ++ concat (sub_clusters cl s e) ++ concat (skipn e cl).
Proof. exact slice_fresh_contiguous. Qed.

(** (3) Without a selection, what [read_field] returns after the key loop is
    the stretch between the cursor before the command ([c0]) and after it
    ([c1]), both ends included, clamped into the buffer as it stands after the
    command - whatever the command did, forwards or backwards, overshooting or
    not; an empty buffer gives the empty field. *)
Theorem C01_field_is_span :
  forall (cl : list text) (c0 c1 : nat),
    cl <> [] ->
    read_field_post (concat cl) (offsets cl) (length cl) c0 c1 None
    = Some (match concat cl with [] => [] | _ => span cl c0 c1 end).
Proof. exact read_field_is_span. Qed.

(** (4) With an active charwise / linewise selection the field is exactly the
    selected clusters. *)
Theorem C01_selection_char :
  forall (cl : list text) (s e : nat),
    (s <= e)%nat -> (s < length cl)%nat ->
    selected_content (concat cl) (offsets cl) (length cl) SelChar (OneDim s e)
    = Some (concat (sub_clusters cl s (Nat.min (e + 1) (length cl)))).
Proof. exact selected_char_is_clusters. Qed.

Theorem C01_selection_line :
  forall (cl : list text) (s e : nat),
    (s <= e)%nat -> (e <= length cl)%nat -> (s < length cl)%nat ->
    selected_content (concat cl) (offsets cl) (length cl) SelLine (OneDim s e)
    = Some (concat (sub_clusters cl s e)).
Proof. exact selected_line_is_clusters. Qed.

(** a backward cut over multi-byte clusters *)
Example C01_example :
  let cl := [T "h"; [233]; T "l"; [108; 769]; T "o"; T " "; T "w"] in
  read_field_post (concat cl) (offsets cl) (length cl) 4 1 None = Some ([233] ++ T "l" ++ [108; 769] ++ T "o").
Proof. vm_compute. reflexivity. Qed.

Print Assumptions C01_slice_is_cluster_aligned.
Print Assumptions C01_contiguous.
Print Assumptions C01_field_is_span.
Print Assumptions C01_selection_char.
Print Assumptions C01_selection_line.
