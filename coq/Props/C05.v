(** Property C05: -i writes back exactly the edited buffer. *)
From Vicut Require Import Base.Prelude Model.Format Model.Drivers Proofs.DriverProofs Proofs.BackupProofs.

(** (1) The write loop shared by the [-i] drivers, without [--backup]: every
    named file ends up holding exactly its payload, every other path is
    untouched, nothing is printed. *)
Theorem C05_writeback :
  forall (o : dopts) (l : list (text * text)) (s : dstate),
    do_backup o = false -> NoDup (map fst l) ->
    exists s', wb_all o l s = (s', Done)
      /\ d_out s' = d_out s
      /\ (forall p t, In (p, t) l -> fs_get (d_fs s') p = Some (FText t))
      /\ (forall q, ~ In q (map fst l) -> fs_get (d_fs s') q = fs_get (d_fs s) q).
Proof. intros; now apply wb_all_no_backup. Qed.

(** (2) With [--backup]: additionally the backup sibling of every named file
    holds the object the file held before, and paths that are neither named nor
    a backup sibling are untouched - provided backup names collide neither with
    named files nor with each other. *)
Theorem C05_backup :
  forall (o : dopts) (l : list (text * text)) (s : dstate),
    do_backup o = true ->
    NoDup (map fst l ++ map (fun pt => backup_path (T "bak") (fst pt)) l) ->
    (forall p t, In (p, t) l -> fs_get (d_fs s) p <> None) ->
    exists s', wb_all o l s = (s', Done)
      /\ d_out s' = d_out s
      /\ (forall p t, In (p, t) l ->
            fs_get (d_fs s') p = Some (FText t)
            /\ fs_get (d_fs s') (backup_path (T "bak") p) = fs_get (d_fs s) p)
      /\ (forall q, ~ In q (map fst l) ->
            ~ In q (map (fun pt => backup_path (T "bak") (fst pt)) l) ->
            fs_get (d_fs s') q = fs_get (d_fs s) q).
Proof. intros; now apply wb_all_backup. Qed.

(** (3) The default (parallel) driver with [-i] is that write loop applied to
    the formatted output of every file. *)
Theorem C05_parallel_is_writeback :
  forall (o : dopts) results payloads (s : dstate),
    do_inplace o = true -> fmt_results o results = Ok payloads ->
    files_emit o results s = wb_all o payloads s.
Proof. intros; now apply files_emit_inplace. Qed.

(** (4) The payload written by [-i] is what the same run without [-i] prints
    (single file; with several files the same text follows the "--- name" line). *)
Theorem C05_twin :
  forall (o : dopts) (p : text) (recs : list record) (t : text) (s : dstate),
    do_files o = [p] -> format_output (do_fmt o) recs = Ok t ->
    (do_inplace o = false -> files_emit o [(p, recs)] s = (out s t, Done))
    /\ (do_inplace o = true -> files_emit o [(p, recs)] s = write_back o s p t).
Proof. intros; now apply single_file_twin. Qed.

(** (5) The same outcome for the write phase in two passes (every backup, then every file), which is what the parallel
    drivers do since the repair of the vanished-file defect of C06. *)
Theorem C05_backup_two_phase :
  forall (o : dopts) (l : list (text * text)) (s : dstate),
    do_backup o = true ->
    NoDup (map fst l ++ map (fun pt => backup_path (T "bak") (fst pt)) l) ->
    (forall p t, In (p, t) l -> fs_get (d_fs s) p <> None) ->
    exists s', emit_two_phase o l s = (s', Done)
      /\ d_out s' = d_out s
      /\ (forall p t, In (p, t) l ->
            fs_get (d_fs s') p = Some (FText t)
            /\ fs_get (d_fs s') (backup_path (T "bak") p) = fs_get (d_fs s) p)
      /\ (forall q, ~ In q (map fst l) ->
            ~ In q (map (fun pt => backup_path (T "bak") (fst pt)) l) ->
            fs_get (d_fs s') q = fs_get (d_fs s) q).
Proof. exact two_phase_backup_spec. Qed.

(** backup names as [Path::with_extension] builds them *)
Example C05_backup_names :
  backup_path (T "bak") (T "a.txt") = T "a.txt.bak" /\
  backup_path (T "bak") (T "g2") = T "g2..bak" /\
  backup_path (T "bak") (T "dir.d/.hid") = T "dir.d/.hid..bak" /\
  backup_path (T "bak") (T "x/c.d.e") = T "x/c.d.e.bak".
Proof. vm_compute. repeat split. Qed.

Print Assumptions C05_writeback.
Print Assumptions C05_backup.
Print Assumptions C05_parallel_is_writeback.
Print Assumptions C05_twin.

Print Assumptions C05_backup_two_phase.
