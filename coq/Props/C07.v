(** Property C07: undo restores the previous text, redo re-applies it. *)
From Vicut Require Import Base.Prelude Model.Undo Proofs.UndoProofs.

(** (1) From any state reached by any history of commands, [u]s and [<c-r>]s,
    the undo and redo stacks are chains of whole texts ending in the current
    text; the bottom of the undo chain is the original input. *)
Theorem C07_invariant_reachable :
  forall (t : text) (ops : list uop), Inv t (urun t ops).
Proof. exact inv_reachable. Qed.

(** (2) [u] after a change returns exactly the text before that change ... *)
Theorem C07_undo_prev :
  forall (s : ustate) (t : text),
    t <> u_buf s -> u_buf (ustep (ustep s (OCmd None t false)) OUndo) = u_buf s.
Proof. exact undo_after_change. Qed.

(** ... and an insert session (consecutive character inserts) is one change. *)
Theorem C07_undo_insert_session :
  forall (s : ustate) (t : text) (ts : list text),
    top_merging (u_undo s) = false -> t <> u_buf s ->
    u_buf (ustep (fold_left (fun s t => ustep s (OCmd None t true)) ts (ustep s (OCmd None t true))) OUndo)
    = u_buf s.
Proof. exact undo_insert_session. Qed.

(** ... and so is a block insert: the typed text [t] plus the copies [p] that
    leaving the session makes on the other lines of the block. *)
Theorem C07_undo_block_insert :
  forall (s : ustate) (t p : text),
    top_merging (u_undo s) = false -> t <> u_buf s ->
    u_buf (ustep (ustep (ustep s (OCmd None t true)) (OCmd (Some p) p false)) OUndo) = u_buf s.
Proof. exact undo_block_insert. Qed.
Print Assumptions C07_undo_block_insert.
(** (3) Enough [u]s return the original input. *)
Theorem C07_undo_all :
  forall (orig : text) (n : nat) (s : ustate),
    Inv orig s -> length (u_undo s) = n -> u_buf (undo_n n s) = orig.
Proof. exact undo_all. Qed.

(** (4) [<c-r>] after [u] returns exactly the text that [u] replaced and puts
    the stacks back. *)
Theorem C07_redo_inverse :
  forall (orig : text) (s : ustate),
    Inv orig s -> u_undo s <> [] ->
    let s2 := ustep (ustep s OUndo) ORedo in
    u_buf s2 = u_buf s /\ u_redo s2 = u_redo s /\ length (u_undo s2) = length (u_undo s).
Proof. exact redo_inverse. Qed.

(** (5) Undo and redo never produce a text that was not an earlier state: the
    text after any history is the input or a text some command produced. The
    model has no failing outcome: undo and redo cannot panic. *)
Theorem C07_no_new_states :
  forall (t : text) (ops : list uop), In (u_buf (urun t ops)) (t :: cmd_texts ops).
Proof. exact no_new_states. Qed.

(** (6) A new change drops the redo history: [<c-r>] right after a command
    that is not [u] leaves the text alone. *)
Theorem C07_redo_after_change_noop :
  forall (s : ustate) (t : text) (ci : bool),
    u_buf (ustep (ustep s (OCmd None t ci)) ORedo) = t.
Proof. intros. reflexivity. Qed.

Example C07_example :
  let ops := [OCmd None (T "ello") false; OCmd None (T "aello") true; OCmd None (T "abello") true;
              OCmd None (T "abello") false; OUndo; OUndo; ORedo] in
  u_buf (urun (T "hello") ops) = T "ello" /\ length (u_redo (urun (T "hello") ops)) = 1%nat.
Proof. vm_compute. split; reflexivity. Qed.

Print Assumptions C07_invariant_reachable.
Print Assumptions C07_undo_prev.
Print Assumptions C07_undo_insert_session.
Print Assumptions C07_undo_all.
Print Assumptions C07_redo_inverse.
Print Assumptions C07_no_new_states.
Print Assumptions C07_redo_after_change_noop.
