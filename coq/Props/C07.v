(** Property C07: undo restores the previous text, redo re-applies it. *)
From Vicut Require Import Base.Prelude Model.Undo Proofs.UndoProofs.

(** (1) From any state reached by any history of commands, [u]s and [<c-r>]s,
    the undo and redo stacks are chains of whole texts ending in the current
    text; the bottom of the undo chain is the original input. *)
Theorem C07_invariant_reachable :
  forall (t : text) (ops : list uop), Inv t (urun t ops).
Proof. exact inv_reachable. Qed.

(** (2) [u] after a change that stands alone (x, d, r, ~, J, p, :s, ...) returns exactly the text before that
    change, from any state: an [r] right after another [r], or after an insert session, is not folded into it ... *)
Theorem C07_undo_prev :
  forall (s : ustate) (t : text),
    t <> u_buf s -> u_buf (ustep (ustep s (OCmd None t KPlain)) OUndo) = u_buf s.
Proof. exact undo_after_change. Qed.

(** ... such a command leaves no open record behind ... *)
Theorem C07_plain_closes :
  forall (s : ustate) (t : text), top_merging (u_undo (ustep s (OCmd None t KPlain))) = false.
Proof. exact plain_closes. Qed.

(** ... and an insert session is one change: the command that starts it (the first typed character, or c / o / O
    with what they remove or open) and every character typed after it. *)
Theorem C07_undo_insert_session :
  forall (s : ustate) (t : text) (k : ckind) (ts : list text),
    sessiony k = true -> (continues k = true -> top_merging (u_undo s) = false) -> t <> u_buf s ->
    u_buf (ustep (fold_left (fun s t => ustep s (OCmd None t KContinues)) ts (ustep s (OCmd None t k))) OUndo)
    = u_buf s.
Proof. exact undo_insert_session. Qed.

(** c / o / O that change nothing do not reopen the record of an earlier change. *)
Theorem C07_opens_nothing_keeps_closed :
  forall s : ustate, top_merging (u_undo (ustep s (OCmd None (u_buf s) KOpens))) = false.
Proof. exact opens_nothing_keeps_closed. Qed.

(** A session left open at the end of a key string is closed there: typed characters that follow (a [.] in the next
    argument replays them) are a change of their own, and [u] takes back only that. *)
Theorem C07_boundary_closes_session :
  forall (s : ustate) (t : text) (ts : list text),
    t <> u_buf s ->
    let s0 := ustep s OBoundary in
    u_buf (ustep (fold_left (fun s t => ustep s (OCmd None t KContinues)) ts (ustep s0 (OCmd None t KContinues))) OUndo)
    = u_buf s.
Proof. exact undo_after_boundary_session. Qed.
Print Assumptions C07_boundary_closes_session.

(** ... and so is a block insert: the typed text [t] plus the copies [p] that
    leaving the session makes on the other lines of the block. *)
Theorem C07_undo_block_insert :
  forall (s : ustate) (t p : text),
    top_merging (u_undo s) = false -> t <> u_buf s ->
    u_buf (ustep (ustep (ustep s (OCmd None t KContinues)) (OCmd (Some p) p KPlain)) OUndo) = u_buf s.
Proof. exact undo_block_insert. Qed.
Print Assumptions C07_undo_block_insert.
(** (3) Enough [u]s return the original input. *)
Theorem C07_undo_all :
  forall (orig : text) (n : nat) (s : ustate),
    Inv orig s -> length (u_undo s) = n -> u_buf (undo_n n s) = orig.
Proof. exact undo_all. Qed.

(** (4) [<c-r>] after [u] returns exactly the text that [u] replaced and puts
    the stacks back. *)
Theorem C07_redo_inverse :
  forall (orig : text) (s : ustate),
    Inv orig s -> u_undo s <> [] ->
    let s2 := ustep (ustep s OUndo) ORedo in
    u_buf s2 = u_buf s /\ u_redo s2 = u_redo s /\ length (u_undo s2) = length (u_undo s).
Proof. exact redo_inverse. Qed.

(** (5) Undo and redo never produce a text that was not an earlier state: the
    text after any history is the input or a text some command produced. The
    model has no failing outcome: undo and redo cannot panic. *)
Theorem C07_no_new_states :
  forall (t : text) (ops : list uop), In (u_buf (urun t ops)) (t :: cmd_texts ops).
Proof. exact no_new_states. Qed.

(** (6) A new change drops the redo history: [<c-r>] right after a command
    that is not [u] leaves the text alone. *)
Theorem C07_redo_after_change_noop :
  forall (s : ustate) (t : text) (k : ckind),
    u_buf (ustep (ustep s (OCmd None t k)) ORedo) = t.
Proof. intros. reflexivity. Qed.

Example C07_example :
  let ops := [OCmd None (T "ello") KPlain; OCmd None (T "aello") KContinues; OCmd None (T "abello") KContinues;
              OCmd None (T "abello") KPlain; OUndo; OUndo; ORedo] in
  u_buf (urun (T "hello") ops) = T "ello" /\ length (u_redo (urun (T "hello") ops)) = 1%nat.
Proof. vm_compute. split; reflexivity. Qed.

(** rx ry u gives back the text after rx; o ab <esc> u gives back the text before o *)
Example C07_example_r_r :
  u_buf (urun (T "hello") [OCmd None (T "xello") KPlain; OCmd None (T "yello") KPlain; OUndo]) = T "xello".
Proof. vm_compute. reflexivity. Qed.
Example C07_example_open_line :
  u_buf (urun (T "hi") [OCmd None (T "i") KPlain; OCmd None (T "i_") KOpens; OCmd None (T "i_a") KContinues;
                        OCmd None (T "i_ab") KContinues; OCmd None (T "i_ab") KPlain; OUndo]) = T "i".
Proof. vm_compute. reflexivity. Qed.

Print Assumptions C07_invariant_reachable.
Print Assumptions C07_undo_prev.
Print Assumptions C07_undo_insert_session.
Print Assumptions C07_plain_closes.
Print Assumptions C07_opens_nothing_keeps_closed.
Print Assumptions C07_undo_all.
Print Assumptions C07_redo_inverse.
Print Assumptions C07_no_new_states.
Print Assumptions C07_redo_after_change_noop.
