(** Property C02: supported Vim commands do what Vim does.

    The reference for this property is Vim itself (run live by the check). What
    is proved here concerns the Coq reference model of the core cursor motions
    (Model/Motions.v), which the check ties on one side to Vim and on the other
    to the implementation: h l 0 ^ $ w b e ge W B E gE f F t T with counts. For
    operators, text objects, visual mode, insert sessions and dot-repeat the
    decision is the comparison with Vim only (a test, labelled so). *)
From Vicut Require Import Base.Prelude Model.Motions Proofs.MotionProofs.

(** (1) Every motion keeps the cursor inside the text. *)
Theorem C02_cursor_stays_in_text :
  forall (t : text) (m : motion) (count i : nat), (i < length t)%nat -> (move t m count i < length t)%nat.
Proof. exact move_in_text. Qed.
Print Assumptions C02_cursor_stays_in_text.

(** (2) The settled cursor of normal mode is never on the line break of a
    non-empty line. *)
Theorem C02_never_on_line_break :
  forall (t : text) (i : nat), is_nl_at t (settle t i) = true -> empty_line_at t (settle t i) = true.
Proof. exact settle_not_on_break. Qed.
Print Assumptions C02_never_on_line_break.

(** (3) [w]/[W] make progress, stay within the text, and stop only at the start
    of a word, on an empty line, or where the text ends. *)
Theorem C02_w_progress :
  forall (big : bool) (t : text) (i : nat), (i < length t)%nat -> (i < word_fwd1 big t i <= length t)%nat.
Proof. exact word_fwd1_progress. Qed.
Print Assumptions C02_w_progress.
Theorem C02_w_lands :
  forall (big : bool) (t : text) (i : nat),
    (length t <= word_fwd1 big t i)%nat \/ class_at big t (word_fwd1 big t i) <> 0
    \/ empty_line_at t (word_fwd1 big t i) = true.
Proof. exact word_fwd1_lands. Qed.
Print Assumptions C02_w_lands.

(** (4) [b]/[B] and [ge]/[gE] go backwards (strictly, unless at the start). *)
Theorem C02_b_goes_back :
  forall (big : bool) (t : text) (i : nat), (0 < i <= length t)%nat -> (word_bwd1 big t i < i)%nat.
Proof. exact word_bwd1_back. Qed.
Print Assumptions C02_b_goes_back.
Theorem C02_ge_goes_back :
  forall (big : bool) (t : text) (i : nat), (0 < i <= length t)%nat -> (end_bwd1 big t i < i)%nat.
Proof. exact end_bwd1_back. Qed.
Print Assumptions C02_ge_goes_back.

(** (5) [f] [F] [t] with any count: the cursor lands on (just before) an
    occurrence of the character on the cursor's own line, or does not move. *)
Theorem C02_f_lands :
  forall (t : text) (c : N) (count i : nat),
    move t (MFind c) count i = i
    \/ ((i < move t (MFind c) count i < line_end t i)%nat /\ nth_error t (move t (MFind c) count i) = Some c).
Proof. exact find_lands. Qed.
Print Assumptions C02_f_lands.
Theorem C02_F_lands :
  forall (t : text) (c : N) (count i : nat),
    move t (MFindBack c) count i = i
    \/ ((line_start_from t i <= move t (MFindBack c) count i < i)%nat /\ nth_error t (move t (MFindBack c) count i) = Some c).
Proof. exact find_back_lands. Qed.
Print Assumptions C02_F_lands.
Theorem C02_t_lands :
  forall (t : text) (c : N) (count i : nat),
    move t (MTill c) count i = i
    \/ ((i <= move t (MTill c) count i)%nat /\ (S (move t (MTill c) count i) < line_end t i)%nat
        /\ nth_error t (S (move t (MTill c) count i)) = Some c).
Proof. exact till_lands. Qed.
Print Assumptions C02_t_lands.

(** examples: an empty line is a word; a word ends at the line break; counts *)
Example C02_examples :
  move (T "b" ++ [10; 10] ++ T "b") (MWord false) 1 0 = 2%nat
  /\ move (T "b" ++ [10] ++ T "a ") (MWord false) 1 0 = 2%nat
  /\ move (T "ab cd") (MEnd false) 2 0 = 4%nat
  /\ move (T "a.a a") (MFind 97) 2 0 = 4%nat /\ move (T "a.b a") (MFind 97) 2 0 = 0%nat
  /\ move (T "  x") MFirstNonBlank 1 0 = 2%nat.
Proof. vm_compute. repeat split. Qed.
