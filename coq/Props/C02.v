(** Property C02: supported Vim commands do what Vim does.

    The reference for this property is Vim itself (run live by the check). What
    is proved here concerns the Coq reference model of the core cursor motions
    (Model/Motions.v), which the check ties on one side to Vim and on the other
    to the implementation: h l 0 ^ $ w b e ge W B E gE f F t T with counts. For
    operators, text objects, visual mode, insert sessions and dot-repeat the
    decision is the comparison with Vim only (a test, labelled so). *)
From Vicut Require Import Base.Prelude Model.Motions Proofs.MotionProofs.

(** (1) Every motion keeps the cursor inside the text. *)
Theorem C02_cursor_stays_in_text :
  forall (t : text) (m : motion) (count i : nat), (i < length t)%nat -> (move t m count i < length t)%nat.
Proof. exact move_in_text. Qed.
Print Assumptions C02_cursor_stays_in_text.

(** (2) The settled cursor of normal mode is never on the line break of a
    non-empty line. *)
Theorem C02_never_on_line_break :
  forall (t : text) (i : nat), is_nl_at t (settle t i) = true -> empty_line_at t (settle t i) = true.
Proof. exact settle_not_on_break. Qed.
Print Assumptions C02_never_on_line_break.

(** (3) [w]/[W] make progress, stay within the text, and stop only at the start
    of a word, on an empty line, or where the text ends. *)
Theorem C02_w_progress :
  forall (big : bool) (t : text) (i : nat), (i < length t)%nat -> (i < word_fwd1 big t i <= length t)%nat.
Proof. exact word_fwd1_progress. Qed.
Print Assumptions C02_w_progress.
Theorem C02_w_lands :
  forall (big : bool) (t : text) (i : nat),
    (length t <= word_fwd1 big t i)%nat \/ class_at big t (word_fwd1 big t i) <> 0
    \/ empty_line_at t (word_fwd1 big t i) = true.
Proof. exact word_fwd1_lands. Qed.
Print Assumptions C02_w_lands.

(** (4) [b]/[B] and [ge]/[gE] go backwards (strictly, unless at the start). *)
Theorem C02_b_goes_back :
  forall (big : bool) (t : text) (i : nat), (0 < i <= length t)%nat -> (word_bwd1 big t i < i)%nat.
Proof. exact word_bwd1_back. Qed.
Print Assumptions C02_b_goes_back.
Theorem C02_ge_goes_back :
  forall (big : bool) (t : text) (i : nat), (0 < i <= length t)%nat -> (end_bwd1 big t i < i)%nat.
Proof. exact end_bwd1_back. Qed.
Print Assumptions C02_ge_goes_back.

(** (5) [f] [F] [t] with any count: the cursor lands on (just before) an
    occurrence of the character on the cursor's own line, or does not move. *)
Theorem C02_f_lands :
  forall (t : text) (c : N) (count i : nat),
    move t (MFind c) count i = i
    \/ ((i < move t (MFind c) count i < line_end t i)%nat /\ nth_error t (move t (MFind c) count i) = Some c).
Proof. exact find_lands. Qed.
Print Assumptions C02_f_lands.
Theorem C02_F_lands :
  forall (t : text) (c : N) (count i : nat),
    move t (MFindBack c) count i = i
    \/ ((line_start_from t i <= move t (MFindBack c) count i < i)%nat /\ nth_error t (move t (MFindBack c) count i) = Some c).
Proof. exact find_back_lands. Qed.
Print Assumptions C02_F_lands.
Theorem C02_t_lands :
  forall (t : text) (c : N) (count i : nat),
    move t (MTill c) count i = i
    \/ ((i <= move t (MTill c) count i)%nat /\ (S (move t (MTill c) count i) < line_end t i)%nat
        /\ nth_error t (S (move t (MTill c) count i)) = Some c).
Proof. exact till_lands. Qed.
Print Assumptions C02_t_lands.

(** examples: an empty line is a word; a word ends at the line break; counts *)
Example C02_examples :
  move (T "b" ++ [10; 10] ++ T "b") (MWord false) 1 0 = 2%nat
  /\ move (T "b" ++ [10] ++ T "a ") (MWord false) 1 0 = 2%nat
  /\ move (T "ab cd") (MEnd false) 2 0 = 4%nat
  /\ move (T "a.a a") (MFind 97) 2 0 = 4%nat /\ move (T "a.b a") (MFind 97) 2 0 = 0%nat
  /\ move (T "  x") MFirstNonBlank 1 0 = 2%nat.
Proof. vm_compute. repeat split. Qed.

(** ** The operators d, y, c over these motions (Model/Ops.v, Vim's rules transcribed; the check ties the model to
    Vim and to vicut case by case). *)
From Vicut Require Import Model.Ops Proofs.OpsProofs.

(** (6) [d] removes one stretch of the text and nothing else; the stretch is what the register holds; putting the
    register back where it came from restores the text. *)
Theorem C02_delete_locality :
  forall (ins : text) (s : ostate) (lo0 hi0 : nat),
    let t := o_text s in
    let lo := clo t lo0 hi0 in let hi := chi t hi0 in
    let s' := apply_op OpDelete ins s (RChar lo0 hi0) in
    t = firstn lo t ++ slice t lo hi ++ skipn hi t /\
    o_text s' = firstn lo t ++ skipn hi t /\
    o_reg s' = Some (false, slice t lo hi) /\
    firstn lo (o_text s') ++ slice t lo hi ++ skipn lo (o_text s') = t.
Proof. exact delete_char_locality. Qed.
Print Assumptions C02_delete_locality.

(** (7) [y] never changes the text, whatever the motion gave; [y] and [d] over the same range fill the register alike. *)
Theorem C02_yank_keeps_text :
  forall (ins : text) (s : ostate) (r : orange), o_text (apply_op OpYank ins s r) = o_text s.
Proof. exact yank_keeps_text. Qed.
Print Assumptions C02_yank_keeps_text.
Theorem C02_yank_delete_same_register :
  forall (ins : text) (s : ostate) (r : orange),
    r <> RNone -> (forall p, r <> RFail p) ->
    o_reg (apply_op OpYank ins s r) = o_reg (apply_op OpDelete ins s r).
Proof. exact yank_delete_same_register. Qed.
Print Assumptions C02_yank_delete_same_register.

(** (8) [c] puts the typed text in the place of the range. *)
Theorem C02_change_locality :
  forall (ins : text) (s : ostate) (lo0 hi0 : nat),
    let t := o_text s in
    let lo := clo t lo0 hi0 in let hi := chi t hi0 in
    o_text (apply_op OpChange ins s (RChar lo0 hi0)) = firstn lo t ++ ins ++ skipn hi t /\
    o_reg (apply_op OpChange ins s (RChar lo0 hi0)) = Some (false, slice t lo hi).
Proof. exact change_char_locality. Qed.
Print Assumptions C02_change_locality.

(** (9) A motion that fails leaves text and register alone under every operator; a motion that covers nothing is a
    no-op for d and y. *)
Theorem C02_failed_motion_noop :
  forall (k : opk) (ins : text) (s : ostate) (p : nat),
    o_text (apply_op k ins s (RFail p)) = o_text s /\ o_reg (apply_op k ins s (RFail p)) = o_reg s.
Proof. exact fail_is_noop. Qed.
Print Assumptions C02_failed_motion_noop.
Theorem C02_empty_motion_noop :
  forall (k : opk) (ins : text) (s : ostate), k <> OpChange -> apply_op k ins s RNone = s.
Proof. exact nothing_is_noop. Qed.
Print Assumptions C02_empty_motion_noop.

(** (10) [dd] / [yy] and the motions that become linewise take whole lines, with one line break at the end of the
    register; the text keeps what is outside them. *)
Theorem C02_delete_lines_locality :
  forall (ins : text) (s : ostate) (a b : nat) (kc : bool),
    let t := o_text s in
    let '(x, y) := lines_span t a b in
    o_text (apply_op OpDelete ins s (RLines a b kc)) = firstn x t ++ skipn y t /\
    o_reg (apply_op OpDelete ins s (RLines a b kc))
    = Some (true, slice t (line_start_from t (Nat.min a (length t))) (line_end t (Nat.min b (length t))) ++ [nl]).
Proof. exact delete_lines_locality. Qed.
Print Assumptions C02_delete_lines_locality.

(** (11) [w] under an operator only goes forward and stays in the text, for every count; what [dw] / [yw] work on starts
    at the cursor, and the adjustment of a motion that ends in column one only ever shortens the range. *)
Theorem C02_op_w_forward :
  forall (big : bool) (t : text) (count p : nat),
    (p <= length t)%nat -> (p <= fwd_word_op count big t p <= length t)%nat.
Proof. intros big t count p. exact (fwd_word_op_bounds big t count p). Qed.
Print Assumptions C02_op_w_forward.
Theorem C02_op_w_starts_at_cursor :
  forall (k : opk) (t : text) (big : bool) (count i : nat), k <> OpChange ->
    match op_range k t (MWord big) count i with
    | RChar a _ => a = i
    | RLines a _ _ => a = i
    | RNone => True
    | RFail _ => False
    end.
Proof. exact word_op_starts_at_cursor. Qed.
Print Assumptions C02_op_w_starts_at_cursor.

(** examples (each is what Vim 9 does): dw on the last word of a line does not join lines; dw from an empty line takes
    the line; cw on a word is ce; d2ge that runs into the start of the buffer is cancelled *)
Example C02_op_examples :
  o_text (run_op OpDelete [] (T "a b" ++ [10] ++ T "c") (MWord false) 1 2) = T "a " ++ [10] ++ T "c"
  /\ o_text (run_op OpDelete [] ([10] ++ T "a") (MWord false) 1 0) = T "a"
  /\ o_text (run_op OpChange (T "Z") (T "ab cd") (MWord false) 1 0) = T "Z cd"
  /\ run_op OpDelete [] (T "a b") (MBackEnd false) 2 2 = mkO (T "a b") 0 None
  /\ o_text (run_lines OpDelete [] (T "a" ++ [10] ++ T "b" ++ [10] ++ T "c") 2 0) = T "c".
Proof. vm_compute. repeat split. Qed.

(** (12) [p] / [P]: a characterwise register is put in one place, [count] copies of it, and nothing else changes; whole
    lines go between lines; an empty register changes nothing; and what [d] took goes back with [P] where it was. *)
Theorem C02_put_char_locality :
  forall (after : bool) (count : nat) (s : ostate) (r : text),
    o_reg s = Some (false, r) -> r <> [] ->
    exists at_, (at_ <= length (o_text s))%nat /\
      o_text (put after count s) = firstn at_ (o_text s) ++ repeat_text (Nat.max count 1) r ++ skipn at_ (o_text s) /\
      o_reg (put after count s) = o_reg s.
Proof. exact put_char_locality. Qed.
Print Assumptions C02_put_char_locality.
Theorem C02_put_lines_locality :
  forall (after : bool) (count : nat) (s : ostate) (r : text),
    o_reg s = Some (true, r) ->
    let t := o_text s in
    let i := Nat.min (o_cur s) (length t) in
    let ins := repeat_text (Nat.max count 1) r in
    let body := firstn (length ins - 1) ins in
    o_text (put after count s)
    = (if after then firstn (line_end t i) t ++ [nl] ++ body ++ skipn (line_end t i) t
       else firstn (line_start_from t i) t ++ body ++ [nl] ++ skipn (line_start_from t i) t).
Proof. exact put_lines_locality. Qed.
Print Assumptions C02_put_lines_locality.
Theorem C02_delete_then_put_restores :
  forall (ins : text) (s : ostate) (lo0 hi0 : nat),
    let t := o_text s in
    let s' := apply_op OpDelete ins s (RChar lo0 hi0) in
    (clo t lo0 hi0 < chi t hi0)%nat -> o_cur s' = clo t lo0 hi0 ->
    o_text (put false 1 s') = t.
Proof. exact delete_then_put_restores. Qed.
Print Assumptions C02_delete_then_put_restores.

(** xP in the middle of a line and ddP give the text back; yyp doubles the line *)
Example C02_put_examples :
  o_text (put false 1 (run_op OpDelete [] (T "abc") MRight 1 1)) = T "abc"
  /\ o_text (put false 1 (run_lines OpDelete [] (T "a" ++ [10] ++ T "b") 1 0)) = T "a" ++ [10] ++ T "b"
  /\ o_text (put true 1 (run_lines OpYank [] (T "a" ++ [10] ++ T "b") 1 0)) = T "a" ++ [10] ++ T "a" ++ [10] ++ T "b"
  /\ o_text (put true 3 (run_op OpYank [] (T "ab") MRight 1 0)) = T "aaaab".
Proof. vm_compute. repeat split. Qed.

(** (13) The cursor [d] leaves is a normal-mode cursor: inside the text, and behind the last character of its line only
    when that line is empty (for every text, range and register state). *)
Theorem C02_delete_cursor_settled :
  forall (ins : text) (s : ostate) (lo0 hi0 : nat),
    let s' := apply_op OpDelete ins s (RChar lo0 hi0) in
    (o_cur s' <= length (o_text s'))%nat /\
    (o_cur s' = line_end (o_text s') (o_cur s') -> line_start_from (o_text s') (o_cur s') = o_cur s').
Proof. exact delete_char_cursor_settled. Qed.
Print Assumptions C02_delete_cursor_settled.

(** (14) The word text objects iw aw iW aW (Vim's [current_word], count 1): the object is characterwise and starts at or
    before the cursor; with the operator theorems above it follows that d / y / c over it touch one stretch that starts
    no later than the cursor. (The check compares the model with Vim on every text object case it runs.) *)
Theorem C02_word_object_starts_before_cursor :
  forall (big include : bool) (t : text) (i : nat),
    match word_object big include t i with
    | RChar a _ => (a <= i)%nat
    | RLines _ _ _ => False
    | _ => True
    end.
Proof. exact word_object_starts_before_cursor. Qed.
Print Assumptions C02_word_object_starts_before_cursor.

(** diw on a word takes the word, daw the word and the blanks behind it - or in front of it at the end of a line *)
Example C02_word_object_examples :
  word_object false false (T "ab cd ef") 4 = RChar 3 5
  /\ word_object false true (T "ab cd ef") 4 = RChar 3 6
  /\ word_object false true (T "ab cd") 4 = RChar 2 5
  /\ word_object false false (T "ab  cd") 2 = RChar 2 4.
Proof. vm_compute. repeat split. Qed.

(** (15) Operators over the line motions j k G gg (with counts): the motion either fails without moving, or covers whole
    lines with the cursor's line among them, as the first or the last of them. *)
Theorem C02_line_motion_covers_cursor :
  forall (t : text) (m : vmotion) (count : option nat) (i : nat), (i <= length t)%nat ->
    match v_range t m count i with
    | RFail p => p = i
    | RLines a b _ => (a <= i <= b)%nat /\ (a = i \/ b = i)
    | _ => False
    end.
Proof. exact line_motion_covers_cursor. Qed.
Print Assumptions C02_line_motion_covers_cursor.

(** (16) d over such a motion removes those lines, with one line break, and nothing else; the register holds them as
    lines. *)
Theorem C02_delete_line_motion_locality :
  forall (ins t : text) (m : vmotion) (count : option nat) (i a b : nat) (kc : bool),
    v_range t m count i = RLines a b kc ->
    let '(x, y) := lines_span t a b in
    o_text (run_op_v OpDelete ins t m count i) = firstn x t ++ skipn y t /\
    o_reg (run_op_v OpDelete ins t m count i)
    = Some (true, slice t (line_start_from t (Nat.min a (length t))) (line_end t (Nat.min b (length t))) ++ [nl]).
Proof. exact delete_line_motion_locality. Qed.
Print Assumptions C02_delete_line_motion_locality.

(** (17) A failing line motion (j on the last line, k on the first) leaves text, cursor and register alone, whatever the
    operator. *)
Theorem C02_line_motion_fail_is_noop :
  forall (k : opk) (ins t : text) (m : vmotion) (count : option nat) (i p : nat),
    v_range t m count i = RFail p ->
    o_text (run_op_v k ins t m count i) = t /\ o_cur (run_op_v k ins t m count i) = i /\ o_reg (run_op_v k ins t m count i) = None.
Proof. exact line_motion_fail_is_noop. Qed.
Print Assumptions C02_line_motion_fail_is_noop.

(** dj takes two lines, d2k three, dG to the end, dgg to the start; dj on the last line does nothing *)
Example C02_line_motion_examples :
  let t := T "a" ++ [10] ++ T "b" ++ [10] ++ T "c" ++ [10] ++ T "d" in
  o_text (run_op_v OpDelete [] t VDown None 2) = T "a" ++ [10] ++ T "d"
  /\ o_text (run_op_v OpDelete [] t VUp (Some 2%nat) 4) = T "d"
  /\ o_text (run_op_v OpDelete [] t VGoto None 2) = T "a"
  /\ o_text (run_op_v OpDelete [] t VFirst None 2) = T "c" ++ [10] ++ T "d"
  /\ o_text (run_op_v OpDelete [] t VDown None 6) = t
  /\ o_reg (run_op_v OpYank [] t VGoto (Some 2%nat) 0) = Some (true, T "a" ++ [10] ++ T "b" ++ [10]).
Proof. vm_compute. repeat split. Qed.

(** (18) The case operators g~ gU gu over any range a motion gives (and doubled, over whole lines): the text keeps its
    length, every line break stays where it is, and the register is not touched. *)
Theorem C02_case_keeps_shape :
  forall (k : casek) (s : ostate) (r : orange), range_ordered r ->
    length (o_text (apply_case k s r)) = length (o_text s)
    /\ (forall j, is_nl_at (o_text (apply_case k s r)) j = is_nl_at (o_text s) j)
    /\ o_reg (apply_case k s r) = o_reg s.
Proof. exact case_keeps_shape. Qed.
Print Assumptions C02_case_keeps_shape.

(** (19) ... and nothing outside the range changes. *)
Theorem C02_case_char_locality :
  forall (k : casek) (s : ostate) (lo0 hi0 : nat),
    let t := o_text s in
    let hi := Nat.min hi0 (length t) in let lo := Nat.min lo0 hi in
    firstn lo (o_text (apply_case k s (RChar lo0 hi0))) = firstn lo t
    /\ skipn hi (o_text (apply_case k s (RChar lo0 hi0))) = skipn hi t.
Proof. exact case_char_locality. Qed.
Print Assumptions C02_case_char_locality.

(** (20) [count]~ changes nothing but the case of characters of the cursor's line from the cursor on. *)
Theorem C02_tilde_keeps_shape :
  forall (t : text) (count i : nat), (i <= length t)%nat ->
    length (o_text (run_tilde t count i)) = length t
    /\ (forall j, is_nl_at (o_text (run_tilde t count i)) j = is_nl_at t j)
    /\ firstn i (o_text (run_tilde t count i)) = firstn i t
    /\ skipn (line_end t i) (o_text (run_tilde t count i)) = skipn (line_end t i) t.
Proof. exact tilde_keeps_shape. Qed.
Print Assumptions C02_tilde_keeps_shape.

(** (21) [count]r[c] keeps the length of the text and everything before the cursor. *)
Theorem C02_replace_keeps_length :
  forall (t : text) (c : N) (count i : nat), (i <= length t)%nat ->
    length (o_text (run_replace t c count i)) = length t
    /\ firstn i (o_text (run_replace t c count i)) = firstn i t.
Proof. exact replace_keeps_length. Qed.
Print Assumptions C02_replace_keeps_length.

(** g~w, gUU, 3~ at the end of a line, 2rx, and 3rx where the line has only two characters left *)
Example C02_case_examples :
  o_text (run_case CToggle (T "ab Cd") (MWord false) 1 0) = T "AB Cd"
  /\ o_text (run_case_lines CUpper (T "ab" ++ [10] ++ T "cd") 1 3) = T "ab" ++ [10] ++ T "CD"
  /\ o_text (run_tilde (T "abc") 3 1) = T "aBC" /\ o_cur (run_tilde (T "abc") 3 1) = 2%nat
  /\ o_text (run_replace (T "abc") 120 2 0) = T "xxc"
  /\ o_text (run_replace (T "abc") 120 3 1) = T "abc"
  /\ range_ordered (op_range OpDelete (T "ab Cd") (MWord false) 1 0).
Proof. vm_compute. repeat split. Qed.

(** (22) J (Vim's [do_join], 'nojoinspaces', any count, any cursor) conserves what is written: the characters that are
    neither blanks nor line breaks are the same, in the same order, before and after. *)
Theorem C02_join_conserves_solid :
  forall (t : text) (count i : nat), solid (o_text (run_join t count i)) = solid t.
Proof. exact join_conserves_solid. Qed.
Print Assumptions C02_join_conserves_solid.

(** a b / c joined: one space; a blank-ended line gets none; a line starting with ")" gets none; leading blanks go;
    3J takes three lines; J on the last line does nothing *)
Example C02_join_examples :
  o_text (run_join (T "ab" ++ [10] ++ T "c") 1 0) = T "ab c"
  /\ o_text (run_join (T "ab " ++ [10] ++ T "c") 1 0) = T "ab c"
  /\ o_text (run_join (T "ab" ++ [10] ++ T ")") 1 0) = T "ab)"
  /\ o_text (run_join (T "ab" ++ [10] ++ T "   c") 1 0) = T "ab c"
  /\ o_text (run_join (T "a" ++ [10] ++ T "b" ++ [10] ++ T "c") 3 0) = T "a b c"
  /\ o_cur (run_join (T "ab" ++ [10] ++ T "c") 1 0) = 2%nat
  /\ o_text (run_join (T "ab" ++ [10] ++ T "c") 1 3) = T "ab" ++ [10] ++ T "c".
Proof. vm_compute. repeat split. Qed.

(** (23) j and k (with counts; the column is a display column: a character that takes two cells counts two): from a
    position in the text they land on a position in the text. *)
Theorem C02_move_vert_in_text :
  forall (t : text) (down : bool) (count i : nat), (i <= length t)%nat -> (move_vert t down count i <= length t)%nat.
Proof. exact move_vert_in_text. Qed.
Print Assumptions C02_move_vert_in_text.

(** from the second column of "ab" j goes to the second cell of a two-cell character: that character; k from "." behind a
    two-cell character lands on the third cell of the line above *)
Example C02_move_vert_examples :
  move_vert (T "ab" ++ [10] ++ [26085; 26412]%N) true 1 1 = 3%nat
  /\ move_vert ([26412; 233; 97]%N ++ [10] ++ [26412; 46; 233]%N) false 1 5 = 1%nat
  /\ move_vert (T "ab" ++ [10] ++ T "c") true 3 1 = 3%nat
  /\ move_vert (T "ab" ++ [10] ++ T "c") true 1 3 = 3%nat.
Proof. vm_compute. repeat split. Qed.

(** (24) Whole lines taken by d go back with P: with the cursor anywhere on the line that took their place, P gives the
    text as it was - for lines that are not the last of the text (there P, which puts above the cursor's line, cannot
    put them back behind the last line). *)
Theorem C02_delete_lines_then_P_restores :
  forall (ins t : text) (i a b : nat) (kc : bool) (c : nat),
    (a <= b <= length t)%nat ->
    (line_end t b < length t)%nat ->
    let s' := apply_op OpDelete ins (mkO t i None) (RLines a b kc) in
    (c <= length (o_text s'))%nat -> line_start_from (o_text s') c = line_start_from t a ->
    o_text (put false 1 (mkO (o_text s') c (o_reg s'))) = t.
Proof. exact delete_lines_then_P_restores. Qed.
Print Assumptions C02_delete_lines_then_P_restores.

(** ddP on the middle line of three, and djP on the first two: the text is back; the cursor d leaves meets the premise *)
Example C02_delete_lines_then_P_examples :
  let t := T "a" ++ [10] ++ T "bc" ++ [10] ++ T "d" in
  o_text (put false 1 (run_lines OpDelete [] t 1 3)) = t
  /\ o_text (put false 1 (run_op_v OpDelete [] t VDown None 0)) = t
  /\ line_start_from (o_text (run_lines OpDelete [] t 1 3)) (o_cur (run_lines OpDelete [] t 1 3)) = line_start_from t 3.
Proof. vm_compute. repeat split. Qed.

(** (25) ... and the cursor d leaves is on that line, so: d over whole lines (dd, dj, dk, dG, with any count), then P,
    gives the text as it was - whenever the lines are not the last of the text. *)
Theorem C02_delete_lines_P_roundtrip :
  forall (ins t : text) (i a b : nat) (kc : bool),
    (a <= b <= length t)%nat -> (line_end t b < length t)%nat ->
    o_text (put false 1 (apply_op OpDelete ins (mkO t i None) (RLines a b kc))) = t.
Proof. exact delete_lines_P_roundtrip. Qed.
Print Assumptions C02_delete_lines_P_roundtrip.

(** (26) yy then p: the cursor's line stands a second time right below itself, and nothing else changes. *)
Theorem C02_yank_line_then_p_duplicates :
  forall (ins t : text) (i : nat), (i <= length t)%nat ->
    let lo := line_start_from t i in let e := line_end t i in
    o_text (put true 1 (apply_op OpYank ins (mkO t i None) (RLines i i true)))
    = firstn e t ++ [nl] ++ slice t lo e ++ skipn e t.
Proof. exact yank_line_then_p_duplicates. Qed.
Print Assumptions C02_yank_line_then_p_duplicates.
