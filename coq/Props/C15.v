(** Property C15: key notations are interchangeable and every key string is
    consumed. *)
From Vicut Require Import Base.Prelude Model.Keys Proofs.KeysProofs.

(** (1) A key string is a sequence of tokens: one of the special keys
    esc CR enter BS del c-w c-v c-r left right up down home end - each
    independently written as its alias or as its raw control byte / escape
    sequence - or an ordinary character (any Unicode scalar value except '<',
    '\' and ESC, multi-byte included). Reading the bytes yields exactly one key
    per token, in order, with nothing left in the queue. A raw ESC followed by
    '[' or 'O' is an escape sequence by definition and is excluded. *)
Theorem C15_tokens_read_in_order :
  forall (l : list tok) (fuel : nat),
    toks_ok l = true -> (length l < fuel)%nat ->
    read_keys fuel (mkReader (render_toks l) false) = (map tok_key l, mkReader [] false).
Proof. exact read_tokens. Qed.

(** (2) Hence the notation is irrelevant: two renderings of the same keys that
    differ only in alias/raw choices are read as the same key events. *)
Theorem C15_alias_raw :
  forall (l1 l2 : list tok),
    toks_ok l1 = true -> toks_ok l2 = true -> map tok_key l1 = map tok_key l2 ->
    fst (keys_of (render_toks l1)) = fst (keys_of (render_toks l2)).
Proof.
  intros l1 l2 H1 H2 E. unfold keys_of.
  assert (L : forall l, (length l <= length (render_toks l))%nat).
  { induction l as [|t l IH]; [reflexivity|]. unfold render_toks in *. cbn [flat_map length].
    rewrite app_length.
    assert (1 <= length (tok_bytes t))%nat.
    { destruct t as [[|] k|c]; [destruct k; cbn; lia|destruct k; cbn; lia|].
      cbn [tok_bytes]. unfold utf8_char. repeat (destruct (_ <? _); cbn [length]; try lia). }
    lia. }
  assert (A1 : (length l1 < S (length (render_toks l1)))%nat) by (specialize (L l1); lia).
  assert (A2 : (length l2 < S (length (render_toks l2)))%nat) by (specialize (L l2); lia).
  rewrite (read_tokens l1 _ H1 A1), (read_tokens l2 _ H2 A2). exact E.
Qed.

(** (3) "\<" is literal: backslash and '<' are both delivered, whatever follows. *)
Theorem C15_escaped_lt :
  forall R : list N,
  exists r1 r2,
    read_key (mkReader (92 :: 60 :: R) false) = (Some (KChar 92, 0), r1) /\
    read_key r1 = (Some (KChar 60, 0), r2) /\ r_bytes r2 = R /\ r_esc r2 = false.
Proof. exact escaped_lt. Qed.

(** (4) '<' that does not open an alias is literal and nothing after it is skipped. *)
Theorem C15_nonalias_literal :
  forall (R : list N) (e : bool),
    parse_byte_alias R = None ->
    read_key (mkReader (60 :: R) e) = (Some (KChar 60, 0), mkReader R false).
Proof. exact nonalias_lt. Qed.

(** (5) UTF-8 reassembly: any scalar value is recovered from its encoding. *)
Theorem C15_utf8_reassembly :
  forall (c : N) (rest : list N),
    scalar c = true -> utf8_first (utf8_char c ++ rest) = Some (c, length (utf8_char c)).
Proof. exact utf8_first_char. Qed.

Example C15_example :
  let a := [TChar 105; TChar 233; TKey true SBS; TChar 8364; TKey true SEsc; TKey true SCR] in
  let b := [TChar 105; TChar 233; TKey false SBS; TChar 8364; TKey false SEsc; TKey false SCR] in
  toks_ok a = true /\ toks_ok b = true /\ render_toks a <> render_toks b /\
  fst (keys_of (render_toks a)) = fst (keys_of (render_toks b)).
Proof. vm_compute. repeat split. discriminate. Qed.

Print Assumptions C15_tokens_read_in_order.
Print Assumptions C15_alias_raw.
Print Assumptions C15_escaped_lt.
Print Assumptions C15_nonalias_literal.
Print Assumptions C15_utf8_reassembly.
