From Vicut Require Import Base.Prelude.
Theorem placeholder : True. Proof. exact I. Qed.
Print Assumptions placeholder.
