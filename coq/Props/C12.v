(** Property C12: [-r N R] is exactly the unrolled command list.
    Only statements live here; proofs are in Proofs/. *)
From Vicut Require Import Base.Prelude Model.Args Model.Exec Spec.Items
  Proofs.ArgsProofs Proofs.UnrollProofs Proofs.ExecProofs.

(** (1) The model of [Opts::parse] / [handle_global_arg] maps every well-formed
    command line, in any spelling and nesting, to the option record and command
    tree it denotes. *)
Theorem C12_parse_denotes :
  forall (file_ok : text -> bool) (its : list item),
    forallb (wf_item true) its = true ->
    parse file_ok (render its) = Ok (denote_opts its).
Proof. exact parse_render. Qed.

(** (2) Writing the last N commands out R more times, textually, gives exactly
    the flattened command tree - at top level, nested, inside -g/-v/--else. *)
Theorem C12_flatten_is_unroll :
  forall its : list item, flatten (denote its) = denote (unroll its).
Proof. exact flatten_denote_unroll. Qed.

(** (3) Both together, on the parser model: the [-r] form and the unrolled form
    parse to the same options, and the command tree of the unrolled form is the
    flattened tree of the [-r] form and contains no repeat group. *)
Theorem C12_parse_unroll :
  forall (file_ok : text -> bool) (its : list item),
    forallb (wf_item true) its = true ->
    exists o1 o2,
      parse file_ok (render its) = Ok o1 /\
      parse file_ok (render (unroll its)) = Ok o2 /\
      flatten (o_cmds o1) = o_cmds o2 /\
      set_cmds o1 [] = set_cmds o2 [] /\
      flatten (o_cmds o2) = o_cmds o2.
Proof.
  intros file_ok its Hw.
  exists (denote_opts its), (denote_opts (unroll its)).
  split; [now apply parse_render|].
  split; [apply parse_render; now apply unroll_wf|].
  unfold denote_opts. rewrite !set_cmds_cmds, !set_cmds_twice, unroll_opts.
  split; [apply flatten_denote_unroll|]. split; [reflexivity|].
  unfold unroll, denote. rewrite denote_skip_opts by apply forallb_filter.
  fold (denote (concat (fold_left unroll_step its []))).
  rewrite denote_plain by apply unroll_no_repeat.
  unfold flatten. apply (flatten_plain_n _ _ (le_n _)). apply unroll_no_repeat.
Qed.

(** (4) Execution: for every editor core in which entering a scope is undone by
    leaving it and is invisible to commands that declare nothing, and in which
    the mode reset is idempotent, executing a command list equals executing its
    flattening from any state in which the mode has been reset (the initial
    state is one). *)
Theorem C12_exec_flatten :
  forall (st : Type)
         (do_move : text -> st -> st) (do_cut : option text -> text -> st -> st)
         (do_next snm descend ascend : st -> st)
         (glines : bool -> text -> st -> list nat)
         (goto_line : nat -> st -> option st),
    (forall s, ascend (descend s) = s) ->
    (forall k s, do_move k (descend s) = descend (do_move k s)) ->
    (forall n k s, do_cut n k (descend s) = descend (do_cut n k s)) ->
    (forall s, do_next (descend s) = descend (do_next s)) ->
    (forall s, snm (descend s) = descend (snm s)) ->
    (forall p q s, glines p q (descend s) = glines p q s) ->
    (forall ln s, goto_line ln (descend s) = option_map descend (goto_line ln s)) ->
    (forall s, snm (snm s) = snm s) ->
    (forall ln s s1, snm s = s -> goto_line ln s = Some s1 -> snm s1 = s1) ->
    forall (l : list cmd) (s : st),
      snm s = s ->
      seq st do_move do_cut do_next snm descend ascend glines goto_line (flatten l) s
      = seq st do_move do_cut do_next snm descend ascend glines goto_line l s.
Proof. exact seq_flatten. Qed.

(** Non-vacuity: a nested command line with [-r] at top level, inside a [-g]
    scope and in its [--else] branch is well-formed; its unrolling is computed. *)
Example C12_example :
  let its := [ICut false (T "e"); IMove false (T "w"); IRep false (T "2") (T "1");
              IGlob false GG (T "foo")
                [ICut true (T "e"); IMove false (T "w"); IRep true (T "2") (T "2")]
                (Some [INext false; IMove false (T "x"); IRep false (T "1") (T "3")]);
              IRep false (T "2") (T "1")] in
  forallb (wf_item true) its = true /\
  List.length (render (unroll its)) = 66%nat /\
  parse (fun _ => false) (render its) = Ok (denote_opts its).
Proof. vm_compute. repeat split. Qed.

Print Assumptions C12_parse_denotes.
Print Assumptions C12_flatten_is_unroll.
Print Assumptions C12_parse_unroll.
Print Assumptions C12_exec_flatten.
