(** Property C11: splitting keys at command boundaries changes nothing; flags
    start in Normal mode. *)
From Vicut Require Import Base.Prelude Model.Keys Model.Split Proofs.KeysProofs Proofs.SplitProofs.

(** (1) For every editor (what a key does is a parameter) in which, at a
    command boundary, neither the end-of-keys submit nor the mode reset changes
    the state: if the commands of a key string each end at a boundary, every
    way of grouping them into consecutive -m arguments yields the state that the
    keys fed in one go yield - all 2^(k-1) splittings at once. The key strings
    are read by the byte-level reader model (aliases or raw bytes, multi-byte). *)
Theorem C11_split_any :
  forall (st : Type) (step_key : key -> st -> st) (finish snm : st -> st) (boundary : st -> Prop),
    (forall s, boundary s -> finish s = s) ->
    (forall s, boundary s -> snm s = s) ->
    forall (groups : list (list (list tok))) (s : st),
      toks_ok (concat (concat groups)) = true ->
      boundaries st step_key boundary (concat groups) s ->
      Forall (fun g => g <> []) groups ->
      feed_all st step_key finish snm false (map (fun g => render_toks (concat g)) groups) s
      = run_keys st step_key (map tok_key (concat (concat groups))) s.
Proof. exact split_any. Qed.

(** (2) In particular two arguments equal one. *)
Theorem C11_split_once :
  forall (st : Type) (step_key : key -> st -> st) (finish snm : st -> st) (boundary : st -> Prop),
    (forall s, boundary s -> finish s = s) ->
    (forall s, boundary s -> snm s = s) ->
    forall (l1 l2 : list tok) (s : st),
      toks_ok (l1 ++ l2) = true ->
      boundary (run_keys st step_key (map tok_key l1) s) ->
      feed_all st step_key finish snm false [render_toks l1; render_toks l2] s
      = feed_all st step_key finish snm false [render_toks (l1 ++ l2)] s.
Proof. exact split_once. Qed.

(** (3) Without --keep-mode every argument starts from a reset mode: whatever
    the previous argument left pending, the next one sees [snm] of it. *)
Theorem C11_next_starts_reset :
  forall (st : Type) (step_key : key -> st -> st) (finish snm : st -> st) (a b : list N) (s : st),
    feed_all st step_key finish snm false [a; b] s
    = feed st step_key finish snm false b (snm (finish (run_keys st step_key (fst (keys_of a)) s))).
Proof. reflexivity. Qed.

(** (4) With --keep-mode nothing is reset between arguments. *)
Theorem C11_keep_mode :
  forall (st : Type) (step_key : key -> st -> st) (finish snm : st -> st) (a b : list N) (s : st),
    feed_all st step_key finish snm true [a; b] s
    = finish (run_keys st step_key (fst (keys_of b)) (finish (run_keys st step_key (fst (keys_of a)) s))).
Proof. reflexivity. Qed.

Print Assumptions C11_split_any.
Print Assumptions C11_split_once.
Print Assumptions C11_next_starts_reset.
Print Assumptions C11_keep_mode.
