(** Property C18: short flags, long flags (and vic scripts) are the same
    language; option flags may be placed anywhere among the command flags. *)
From Vicut Require Import Base.Prelude Model.Args Spec.Items
  Proofs.ArgsProofs Proofs.UnrollProofs Proofs.SpellingProofs.

(** (1) Any re-spelling of the flags of a well-formed command line (all short,
    all long, any mixture, at any nesting depth) parses to the same [Opts]. *)
Theorem C18_spelling :
  forall (file_ok : text -> bool) (f : bool -> bool) (its : list item),
    forallb (wf_item true) its = true ->
    parse file_ok (render (map (respell f) its)) = parse file_ok (render its).
Proof.
  intros file_ok f its Hw.
  rewrite !parse_render by (now rewrite ?wf_respell).
  now rewrite denote_opts_respell.
Qed.

(** (2) The parsed [Opts] depends only on the sequence of option flags and the
    sequence of command flags, not on how the two are interleaved (top level). *)
Theorem C18_option_position :
  forall (file_ok : text -> bool) (its1 its2 : list item),
    forallb (wf_item true) its1 = true -> forallb (wf_item true) its2 = true ->
    filter is_opt its1 = filter is_opt its2 ->
    filter is_cmd its1 = filter is_cmd its2 ->
    parse file_ok (render its1) = parse file_ok (render its2).
Proof.
  intros file_ok its1 its2 H1 H2 Ho Hc.
  rewrite !parse_render by assumption.
  now rewrite !denote_opts_split, Ho, Hc.
Qed.

(** (3) What the parse is: options applied in order, commands denoted in order. *)
Theorem C18_parse_is_denotation :
  forall (file_ok : text -> bool) (its : list item),
    forallb (wf_item true) its = true ->
    parse file_ok (render its)
    = Ok (set_cmds (fold_left opt_step (filter is_opt its) opts0) (denote (filter is_cmd its))).
Proof. intros. rewrite parse_render by assumption. now rewrite denote_opts_split. Qed.

(** Known finding (class option-inside-global-scope): an option flag written
    inside a [-g ... --end] scope is rejected, whereas the same flag before or
    after the scope is accepted - the model reproduces the implementation. *)
Theorem C18_option_in_scope_refuted :
  exists a1 a2 : list text,
    a1 = [T "-g"; T "foo"; T "-c"; T "e"; T "--end"; T "--json"] /\
    a2 = [T "-g"; T "foo"; T "--json"; T "-c"; T "e"; T "--end"] /\
    (exists o, parse (fun _ => false) a1 = Ok o) /\
    parse (fun _ => false) a2 = Exit1.
Proof.
  eexists _, _. split; [reflexivity|]. split; [reflexivity|]. split.
  - eexists. vm_compute. reflexivity.
  - vm_compute. reflexivity.
Qed.

Example C18_example :
  let its := [IOpt OJson false; ICut false (T "e"); IOptV ODelim true (T ",");
              IGlob true GV (T "x") [INamed false (T "k") (T "w"); IRep true (T "1") (T "2")] None;
              IOpt OLinewise false] in
  forallb (wf_item true) its = true /\
  parse (fun _ => false) (render (map (respell negb) its)) = parse (fun _ => false) (render its) /\
  parse (fun _ => false) (render its) <> Exit1.
Proof. vm_compute. repeat split. discriminate. Qed.

Print Assumptions C18_spelling.
Print Assumptions C18_option_position.
Print Assumptions C18_parse_is_denotation.
Print Assumptions C18_option_in_scope_refuted.
