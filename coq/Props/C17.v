(** Property C17: vic programs compute what their source says.

    The reference interpreter (Model/Vic.v) is what the implementation's
    printed text is compared with on every run. The theorems say that the
    reference is a well-defined function of the program (fuel only decides
    whether it finishes, never what it gives) and that it has the scoping the
    property names: a block is a scope, however it is left. *)
From Vicut Require Import Base.Prelude Model.Format Model.Vic Proofs.VicProofs.

(** (1) A block is a scope: after a block - left by its end, by break, continue
    or return - the variable stack has exactly the frames and names it had
    before (values of outer variables may have changed, names cannot). *)
Theorem C17_block_is_scope :
  forall (f : nat) (b : list stmt) (st : state),
    vars st <> [] ->
    match scoped f b st with
    | RNormal st' | RBreak st' | RContinue st' | RReturn _ st' =>
      map keys (vars st') = map keys (vars st) /\ exists o, output st' = output st ++ o
    | RErr | RFuel => True
    end.
Proof.
  intros f b st H. pose proof (scoped_same_names f b st H) as S.
  destruct (scoped f b st); cbn [sres_ok] in S; try exact I; exact S.
Qed.
Print Assumptions C17_block_is_scope.

(** (2) A variable declared inside a block is not visible after it. *)
Theorem C17_block_local_not_visible :
  forall (f : nat) (b : list stmt) (st : state) (x : text),
    vars st <> [] -> lookup_stack x (vars st) = None ->
    match scoped f b st with
    | RNormal st' | RBreak st' | RContinue st' | RReturn _ st' => lookup_stack x (vars st') = None
    | RErr | RFuel => True
    end.
Proof.
  intros f b st x H1 H2. pose proof (block_local_not_visible f b st x H1 H2) as S.
  destruct (scoped f b st); cbn [sres_ok] in S; try exact I; exact S.
Qed.
Print Assumptions C17_block_local_not_visible.

(** (3) What has been printed stays printed: running any statements only
    appends to the output. *)
Theorem C17_output_grows :
  forall (f : nat) (prog : list stmt) (st : state),
    vars st <> [] ->
    match exec_block f prog st with
    | RNormal st' | RBreak st' | RContinue st' | RReturn _ st' => exists o, output st' = output st ++ o
    | RErr | RFuel => True
    end.
Proof.
  intros f prog st H. pose proof (output_grows f prog st H) as S.
  destruct (exec_block f prog st); cbn [sres_ok] in S; try exact I; exact S.
Qed.
Print Assumptions C17_output_grows.

(** (4) The result does not depend on the fuel: a run that ends within its
    fuel gives the same result - text printed, state, outcome - with any larger
    fuel. The fuel only bounds the recursion of the definition. *)
Theorem C17_fuel_irrelevant :
  forall (f g : nat) (globals : frame) (prog : list stmt),
    (f <= g)%nat -> run_prog f globals prog <> RFuel -> run_prog g globals prog = run_prog f globals prog.
Proof. exact run_fuel_enough. Qed.
Print Assumptions C17_fuel_irrelevant.
Theorem C17_fuel_irrelevant_expr :
  forall (f g : nat) (e : expr) (st : state),
    (f <= g)%nat -> eval f e st <> EFuel -> eval g e st = eval f e st.
Proof. exact eval_fuel_enough. Qed.
Print Assumptions C17_fuel_irrelevant_expr.

(** (5) Examples: arithmetic is evaluated left to right; an inner [let] shadows
    and ends with its block; break and return act from inside nested ifs. *)
Example C17_examples :
  (forall st, eval 10 (EBin OMul (EBin OAdd (EInt 2) (EInt 3)) (EInt 4)) st = EV (VNum 20) st)
  /\ (match run_prog 50 []
            [SLet (T "x") (EInt 1);
             SIf [(ECmp CEq (EVar (T "x")) (EInt 1), [SLet (T "x") (EInt 2); SEcho [EVar (T "x")]])] None;
             SEcho [EVar (T "x")]] with
      | RNormal st => output st = T "2" ++ [10] ++ T "1" ++ [10]
      | _ => False end)
  /\ (match run_prog 80 []
            [SDef (T "f") [T "t"]
               [SFor (T "i") (ERange false (EInt 0) (EInt 10))
                  [SIf [(ECmp CEq (EVar (T "i")) (EVar (T "t")), [SReturn (EVar (T "i"))])] None];
                SReturn (EInt (-1))];
             SLet (T "a") (ECall (T "f") [EInt 4]);
             SEcho [EVar (T "a")]] with
      | RNormal st => output st = T "4" ++ [10]
      | _ => False end).
Proof. split; [reflexivity|]. split; vm_compute; reflexivity. Qed.

(** integers are 64-bit, every operation is checked: overflow is a run-time error, never a wrapped value *)
Example C17_checked_arithmetic :
  arith OMul 4611686018427387904 2 = None /\ arith OAdd 9223372036854775807 1 = None
  /\ arith OSub (-9223372036854775808) 1 = None /\ arith OMul 3037000499 3037000499 = Some 9223372030926249001%Z
  /\ arith ODiv 7 0 = None /\ arith ODiv (-7) 2 = Some (-3)%Z /\ arith OMod (-7) 3 = Some (-1)%Z.
Proof. vm_compute. repeat split. Qed.
