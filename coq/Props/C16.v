(** Property C16: ex line commands match line-oriented reference semantics.

    The reference (Model/Ex.v over Model/Regex.v) is itself the specification the
    implementation is compared with on every run; the theorems below say what
    that reference does: it changes exactly the addressed lines. *)
From Vicut Require Import Base.Prelude Model.Regex Model.Ex Proofs.ExProofs.

(** (1) A buffer text and its list of lines carry the same information: every
    list of lines is what its text splits into, with or without a terminator
    on the last line. *)
Theorem C16_split_join :
  forall ls : list text, Forall nl_free ls -> split_lines (join_lines ls) = ls.
Proof. exact split_join. Qed.
Print Assumptions C16_split_join.
Theorem C16_split_join_unterminated :
  forall (ls : list text) (l : text), Forall nl_free ls -> nl_free l -> l <> [] ->
    split_lines (join_lines ls ++ l) = ls ++ [l].
Proof. exact split_join_unterminated. Qed.
Print Assumptions C16_split_join_unterminated.

(** (2) Ranges: a resolved range lies inside the buffer; a backwards range is
    the same range; the buffer is the lines before, within and after it. *)
Theorem C16_resolve_bounds :
  forall (s : estate) (r : range) (d : bool) (lo hi : nat),
    resolve s r d = Some (lo, hi) -> (1 <= lo /\ lo <= hi /\ hi <= nlines s)%nat.
Proof. exact resolve_bounds. Qed.
Print Assumptions C16_resolve_bounds.
Theorem C16_backwards_range :
  forall (s : estate) (a b : addr) (d : bool), resolve s (RTwo a b) d = resolve s (RTwo b a) d.
Proof. exact resolve_swap. Qed.
Print Assumptions C16_backwards_range.
Theorem C16_parts :
  forall (ls : list text) (lo hi : nat), (1 <= lo)%nat -> (lo <= hi)%nat ->
    ls = before lo ls ++ within lo hi ls ++ after hi ls.
Proof. exact parts. Qed.
Print Assumptions C16_parts.

(** (3) [:[range]d] removes exactly the addressed lines and puts them in the
    register; [:[range]y] changes no line. *)
Theorem C16_delete_exact :
  forall (s : estate) (r : range) (lo hi : nat),
    resolve s r false = Some (lo, hi) ->
    e_lines (estep s (EDel r)) = before lo (e_lines s) ++ after hi (e_lines s)
    /\ e_reg (estep s (EDel r)) = within lo hi (e_lines s)
    /\ length (e_lines (estep s (EDel r))) = (nlines s - (hi - lo + 1))%nat.
Proof. exact del_exact. Qed.
Print Assumptions C16_delete_exact.
Theorem C16_yank_exact :
  forall (s : estate) (r : range) (lo hi : nat),
    resolve s r false = Some (lo, hi) ->
    e_lines (estep s (EYank r)) = e_lines s /\ e_reg (estep s (EYank r)) = within lo hi (e_lines s).
Proof. exact yank_exact. Qed.
Print Assumptions C16_yank_exact.

(** (4) [:[range]y] then [:[k]pu]: the yanked lines appear after line [k] (before
    the first line for k = 0) and nothing else moves. *)
Theorem C16_yank_put_exact :
  forall (s : estate) (r : range) (lo hi k : nat),
    resolve s r false = Some (lo, hi) -> (k <= nlines s)%nat ->
    e_lines (estep (estep s (EYank r)) (EPut (Some (ANum k))))
    = firstn k (e_lines s) ++ within lo hi (e_lines s) ++ skipn k (e_lines s).
Proof. exact yank_put_exact. Qed.
Print Assumptions C16_yank_put_exact.

(** (5) [:[range]s/pat/rep/[g]] rewrites each addressed line on its own and no
    other; the first match is the leftmost one; a line without a match stays. *)
Theorem C16_substitute_exact :
  forall (s : estate) (r : range) (re : regex) (rep : text) (g : bool) (lo hi : nat),
    resolve s r false = Some (lo, hi) ->
    e_lines (estep s (ESub r re rep g))
    = before lo (e_lines s) ++ map (subst_line re rep g) (within lo hi (e_lines s)) ++ after hi (e_lines s)
    /\ length (e_lines (estep s (ESub r re rep g))) = nlines s.
Proof. exact sub_exact. Qed.
Print Assumptions C16_substitute_exact.
Theorem C16_first_match_leftmost :
  forall (re : regex) (t : text) (at0 : bool) (s n : nat),
    find_from re at0 t = Some (s, n) ->
    here_at re at0 s t = Some n /\ forall k, (k < s)%nat -> here_at re at0 k t = None.
Proof. exact find_leftmost. Qed.
Print Assumptions C16_first_match_leftmost.
Theorem C16_substitute_first :
  forall (re : regex) (rep l : text),
    match find re l with
    | Some (s, n) => subst_first re rep l = firstn s l ++ rep ++ skipn (s + n) l
                     /\ l = firstn s l ++ firstn n (skipn s l) ++ skipn (s + n) l
    | None => subst_first re rep l = l
    end.
Proof. exact subst_first_spec. Qed.
Print Assumptions C16_substitute_first.
Theorem C16_no_match_unchanged :
  forall (re : regex) (rep : text) (g : bool) (l : text), matches re l = false -> subst_line re rep g l = l.
Proof. exact no_match_unchanged. Qed.
Print Assumptions C16_no_match_unchanged.

(** (6) [:g/pat/d] ([:g!]) keeps exactly the lines of the range that do not
    (do) match; [:g/pat/s/..] rewrites exactly the matching lines of the range. *)
Theorem C16_global_delete_exact :
  forall (s : estate) (r : range) (neg : bool) (re : regex) (lo hi : nat),
    resolve s r true = Some (lo, hi) ->
    e_lines (estep s (EGlobal neg r re GDel))
    = before lo (e_lines s) ++ filter (fun l => negb (xorb neg (matches re l))) (within lo hi (e_lines s)) ++ after hi (e_lines s).
Proof. exact global_del_exact. Qed.
Print Assumptions C16_global_delete_exact.
Theorem C16_global_substitute_exact :
  forall (s : estate) (r : range) (neg : bool) (re re2 : regex) (rep : text) (g : bool) (lo hi : nat),
    resolve s r true = Some (lo, hi) ->
    e_lines (estep s (EGlobal neg r re (GSub re2 rep g)))
    = before lo (e_lines s)
      ++ map (fun l => if xorb neg (matches re l) then subst_line re2 rep g l else l) (within lo hi (e_lines s))
      ++ after hi (e_lines s).
Proof. exact global_sub_exact. Qed.
Print Assumptions C16_global_substitute_exact.

(** (7) A range that reaches past the last line (or before line 0) addresses
    nothing: the command leaves lines, cursor and register as they are. *)
Theorem C16_invalid_range_noop :
  forall (s : estate) (r : range),
    resolve s r false = None ->
    estep s (EDel r) = s /\ estep s (EYank r) = s
    /\ (forall re rep g, estep s (ESub r re rep g) = s) /\ (forall k, estep s (ENormal r k) = s).
Proof. exact invalid_noop. Qed.
Print Assumptions C16_invalid_range_noop.
Theorem C16_invalid_global_noop :
  forall (s : estate) (r : range) (neg : bool) (re : regex) (c : gcmd),
    resolve s r true = None -> estep s (EGlobal neg r re c) = s.
Proof. exact invalid_global_noop. Qed.
Print Assumptions C16_invalid_global_noop.

(** the hypotheses are met by real runs *)
Example C16_example :
  let lit (s : string) := map (fun c => ROne (AChar c)) (T s) in
  e_lines (erun (T "foo
bar
foo2") [ESub RAll (mkRe false (lit "o"%string) false) (T "0") true;
        EGlobal false RDefault (mkRe false (lit "ar"%string) false) GDel;
        EYank (ROne_ (ANum 1)); EPut (Some ALast)])
  = [T "f00"; T "f002"; T "f00"]
  /\ resolve (einit (T "a
b")) (RTwo (ANum 2) (ANum 1)) false = Some (1%nat, 2%nat)
  /\ resolve (einit (T "a
b")) (RTwo (ANum 2) (ANum 3)) false = None.
Proof. vm_compute. repeat split. Qed.
