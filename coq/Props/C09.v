(** Property C09: the editor's position always agrees with its text. *)
From Vicut Require Import Base.Prelude Model.Text Model.Global Model.Cursor
  Proofs.TextProofs Proofs.CursorProofs.

(** (1) Whatever a command did to text and cursor, the end of [exec_cmd] leaves
    the cursor inside the text (on a character in normal/visual mode, at most
    at the end in insert mode) ... *)
Theorem C09_cursor_in_bounds :
  forall (cl : list text) (cur : nat) (excl : bool),
    (epilogue_cursor cl cur excl <= (if excl then length cl - 1 else length cl))%nat.
Proof. exact epilogue_in_bounds. Qed.

(** (2) ... and in normal mode never on the terminator of a non-empty line. *)
Theorem C09_off_newline :
  forall (cl : list text) (cur : nat),
    let c := epilogue_cursor cl cur true in
    ~ (exists p, c = S p /\ nth_error cl c = Some [10] /\ exists x, nth_error cl p = Some x /\ x <> [10]).
Proof. exact epilogue_off_newline. Qed.

(** (3) A valid position is a fixed point: re-running the epilogue (as a
    command that changes nothing does) moves nothing. *)
Theorem C09_epilogue_idempotent :
  forall (cl : list text) (cur : nat) (excl : bool),
    epilogue_cursor cl (epilogue_cursor cl cur excl) excl = epilogue_cursor cl cur excl.
Proof. exact epilogue_idempotent. Qed.

(** (4) The reported line (newline characters before the cursor) and the line
    used for the column (newline clusters) are the same line whenever every
    newline is a cluster of its own - i.e. for all texts without "\r\n". *)
Theorem C09_line_numbers_agree :
  forall (cl : list text) (cur : nat),
    nl_alone cl -> line_number_chars cl cur = line_number_clusters cl cur.
Proof. exact line_numbers_agree. Qed.

(** (5) The reported byte offset is the offset at which the cluster under the
    cursor starts; slices through a fresh cache are cut at cluster boundaries. *)
Theorem C09_pos_is_cluster_start :
  forall (cl : list text) (cur : nat),
    (cur < length cl)%nat -> nth_error (offsets cl) cur = Some (byte_pos cl cur).
Proof. exact byte_pos_is_offset. Qed.

Theorem C09_slices_aligned :
  forall (cl : list text) (s e : nat),
    (s <= e)%nat -> (e <= length cl)%nat -> (s < length cl)%nat ->
    slice_idx (concat cl) (offsets cl) s e = Some (concat (sub_clusters cl s e)).
Proof. exact slice_fresh. Qed.

(** Known finding (class CRLF): with a "\r\n" cluster the two line counts differ. *)
Theorem C09_crlf_refuted :
  exists (cl : list text) (cur : nat),
    line_number_chars cl cur <> line_number_clusters cl cur.
Proof. exists [T "a"; [13; 10]; T "b"], 2%nat. vm_compute. discriminate. Qed.

Print Assumptions C09_cursor_in_bounds.
Print Assumptions C09_off_newline.
Print Assumptions C09_epilogue_idempotent.
Print Assumptions C09_line_numbers_agree.
Print Assumptions C09_pos_is_cluster_start.
Print Assumptions C09_slices_aligned.
Print Assumptions C09_crlf_refuted.
