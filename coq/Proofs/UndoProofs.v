(** Undo restores the previous text, redo re-applies it. *)
From Vicut Require Import Base.Prelude Model.Undo.

Fixpoint chain_undo (buf : text) (l : list edit) (orig : text) : Prop :=
  match l with
  | [] => buf = orig
  | e :: l' => e_new e = buf /\ chain_undo (e_old e) l' orig
  end.
Fixpoint chain_redo (buf : text) (l : list edit) : Prop :=
  match l with
  | [] => True
  | e :: l' => e_new e = buf /\ chain_redo (e_old e) l'
  end.
Definition Inv (orig : text) (s : ustate) : Prop :=
  chain_undo (u_buf s) (u_undo s) orig /\ chain_redo (u_buf s) (u_redo s).

Lemma chain_stop buf l orig : chain_undo buf (stop_merge l) orig <-> chain_undo buf l orig.
Proof. destruct l as [|e l]; cbn; tauto. Qed.
Lemma chain_start buf l orig : chain_undo buf (start_merge l) orig <-> chain_undo buf l orig.
Proof. destruct l as [|e l]; cbn; tauto. Qed.

Lemma inv_init t : Inv t (uinit t).
Proof. split; cbn; auto. Qed.

Lemma amend_chain orig s pre :
  chain_undo (u_buf s) (u_undo s) orig ->
  chain_undo (u_buf (amend s pre)) (u_undo (amend s pre)) orig.
Proof.
  intros H. unfold amend. destruct pre as [p|]; [|exact H].
  destruct (u_undo s) as [|e l] eqn:E; [rewrite E; exact H|].
  cbn [chain_undo u_buf u_undo e_new e_old] in *. tauto.
Qed.

Lemma inv_step orig s o : Inv orig s -> Inv orig (ustep s o).
Proof.
  intros [Hu Hr]. destruct o as [pre after ci| | |]; cbn [ustep];
    [| | |split; cbn [u_buf u_undo u_redo]; [now apply chain_stop|assumption]].
  - apply (amend_chain orig s pre) in Hu. clear Hr. revert Hu. generalize (amend s pre). clear s.
    intros s Hu. unfold cmd_step.
    split; [|exact I]. cbn [u_buf u_undo].
    set (undo1 := if top_merging (u_undo s) && negb (continues ci) then stop_merge (u_undo s) else u_undo s).
    assert (H1 : chain_undo (u_buf s) undo1 orig).
    { unfold undo1. destruct (top_merging (u_undo s) && negb (continues ci)); [now apply chain_stop|assumption]. }
    assert (H2 : chain_undo after (if text_eqb (u_buf s) after then undo1 else handle_edit undo1 (u_buf s) after) orig).
    { destruct (text_eqb_spec (u_buf s) after) as [<-|Hne]; [assumption|].
      unfold handle_edit. destruct undo1 as [|e l']; cbn [top_merging].
      - cbn. auto.
      - destruct (e_merging e); cbn [chain_undo e_new e_old] in *; tauto. }
    match goal with |- chain_undo _ (if ?c then _ else _) _ => destruct c end; [now apply chain_start|assumption].
  - set (undo1 := if top_merging (u_undo s) then stop_merge (u_undo s) else u_undo s).
    assert (H1 : chain_undo (u_buf s) undo1 orig).
    { unfold undo1. destruct (top_merging (u_undo s)); [now apply chain_stop|assumption]. }
    destruct undo1 as [|e l']; [split; assumption|].
    cbn [chain_undo] in H1. destruct H1 as [Hn Hc].
    split; cbn [u_buf u_undo u_redo chain_redo e_new e_old]; [assumption|].
    split; [reflexivity|]. now rewrite Hn.
  - set (undo1 := if top_merging (u_undo s) then stop_merge (u_undo s) else u_undo s).
    assert (H1 : chain_undo (u_buf s) undo1 orig).
    { unfold undo1. destruct (top_merging (u_undo s)); [now apply chain_stop|assumption]. }
    destruct (u_redo s) as [|e l'] eqn:Er; [split; [assumption|exact I]|].
    cbn [chain_redo] in Hr. destruct Hr as [Hn Hc].
    split; cbn [u_buf u_undo u_redo chain_undo e_new e_old]; [|assumption].
    split; [reflexivity|]. now rewrite Hn.
Qed.

(** every state reached by any history satisfies the invariant *)
Theorem inv_reachable t ops : Inv t (urun t ops).
Proof.
  unfold urun. generalize (inv_init t). generalize (uinit t).
  induction ops as [|o ops IH]; intros s H; cbn [fold_left]; [assumption|].
  apply IH. now apply inv_step.
Qed.

(** [u] after a change that stands alone (anything but a typed character or c / o / O) gives back exactly the text
    before that change, whatever came before it - an open insert session, another [r] - *)
Theorem undo_after_change s t :
  t <> u_buf s -> u_buf (ustep (ustep s (OCmd None t KPlain)) OUndo) = u_buf s.
Proof.
  intros Hne. cbn [ustep amend cmd_step u_undo u_buf negb andb continues sessiony].
  destruct (text_eqb_spec (u_buf s) t) as [E|_]; [congruence|].
  rewrite andb_true_r.
  set (undo1 := if top_merging (u_undo s) then stop_merge (u_undo s) else u_undo s).
  assert (Hm : top_merging undo1 = false).
  { unfold undo1. destruct (u_undo s) as [|e l]; [reflexivity|]. cbn [top_merging].
    destruct (e_merging e) eqn:E; [reflexivity|exact E]. }
  unfold handle_edit. rewrite Hm. reflexivity.
Qed.

(** a command that stands alone leaves no open record behind: the next command cannot be folded into it *)
Lemma plain_closes s t : top_merging (u_undo (ustep s (OCmd None t KPlain))) = false.
Proof.
  cbn [ustep amend cmd_step u_undo u_buf negb andb continues sessiony]. rewrite andb_true_r.
  set (undo1 := if top_merging (u_undo s) then stop_merge (u_undo s) else u_undo s).
  assert (Hm : top_merging undo1 = false).
  { unfold undo1. destruct (u_undo s) as [|e l]; [reflexivity|]. cbn [top_merging].
    destruct (e_merging e) eqn:E; [reflexivity|exact E]. }
  destruct (text_eqb (u_buf s) t); [exact Hm|].
  unfold handle_edit. rewrite Hm. reflexivity.
Qed.

(** c / o / O that change nothing do not reopen the record of an earlier change *)
Lemma opens_nothing_keeps_closed s :
  top_merging (u_undo (ustep s (OCmd None (u_buf s) KOpens))) = false.
Proof.
  cbn [ustep amend cmd_step u_undo u_buf negb andb continues sessiony]. rewrite andb_true_r.
  destruct (text_eqb_spec (u_buf s) (u_buf s)) as [_|N]; [|congruence].
  set (undo1 := if top_merging (u_undo s) then stop_merge (u_undo s) else u_undo s).
  assert (Hl : length undo1 = length (u_undo s)).
  { unfold undo1. destruct (top_merging (u_undo s)); [|reflexivity]. destruct (u_undo s); reflexivity. }
  assert (Hm : top_merging undo1 = false).
  { unfold undo1. destruct (u_undo s) as [|e l]; [reflexivity|]. cbn [top_merging].
    destruct (e_merging e) eqn:E; [reflexivity|exact E]. }
  rewrite Hl, Nat.ltb_irrefl. cbn [orb andb]. exact Hm.
Qed.

(** a whole insert session (consecutive character inserts) is undone at once *)
Lemma session_step s e l t :
  u_undo s = e :: l -> e_merging e = true ->
  exists e', u_undo (ustep s (OCmd None t KContinues)) = e' :: l /\ e_old e' = e_old e /\ e_merging e' = true.
Proof.
  intros Hu Hm. cbn [ustep amend cmd_step u_undo continues sessiony]. rewrite Hu. cbn [top_merging]. rewrite Hm. cbn [negb andb].
  rewrite orb_true_r.
  destruct (text_eqb (u_buf s) t).
  - cbn [start_merge]. eexists. repeat split; reflexivity.
  - unfold handle_edit. cbn [top_merging]. rewrite Hm. cbn [start_merge e_old e_new].
    eexists. repeat split; reflexivity.
Qed.

Lemma session_top ts : forall s e l,
  u_undo s = e :: l -> e_merging e = true ->
  exists e', u_undo (fold_left (fun s t => ustep s (OCmd None t KContinues)) ts s) = e' :: l
             /\ e_old e' = e_old e /\ e_merging e' = true.
Proof.
  induction ts as [|t ts IH]; intros s e l Hu Hm; cbn [fold_left].
  - exists e. auto.
  - destruct (session_step s e l t Hu Hm) as (e1 & Hu1 & Ho1 & Hm1).
    destruct (IH _ _ _ Hu1 Hm1) as (e2 & Hu2 & Ho2 & Hm2).
    exists e2. repeat split; [assumption|congruence|assumption].
Qed.

(** the command that starts the session - the first typed character, or c / o / O - makes the record the rest joins *)
Lemma session_first s t k :
  sessiony k = true -> t <> u_buf s -> (continues k = true -> top_merging (u_undo s) = false) ->
  exists l, u_undo (ustep s (OCmd None t k)) = mkEdit (u_buf s) t true :: l.
Proof.
  intros Hk Hne Hc. cbn [ustep amend cmd_step u_undo u_buf]. rewrite Hk.
  destruct (text_eqb_spec (u_buf s) t) as [E|_]; [congruence|].
  assert (Hlt : forall n, Nat.ltb n (S n) = true) by (intros n; apply Nat.ltb_lt; lia).
  destruct (top_merging (u_undo s)) eqn:Hm.
  - destruct (u_undo s) as [|e l] eqn:Hu; [discriminate|]. cbn [top_merging] in Hm.
    destruct k; [discriminate| |specialize (Hc eq_refl); discriminate]; cbn [continues negb andb orb].
    unfold handle_edit. cbn [stop_merge top_merging e_merging length].
    rewrite Hlt. cbn [andb orb start_merge e_old e_new]. eexists. reflexivity.
  - cbn [andb]. unfold handle_edit. rewrite Hm. cbn [length]. rewrite Hlt.
    cbn [andb orb start_merge e_old e_new]. eexists. reflexivity.
Qed.

Theorem undo_insert_session s t k ts :
  sessiony k = true -> (continues k = true -> top_merging (u_undo s) = false) -> t <> u_buf s ->
  u_buf (ustep (fold_left (fun s t => ustep s (OCmd None t KContinues)) ts (ustep s (OCmd None t k))) OUndo)
  = u_buf s.
Proof.
  intros Hk Hc Hne.
  destruct (session_first s t k Hk Hne Hc) as [l H1].
  destruct (session_top ts _ _ _ H1 eq_refl) as (e' & Hu & Ho & Hmm).
  set (s' := fold_left (fun s t => ustep s (OCmd None t KContinues)) ts (ustep s (OCmd None t k))) in *.
  unfold ustep at 1. rewrite Hu. cbn [top_merging]. rewrite Hmm.
  cbn [stop_merge u_buf e_old]. exact Ho.
Qed.

(** a block insert: the typed text, then the copies [handle_block_insert] makes
    when the session is left, are one change *)
Theorem undo_block_insert s t p :
  top_merging (u_undo s) = false -> t <> u_buf s ->
  u_buf (ustep (ustep (ustep s (OCmd None t KContinues)) (OCmd (Some p) p KPlain)) OUndo) = u_buf s.
Proof.
  intros Hm Hne.
  destruct (session_first s t KContinues eq_refl Hne (fun _ => Hm)) as [l H1].
  set (s1 := ustep s (OCmd None t KContinues)) in *.
  assert (H2 : amend s1 (Some p) = mkU p (mkEdit (u_buf s) p true :: l) (u_redo s1)).
  { unfold amend. rewrite H1. reflexivity. }
  cbn [ustep]. rewrite H2.
  unfold cmd_step. cbn [u_undo u_buf top_merging e_merging negb andb stop_merge e_old e_new continues sessiony].
  destruct (text_eqb_spec p p) as [_|N]; [|congruence].
  cbn [top_merging e_merging stop_merge u_buf e_old]. reflexivity.
Qed.

(** enough [u]s return the original input *)
Fixpoint undo_n (n : nat) (s : ustate) : ustate :=
  match n with O => s | S k => undo_n k (ustep s OUndo) end.

Theorem undo_all orig : forall n s,
  Inv orig s -> length (u_undo s) = n -> u_buf (undo_n n s) = orig.
Proof.
  induction n as [|n IH]; intros s [Hu Hr] Hl.
  - destruct (u_undo s); [exact Hu|discriminate].
  - cbn [undo_n]. apply IH; [apply inv_step; split; assumption|].
    cbn [ustep]. destruct (u_undo s) as [|e l] eqn:E; [discriminate|].
    cbn [top_merging]. destruct (e_merging e); cbn [stop_merge u_undo]; cbn in Hl; lia.
Qed.

(** [<c-r>] after [u] returns exactly the text that [u] replaced *)
Theorem redo_inverse orig s :
  Inv orig s -> u_undo s <> [] ->
  let s2 := ustep (ustep s OUndo) ORedo in
  u_buf s2 = u_buf s /\ u_redo s2 = u_redo s /\ length (u_undo s2) = length (u_undo s).
Proof.
  intros [Hu Hr] Hne. cbn zeta. cbn [ustep].
  destruct (u_undo s) as [|e l] eqn:E; [congruence|]. cbn [top_merging].
  assert (Hn : e_new e = u_buf s) by (cbn in Hu; tauto).
  destruct (e_merging e); cbn [stop_merge u_undo u_redo u_buf top_merging e_old e_new];
    (destruct l as [|e2 l2]; cbn [top_merging];
     [|destruct (e_merging e2)]; cbn [u_buf u_redo u_undo e_old e_new stop_merge length]; auto).
Qed.

Definition cmd_texts (ops : list uop) : list text :=
  flat_map (fun o => match o with
                     | OCmd (Some p) t _ => [t; p]
                     | OCmd None t _ => [t]
                     | _ => []
                     end) ops.

(** ** Undo and redo never produce a text that was not an earlier state. *)
Definition eok (H : list text) (e : edit) : Prop := In (e_old e) H /\ In (e_new e) H.
Definition ok (H : list text) (s : ustate) : Prop :=
  In (u_buf s) H /\ Forall (eok H) (u_undo s) /\ Forall (eok H) (u_redo s).

Lemma eok_mono H H' e : incl H H' -> eok H e -> eok H' e.
Proof. intros Hi [A B]; split; now apply Hi. Qed.
Lemma ok_mono H H' s : incl H H' -> ok H s -> ok H' s.
Proof.
  intros Hi (A & B & C). split; [now apply Hi|].
  split; eapply Forall_impl; try eassumption; intros e; now apply eok_mono.
Qed.
Lemma forall_stop H l : Forall (eok H) l -> Forall (eok H) (stop_merge l).
Proof. destruct l as [|e l]; [auto|]. intros F; inversion F; subst. constructor; assumption. Qed.
Lemma forall_start H l : Forall (eok H) l -> Forall (eok H) (start_merge l).
Proof. destruct l as [|e l]; [auto|]. intros F; inversion F; subst. constructor; assumption. Qed.

Definition op_texts (o : uop) : list text :=
  match o with
  | OCmd (Some p) t _ => [t; p]
  | OCmd None t _ => [t]
  | _ => []
  end.

Lemma amend_ok H s pre :
  ok H s -> ok (match pre with Some p => p :: H | None => H end) (amend s pre).
Proof.
  intros (A & B & C). unfold amend. destruct pre as [p|]; [|repeat split; assumption].
  assert (Hi : incl H (p :: H)) by (intros x Hx; now right).
  destruct (u_undo s) as [|e l] eqn:E.
  - apply (ok_mono H); [exact Hi|]. repeat split; [assumption|rewrite E; constructor|assumption].
  - inversion B as [|? ? [Eo En] F']; subst.
    split; [now left|]. split; cbn [u_undo u_redo].
    + constructor; [split; cbn; [right; exact Eo|now left]|].
      eapply Forall_impl; [|exact F']. intros x; now apply eok_mono.
    + eapply Forall_impl; [|exact C]. intros x; now apply eok_mono.
Qed.

Lemma cmd_step_ok H s after ci : ok H s -> ok (after :: H) (cmd_step s after ci).
Proof.
  intros (A & B & C). unfold cmd_step.
  assert (Hi : incl H (after :: H)) by (intros x Hx; now right).
  split; [now left|]. split; [|constructor]. cbn [u_undo].
  set (undo1 := if top_merging (u_undo s) && negb (continues ci) then stop_merge (u_undo s) else u_undo s).
  assert (F1 : Forall (eok (after :: H)) undo1).
  { unfold undo1. destruct (top_merging (u_undo s) && negb (continues ci)); [apply forall_stop|];
      (eapply Forall_impl; [|exact B]; intros e; now apply eok_mono). }
  assert (F2 : Forall (eok (after :: H))
                 (if text_eqb (u_buf s) after then undo1 else handle_edit undo1 (u_buf s) after)).
  { destruct (text_eqb (u_buf s) after); [assumption|]. unfold handle_edit.
    destruct undo1 as [|e l']; cbn [top_merging].
    - constructor; [|constructor]. split; cbn; [right; exact A|now left].
    - inversion F1 as [|? ? [Eo En] F']; subst.
      destruct (e_merging e).
      + constructor; [split; cbn; [exact Eo|now left]|assumption].
      + constructor; [split; cbn; [right; exact A|now left]|].
        constructor; [split; assumption|assumption]. }
  match goal with |- Forall _ (if ?c then _ else _) => destruct c end; [now apply forall_start|assumption].
Qed.

Lemma ok_step H s o :
  ok H s -> ok (op_texts o ++ H) (ustep s o).
Proof.
  intros Hok. destruct o as [pre after ci| | |]; cbn [ustep op_texts];
    [| | |destruct Hok as (A & B & C); repeat split; cbn [u_buf u_undo u_redo app]; [assumption|now apply forall_stop|assumption]].
  - apply (amend_ok H s pre) in Hok. apply (cmd_step_ok _ _ after ci) in Hok.
    destruct pre as [p|]; exact Hok.
  - destruct Hok as (A & B & C). cbn [u_undo app].
    set (undo1 := if top_merging (u_undo s) then stop_merge (u_undo s) else u_undo s).
    assert (F1 : Forall (eok H) undo1).
    { unfold undo1. destruct (top_merging (u_undo s)); [now apply forall_stop|assumption]. }
    destruct undo1 as [|e l']; [repeat split; assumption|].
    inversion F1 as [|? ? [Eo En] F']; subst.
    split; [exact Eo|]. split; [assumption|]. constructor; [split; assumption|assumption].
  - destruct Hok as (A & B & C). cbn [app].
    set (undo1 := if top_merging (u_undo s) then stop_merge (u_undo s) else u_undo s).
    assert (F1 : Forall (eok H) undo1).
    { unfold undo1. destruct (top_merging (u_undo s)); [now apply forall_stop|assumption]. }
    destruct (u_redo s) as [|e l']; [repeat split; assumption|].
    inversion C as [|? ? [Eo En] F']; subst.
    split; [exact Eo|]. split; [|assumption]. constructor; [split; assumption|assumption].
Qed.

(** the text after any history of commands, [u]s and [<c-r>]s is the original
    input or a text some command produced earlier *)
Theorem no_new_states t ops :
  In (u_buf (urun t ops)) (t :: cmd_texts ops).
Proof.
  unfold urun.
  assert (G : forall l s H, ok H s ->
              ok (rev (cmd_texts l) ++ H) (fold_left ustep l s)).
  { clear ops. induction l as [|o ops' IH]; intros s H Hok; [exact Hok|].
    cbn [fold_left]. specialize (IH _ _ (ok_step H s o Hok)).
    eapply ok_mono; [|exact IH].
    change (cmd_texts (o :: ops')) with (op_texts o ++ cmd_texts ops').
    rewrite rev_app_distr, <- app_assoc.
    intros x Hx. apply in_app_or in Hx as [Hx|Hx]; [apply in_or_app; now left|].
    apply in_or_app. right.
    apply in_app_or in Hx as [Hx|Hx]; apply in_or_app; [left; now apply -> in_rev|now right]. }
  assert (H0 : ok [t] (uinit t)) by (repeat split; cbn; auto).
  destruct (G ops _ _ H0) as (A & _ & _).
  apply in_app_or in A as [A|A].
  - right. now apply in_rev.
  - destruct A as [<-|[]]. now left.
Qed.

(** the end of a key string closes an open insert session: what the next key string types is a change of its own *)
Lemma boundary_closes s : top_merging (u_undo (ustep s OBoundary)) = false.
Proof. cbn [ustep u_undo]. destruct (u_undo s) as [|e l]; reflexivity. Qed.
Lemma boundary_keeps_text s : u_buf (ustep s OBoundary) = u_buf s /\ u_redo (ustep s OBoundary) = u_redo s
                              /\ length (u_undo (ustep s OBoundary)) = length (u_undo s).
Proof. cbn [ustep u_buf u_redo u_undo]. destruct (u_undo s); repeat split. Qed.

Theorem undo_after_boundary_session s t ts :
  t <> u_buf s ->
  let s0 := ustep s OBoundary in
  u_buf (ustep (fold_left (fun s t => ustep s (OCmd None t KContinues)) ts (ustep s0 (OCmd None t KContinues))) OUndo)
  = u_buf s.
Proof.
  intros Hne s0.
  assert (E : u_buf s0 = u_buf s) by apply boundary_keeps_text.
  rewrite <- E. apply (undo_insert_session s0 t KContinues ts); [reflexivity| |congruence].
  intros _. apply boundary_closes.
Qed.
