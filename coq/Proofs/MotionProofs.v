(** The reference motions keep the cursor inside the text, stay on their line
    where Vim's do, make progress, and land where they say. *)
From Vicut Require Import Base.Prelude Model.Motions.

Lemma is_nl_at_lt t i : is_nl_at t i = true -> (i < length t)%nat.
Proof.
  unfold is_nl_at. destruct (nth_error t i) eqn:E; [|discriminate]. intros _.
  apply nth_error_Some. congruence.
Qed.

(** ** stepping *)
Lemma step_fwd_le t i : (step_fwd t i <= length t)%nat.
Proof. unfold step_fwd. destruct (_ && _ && _); apply Nat.le_min_r. Qed.

Lemma step_fwd_gt t i : (i < length t)%nat -> (i < step_fwd t i)%nat.
Proof.
  intros H. unfold step_fwd.
  destruct (Nat.ltb_spec (S i) (length t)) as [L|L]; cbn [andb].
  - destruct (is_nl_at t (S i) && negb (empty_line_at t (S i))); lia.
  - lia.
Qed.

Lemma step_bwd_lt t i j : step_bwd t i = Some j -> (j < i)%nat.
Proof.
  unfold step_bwd. destruct i as [|k]; [discriminate|].
  destruct (is_nl_at t k && negb (empty_line_at t k)).
  - destruct k; [discriminate|]. intros H; injection H as <-. lia.
  - intros H; injection H as <-. lia.
Qed.

(** ** w *)
Lemma skip_class_fwd_bounds f big t cls : forall i, (i <= length t)%nat ->
  (i <= skip_class_fwd f big t cls i <= length t)%nat.
Proof.
  induction f as [|f IH]; intros i Hi; cbn [skip_class_fwd]; [lia|].
  destruct (Nat.ltb_spec i (length t)) as [L|L]; cbn [andb]; [|lia].
  destruct ((class_at big t i =? cls) && negb (empty_line_at t i)); [|lia].
  pose proof (step_fwd_gt t i L). pose proof (step_fwd_le t i).
  destruct (Nat.eqb_spec (step_fwd t i) (S i)); [|lia].
  specialize (IH (step_fwd t i) ltac:(lia)). lia.
Qed.

Lemma skip_blank_fwd_bounds f big t : forall i, (i <= length t)%nat ->
  (i <= skip_blank_fwd f big t i <= length t)%nat.
Proof.
  induction f as [|f IH]; intros i Hi; cbn [skip_blank_fwd]; [lia|].
  destruct (Nat.ltb_spec i (length t)) as [L|L]; cbn [andb]; [|lia].
  destruct ((class_at big t i =? 0) && negb (empty_line_at t i)); [|lia].
  pose proof (step_fwd_gt t i L). pose proof (step_fwd_le t i).
  specialize (IH (step_fwd t i) ltac:(lia)). lia.
Qed.

(** [w] makes progress and stays within the text (the length itself means: the text ended first) *)
Theorem word_fwd1_progress big t i : (i < length t)%nat -> (i < word_fwd1 big t i <= length t)%nat.
Proof.
  intros H. unfold word_fwd1. destruct (Nat.leb_spec (length t) i) as [L|_]; [lia|].
  pose proof (step_fwd_gt t i H) as G. pose proof (step_fwd_le t i) as Le.
  set (j := step_fwd t i) in *.
  set (j' := if negb (class_at big t i =? 0) && negb (negb (Nat.eqb j (S i)))
             then skip_class_fwd (length t) big t (class_at big t i) j else j).
  assert (B : (j <= j' <= length t)%nat).
  { unfold j'. destruct (negb _ && negb _); [apply skip_class_fwd_bounds; lia|lia]. }
  pose proof (skip_blank_fwd_bounds (length t) big t j' ltac:(lia)). lia.
Qed.

(** where [w] stops there is no blank of a non-empty line: it is the start of a word, an empty line, or the end *)
Lemma skip_blank_fwd_stop f big t : forall i, (length t - i <= f)%nat ->
  let r := skip_blank_fwd f big t i in
  (length t <= r)%nat \/ class_at big t r <> 0 \/ empty_line_at t r = true.
Proof.
  induction f as [|f IH]; intros i Hf; cbn [skip_blank_fwd]; cbv zeta.
  - left. lia.
  - destruct (Nat.ltb_spec i (length t)) as [L|L]; cbn [andb]; [|left; lia].
    destruct (N.eqb_spec (class_at big t i) 0) as [E|E]; cbn [andb]; [|right; left; exact E].
    destruct (empty_line_at t i) eqn:El; cbn [negb]; [right; right; exact El|].
    apply IH. pose proof (step_fwd_gt t i L). lia.
Qed.

Theorem word_fwd1_lands big t i :
  let r := word_fwd1 big t i in
  (length t <= r)%nat \/ class_at big t r <> 0 \/ empty_line_at t r = true.
Proof.
  cbv zeta. unfold word_fwd1. destruct (Nat.leb_spec (length t) i) as [L|L]; [left; lia|].
  apply skip_blank_fwd_stop.
  pose proof (step_fwd_gt t i L). pose proof (step_fwd_le t i).
  destruct (negb _ && negb _); [|lia].
  pose proof (skip_class_fwd_bounds (length t) big t (class_at big t i) (step_fwd t i) ltac:(lia)). lia.
Qed.

(** ** b, ge *)
Lemma skip_blank_bwd_le f big t : forall i j, skip_blank_bwd f big t i = Some j -> (j <= i)%nat.
Proof.
  induction f as [|f IH]; intros i j H; cbn [skip_blank_bwd] in H; [injection H as <-; lia|].
  destruct (class_at big t i =? 0); [|injection H as <-; lia].
  destruct (empty_line_at t i); [injection H as <-; lia|].
  destruct (step_bwd t i) as [k|] eqn:E; [|discriminate].
  apply step_bwd_lt in E. apply IH in H. lia.
Qed.

Lemma to_word_start_le f big t cls : forall i, (to_word_start f big t cls i <= i)%nat.
Proof.
  induction f as [|f IH]; intros i; cbn [to_word_start]; [lia|].
  destruct (step_bwd t i) as [j|] eqn:E; [|lia]. apply step_bwd_lt in E.
  destruct (_ && _ && _); [specialize (IH j); lia|lia].
Qed.

Theorem word_bwd1_back big t i : (0 < i <= length t)%nat -> (word_bwd1 big t i < i)%nat.
Proof.
  intros H. unfold word_bwd1. rewrite Nat.min_l by lia.
  destruct (step_bwd t i) as [j|] eqn:E; [|lia]. apply step_bwd_lt in E.
  destruct (skip_blank_bwd (S (length t)) big t j) as [k|] eqn:E2; [|lia].
  apply skip_blank_bwd_le in E2.
  destruct (empty_line_at t k && (class_at big t k =? 0)); [lia|].
  pose proof (to_word_start_le (length t) big t (class_at big t k) k). lia.
Qed.

Lemma skip_class_bwd_le f big t cls : forall i j, skip_class_bwd f big t cls i = Some j -> (j <= i)%nat.
Proof.
  induction f as [|f IH]; intros i j H; cbn [skip_class_bwd] in H; [injection H as <-; lia|].
  destruct ((class_at big t i =? cls) && negb (empty_line_at t i)); [|injection H as <-; lia].
  destruct (step_bwd t i) as [k|] eqn:E; [|discriminate]. apply step_bwd_lt in E.
  destruct (Nat.eqb (S k) i); [apply IH in H; lia|injection H as <-; lia].
Qed.

Theorem end_bwd1_back big t i : (0 < i <= length t)%nat -> (end_bwd1 big t i < i)%nat.
Proof.
  intros H. unfold end_bwd1. rewrite Nat.min_l by lia.
  destruct (step_bwd t i) as [j|] eqn:E; [|lia]. apply step_bwd_lt in E.
  match goal with |- context [match ?r with Some _ => _ | None => _ end] => destruct r as [k|] eqn:E2 end; [|lia].
  assert (Hk : (k <= j)%nat).
  { destruct (negb _ && negb _); [now apply skip_class_bwd_le in E2|injection E2 as <-; lia]. }
  destruct (skip_blank_bwd (S (length t)) big t k) as [m|] eqn:E3; [|lia].
  apply skip_blank_bwd_le in E3. lia.
Qed.

(** ** lines *)
Lemma line_start_le t : forall i, (line_start_from t i <= i)%nat.
Proof. induction i as [|j IH]; cbn [line_start_from]; [lia|]. destruct (is_nl_at t j); lia. Qed.

Lemma find_nl_bounds t : forall f i, (i <= length t)%nat -> (i <= find_nl t i f <= length t)%nat.
Proof.
  induction f as [|f IH]; intros i Hi; cbn [find_nl]; [lia|].
  destruct (Nat.leb_spec (length t) i); [lia|]. destruct (is_nl_at t i); [lia|].
  specialize (IH (S i) ltac:(lia)). lia.
Qed.
Lemma line_end_bounds t i : (i <= length t)%nat -> (i <= line_end t i <= length t)%nat.
Proof. apply find_nl_bounds. Qed.

(** ** settle *)
Theorem settle_in_text t i : t <> [] -> (settle t i < length t)%nat.
Proof.
  intros H. assert (0 < length t)%nat by (destruct t; [congruence|cbn; lia]).
  unfold settle. destruct (_ && _); lia.
Qed.

Theorem settle_not_on_break t i :
  let r := settle t i in is_nl_at t r = true -> empty_line_at t r = true.
Proof.
  cbv zeta. unfold settle. set (k := Nat.min i (length t - 1)).
  destruct (is_nl_at t k) eqn:E1; cbn [andb].
  - destruct (empty_line_at t k) eqn:E2; cbn [negb]; [auto|].
    intros H. exfalso. unfold empty_line_at in E2. rewrite E1 in E2. cbn [andb] in E2.
    destruct k as [|k']; [discriminate|]. cbn in H. replace (k' - 0)%nat with k' in H by lia.
    congruence.
  - intros H. congruence.
Qed.

(** ** f F t T *)
Lemma find_fwd_spec t c e : forall f i j, find_fwd t c i e f = Some j ->
  (i <= j < e)%nat /\ nth_error t j = Some c.
Proof.
  induction f as [|f IH]; intros i j H; cbn [find_fwd] in H; [discriminate|].
  destruct (Nat.leb_spec e i); [discriminate|].
  destruct (nth_error t i) as [d|] eqn:E; [|discriminate].
  destruct (N.eqb_spec d c) as [->|_].
  - injection H as <-. split; [lia|exact E].
  - apply IH in H. split; [lia|tauto].
Qed.

Lemma find_bwd_spec t c s : forall i j, find_bwd t c s i = Some j ->
  (s <= j < i)%nat /\ nth_error t j = Some c.
Proof.
  induction i as [|k IH]; intros j H; cbn [find_bwd] in H; [discriminate|].
  destruct (Nat.ltb_spec k s); [discriminate|].
  destruct (nth_error t k) as [d|] eqn:E.
  - destruct (N.eqb_spec d c) as [->|_].
    + injection H as <-. split; [lia|exact E].
    + apply IH in H. split; [lia|tauto].
  - apply IH in H. split; [lia|tauto].
Qed.

Lemma nth_occ_fwd_spec t c e : forall count i j, (0 < count)%nat ->
  nth_occ_fwd t c e count i = Some j -> (i < j < e)%nat /\ nth_error t j = Some c.
Proof.
  induction count as [|k IH]; intros i j Hc H; [lia|]. cbn [nth_occ_fwd] in H.
  destruct (find_fwd t c (S i) e (length t)) as [m|] eqn:E; [|discriminate].
  apply find_fwd_spec in E as [B N]. destruct k as [|k'].
  - cbn in H. injection H as <-. split; [lia|exact N].
  - apply IH in H; [|lia]. split; [lia|tauto].
Qed.

Lemma nth_occ_bwd_spec t c s : forall count i j, (0 < count)%nat ->
  nth_occ_bwd t c s count i = Some j -> (s <= j < i)%nat /\ nth_error t j = Some c.
Proof.
  induction count as [|k IH]; intros i j Hc H; [lia|]. cbn [nth_occ_bwd] in H.
  destruct (find_bwd t c s (Nat.min i (line_end t s))) as [m|] eqn:E; [|discriminate].
  apply find_bwd_spec in E as [B N]. destruct k as [|k'].
  - cbn in H. injection H as <-. split; [lia|exact N].
  - apply IH in H; [|lia]. split; [lia|tauto].
Qed.

(** [f] and [F] land on the character they look for, on the cursor's line, or do not move *)
Theorem find_lands t c count i :
  let r := move t (MFind c) count i in
  r = i \/ ((i < r < line_end t i)%nat /\ nth_error t r = Some c).
Proof.
  cbv zeta. cbn [move].
  destruct (nth_occ_fwd t c (line_end t i) (Nat.max count 1) i) as [j|] eqn:E; [|now left].
  right. apply nth_occ_fwd_spec in E; [exact E|lia].
Qed.

Theorem find_back_lands t c count i :
  let r := move t (MFindBack c) count i in
  r = i \/ ((line_start_from t i <= r < i)%nat /\ nth_error t r = Some c).
Proof.
  cbv zeta. cbn [move].
  destruct (nth_occ_bwd t c (line_start_from t i) (Nat.max count 1) i) as [j|] eqn:E; [|now left].
  right. apply nth_occ_bwd_spec in E; [exact E|lia].
Qed.

(** [t] stops just before such a character *)
Theorem till_lands t c count i :
  let r := move t (MTill c) count i in
  r = i \/ ((i <= r)%nat /\ (S r < line_end t i)%nat /\ nth_error t (S r) = Some c).
Proof.
  cbv zeta. cbn [move].
  destruct (nth_occ_fwd t c (line_end t i) (Nat.max count 1) i) as [j|] eqn:E; [|now left].
  right. apply nth_occ_fwd_spec in E as [B N]; [|lia].
  replace (S (j - 1)) with j by lia. split; [lia|]. split; [lia|exact N].
Qed.

(** ** every motion keeps the cursor inside the text *)
Lemma first_nonblank_lt t : forall f i e, (i <= e)%nat -> (0 < e <= length t)%nat -> (e - i < f)%nat ->
  (first_nonblank t i e f < length t)%nat.
Proof.
  induction f as [|f IH]; intros i e Hi He Hf; [lia|]. cbn [first_nonblank].
  destruct (Nat.leb_spec e i).
  - pose proof (line_start_le t (e - 1)). lia.
  - destruct (nth_error t i) as [c|] eqn:E; [|lia].
    destruct ((c =? 32) || (c =? 9)); [|lia].
    apply IH; lia.
Qed.

Theorem move_in_text t m count i : (i < length t)%nat -> (move t m count i < length t)%nat.
Proof.
  intros Hi. assert (Hne : t <> []) by (destruct t; [cbn in Hi; lia|congruence]).
  pose proof (line_start_le t i) as Ls. pose proof (line_end_bounds t i ltac:(lia)) as Le.
  destruct m; cbn [move].
  - lia.
  - lia.
  - lia.
  - destruct (Nat.eqb_spec (line_start_from t i) (line_end t i)); [lia|].
    apply first_nonblank_lt; lia.
  - lia.
  - now apply settle_in_text.
  - assert (G : forall k j, (j < length t)%nat -> (iter k (word_bwd1 big t) j < length t)%nat).
    { induction k as [|k IHk]; intros j Hj; cbn [iter]; [exact Hj|]. apply IHk.
      destruct j as [|j']; [unfold word_bwd1; cbn; lia|].
      pose proof (word_bwd1_back big t (S j') ltac:(lia)). lia. }
    now apply G.
  - now apply settle_in_text.
  - assert (G : forall k j, (j < length t)%nat -> (iter k (end_bwd1 big t) j < length t)%nat).
    { induction k as [|k IHk]; intros j Hj; cbn [iter]; [exact Hj|]. apply IHk.
      destruct j as [|j']; [unfold end_bwd1; cbn; lia|].
      pose proof (end_bwd1_back big t (S j') ltac:(lia)). lia. }
    now apply G.
  - destruct (nth_occ_fwd _ _ _ _ _) as [j|] eqn:E; [|exact Hi].
    apply nth_occ_fwd_spec in E as [B _]; lia.
  - destruct (nth_occ_bwd _ _ _ _ _) as [j|] eqn:E; [|exact Hi].
    apply nth_occ_bwd_spec in E as [B _]; lia.
  - destruct (nth_occ_fwd _ _ _ _ _) as [j|] eqn:E; [|exact Hi].
    apply nth_occ_fwd_spec in E as [B _]; lia.
  - destruct (nth_occ_bwd _ _ _ _ _) as [j|] eqn:E; [|exact Hi].
    apply nth_occ_bwd_spec in E as [B _]; lia.
Qed.
