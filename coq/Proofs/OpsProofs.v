(** The reference operators work on one stretch of the text and on nothing else; what they remove is what the register
    holds; a yank changes nothing; a failed or empty motion is a no-op; [w] under an operator only goes forward. *)
From Vicut Require Import Base.Prelude Model.Motions Model.Ops Proofs.MotionProofs.

(** ** a text is its three parts *)
Lemma skipn_skipn_ops {A} (n : nat) : forall (m : nat) (l : list A), skipn n (skipn m l) = skipn (m + n) l.
Proof.
  induction m as [|m IH]; intros l; [reflexivity|]. destruct l as [|x l]; [now rewrite !skipn_nil|]. cbn. apply IH.
Qed.

Lemma slice_parts (t : text) lo hi : (lo <= hi <= length t)%nat ->
  t = firstn lo t ++ slice t lo hi ++ skipn hi t.
Proof.
  intros H. unfold slice.
  rewrite <- (firstn_skipn lo t) at 1. f_equal.
  rewrite <- (firstn_skipn (hi - lo) (skipn lo t)) at 1. f_equal.
  rewrite skipn_skipn_ops. f_equal. lia.
Qed.

Lemma slice_length (t : text) lo hi : (lo <= hi <= length t)%nat -> length (slice t lo hi) = (hi - lo)%nat.
Proof. intros H. unfold slice. rewrite firstn_length, skipn_length. lia. Qed.

(** the clipped ends of a characterwise range *)
Definition chi (t : text) (hi0 : nat) := Nat.min hi0 (length t).
Definition clo (t : text) (lo0 hi0 : nat) := Nat.min lo0 (chi t hi0).
Lemma clip_ok t lo0 hi0 : (clo t lo0 hi0 <= chi t hi0 <= length t)%nat.
Proof. unfold clo, chi. lia. Qed.

(** ** d: the text before and behind the range stays, the range goes to the register, and putting the register back where
    it came from gives the old text *)
Lemma cut_restore (t : text) lo hi : (lo <= hi <= length t)%nat ->
  firstn lo (cut t lo hi) ++ slice t lo hi ++ skipn lo (cut t lo hi) = t.
Proof.
  intros H. unfold cut.
  assert (Hl : length (firstn lo t) = lo) by (rewrite firstn_length; lia).
  rewrite firstn_app, Hl, Nat.sub_diag, firstn_O, app_nil_r, firstn_firstn, Nat.min_id.
  rewrite skipn_app, Hl, Nat.sub_diag, skipn_O.
  rewrite (skipn_all2 (firstn lo t)) by lia. cbn [app]. symmetry. now apply slice_parts.
Qed.

Theorem delete_char_locality ins s lo0 hi0 :
  let t := o_text s in
  let lo := clo t lo0 hi0 in let hi := chi t hi0 in
  let s' := apply_op OpDelete ins s (RChar lo0 hi0) in
  t = firstn lo t ++ slice t lo hi ++ skipn hi t /\
  o_text s' = firstn lo t ++ skipn hi t /\
  o_reg s' = Some (false, slice t lo hi) /\
  firstn lo (o_text s') ++ slice t lo hi ++ skipn lo (o_text s') = t.
Proof.
  cbv zeta. pose proof (clip_ok (o_text s) lo0 hi0) as C.
  assert (E1 : o_text (apply_op OpDelete ins s (RChar lo0 hi0))
               = cut (o_text s) (clo (o_text s) lo0 hi0) (chi (o_text s) hi0)) by reflexivity.
  assert (E2 : o_reg (apply_op OpDelete ins s (RChar lo0 hi0))
               = Some (false, slice (o_text s) (clo (o_text s) lo0 hi0) (chi (o_text s) hi0))) by reflexivity.
  rewrite E1, E2.
  refine (conj (slice_parts _ _ _ C) (conj eq_refl (conj eq_refl _))).
  now apply cut_restore.
Qed.

(** ** y: nothing changes but the register (and the cursor) *)
Theorem yank_keeps_text ins s r : o_text (apply_op OpYank ins s r) = o_text s.
Proof. destruct r as [|p|lo hi|a b kc]; cbn [apply_op o_text]; reflexivity. Qed.

Theorem yank_char_register ins s lo0 hi0 :
  let t := o_text s in
  o_reg (apply_op OpYank ins s (RChar lo0 hi0)) = Some (false, slice t (clo t lo0 hi0) (chi t hi0)).
Proof. reflexivity. Qed.

(** d and y over the same range fill the register alike *)
Theorem yank_delete_same_register ins s r :
  r <> RNone -> (forall p, r <> RFail p) ->
  o_reg (apply_op OpYank ins s r) = o_reg (apply_op OpDelete ins s r).
Proof.
  intros H1 H2. destruct r as [|p|lo hi|a b kc]; [congruence|exfalso; eapply H2; reflexivity| |]; cbn [apply_op o_reg].
  - reflexivity.
  - destruct (lines_span (o_text s) a b). reflexivity.
Qed.

(** ** c: the typed text takes the place of the range *)
Theorem change_char_locality ins s lo0 hi0 :
  let t := o_text s in
  let lo := clo t lo0 hi0 in let hi := chi t hi0 in
  o_text (apply_op OpChange ins s (RChar lo0 hi0)) = firstn lo t ++ ins ++ skipn hi t /\
  o_reg (apply_op OpChange ins s (RChar lo0 hi0)) = Some (false, slice t lo hi).
Proof. cbv zeta. split; reflexivity. Qed.

(** ** a motion that fails, or covers nothing, leaves text and register alone (c on nothing still opens an insert) *)
Theorem fail_is_noop k ins s p :
  o_text (apply_op k ins s (RFail p)) = o_text s /\ o_reg (apply_op k ins s (RFail p)) = o_reg s.
Proof. split; reflexivity. Qed.
Theorem nothing_is_noop k ins s : k <> OpChange -> apply_op k ins s RNone = s.
Proof. intros H. destruct k; [reflexivity|reflexivity|congruence]. Qed.
Theorem change_nothing_inserts ins s :
  let i := Nat.min (o_cur s) (length (o_text s)) in
  o_text (apply_op OpChange ins s RNone) = firstn i (o_text s) ++ ins ++ skipn i (o_text s)
  /\ o_reg (apply_op OpChange ins s RNone) = o_reg s.
Proof. split; reflexivity. Qed.

(** ** whole lines: dd / yy take the lines with one line break each, and the text keeps what is outside them *)
Theorem delete_lines_locality ins s a b kc :
  let t := o_text s in
  let '(x, y) := lines_span t a b in
  o_text (apply_op OpDelete ins s (RLines a b kc)) = firstn x t ++ skipn y t /\
  o_reg (apply_op OpDelete ins s (RLines a b kc))
  = Some (true, slice t (line_start_from t (Nat.min a (length t))) (line_end t (Nat.min b (length t))) ++ [nl]).
Proof.
  cbv zeta. cbn [apply_op]. destruct (lines_span (o_text s) a b) as [x y]. split; reflexivity.
Qed.

(** ** the cursor after an operator *)
Lemma settle_line_le t p : (settle_line t p <= length t)%nat.
Proof. unfold settle_line. destruct (_ && _); lia. Qed.

Theorem delete_char_cursor ins s lo0 hi0 :
  (o_cur (apply_op OpDelete ins s (RChar lo0 hi0)) <= length (o_text (apply_op OpDelete ins s (RChar lo0 hi0))))%nat.
Proof. cbn [apply_op o_cur o_text]. apply settle_line_le. Qed.
Theorem yank_char_cursor ins s lo0 hi0 :
  (o_cur (apply_op OpYank ins s (RChar lo0 hi0)) <= clo (o_text s) lo0 hi0)%nat.
Proof.
  cbn [apply_op o_cur]. unfold settle_line, clo, chi.
  destruct (_ && _); lia.
Qed.

(** ** [w] under an operator never goes back and never leaves the text *)
Lemma inc_bounds t p : (p <= length t)%nat -> (p <= fst (inc t p) <= length t)%nat.
Proof.
  intros H. unfold inc. pose proof (line_end_bounds t p H) as E.
  destruct (Nat.ltb_spec p (line_end t p)); cbn [fst]; [lia|].
  unfold last_line_at. destruct (Nat.leb_spec (length t) (line_end t p)); cbn [fst]; lia.
Qed.

Lemma fw_skip_word_bounds f big lastc t cls : forall p, (p <= length t)%nat ->
  (p <= fst (fw_skip_word f big lastc t cls p) <= length t)%nat.
Proof.
  induction f as [|f IH]; intros p H; cbn [fw_skip_word fst]; [lia|].
  destruct (class_at big t p =? cls); cbn [fst]; [|lia].
  pose proof (inc_bounds t p H) as B. destruct (inc t p) as [q r]. cbn [fst] in B.
  destruct ((r =? 3) || ((1 <=? r) && lastc)); cbn [fst]; [lia|].
  specialize (IH q ltac:(lia)). lia.
Qed.
Lemma fw_skip_blank_bounds f big ll lastc t : forall p, (p <= length t)%nat ->
  (p <= fst (fw_skip_blank f big ll lastc t p) <= length t)%nat.
Proof.
  induction f as [|f IH]; intros p H; cbn [fw_skip_blank fst]; [lia|].
  destruct (class_at big t p =? 0); cbn [fst]; [|lia].
  destruct (on_empty_line t p); cbn [fst]; [lia|].
  pose proof (inc_bounds t p H) as B. destruct (inc t p) as [q r]. cbn [fst] in B.
  destruct ((r =? 3) || ((1 <=? r) && (ll || lastc))); cbn [fst]; [lia|].
  specialize (IH q ltac:(lia)). lia.
Qed.
Lemma fwd_word_op1_bounds big lastc t p : (p <= length t)%nat ->
  (p <= fst (fwd_word_op1 big lastc t p) <= length t)%nat.
Proof.
  intros H. unfold fwd_word_op1.
  pose proof (inc_bounds t p H) as B. destruct (inc t p) as [p1 r]. cbn [fst] in B.
  destruct ((r =? 3) || ((1 <=? r) && last_line_at t p)); cbn [fst]; [lia|].
  destruct ((1 <=? r) && lastc); cbn [fst]; [lia|].
  destruct (class_at big t p =? 0).
  - pose proof (fw_skip_blank_bounds (S (length t)) big (last_line_at t p) lastc t p1 ltac:(lia)). lia.
  - pose proof (fw_skip_word_bounds (S (length t)) big lastc t (class_at big t p) p1 ltac:(lia)) as W.
    destruct (fw_skip_word (S (length t)) big lastc t (class_at big t p) p1) as [p2 ret]. cbn [fst] in W.
    destruct ret; cbn [fst]; [lia|].
    pose proof (fw_skip_blank_bounds (S (length t)) big (last_line_at t p) lastc t p2 ltac:(lia)). lia.
Qed.
Theorem fwd_word_op_bounds big t : forall count p, (p <= length t)%nat ->
  (p <= fwd_word_op count big t p <= length t)%nat.
Proof.
  induction count as [|k IH]; intros p H; cbn [fwd_word_op]; [lia|].
  pose proof (fwd_word_op1_bounds big (Nat.eqb k 0) t p H) as B.
  destruct (fwd_word_op1 big (Nat.eqb k 0) t p) as [q ret]. cbn [fst] in B.
  destruct ret; [lia|]. specialize (IH q ltac:(lia)). lia.
Qed.

(** an exclusive range is never turned around, and the adjustment for a motion that ends in column one only shortens it *)
Theorem excl_within t lo hi :
  match excl t lo hi with
  | RChar a b => a = lo /\ (lo < b <= hi)%nat
  | RLines a b _ => a = lo /\ (b < hi)%nat
  | RNone => True
  | RFail _ => False
  end.
Proof.
  unfold excl. destruct (Nat.leb_spec hi lo); [exact I|].
  destruct (_ && _ && _).
  - destruct (in_indent t lo); [split; [reflexivity|lia]|].
    destruct (Nat.leb_spec (hi - 1) lo); [exact I|]. split; [reflexivity|lia].
  - split; [reflexivity|lia].
Qed.

(** [dw], [yw]: the text worked on starts at the cursor *)
Theorem word_op_starts_at_cursor k t big count i : k <> OpChange ->
  match op_range k t (MWord big) count i with
  | RChar a _ => a = i
  | RLines a _ _ => a = i
  | RNone => True
  | RFail _ => False
  end.
Proof.
  intros Hk. cbn [op_range].
  assert (E : forall r, match k with OpChange => r | _ => excl t i (fwd_word_op (Nat.max count 1) big t i) end
                        = excl t i (fwd_word_op (Nat.max count 1) big t i)) by (intros r; destruct k; [reflexivity|reflexivity|congruence]).
  rewrite E. pose proof (excl_within t i (fwd_word_op (Nat.max count 1) big t i)) as W.
  destruct (excl t i (fwd_word_op (Nat.max count 1) big t i)); tauto.
Qed.

(** ** p / P *)
Lemma repeat_text_length n (r : text) : length (repeat_text n r) = (n * length r)%nat.
Proof. induction n as [|n IH]; cbn [repeat_text]; [reflexivity|]. rewrite app_length, IH. lia. Qed.

(** a characterwise put inserts the copies of the register in one place and touches nothing else; the register stays *)
Theorem put_char_locality after count s r :
  o_reg s = Some (false, r) -> r <> [] ->
  exists at_, (at_ <= length (o_text s))%nat /\
    o_text (put after count s) = firstn at_ (o_text s) ++ repeat_text (Nat.max count 1) r ++ skipn at_ (o_text s) /\
    o_reg (put after count s) = o_reg s.
Proof.
  intros Hr Hne. unfold put. rewrite Hr.
  destruct (Nat.eqb_spec (length r) 0) as [E|_]; [destruct r; [congruence|discriminate]|].
  set (i := Nat.min (o_cur s) (length (o_text s))).
  pose proof (line_end_bounds (o_text s) i ltac:(unfold i; lia)) as B.
  set (at_ := if after && negb (Nat.eqb i (line_end (o_text s) i)) then S i else i).
  exists at_. cbn [o_text o_reg]. split; [|split; reflexivity].
  unfold at_. destruct after; cbn [andb]; [|unfold i; lia].
  destruct (Nat.eqb_spec i (line_end (o_text s) i)); cbn [negb]; lia.
Qed.

(** whole lines are put between lines: the text before and behind the place is untouched *)
Theorem put_lines_locality after count s r :
  o_reg s = Some (true, r) ->
  let t := o_text s in
  let i := Nat.min (o_cur s) (length t) in
  let ins := repeat_text (Nat.max count 1) r in
  let body := firstn (length ins - 1) ins in
  o_text (put after count s)
  = (if after then firstn (line_end t i) t ++ [nl] ++ body ++ skipn (line_end t i) t
     else firstn (line_start_from t i) t ++ body ++ [nl] ++ skipn (line_start_from t i) t).
Proof. intros Hr. cbv zeta. unfold put. rewrite Hr. destruct after; reflexivity. Qed.

(** nothing in the register: nothing happens *)
Theorem put_nothing after count s : o_reg s = None -> put after count s = s.
Proof. intros H. unfold put. now rewrite H. Qed.

(** what [d] took goes back where it was with [P], when the cursor is still where the text was taken *)
Theorem delete_then_put_restores ins s lo0 hi0 :
  let t := o_text s in
  let s' := apply_op OpDelete ins s (RChar lo0 hi0) in
  (clo t lo0 hi0 < chi t hi0)%nat -> o_cur s' = clo t lo0 hi0 ->
  o_text (put false 1 s') = t.
Proof.
  cbv zeta. intros Hlt Hc. pose proof (clip_ok (o_text s) lo0 hi0) as C.
  set (t := o_text s) in *. set (lo := clo t lo0 hi0) in *. set (hi := chi t hi0) in *.
  assert (E1 : o_text (apply_op OpDelete ins s (RChar lo0 hi0)) = cut t lo hi) by reflexivity.
  assert (E2 : o_reg (apply_op OpDelete ins s (RChar lo0 hi0)) = Some (false, slice t lo hi)) by reflexivity.
  unfold put. rewrite E2, Hc, E1.
  assert (Hl : length (slice t lo hi) = (hi - lo)%nat) by (apply slice_length; lia).
  destruct (Nat.eqb_spec (length (slice t lo hi)) 0) as [Z|_]; [lia|].
  cbn [andb o_text Nat.max repeat_text]. rewrite app_nil_r.
  assert (Hlen : length (cut t lo hi) = (length t - (hi - lo))%nat).
  { unfold cut. rewrite app_length, firstn_length, skipn_length. lia. }
  rewrite (Nat.min_l lo) by lia.
  now apply cut_restore.
Qed.

(** ** the cursor the operators leave is a normal-mode cursor: in the text, and behind the last character of a line only
    when that line is empty *)
Lemma line_start_no_nl t : forall i j, (line_start_from t i <= j < i)%nat -> is_nl_at t j = false.
Proof.
  induction i as [|k IH]; intros j H; [lia|]. cbn [line_start_from] in H.
  destruct (is_nl_at t k) eqn:E; [lia|].
  destruct (Nat.eq_dec j k) as [->|N]; [exact E|]. apply IH. lia.
Qed.

Lemma find_nl_fix t : forall f i, (i < length t)%nat -> (0 < f)%nat -> is_nl_at t i = false -> find_nl t i f <> i \/ f = 1%nat.
Proof.
  intros f i Hi Hf Hn. destruct f as [|f]; [lia|]. cbn [find_nl].
  destruct (Nat.leb_spec (length t) i); [lia|]. rewrite Hn.
  destruct f as [|f]; [right; reflexivity|]. left.
  pose proof (find_nl_bounds t (S f) (S i) ltac:(lia)). lia.
Qed.

Lemma line_end_on_char t q : (q < length t)%nat -> is_nl_at t q = false -> line_end t q <> q.
Proof.
  intros Hq Hn. unfold line_end.
  destruct (find_nl_fix t (S (length t)) q Hq ltac:(lia) Hn) as [H|H]; [exact H|]. lia.
Qed.

Theorem settle_line_settled t p :
  let q := settle_line t p in
  (q <= length t)%nat /\ (q = line_end t q -> line_start_from t q = q).
Proof.
  cbv zeta. split; [apply settle_line_le|].
  unfold settle_line. set (p' := Nat.min p (length t)).
  destruct (Nat.eqb_spec p' (line_end t p')) as [E|E]; cbn [andb].
  - destruct (Nat.ltb_spec (line_start_from t p') p') as [L|L].
    + (* stepped back onto the last character of a non-empty line *)
      intros Hq. exfalso.
      assert (Hn : is_nl_at t (p' - 1) = false) by (apply (line_start_no_nl t p'); lia).
      apply (line_end_on_char t (p' - 1)); [unfold p' in *; lia|exact Hn|symmetry; exact Hq].
    + intros _. pose proof (line_start_le t p'). lia.
  - intros Hq. congruence.
Qed.

(** after d with a characterwise range: such a cursor *)
Theorem delete_char_cursor_settled ins s lo0 hi0 :
  let s' := apply_op OpDelete ins s (RChar lo0 hi0) in
  (o_cur s' <= length (o_text s'))%nat /\
  (o_cur s' = line_end (o_text s') (o_cur s') -> line_start_from (o_text s') (o_cur s') = o_cur s').
Proof. cbv zeta. cbn [apply_op o_cur o_text]. apply settle_line_settled. Qed.

(** ** word text objects: the object starts at or before the cursor *)
Lemma back_in_line_le f big t cls : forall p, (back_in_line f big t cls p <= p)%nat.
Proof.
  induction f as [|f IH]; intros p; cbn [back_in_line]; [lia|].
  destruct (Nat.eqb p (line_start_from t p)); [lia|].
  destruct p as [|q]; [lia|]. destruct (class_at big t q =? cls); [specialize (IH q); lia|lia].
Qed.

Lemma incl_start t lo hi : match incl t lo hi with RChar a _ => a = lo | RNone => True | _ => False end.
Proof. unfold incl. destruct (Nat.leb _ lo); [exact I|reflexivity]. Qed.

Theorem word_object_starts_before_cursor big include t i :
  match word_object big include t i with
  | RChar a _ => (a <= i)%nat
  | RLines _ _ _ => False
  | _ => True
  end.
Proof.
  unfold word_object.
  set (start := back_in_line (S (length t)) big t (class_at big t i) i).
  assert (Hs : (start <= i)%nat) by apply back_in_line_le.
  destruct (Bool.eqb (class_at big t start =? 0) include).
  - destruct (end_word_obj big t start) as [e failed]. destruct failed; [exact I|].
    pose proof (incl_start t start e) as H. destruct (incl t start e); try tauto. lia.
  - set (e := Nat.max _ start).
    destruct (include && negb (class_at big t e =? 0)).
    + set (start' := if Nat.ltb (line_start_from t start) start then _ else start).
      assert (Hs' : (start' <= start)%nat).
      { unfold start'. destruct (Nat.ltb (line_start_from t start) start); [|lia].
        cbv zeta.
        pose proof (back_in_line_le (S (length t)) big t (class_at big t (start - 1)) (start - 1)) as B.
        set (b := back_in_line (S (length t)) big t (class_at big t (start - 1)) (start - 1)) in *.
        destruct ((class_at big t b =? 0) && Nat.ltb (line_start_from t b) b); lia. }
      pose proof (incl_start t start' e) as H. destruct (incl t start' e); try tauto. lia.
    + pose proof (incl_start t start e) as H. destruct (incl t start e); try tauto. lia.
Qed.

(** ** operators over the line motions j k G gg: whole lines, the cursor's line among them, and the cursor's line is the
    first or the last of them *)
Lemma line_start_is_break t : forall x, line_start_from t x = 0%nat \/ is_nl_at t (line_start_from t x - 1) = true.
Proof.
  induction x as [|k IH]; [left; reflexivity|]. cbn [line_start_from].
  destruct (is_nl_at t k) eqn:E; [|exact IH].
  right. replace (S k - 1)%nat with k by lia. exact E.
Qed.

Lemma later_line_start t i x : (line_start_from t i < line_start_from t x)%nat -> (i < line_start_from t x)%nat.
Proof.
  intros H. destruct (line_start_is_break t x) as [Z|B]; [lia|].
  destruct (Nat.lt_ge_cases i (line_start_from t x)) as [L|G]; [exact L|].
  assert (Hn : is_nl_at t (line_start_from t x - 1) = false) by (apply (line_start_no_nl t i); lia).
  congruence.
Qed.

Lemma nth_line_end_ge t : forall k p, (p <= length t)%nat -> (p <= nth_line_end t p k <= length t)%nat.
Proof.
  induction k as [|k IH]; intros p Hp; cbn [nth_line_end]; pose proof (line_end_bounds t p Hp) as Hb; [exact Hb|].
  destruct (Nat.ltb_spec (line_end t p) (length t)) as [L|L]; [|exact Hb].
  pose proof (IH (S (line_end t p)) ltac:(lia)). lia.
Qed.

Lemma up_lines_le t : forall k p, (up_lines t p k <= line_start_from t p)%nat.
Proof.
  induction k as [|k IH]; intros p; cbn [up_lines]; [lia|].
  destruct (Nat.eqb_spec (line_start_from t p) 0); [lia|].
  pose proof (IH (line_start_from t p - 1)%nat). pose proof (line_start_le t (line_start_from t p - 1)). lia.
Qed.

Lemma at_col_le t a col : (at_col t a col <= a + col)%nat.
Proof. unfold at_col. lia. Qed.

Theorem line_motion_covers_cursor t m count i : (i <= length t)%nat ->
  match v_range t m count i with
  | RFail p => p = i
  | RLines a b _ => (a <= i <= b)%nat /\ (a = i \/ b = i)
  | _ => False
  end.
Proof.
  intros Hi. pose proof (line_start_le t i) as Hs.
  assert (Hbetween : forall x,
    match (if Nat.leb (line_start_from t x) (line_start_from t i)
           then RLines (at_col t (line_start_from t x) (i - line_start_from t i)) i true
           else RLines i (line_start_from t x) true) with
    | RFail p => p = i
    | RLines a b _ => (a <= i <= b)%nat /\ (a = i \/ b = i)
    | _ => False
    end).
  { intros x. destruct (Nat.leb_spec (line_start_from t x) (line_start_from t i)) as [L|L].
    - pose proof (at_col_le t (line_start_from t x) (i - line_start_from t i)). split; [lia|right; reflexivity].
    - pose proof (later_line_start t i x L). split; [lia|left; reflexivity]. }
  unfold v_range. cbv zeta. destruct m.
  - destruct (last_line_at t i); [reflexivity|].
    pose proof (nth_line_end_ge t (match count with Some c => Nat.max c 1 | None => 1 end) i Hi). split; [lia|left; reflexivity].
  - destruct (Nat.eqb_spec (line_start_from t i) 0) as [Z|Z]; [reflexivity|].
    pose proof (up_lines_le t (match count with Some c => Nat.max c 1 | None => 1 end) i).
    pose proof (at_col_le t (up_lines t i (match count with Some c => Nat.max c 1 | None => 1 end)) (i - line_start_from t i)).
    split; [lia|right; reflexivity].
  - destruct count as [c|]; [apply (Hbetween (nth_line_end t 0 (Nat.max c 1 - 1)))|apply (Hbetween (length t))].
  - destruct count as [c|]; [apply (Hbetween (nth_line_end t 0 (Nat.max c 1 - 1)))|].
    change 0%nat with (line_start_from t 0). apply (Hbetween 0%nat).
Qed.

(** d over a line motion that does not fail: the text loses whole lines - a span that starts at a line start (or with the
    break before the last lines) - and nothing else; the register holds them as lines *)
Theorem delete_line_motion_locality ins t m count i a b kc :
  v_range t m count i = RLines a b kc ->
  let '(x, y) := lines_span t a b in
  o_text (run_op_v OpDelete ins t m count i) = firstn x t ++ skipn y t /\
  o_reg (run_op_v OpDelete ins t m count i)
  = Some (true, slice t (line_start_from t (Nat.min a (length t))) (line_end t (Nat.min b (length t))) ++ [nl]).
Proof.
  intros H. unfold run_op_v. rewrite H. exact (delete_lines_locality ins (mkO t i None) a b kc).
Qed.

(** a failing line motion (j on the last line, k on the first) changes nothing *)
Theorem line_motion_fail_is_noop k ins t m count i p :
  v_range t m count i = RFail p ->
  o_text (run_op_v k ins t m count i) = t /\ o_cur (run_op_v k ins t m count i) = i /\ o_reg (run_op_v k ins t m count i) = None.
Proof.
  intros H. unfold run_op_v.
  assert (p = i).
  { destruct m; unfold v_range in H; cbv zeta in H.
    - destruct (last_line_at t i); congruence.
    - destruct (Nat.eqb (line_start_from t i) 0); congruence.
    - destruct count; destruct (Nat.leb _ _); discriminate.
    - destruct count; destruct (Nat.leb _ _); discriminate. }
  subst p. rewrite H. cbn [apply_op o_text o_cur o_reg]. repeat split.
Qed.
