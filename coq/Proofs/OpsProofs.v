(** The reference operators work on one stretch of the text and on nothing else; what they remove is what the register
    holds; a yank changes nothing; a failed or empty motion is a no-op; [w] under an operator only goes forward. *)
From Vicut Require Import Base.Prelude Model.Motions Model.Ops Proofs.MotionProofs.

(** ** a text is its three parts *)
Lemma skipn_skipn_ops {A} (n : nat) : forall (m : nat) (l : list A), skipn n (skipn m l) = skipn (m + n) l.
Proof.
  induction m as [|m IH]; intros l; [reflexivity|]. destruct l as [|x l]; [now rewrite !skipn_nil|]. cbn. apply IH.
Qed.

Lemma slice_parts (t : text) lo hi : (lo <= hi <= length t)%nat ->
  t = firstn lo t ++ slice t lo hi ++ skipn hi t.
Proof.
  intros H. unfold slice.
  rewrite <- (firstn_skipn lo t) at 1. f_equal.
  rewrite <- (firstn_skipn (hi - lo) (skipn lo t)) at 1. f_equal.
  rewrite skipn_skipn_ops. f_equal. lia.
Qed.

Lemma slice_length (t : text) lo hi : (lo <= hi <= length t)%nat -> length (slice t lo hi) = (hi - lo)%nat.
Proof. intros H. unfold slice. rewrite firstn_length, skipn_length. lia. Qed.

(** the clipped ends of a characterwise range *)
Definition chi (t : text) (hi0 : nat) := Nat.min hi0 (length t).
Definition clo (t : text) (lo0 hi0 : nat) := Nat.min lo0 (chi t hi0).
Lemma clip_ok t lo0 hi0 : (clo t lo0 hi0 <= chi t hi0 <= length t)%nat.
Proof. unfold clo, chi. lia. Qed.

(** ** d: the text before and behind the range stays, the range goes to the register, and putting the register back where
    it came from gives the old text *)
Lemma cut_restore (t : text) lo hi : (lo <= hi <= length t)%nat ->
  firstn lo (cut t lo hi) ++ slice t lo hi ++ skipn lo (cut t lo hi) = t.
Proof.
  intros H. unfold cut.
  assert (Hl : length (firstn lo t) = lo) by (rewrite firstn_length; lia).
  rewrite firstn_app, Hl, Nat.sub_diag, firstn_O, app_nil_r, firstn_firstn, Nat.min_id.
  rewrite skipn_app, Hl, Nat.sub_diag, skipn_O.
  rewrite (skipn_all2 (firstn lo t)) by lia. cbn [app]. symmetry. now apply slice_parts.
Qed.

Theorem delete_char_locality ins s lo0 hi0 :
  let t := o_text s in
  let lo := clo t lo0 hi0 in let hi := chi t hi0 in
  let s' := apply_op OpDelete ins s (RChar lo0 hi0) in
  t = firstn lo t ++ slice t lo hi ++ skipn hi t /\
  o_text s' = firstn lo t ++ skipn hi t /\
  o_reg s' = Some (false, slice t lo hi) /\
  firstn lo (o_text s') ++ slice t lo hi ++ skipn lo (o_text s') = t.
Proof.
  cbv zeta. pose proof (clip_ok (o_text s) lo0 hi0) as C.
  assert (E1 : o_text (apply_op OpDelete ins s (RChar lo0 hi0))
               = cut (o_text s) (clo (o_text s) lo0 hi0) (chi (o_text s) hi0)) by reflexivity.
  assert (E2 : o_reg (apply_op OpDelete ins s (RChar lo0 hi0))
               = Some (false, slice (o_text s) (clo (o_text s) lo0 hi0) (chi (o_text s) hi0))) by reflexivity.
  rewrite E1, E2.
  refine (conj (slice_parts _ _ _ C) (conj eq_refl (conj eq_refl _))).
  now apply cut_restore.
Qed.

(** ** y: nothing changes but the register (and the cursor) *)
Theorem yank_keeps_text ins s r : o_text (apply_op OpYank ins s r) = o_text s.
Proof. destruct r as [|p|lo hi|a b kc]; cbn [apply_op o_text]; reflexivity. Qed.

Theorem yank_char_register ins s lo0 hi0 :
  let t := o_text s in
  o_reg (apply_op OpYank ins s (RChar lo0 hi0)) = Some (false, slice t (clo t lo0 hi0) (chi t hi0)).
Proof. reflexivity. Qed.

(** d and y over the same range fill the register alike *)
Theorem yank_delete_same_register ins s r :
  r <> RNone -> (forall p, r <> RFail p) ->
  o_reg (apply_op OpYank ins s r) = o_reg (apply_op OpDelete ins s r).
Proof.
  intros H1 H2. destruct r as [|p|lo hi|a b kc]; [congruence|exfalso; eapply H2; reflexivity| |]; cbn [apply_op o_reg].
  - reflexivity.
  - destruct (lines_span (o_text s) a b). reflexivity.
Qed.

(** ** c: the typed text takes the place of the range *)
Theorem change_char_locality ins s lo0 hi0 :
  let t := o_text s in
  let lo := clo t lo0 hi0 in let hi := chi t hi0 in
  o_text (apply_op OpChange ins s (RChar lo0 hi0)) = firstn lo t ++ ins ++ skipn hi t /\
  o_reg (apply_op OpChange ins s (RChar lo0 hi0)) = Some (false, slice t lo hi).
Proof. cbv zeta. split; reflexivity. Qed.

(** ** a motion that fails, or covers nothing, leaves text and register alone (c on nothing still opens an insert) *)
Theorem fail_is_noop k ins s p :
  o_text (apply_op k ins s (RFail p)) = o_text s /\ o_reg (apply_op k ins s (RFail p)) = o_reg s.
Proof. split; reflexivity. Qed.
Theorem nothing_is_noop k ins s : k <> OpChange -> apply_op k ins s RNone = s.
Proof. intros H. destruct k; [reflexivity|reflexivity|congruence]. Qed.
Theorem change_nothing_inserts ins s :
  let i := Nat.min (o_cur s) (length (o_text s)) in
  o_text (apply_op OpChange ins s RNone) = firstn i (o_text s) ++ ins ++ skipn i (o_text s)
  /\ o_reg (apply_op OpChange ins s RNone) = o_reg s.
Proof. split; reflexivity. Qed.

(** ** whole lines: dd / yy take the lines with one line break each, and the text keeps what is outside them *)
Theorem delete_lines_locality ins s a b kc :
  let t := o_text s in
  let '(x, y) := lines_span t a b in
  o_text (apply_op OpDelete ins s (RLines a b kc)) = firstn x t ++ skipn y t /\
  o_reg (apply_op OpDelete ins s (RLines a b kc))
  = Some (true, slice t (line_start_from t (Nat.min a (length t))) (line_end t (Nat.min b (length t))) ++ [nl]).
Proof.
  cbv zeta. cbn [apply_op]. destruct (lines_span (o_text s) a b) as [x y]. split; reflexivity.
Qed.

(** ** the cursor after an operator *)
Lemma settle_line_le t p : (settle_line t p <= length t)%nat.
Proof. unfold settle_line. destruct (_ && _); lia. Qed.

Theorem delete_char_cursor ins s lo0 hi0 :
  (o_cur (apply_op OpDelete ins s (RChar lo0 hi0)) <= length (o_text (apply_op OpDelete ins s (RChar lo0 hi0))))%nat.
Proof. cbn [apply_op o_cur o_text]. apply settle_line_le. Qed.
Theorem yank_char_cursor ins s lo0 hi0 :
  (o_cur (apply_op OpYank ins s (RChar lo0 hi0)) <= clo (o_text s) lo0 hi0)%nat.
Proof.
  cbn [apply_op o_cur]. unfold settle_line, clo, chi.
  destruct (_ && _); lia.
Qed.

(** ** [w] under an operator never goes back and never leaves the text *)
Lemma inc_bounds t p : (p <= length t)%nat -> (p <= fst (inc t p) <= length t)%nat.
Proof.
  intros H. unfold inc. pose proof (line_end_bounds t p H) as E.
  destruct (Nat.ltb_spec p (line_end t p)); cbn [fst]; [lia|].
  unfold last_line_at. destruct (Nat.leb_spec (length t) (line_end t p)); cbn [fst]; lia.
Qed.

Lemma fw_skip_word_bounds f big lastc t cls : forall p, (p <= length t)%nat ->
  (p <= fst (fw_skip_word f big lastc t cls p) <= length t)%nat.
Proof.
  induction f as [|f IH]; intros p H; cbn [fw_skip_word fst]; [lia|].
  destruct (class_at big t p =? cls); cbn [fst]; [|lia].
  pose proof (inc_bounds t p H) as B. destruct (inc t p) as [q r]. cbn [fst] in B.
  destruct ((r =? 3) || ((1 <=? r) && lastc)); cbn [fst]; [lia|].
  specialize (IH q ltac:(lia)). lia.
Qed.
Lemma fw_skip_blank_bounds f big ll lastc t : forall p, (p <= length t)%nat ->
  (p <= fst (fw_skip_blank f big ll lastc t p) <= length t)%nat.
Proof.
  induction f as [|f IH]; intros p H; cbn [fw_skip_blank fst]; [lia|].
  destruct (class_at big t p =? 0); cbn [fst]; [|lia].
  destruct (on_empty_line t p); cbn [fst]; [lia|].
  pose proof (inc_bounds t p H) as B. destruct (inc t p) as [q r]. cbn [fst] in B.
  destruct ((r =? 3) || ((1 <=? r) && (ll || lastc))); cbn [fst]; [lia|].
  specialize (IH q ltac:(lia)). lia.
Qed.
Lemma fwd_word_op1_bounds big lastc t p : (p <= length t)%nat ->
  (p <= fst (fwd_word_op1 big lastc t p) <= length t)%nat.
Proof.
  intros H. unfold fwd_word_op1.
  pose proof (inc_bounds t p H) as B. destruct (inc t p) as [p1 r]. cbn [fst] in B.
  destruct ((r =? 3) || ((1 <=? r) && last_line_at t p)); cbn [fst]; [lia|].
  destruct ((1 <=? r) && lastc); cbn [fst]; [lia|].
  destruct (class_at big t p =? 0).
  - pose proof (fw_skip_blank_bounds (S (length t)) big (last_line_at t p) lastc t p1 ltac:(lia)). lia.
  - pose proof (fw_skip_word_bounds (S (length t)) big lastc t (class_at big t p) p1 ltac:(lia)) as W.
    destruct (fw_skip_word (S (length t)) big lastc t (class_at big t p) p1) as [p2 ret]. cbn [fst] in W.
    destruct ret; cbn [fst]; [lia|].
    pose proof (fw_skip_blank_bounds (S (length t)) big (last_line_at t p) lastc t p2 ltac:(lia)). lia.
Qed.
Theorem fwd_word_op_bounds big t : forall count p, (p <= length t)%nat ->
  (p <= fwd_word_op count big t p <= length t)%nat.
Proof.
  induction count as [|k IH]; intros p H; cbn [fwd_word_op]; [lia|].
  pose proof (fwd_word_op1_bounds big (Nat.eqb k 0) t p H) as B.
  destruct (fwd_word_op1 big (Nat.eqb k 0) t p) as [q ret]. cbn [fst] in B.
  destruct ret; [lia|]. specialize (IH q ltac:(lia)). lia.
Qed.

(** an exclusive range is never turned around, and the adjustment for a motion that ends in column one only shortens it *)
Theorem excl_within t lo hi :
  match excl t lo hi with
  | RChar a b => a = lo /\ (lo < b <= hi)%nat
  | RLines a b _ => a = lo /\ (b < hi)%nat
  | RNone => True
  | RFail _ => False
  end.
Proof.
  unfold excl. destruct (Nat.leb_spec hi lo); [exact I|].
  destruct (_ && _ && _).
  - destruct (in_indent t lo); [split; [reflexivity|lia]|].
    destruct (Nat.leb_spec (hi - 1) lo); [exact I|]. split; [reflexivity|lia].
  - split; [reflexivity|lia].
Qed.

(** [dw], [yw]: the text worked on starts at the cursor *)
Theorem word_op_starts_at_cursor k t big count i : k <> OpChange ->
  match op_range k t (MWord big) count i with
  | RChar a _ => a = i
  | RLines a _ _ => a = i
  | RNone => True
  | RFail _ => False
  end.
Proof.
  intros Hk. cbn [op_range].
  assert (E : forall r, match k with OpChange => r | _ => excl t i (fwd_word_op (Nat.max count 1) big t i) end
                        = excl t i (fwd_word_op (Nat.max count 1) big t i)) by (intros r; destruct k; [reflexivity|reflexivity|congruence]).
  rewrite E. pose proof (excl_within t i (fwd_word_op (Nat.max count 1) big t i)) as W.
  destruct (excl t i (fwd_word_op (Nat.max count 1) big t i)); tauto.
Qed.

(** ** p / P *)
Lemma repeat_text_length n (r : text) : length (repeat_text n r) = (n * length r)%nat.
Proof. induction n as [|n IH]; cbn [repeat_text]; [reflexivity|]. rewrite app_length, IH. lia. Qed.

(** a characterwise put inserts the copies of the register in one place and touches nothing else; the register stays *)
Theorem put_char_locality after count s r :
  o_reg s = Some (false, r) -> r <> [] ->
  exists at_, (at_ <= length (o_text s))%nat /\
    o_text (put after count s) = firstn at_ (o_text s) ++ repeat_text (Nat.max count 1) r ++ skipn at_ (o_text s) /\
    o_reg (put after count s) = o_reg s.
Proof.
  intros Hr Hne. unfold put. rewrite Hr.
  destruct (Nat.eqb_spec (length r) 0) as [E|_]; [destruct r; [congruence|discriminate]|].
  set (i := Nat.min (o_cur s) (length (o_text s))).
  pose proof (line_end_bounds (o_text s) i ltac:(unfold i; lia)) as B.
  set (at_ := if after && negb (Nat.eqb i (line_end (o_text s) i)) then S i else i).
  exists at_. cbn [o_text o_reg]. split; [|split; reflexivity].
  unfold at_. destruct after; cbn [andb]; [|unfold i; lia].
  destruct (Nat.eqb_spec i (line_end (o_text s) i)); cbn [negb]; lia.
Qed.

(** whole lines are put between lines: the text before and behind the place is untouched *)
Theorem put_lines_locality after count s r :
  o_reg s = Some (true, r) ->
  let t := o_text s in
  let i := Nat.min (o_cur s) (length t) in
  let ins := repeat_text (Nat.max count 1) r in
  let body := firstn (length ins - 1) ins in
  o_text (put after count s)
  = (if after then firstn (line_end t i) t ++ [nl] ++ body ++ skipn (line_end t i) t
     else firstn (line_start_from t i) t ++ body ++ [nl] ++ skipn (line_start_from t i) t).
Proof. intros Hr. cbv zeta. unfold put. rewrite Hr. destruct after; reflexivity. Qed.

(** nothing in the register: nothing happens *)
Theorem put_nothing after count s : o_reg s = None -> put after count s = s.
Proof. intros H. unfold put. now rewrite H. Qed.

(** what [d] took goes back where it was with [P], when the cursor is still where the text was taken *)
Theorem delete_then_put_restores ins s lo0 hi0 :
  let t := o_text s in
  let s' := apply_op OpDelete ins s (RChar lo0 hi0) in
  (clo t lo0 hi0 < chi t hi0)%nat -> o_cur s' = clo t lo0 hi0 ->
  o_text (put false 1 s') = t.
Proof.
  cbv zeta. intros Hlt Hc. pose proof (clip_ok (o_text s) lo0 hi0) as C.
  set (t := o_text s) in *. set (lo := clo t lo0 hi0) in *. set (hi := chi t hi0) in *.
  assert (E1 : o_text (apply_op OpDelete ins s (RChar lo0 hi0)) = cut t lo hi) by reflexivity.
  assert (E2 : o_reg (apply_op OpDelete ins s (RChar lo0 hi0)) = Some (false, slice t lo hi)) by reflexivity.
  unfold put. rewrite E2, Hc, E1.
  assert (Hl : length (slice t lo hi) = (hi - lo)%nat) by (apply slice_length; lia).
  destruct (Nat.eqb_spec (length (slice t lo hi)) 0) as [Z|_]; [lia|].
  cbn [andb o_text Nat.max repeat_text]. rewrite app_nil_r.
  assert (Hlen : length (cut t lo hi) = (length t - (hi - lo))%nat).
  { unfold cut. rewrite app_length, firstn_length, skipn_length. lia. }
  rewrite (Nat.min_l lo) by lia.
  now apply cut_restore.
Qed.

(** ** the cursor the operators leave is a normal-mode cursor: in the text, and behind the last character of a line only
    when that line is empty *)
Lemma line_start_no_nl t : forall i j, (line_start_from t i <= j < i)%nat -> is_nl_at t j = false.
Proof.
  induction i as [|k IH]; intros j H; [lia|]. cbn [line_start_from] in H.
  destruct (is_nl_at t k) eqn:E; [lia|].
  destruct (Nat.eq_dec j k) as [->|N]; [exact E|]. apply IH. lia.
Qed.

Lemma find_nl_fix t : forall f i, (i < length t)%nat -> (0 < f)%nat -> is_nl_at t i = false -> find_nl t i f <> i \/ f = 1%nat.
Proof.
  intros f i Hi Hf Hn. destruct f as [|f]; [lia|]. cbn [find_nl].
  destruct (Nat.leb_spec (length t) i); [lia|]. rewrite Hn.
  destruct f as [|f]; [right; reflexivity|]. left.
  pose proof (find_nl_bounds t (S f) (S i) ltac:(lia)). lia.
Qed.

Lemma line_end_on_char t q : (q < length t)%nat -> is_nl_at t q = false -> line_end t q <> q.
Proof.
  intros Hq Hn. unfold line_end.
  destruct (find_nl_fix t (S (length t)) q Hq ltac:(lia) Hn) as [H|H]; [exact H|]. lia.
Qed.

Theorem settle_line_settled t p :
  let q := settle_line t p in
  (q <= length t)%nat /\ (q = line_end t q -> line_start_from t q = q).
Proof.
  cbv zeta. split; [apply settle_line_le|].
  unfold settle_line. set (p' := Nat.min p (length t)).
  destruct (Nat.eqb_spec p' (line_end t p')) as [E|E]; cbn [andb].
  - destruct (Nat.ltb_spec (line_start_from t p') p') as [L|L].
    + (* stepped back onto the last character of a non-empty line *)
      intros Hq. exfalso.
      assert (Hn : is_nl_at t (p' - 1) = false) by (apply (line_start_no_nl t p'); lia).
      apply (line_end_on_char t (p' - 1)); [unfold p' in *; lia|exact Hn|symmetry; exact Hq].
    + intros _. pose proof (line_start_le t p'). lia.
  - intros Hq. congruence.
Qed.

(** after d with a characterwise range: such a cursor *)
Theorem delete_char_cursor_settled ins s lo0 hi0 :
  let s' := apply_op OpDelete ins s (RChar lo0 hi0) in
  (o_cur s' <= length (o_text s'))%nat /\
  (o_cur s' = line_end (o_text s') (o_cur s') -> line_start_from (o_text s') (o_cur s') = o_cur s').
Proof. cbv zeta. cbn [apply_op o_cur o_text]. apply settle_line_settled. Qed.

(** ** word text objects: the object starts at or before the cursor *)
Lemma back_in_line_le f big t cls : forall p, (back_in_line f big t cls p <= p)%nat.
Proof.
  induction f as [|f IH]; intros p; cbn [back_in_line]; [lia|].
  destruct (Nat.eqb p (line_start_from t p)); [lia|].
  destruct p as [|q]; [lia|]. destruct (class_at big t q =? cls); [specialize (IH q); lia|lia].
Qed.

Lemma incl_start t lo hi : match incl t lo hi with RChar a _ => a = lo | RNone => True | _ => False end.
Proof. unfold incl. destruct (Nat.leb _ lo); [exact I|reflexivity]. Qed.

Theorem word_object_starts_before_cursor big include t i :
  match word_object big include t i with
  | RChar a _ => (a <= i)%nat
  | RLines _ _ _ => False
  | _ => True
  end.
Proof.
  unfold word_object.
  set (start := back_in_line (S (length t)) big t (class_at big t i) i).
  assert (Hs : (start <= i)%nat) by apply back_in_line_le.
  destruct (Bool.eqb (class_at big t start =? 0) include).
  - destruct (end_word_obj big t start) as [e failed]. destruct failed; [exact I|].
    pose proof (incl_start t start e) as H. destruct (incl t start e); try tauto. lia.
  - set (e := Nat.max _ start).
    destruct (include && negb (class_at big t e =? 0)).
    + set (start' := if Nat.ltb (line_start_from t start) start then _ else start).
      assert (Hs' : (start' <= start)%nat).
      { unfold start'. destruct (Nat.ltb (line_start_from t start) start); [|lia].
        cbv zeta.
        pose proof (back_in_line_le (S (length t)) big t (class_at big t (start - 1)) (start - 1)) as B.
        set (b := back_in_line (S (length t)) big t (class_at big t (start - 1)) (start - 1)) in *.
        destruct ((class_at big t b =? 0) && Nat.ltb (line_start_from t b) b); lia. }
      pose proof (incl_start t start' e) as H. destruct (incl t start' e); try tauto. lia.
    + pose proof (incl_start t start e) as H. destruct (incl t start e); try tauto. lia.
Qed.

(** ** operators over the line motions j k G gg: whole lines, the cursor's line among them, and the cursor's line is the
    first or the last of them *)
Lemma line_start_is_break t : forall x, line_start_from t x = 0%nat \/ is_nl_at t (line_start_from t x - 1) = true.
Proof.
  induction x as [|k IH]; [left; reflexivity|]. cbn [line_start_from].
  destruct (is_nl_at t k) eqn:E; [|exact IH].
  right. replace (S k - 1)%nat with k by lia. exact E.
Qed.

Lemma later_line_start t i x : (line_start_from t i < line_start_from t x)%nat -> (i < line_start_from t x)%nat.
Proof.
  intros H. destruct (line_start_is_break t x) as [Z|B]; [lia|].
  destruct (Nat.lt_ge_cases i (line_start_from t x)) as [L|G]; [exact L|].
  assert (Hn : is_nl_at t (line_start_from t x - 1) = false) by (apply (line_start_no_nl t i); lia).
  congruence.
Qed.

Lemma nth_line_end_ge t : forall k p, (p <= length t)%nat -> (p <= nth_line_end t p k <= length t)%nat.
Proof.
  induction k as [|k IH]; intros p Hp; cbn [nth_line_end]; pose proof (line_end_bounds t p Hp) as Hb; [exact Hb|].
  destruct (Nat.ltb_spec (line_end t p) (length t)) as [L|L]; [|exact Hb].
  pose proof (IH (S (line_end t p)) ltac:(lia)). lia.
Qed.

Lemma up_lines_le t : forall k p, (up_lines t p k <= line_start_from t p)%nat.
Proof.
  induction k as [|k IH]; intros p; cbn [up_lines]; [lia|].
  destruct (Nat.eqb_spec (line_start_from t p) 0); [lia|].
  pose proof (IH (line_start_from t p - 1)%nat). pose proof (line_start_le t (line_start_from t p - 1)). lia.
Qed.

Lemma at_col_le t a col : (at_col t a col <= a + col)%nat.
Proof. unfold at_col. lia. Qed.

Theorem line_motion_covers_cursor t m count i : (i <= length t)%nat ->
  match v_range t m count i with
  | RFail p => p = i
  | RLines a b _ => (a <= i <= b)%nat /\ (a = i \/ b = i)
  | _ => False
  end.
Proof.
  intros Hi. pose proof (line_start_le t i) as Hs.
  assert (Hbetween : forall x,
    match (if Nat.leb (line_start_from t x) (line_start_from t i)
           then RLines (at_col t (line_start_from t x) (i - line_start_from t i)) i true
           else RLines i (line_start_from t x) true) with
    | RFail p => p = i
    | RLines a b _ => (a <= i <= b)%nat /\ (a = i \/ b = i)
    | _ => False
    end).
  { intros x. destruct (Nat.leb_spec (line_start_from t x) (line_start_from t i)) as [L|L].
    - pose proof (at_col_le t (line_start_from t x) (i - line_start_from t i)). split; [lia|right; reflexivity].
    - pose proof (later_line_start t i x L). split; [lia|left; reflexivity]. }
  unfold v_range. cbv zeta. destruct m.
  - destruct (last_line_at t i); [reflexivity|].
    pose proof (nth_line_end_ge t (match count with Some c => Nat.max c 1 | None => 1 end) i Hi). split; [lia|left; reflexivity].
  - destruct (Nat.eqb_spec (line_start_from t i) 0) as [Z|Z]; [reflexivity|].
    pose proof (up_lines_le t (match count with Some c => Nat.max c 1 | None => 1 end) i).
    pose proof (at_col_le t (up_lines t i (match count with Some c => Nat.max c 1 | None => 1 end)) (i - line_start_from t i)).
    split; [lia|right; reflexivity].
  - destruct count as [c|]; [apply (Hbetween (nth_line_end t 0 (Nat.max c 1 - 1)))|apply (Hbetween (length t))].
  - destruct count as [c|]; [apply (Hbetween (nth_line_end t 0 (Nat.max c 1 - 1)))|].
    change 0%nat with (line_start_from t 0). apply (Hbetween 0%nat).
Qed.

(** d over a line motion that does not fail: the text loses whole lines - a span that starts at a line start (or with the
    break before the last lines) - and nothing else; the register holds them as lines *)
Theorem delete_line_motion_locality ins t m count i a b kc :
  v_range t m count i = RLines a b kc ->
  let '(x, y) := lines_span t a b in
  o_text (run_op_v OpDelete ins t m count i) = firstn x t ++ skipn y t /\
  o_reg (run_op_v OpDelete ins t m count i)
  = Some (true, slice t (line_start_from t (Nat.min a (length t))) (line_end t (Nat.min b (length t))) ++ [nl]).
Proof.
  intros H. unfold run_op_v. rewrite H. exact (delete_lines_locality ins (mkO t i None) a b kc).
Qed.

(** a failing line motion (j on the last line, k on the first) changes nothing *)
Theorem line_motion_fail_is_noop k ins t m count i p :
  v_range t m count i = RFail p ->
  o_text (run_op_v k ins t m count i) = t /\ o_cur (run_op_v k ins t m count i) = i /\ o_reg (run_op_v k ins t m count i) = None.
Proof.
  intros H. unfold run_op_v.
  assert (p = i).
  { destruct m; unfold v_range in H; cbv zeta in H.
    - destruct (last_line_at t i); congruence.
    - destruct (Nat.eqb (line_start_from t i) 0); congruence.
    - destruct count; destruct (Nat.leb _ _); discriminate.
    - destruct count; destruct (Nat.leb _ _); discriminate. }
  subst p. rewrite H. cbn [apply_op o_text o_cur o_reg]. repeat split.
Qed.

(** ** the case operators, ~ and r: the text keeps its length, its line breaks stay where they are, and nothing outside
    the range changes *)
Lemma nth_map_mid {A} (f : A -> A) (a b c : list A) (j : nat) :
  nth_error (a ++ map f b ++ c) j
  = if Nat.leb (length a) j && Nat.ltb j (length a + length b) then option_map f (nth_error (a ++ b ++ c) j)
    else nth_error (a ++ b ++ c) j.
Proof.
  destruct (Nat.leb_spec (length a) j) as [L|L]; cbn [andb].
  - rewrite !(nth_error_app2 a) by exact L.
    destruct (Nat.ltb_spec j (length a + length b)) as [M|M].
    + rewrite !nth_error_app1 by (rewrite ?map_length; lia). apply nth_error_map.
    + rewrite !nth_error_app2 by (rewrite ?map_length; lia). now rewrite map_length.
  - now rewrite !nth_error_app1 by exact L.
Qed.

Lemma map_range_nth f (t : text) lo hi j : (lo <= hi <= length t)%nat ->
  nth_error (map_range f t lo hi) j
  = if Nat.leb lo j && Nat.ltb j hi then option_map f (nth_error t j) else nth_error t j.
Proof.
  intros H. unfold map_range. rewrite nth_map_mid.
  rewrite <- (slice_parts t lo hi H).
  rewrite firstn_length, (slice_length t lo hi H).
  replace (Nat.min lo (length t)) with lo by lia. replace (lo + (hi - lo))%nat with hi by lia. reflexivity.
Qed.

Lemma map_range_length f (t : text) lo hi : (lo <= hi <= length t)%nat -> length (map_range f t lo hi) = length t.
Proof.
  intros H. unfold map_range. rewrite !app_length, map_length, firstn_length, skipn_length, (slice_length t lo hi H). lia.
Qed.

Lemma case_c_nl k c : (case_c k c =? nl) = (c =? nl).
Proof.
  unfold case_c, is_upper_c, is_lower_c, nl.
  destruct k;
    repeat match goal with
           | |- context [(?a <=? ?b)] => destruct (N.leb_spec a b)
           end; cbn [andb];
    repeat match goal with
           | |- context [(?a =? ?b)] => destruct (N.eqb_spec a b)
           end; try reflexivity; lia.
Qed.

Lemma map_range_breaks k (t : text) lo hi j : (lo <= hi <= length t)%nat ->
  is_nl_at (map_range (case_c k) t lo hi) j = is_nl_at t j.
Proof.
  intros H. unfold is_nl_at. rewrite (map_range_nth _ t lo hi j H).
  destruct (Nat.leb lo j && Nat.ltb j hi); [|reflexivity].
  destruct (nth_error t j) as [c|]; cbn [option_map]; [apply case_c_nl|reflexivity].
Qed.

Lemma map_range_outside f (t : text) lo hi : (lo <= hi <= length t)%nat ->
  firstn lo (map_range f t lo hi) = firstn lo t /\ skipn hi (map_range f t lo hi) = skipn hi t.
Proof.
  intros H. unfold map_range.
  assert (Hl : length (firstn lo t) = lo) by (rewrite firstn_length; lia).
  split.
  - rewrite firstn_app, Hl, Nat.sub_diag, firstn_O, app_nil_r, firstn_firstn. f_equal. lia.
  - rewrite app_assoc, skipn_app.
    assert (Hm : length (firstn lo t ++ map f (slice t lo hi)) = hi)
      by (rewrite app_length, map_length, Hl, (slice_length t lo hi H); lia).
    rewrite Hm, Nat.sub_diag, skipn_O, skipn_all2 by lia. reflexivity.
Qed.

(** the ends an operator range is clipped to are in order *)
Lemma lines_ends_ok (t : text) a b : (a <= b)%nat ->
  (line_start_from t (Nat.min a (length t)) <= line_end t (Nat.min b (length t)) <= length t)%nat.
Proof.
  intros H. pose proof (line_start_le t (Nat.min a (length t))).
  pose proof (line_end_bounds t (Nat.min b (length t)) ltac:(lia)). lia.
Qed.

Definition range_ordered (r : orange) : Prop :=
  match r with RLines a b _ => (a <= b)%nat | _ => True end.

Theorem case_keeps_shape k s r : range_ordered r ->
  length (o_text (apply_case k s r)) = length (o_text s)
  /\ (forall j, is_nl_at (o_text (apply_case k s r)) j = is_nl_at (o_text s) j)
  /\ o_reg (apply_case k s r) = o_reg s.
Proof.
  intros Hr. destruct r as [|p|lo0 hi0|a b kc]; cbn [apply_case o_text o_reg].
  - repeat split.
  - repeat split.
  - pose proof (clip_ok (o_text s) lo0 hi0) as Hc. unfold clo, chi in Hc.
    split; [apply map_range_length; exact Hc|]. split; [intros j; apply map_range_breaks; exact Hc|reflexivity].
  - pose proof (lines_ends_ok (o_text s) a b Hr) as Hc.
    split; [apply map_range_length; exact Hc|]. split; [intros j; apply map_range_breaks; exact Hc|reflexivity].
Qed.

Theorem case_char_locality k s lo0 hi0 :
  let t := o_text s in
  let hi := Nat.min hi0 (length t) in let lo := Nat.min lo0 hi in
  firstn lo (o_text (apply_case k s (RChar lo0 hi0))) = firstn lo t
  /\ skipn hi (o_text (apply_case k s (RChar lo0 hi0))) = skipn hi t.
Proof.
  cbv zeta. cbn [apply_case o_text]. apply map_range_outside.
  pose proof (clip_ok (o_text s) lo0 hi0) as Hc. unfold clo, chi in Hc. exact Hc.
Qed.

(** ~ : only the case of characters on the cursor's line, from the cursor on, can change *)
Theorem tilde_keeps_shape t count i : (i <= length t)%nat ->
  length (o_text (run_tilde t count i)) = length t
  /\ (forall j, is_nl_at (o_text (run_tilde t count i)) j = is_nl_at t j)
  /\ firstn i (o_text (run_tilde t count i)) = firstn i t
  /\ skipn (line_end t i) (o_text (run_tilde t count i)) = skipn (line_end t i) t.
Proof.
  intros Hi. unfold run_tilde. pose proof (line_end_bounds t i Hi) as Hb.
  destruct (Nat.eqb i (line_end t i)); cbn [o_text]; [repeat split|].
  set (hi := Nat.min (i + Nat.max count 1) (line_end t i)).
  assert (Hc : (i <= hi <= length t)%nat) by (unfold hi; lia).
  split; [apply map_range_length; exact Hc|]. split; [intros j; apply map_range_breaks; exact Hc|].
  destruct (map_range_outside (case_c CToggle) t i hi Hc) as [Ha Hb']. split; [exact Ha|].
  (* behind the line end: part of what lies behind [hi] *)
  replace (line_end t i) with (hi + (line_end t i - hi))%nat by (unfold hi; lia).
  rewrite <- !skipn_skipn_ops, Hb'. reflexivity.
Qed.

(** r : the text keeps its length; every character outside the replaced stretch stays *)
Theorem replace_keeps_length t c count i : (i <= length t)%nat ->
  length (o_text (run_replace t c count i)) = length t
  /\ firstn i (o_text (run_replace t c count i)) = firstn i t.
Proof.
  intros Hi. unfold run_replace. pose proof (line_end_bounds t i Hi) as Hb.
  destruct (Nat.ltb_spec (line_end t i) (i + Nat.max count 1)) as [L|L]; cbn [o_text]; [split; reflexivity|].
  assert (Hc : (i <= i + Nat.max count 1 <= length t)%nat) by lia.
  split; [apply map_range_length; exact Hc|apply (map_range_outside _ t i _ Hc)].
Qed.

(** ** J conserves what is written: the characters that are neither blanks nor line breaks, in their order *)
Definition solid (t : text) : text := filter (fun c => negb (is_white c) && negb (c =? nl)) t.

Lemma solid_app a b : solid (a ++ b) = solid a ++ solid b.
Proof. apply filter_app. Qed.

Lemma solid_drop_white l : solid (drop_white l) = solid l.
Proof.
  induction l as [|c r IH]; [reflexivity|]. cbn [drop_white].
  destruct (is_white c) eqn:E; [|reflexivity].
  rewrite IH. unfold solid. cbn [filter]. now rewrite E.
Qed.

Lemma solid_sp (b : bool) : solid (if b then [32%N] else []) = [].
Proof. destruct b; reflexivity. Qed.

Lemma join_acc_solid : forall ls acc col e1,
  solid (fst (join_acc acc col e1 ls)) = solid acc ++ concat (map solid ls).
Proof.
  induction ls as [|l r IH]; intros acc col e1; cbn [join_acc map concat fst]; [now rewrite app_nil_r|].
  rewrite IH, !solid_app, solid_drop_white.
  rewrite solid_sp. cbn [app]. now rewrite app_assoc.
Qed.

Lemma lines_of_nonempty t : lines_of t <> [].
Proof.
  destruct t as [|c r]; cbn [lines_of]; [discriminate|].
  destruct (c =? nl); [discriminate|]. destruct (lines_of r); discriminate.
Qed.

Lemma unlines_lines_of t : unlines (lines_of t) = t.
Proof.
  induction t as [|c r IH]; [reflexivity|]. cbn [lines_of].
  destruct (N.eqb_spec c nl) as [->|N].
  - pose proof (lines_of_nonempty r) as Hn. destruct (lines_of r) as [|l ls] eqn:E; [contradiction|].
    cbn [unlines app]. cbn [unlines] in IH. now rewrite IH.
  - destruct (lines_of r) as [|l ls] eqn:E; [exfalso; now apply (lines_of_nonempty r)|].
    destruct ls as [|l2 ls]; cbn [unlines app] in *; now rewrite IH.
Qed.

Lemma solid_unlines ls : solid (unlines ls) = concat (map solid ls).
Proof.
  induction ls as [|l r IH]; [reflexivity|].
  destruct r as [|l2 r]; [cbn [unlines map concat]; now rewrite app_nil_r|].
  change (unlines (l :: l2 :: r)) with (l ++ [nl] ++ unlines (l2 :: r)).
  rewrite !solid_app, IH. reflexivity.
Qed.

Theorem join_conserves_solid t count i : solid (o_text (run_join t count i)) = solid t.
Proof.
  unfold run_join.
  set (ls := lines_of t). set (k := length (filter (fun c => c =? nl) (firstn i t))).
  destruct (Nat.leb (length ls - k) 1); [reflexivity|].
  destruct (skipn k ls) as [|first rest] eqn:E; [reflexivity|].
  set (n := Nat.min (Nat.max count 2) (length ls - k)).
  destruct (join_acc first 0 (last_char first) (firstn (n - 1) rest)) as [acc col] eqn:J.
  cbn [o_text].
  pose proof (join_acc_solid (firstn (n - 1) rest) first 0%nat (last_char first)) as Hs. rewrite J in Hs. cbn [fst] in Hs.
  rewrite solid_unlines, map_app, concat_app. cbn [map concat]. rewrite Hs.
  replace (solid t) with (solid (unlines ls)) by (unfold ls; now rewrite unlines_lines_of).
  rewrite solid_unlines.
  assert (Hls : ls = firstn k ls ++ first :: rest) by (rewrite <- E; symmetry; apply firstn_skipn).
  assert (Hrest : rest = firstn (n - 1) rest ++ skipn (n - 1) rest) by (symmetry; apply firstn_skipn).
  rewrite Hls at 2. rewrite map_app, concat_app. cbn [map concat].
  f_equal. rewrite <- app_assoc. f_equal.
  rewrite Hrest at 3. now rewrite map_app, concat_app.
Qed.

(** on the last line J changes nothing *)
Theorem join_fail_is_noop (t : text) (count i : nat) :
  (length (lines_of t) - length (filter (fun c : N => N.eqb c nl) (firstn i t)) <= 1)%nat ->
  o_text (run_join t count i) = t.
Proof.
  intros H. unfold run_join.
  destruct (Nat.leb_spec (length (lines_of t) - length (filter (fun c : N => N.eqb c nl) (firstn i t))) 1); [reflexivity|lia].
Qed.

(** ** j and k: the column search stays on its line *)
Lemma at_dcol_bounds t e target : forall f p acc, (p <= at_dcol f t p e acc target)%nat /\ ((p < e)%nat -> (at_dcol f t p e acc target < e)%nat).
Proof.
  induction f as [|f IH]; intros p acc; cbn [at_dcol]; [split; [lia|intros; lia]|].
  destruct (Nat.leb_spec e (S p)) as [L|L]; [split; [lia|intros; lia]|].
  destruct (nth_error t p) as [c|]; [|split; [lia|intros; lia]].
  destruct (Nat.ltb target (acc + cwidth c)); [split; [lia|intros; lia]|].
  destruct (IH (S p) (acc + cwidth c)%nat) as [H1 H2]. split; [lia|intros _; apply H2; lia].
Qed.

(** j / k never leave the text: from a position in the text they land on a position in the text *)
Theorem move_vert_in_text t down count i : (i <= length t)%nat -> (move_vert t down count i <= length t)%nat.
Proof.
  intros Hi. unfold move_vert. destruct down.
  - destruct (last_line_at t i); [exact Hi|].
    set (e := nth_line_end t i (Nat.max count 1)).
    pose proof (nth_line_end_ge t (Nat.max count 1) i Hi) as He. fold e in He.
    pose proof (line_start_le t e) as Hs.
    destruct (at_dcol_bounds t e (dcol t (line_start_from t i) i) (S (length t)) (line_start_from t e) 0%nat) as [H1 H2].
    destruct (Nat.eq_dec (line_start_from t e) e) as [E|E].
    + (* an empty target line: the search stops at once *)
      rewrite E. cbn [at_dcol]. destruct (Nat.leb_spec e (S e)); lia.
    + specialize (H2 ltac:(lia)). lia.
  - destruct (Nat.eqb (line_start_from t i) 0); [exact Hi|].
    set (s' := up_lines t i (Nat.max count 1)).
    pose proof (up_lines_le t (Nat.max count 1) i) as Hu. fold s' in Hu.
    pose proof (line_start_le t i) as Hs.
    pose proof (line_end_bounds t s' ltac:(lia)) as Hb.
    destruct (at_dcol_bounds t (line_end t s') (dcol t (line_start_from t i) i) (S (length t)) s' 0%nat) as [H1 H2].
    destruct (Nat.eq_dec s' (line_end t s')) as [E|E].
    + rewrite <- E. cbn [at_dcol]. destruct (Nat.leb_spec s' (S s')); lia.
    + specialize (H2 ltac:(lia)). lia.
Qed.

(** ** whole lines taken by d go back with P: the text is as it was (for lines that are not the last of the text: there
    P, which puts above the cursor's line, cannot put them back behind the last line) *)
Lemma find_nl_is_break t : forall f i, (length t - i < f)%nat -> (find_nl t i f < length t)%nat -> is_nl_at t (find_nl t i f) = true.
Proof.
  induction f as [|f IH]; intros i Hf Hlt; [lia|]. cbn [find_nl] in *.
  destruct (Nat.leb_spec (length t) i) as [L|L]; [lia|].
  destruct (is_nl_at t i) eqn:E; [exact E|]. apply IH; [lia|exact Hlt].
Qed.

Lemma line_end_is_break t i : (line_end t i < length t)%nat -> is_nl_at t (line_end t i) = true.
Proof. unfold line_end. apply find_nl_is_break. lia. Qed.

Lemma nth_error_skipn_ops {A} : forall (n m : nat) (l : list A), nth_error (skipn n l) m = nth_error l (n + m).
Proof.
  induction n as [|n IH]; intros m l; [reflexivity|]. destruct l as [|x l]; [now destruct m|]. cbn. apply IH.
Qed.

Lemma slice_snoc (t : text) lo e : (lo <= e)%nat -> (e < length t)%nat -> is_nl_at t e = true ->
  slice t lo e ++ [nl] = slice t lo (S e).
Proof.
  intros Hle Hlt Hn. unfold slice.
  replace (S e - lo)%nat with (S (e - lo)) by lia.
  assert (Hnth : nth_error (skipn lo t) (e - lo) = Some nl).
  { rewrite nth_error_skipn_ops. replace (lo + (e - lo))%nat with e by lia.
    unfold is_nl_at in Hn. destruct (nth_error t e) as [c|]; [|discriminate].
    apply N.eqb_eq in Hn. now subst c. }
  revert Hnth. generalize (skipn lo t) as l. generalize (e - lo)%nat as n.
  induction n as [|n IH]; intros l H; destruct l as [|x l]; cbn in H; try discriminate.
  - inversion H. reflexivity.
  - cbn [firstn app]. f_equal. now apply IH.
Qed.

Lemma firstn_exact_left {A} (a b : list A) n : n = length a -> firstn n (a ++ b) = a.
Proof. intros ->. induction a as [|x a IH]; cbn; [now destruct b|now rewrite IH]. Qed.

Theorem delete_lines_then_P_restores ins (t : text) i a b kc c :
  (a <= b <= length t)%nat ->
  (line_end t b < length t)%nat ->
  let s' := apply_op OpDelete ins (mkO t i None) (RLines a b kc) in
  (* the cursor is anywhere on the line that took the place of the deleted ones *)
  (c <= length (o_text s'))%nat -> line_start_from (o_text s') c = line_start_from t a ->
  o_text (put false 1 (mkO (o_text s') c (o_reg s'))) = t.
Proof.
  intros Hab He. cbv zeta. cbn [apply_op o_text o_reg].
  replace (Nat.min a (length t)) with a by lia. replace (Nat.min b (length t)) with b by lia.
  set (lo := line_start_from t a). set (e := line_end t b).
  pose proof (line_start_le t a) as Hlo. fold lo in Hlo.
  pose proof (line_end_bounds t b ltac:(lia)) as Hbe. fold e in Hbe, He.
  unfold lines_span. fold lo e.
  destruct (Nat.ltb_spec e (length t)) as [L|L]; [|lia].
  set (t' := cut t lo (S e)). intros Hc Hls. cbn [o_text] in Hc, Hls.
  unfold put. cbn [o_text o_cur o_reg].
  rewrite (Nat.min_l c (length t')) by exact Hc. rewrite Hls.
  cbn [repeat_text Nat.max]. rewrite app_nil_r.
  assert (Hlen : length (slice t lo e ++ [nl]) = S (e - lo)) by (rewrite app_length, slice_length by lia; cbn; lia).
  rewrite Hlen. replace (S (e - lo) - 1)%nat with (e - lo)%nat by lia.
  rewrite (firstn_exact_left (slice t lo e) [nl] (e - lo)) by (symmetry; apply slice_length; lia).
  (* the parts of t' around lo are the parts of t around the deleted lines *)
  assert (Hf : firstn lo t' = firstn lo t).
  { unfold t', cut. rewrite firstn_app, firstn_length, firstn_firstn.
    replace (Nat.min lo (length t)) with lo by lia. rewrite Nat.sub_diag, firstn_O, app_nil_r. f_equal. lia. }
  assert (Hs : skipn lo t' = skipn (S e) t).
  { unfold t', cut. rewrite skipn_app, firstn_length. replace (Nat.min lo (length t)) with lo by lia.
    rewrite Nat.sub_diag, skipn_O, skipn_all2 by (rewrite firstn_length; lia). reflexivity. }
  rewrite Hf, Hs.
  change (slice t lo e ++ [nl] ++ skipn (S e) t) with (slice t lo e ++ ([nl] ++ skipn (S e) t)).
  rewrite (app_assoc (slice t lo e)), (slice_snoc t lo e ltac:(lia) L (line_end_is_break t b L)).
  symmetry. apply slice_parts. lia.
Qed.

(** ** ... and the cursor d leaves after taking whole lines is on the line that took their place *)
Lemma find_nl_no_break_before t : forall f i j, (i <= j)%nat -> (j < find_nl t i f)%nat -> is_nl_at t j = false.
Proof.
  induction f as [|f IH]; intros i j Hij Hj; cbn [find_nl] in Hj; [lia|].
  destruct (Nat.leb_spec (length t) i) as [L|L].
  - unfold is_nl_at. rewrite (proj2 (nth_error_None t j)) by lia. reflexivity.
  - destruct (is_nl_at t i) eqn:E; [lia|].
    destruct (Nat.eq_dec i j) as [->|N]; [exact E|]. apply (IH (S i) j); [lia|exact Hj].
Qed.

Lemma same_line_start t q : forall c, (q <= c <= line_end t q)%nat -> line_start_from t c = line_start_from t q.
Proof.
  induction c as [|c IH]; intros H; [replace q with 0%nat by lia; reflexivity|].
  destruct (Nat.eq_dec q (S c)) as [->|N]; [reflexivity|].
  cbn [line_start_from].
  rewrite (find_nl_no_break_before t (S (length t)) q c) by (unfold line_end in H; lia).
  apply IH. lia.
Qed.

Lemma line_start_idem t x : line_start_from t (line_start_from t x) = line_start_from t x.
Proof.
  destruct (line_start_is_break t x) as [Z|B]; [now rewrite Z|].
  destruct (line_start_from t x) as [|k] eqn:E; [reflexivity|].
  cbn [line_start_from]. replace (S k - 1)%nat with k in B by lia. now rewrite B.
Qed.

Lemma nth_error_firstn_ops {A} : forall (n m : nat) (l : list A), (m < n)%nat -> nth_error (firstn n l) m = nth_error l m.
Proof.
  induction n as [|n IH]; intros m l H; [lia|]. destruct l as [|x l]; [reflexivity|].
  destruct m as [|m]; [reflexivity|]. cbn. apply IH. lia.
Qed.

Lemma line_start_from_prefix (t t' : text) : forall x, firstn x t' = firstn x t -> line_start_from t' x = line_start_from t x.
Proof.
  induction x as [|x IH]; intros H; [reflexivity|]. cbn [line_start_from].
  assert (Hx : firstn x t' = firstn x t).
  { transitivity (firstn x (firstn (S x) t')); [rewrite firstn_firstn; f_equal; lia|].
    rewrite H, firstn_firstn. f_equal. lia. }
  assert (Hn : nth_error t' x = nth_error t x).
  { rewrite <- (nth_error_firstn_ops (S x) x t') by lia. rewrite <- (nth_error_firstn_ops (S x) x t) by lia. now rewrite H. }
  unfold is_nl_at. rewrite Hn. destruct (match nth_error t x with Some c => c =? nl | None => false end); [reflexivity|now apply IH].
Qed.

Lemma first_nonblank_between t : forall f i e, (i < e)%nat -> (i <= first_nonblank t i e f <= e)%nat.
Proof.
  induction f as [|f IH]; intros i e H; cbn [first_nonblank]; [lia|].
  destruct (Nat.leb_spec e i); [lia|].
  destruct (nth_error t i) as [c|]; [|lia].
  destruct ((c =? 32) || (c =? 9)); [|lia].
  destruct (Nat.eq_dec (S i) e) as [E|N].
  - (* the line is all blanks: the search stops on its last character *)
    subst e. destruct f as [|f]; cbn [first_nonblank]; [lia|].
    destruct (Nat.leb_spec (S i) (S i)); [|lia]. replace (S i - 1)%nat with i by lia.
    pose proof (line_start_le t i). lia.
  - pose proof (IH (S i) e ltac:(lia)). lia.
Qed.

Theorem delete_lines_cursor_on_line ins (t : text) i a b kc :
  (a <= b <= length t)%nat -> (line_end t b < length t)%nat ->
  let s' := apply_op OpDelete ins (mkO t i None) (RLines a b kc) in
  (o_cur s' <= length (o_text s'))%nat /\ line_start_from (o_text s') (o_cur s') = line_start_from t a.
Proof.
  intros Hab He. cbv zeta. cbn [apply_op o_text o_cur].
  replace (Nat.min a (length t)) with a by lia. replace (Nat.min b (length t)) with b by lia.
  set (lo := line_start_from t a). set (e := line_end t b).
  pose proof (line_start_le t a) as Hlo. fold lo in Hlo.
  pose proof (line_end_bounds t b ltac:(lia)) as Hbe. fold e in Hbe, He.
  unfold lines_span. fold lo e.
  destruct (Nat.ltb_spec e (length t)) as [L|L]; [|lia].
  set (t' := cut t lo (S e)). cbn [o_text o_cur].
  assert (Hlen : length t' = (length t - (S e - lo))%nat).
  { unfold t', cut. rewrite app_length, firstn_length, skipn_length. lia. }
  assert (Hf : firstn lo t' = firstn lo t).
  { unfold t', cut. rewrite firstn_app, firstn_length, firstn_firstn.
    replace (Nat.min lo (length t)) with lo by lia. rewrite Nat.sub_diag, firstn_O, app_nil_r. f_equal. lia. }
  replace (Nat.min lo (length t')) with lo by lia.
  assert (Hq : line_start_from t' lo = lo).
  { rewrite (line_start_from_prefix t t' lo Hf). unfold lo. apply line_start_idem. }
  rewrite Hq.
  pose proof (line_end_bounds t' lo ltac:(lia)) as Hle.
  assert (Hon : forall c, (lo <= c <= line_end t' lo)%nat -> (c <= length t')%nat /\ line_start_from t' c = lo).
  { intros c Hc. split; [lia|]. rewrite (same_line_start t' lo c Hc). exact Hq. }
  destruct kc.
  - apply Hon. lia.
  - apply Hon. unfold first_nb_of_line. rewrite Hq.
    destruct (Nat.eqb_spec lo (line_end t' lo)) as [E|N]; [lia|].
    pose proof (first_nonblank_between t' (S (length t')) lo (line_end t' lo) ltac:(lia)). lia.
Qed.

(** d over whole lines (dd, dj, dk, dG ... with any count), then P: the text is as it was *)
Theorem delete_lines_P_roundtrip ins (t : text) i a b kc :
  (a <= b <= length t)%nat -> (line_end t b < length t)%nat ->
  o_text (put false 1 (apply_op OpDelete ins (mkO t i None) (RLines a b kc))) = t.
Proof.
  intros Hab He.
  destruct (delete_lines_cursor_on_line ins t i a b kc Hab He) as [Hc Hls].
  pose proof (delete_lines_then_P_restores ins t i a b kc _ Hab He Hc Hls) as H.
  destruct (apply_op OpDelete ins (mkO t i None) (RLines a b kc)) as [t1 c1 r1]. exact H.
Qed.

(** ** yy then p: the cursor's line stands a second time below itself, nothing else changes *)
Theorem yank_line_then_p_duplicates ins (t : text) i :
  (i <= length t)%nat ->
  let lo := line_start_from t i in let e := line_end t i in
  o_text (put true 1 (apply_op OpYank ins (mkO t i None) (RLines i i true)))
  = firstn e t ++ [nl] ++ slice t lo e ++ skipn e t.
Proof.
  intros Hi. cbv zeta. cbn [apply_op o_text o_cur o_reg].
  replace (Nat.min i (length t)) with i by lia. rewrite Nat.min_id.
  unfold put. cbn [o_text o_cur o_reg]. replace (Nat.min i (length t)) with i by lia.
  cbn [repeat_text Nat.max]. rewrite app_nil_r.
  pose proof (line_start_le t i) as Hlo. pose proof (line_end_bounds t i Hi) as He.
  assert (Hlen : length (slice t (line_start_from t i) (line_end t i) ++ [nl]) = S (line_end t i - line_start_from t i))
    by (rewrite app_length, slice_length by lia; cbn; lia).
  rewrite Hlen. replace (S (line_end t i - line_start_from t i) - 1)%nat with (line_end t i - line_start_from t i)%nat by lia.
  rewrite (firstn_exact_left (slice t (line_start_from t i) (line_end t i)) [nl]) by (symmetry; apply slice_length; lia).
  reflexivity.
Qed.
