(** The stack-machine model of the argument parser computes [denote]. *)
From Vicut Require Import Base.Prelude Model.Args Spec.Items.

Definition active (f : frame) : list cmd :=
  match f_el f with Some e => e | None => f_th f end.
Definition set_active (f : frame) (l : list cmd) : frame :=
  match f_el f with
  | Some _ => mkFrame (f_pol f) (f_pat f) (f_th f) (Some l)
  | None => mkFrame (f_pol f) (f_pat f) l None
  end.

Lemma fpush_active f c : fpush f c = set_active f (active f ++ [c]).
Proof. unfold fpush, set_active, active; destruct (f_el f); reflexivity. Qed.
Lemma frepeat_active f n r : frepeat f n r = set_active f (repeat_last (active f) n r).
Proof. unfold frepeat, set_active, active; destruct (f_el f); reflexivity. Qed.
Lemma set_active_active f l : active (set_active f l) = l.
Proof. unfold set_active, active; destruct (f_el f); reflexivity. Qed.
Lemma set_active_twice f l l' : set_active (set_active f l) l' = set_active f l'.
Proof. unfold set_active; destruct (f_el f); reflexivity. Qed.
Lemma set_active_id f : set_active f (active f) = f.
Proof. unfold set_active, active; destruct f as [p q t [e|]]; reflexivity. Qed.

Fixpoint isize (i : item) : nat :=
  match i with
  | IGlob _ _ _ th el =>
    S (fold_right (fun x a => isize x + a) 0 th
       + match el with Some e => fold_right (fun x a => isize x + a) 0 e | None => 0 end)%nat
  | _ => 1%nat
  end.
Definition lsize (l : list item) : nat := fold_right (fun x a => isize x + a)%nat 0%nat l.

Lemma isize_pos i : (1 <= isize i)%nat.
Proof. destruct i; cbn; lia. Qed.

Lemma strip_prefix_none p s : starts_with p s = false -> strip_prefix p s = None.
Proof.
  revert s; induction p as [|x p IH]; intros [|y s]; cbn; try congruence.
  destruct (N.eqb x y); cbn; auto.
Qed.

Lemma strip_prefix_app p s : strip_prefix p (p ++ s) = Some s.
Proof. induction p as [|x p IH]; cbn; [reflexivity|]. now rewrite N.eqb_refl. Qed.

Lemma peek_render_item i rest : peek_nondash (render_item i ++ rest) = false.
Proof.
  destruct i as [l s|l n s|l s|l|l n r|l k pat th el|k l|k l v];
    try destruct k; destruct l; reflexivity.
Qed.

Lemma peek_render its rest :
  peek_nondash rest = false -> peek_nondash (render its ++ rest) = false.
Proof.
  destruct its as [|i its]; [auto|]. intros _. unfold render. cbn [flat_map].
  rewrite <- app_assoc. apply peek_render_item.
Qed.

Section Run.
  Variable file_ok : text -> bool.
  Notation run := (run file_ok).

  Ltac evalflags :=
    repeat match goal with
    | |- context [is_flag ?g ?a ?b] =>
      let v := eval vm_compute in (is_flag g a b) in change (is_flag g a b) with v
    | |- context [text_eqb ?g (T ?a)] =>
      let v := eval vm_compute in (text_eqb g (T a)) in change (text_eqb g (T a)) with v
    end.
  Ltac step := cbn [run app]; evalflags; cbn [orb andb negb].
  Ltac flagcase l := destruct l; unfold flag; cbn [render_item]; step.

  Lemma scope_items_n : forall n its, (lsize its <= n)%nat ->
    forall f fs o rest,
      forallb (wf_item false) its = true -> peek_nondash rest = false ->
      run o (f :: fs) (render its ++ rest)
      = run o (set_active f (fold_left denote_step its (active f)) :: fs) rest.
  Proof.
    induction n as [|n IHn]; intros its Hsz f fs o rest Hwf Hpk.
    - destruct its as [|i its]; [cbn; now rewrite set_active_id|].
      cbn in Hsz. pose proof (isize_pos i). lia.
    - destruct its as [|i its]; [cbn; now rewrite set_active_id|].
      cbn [forallb] in Hwf. apply andb_prop in Hwf as [Hwi Hwf].
      cbn [lsize fold_right] in Hsz. pose proof (isize_pos i) as Hpos.
      assert (Hsz' : (lsize its <= n)%nat) by (unfold lsize; lia).
      unfold render; cbn [flat_map fold_left]. rewrite <- app_assoc. fold (render its).
      assert (Hpk' : peek_nondash (render its ++ rest) = false) by now apply peek_render.
      (* it suffices to process item [i] *)
      enough (Hstep : run o (f :: fs) (render_item i ++ render its ++ rest)
                      = run o (set_active f (denote_step (active f) i) :: fs) (render its ++ rest)).
      { rewrite Hstep. rewrite IHn by assumption. now rewrite set_active_twice, set_active_active. }
      generalize dependent (render its ++ rest). intros tl Hpk'.
      destruct i as [l s|l nm s|l s|l|l a b|l k pat th el|k l|k l v]; cbn [wf_item] in Hwi;
        [ | | | | | |discriminate|discriminate].
      + apply andb_prop in Hwi as [Hd Hn]. apply negb_true_iff in Hd, Hn.
        flagcase l; rewrite (strip_prefix_none _ _ Hn), Hd, Hpk'; cbn [denote_step]; now rewrite fpush_active.
      + apply andb_prop in Hwi as [Hd _]. apply negb_true_iff in Hd.
        flagcase l; rewrite strip_prefix_app, Hd, Hpk'; cbn [denote_step]; now rewrite fpush_active.
      + apply negb_true_iff in Hwi.
        flagcase l; rewrite Hwi, Hpk'; cbn [denote_step]; now rewrite fpush_active.
      + flagcase l; rewrite Hpk'; cbn [denote_step]; now rewrite fpush_active.
      + destruct (counts a b) as [[n0 r0]|] eqn:Hc; [|discriminate].
        flagcase l; rewrite Hc, Hpk'; cbn [denote_step]; unfold rep_of; rewrite Hc; now rewrite frepeat_active.
      + apply andb_prop in Hwi as [Hwi Hwe]. apply andb_prop in Hwi as [Hd Hwt].
        apply negb_true_iff in Hd.
        cbn [isize] in Hsz.
        assert (Hst : (lsize th <= n)%nat) by (unfold lsize; lia).
        set (pol := match k with GG => true | GV => false end).
        assert (Henter : forall tl', run o (f :: fs) (render_item (IGlob l k pat th el) ++ tl')
                  = run o (mkFrame pol pat [] None :: f :: fs)
                        (render th ++ match el with Some e => T "--else" :: render e | None => [] end
                                   ++ T "--end" :: tl')).
        { intros tl'. cbn [render_item]. unfold pol.
          destruct k; destruct l; unfold flag; cbn [app]; step; rewrite Hd;
            rewrite <- ?app_assoc; destruct el; reflexivity. }
        rewrite Henter.
        rewrite IHn; [|exact Hst|exact Hwt|destruct el; reflexivity].
        cbn [active f_el f_th set_active denote_step]. fold pol.
        destruct el as [e|].
        * assert (Hse : (lsize e <= n)%nat) by (unfold lsize; lia).
          cbn [app]. step. unfold felse; cbn [f_pol f_pat f_th].
          change (peek_nondash (render e ++ T "--end" :: tl)) with
                 (peek_nondash (render e ++ [T "--end"] ++ tl)).
          rewrite (peek_render e ([T "--end"] ++ tl)) by reflexivity. cbn [app].
          rewrite IHn; [|exact Hse|exact Hwe|reflexivity].
          cbn [active f_el f_th set_active f_pol f_pat].
          step. rewrite Hpk'. unfold close1; cbn [f_pol f_pat f_th f_el].
          now rewrite fpush_active.
        * cbn [app]. step. rewrite Hpk'. unfold close1; cbn [f_pol f_pat f_th f_el].
          now rewrite fpush_active.
  Qed.

  Lemma scope_items : forall its f fs o rest,
      forallb (wf_item false) its = true -> peek_nondash rest = false ->
      run o (f :: fs) (render its ++ rest)
      = run o (set_active f (fold_left denote_step its (active f)) :: fs) rest.
  Proof. intros its; eapply scope_items_n; reflexivity. Qed.

  Lemma opt_step_cmds o i : o_cmds (opt_step o i) = o_cmds o.
  Proof. destruct o; destruct i as [| | | | | |k l|k l v]; try destruct k; reflexivity. Qed.
  Lemma opt_step_set_cmds o i c : opt_step (set_cmds o c) i = set_cmds (opt_step o i) c.
  Proof. destruct o; destruct i as [| | | | | |k l|k l v]; try destruct k; reflexivity. Qed.
  Lemma set_cmds_twice o c c' : set_cmds (set_cmds o c) c' = set_cmds o c'.
  Proof. destruct o; reflexivity. Qed.
  Lemma set_cmds_cmds o c : o_cmds (set_cmds o c) = c.
  Proof. destruct o; reflexivity. Qed.
  Lemma set_cmds_id o : set_cmds o (o_cmds o) = o.
  Proof. destruct o; reflexivity. Qed.

  (** One top-level item: options change option fields, commands the list. *)
  Definition top_step (o : opts) (i : item) : opts :=
    set_cmds (opt_step o i) (denote_step (o_cmds o) i).

  Ltac tstep := cbn [run app]; unfold with_flag; evalflags; cbn [orb andb negb].

  Lemma top_item i o rest :
    wf_item true i = true ->
    run o [] (render_item i ++ rest) = run (top_step o i) [] rest.
  Proof.
    intros Hw. unfold top_step.
    destruct i as [l s|l nm s|l s|l|l a b|l k pat th el|k l|k l v]; cbn [wf_item] in Hw.
    - apply andb_prop in Hw as [Hd Hn]. apply negb_true_iff in Hd, Hn.
      destruct o; destruct l; unfold flag; cbn [render_item]; tstep;
        rewrite (strip_prefix_none _ _ Hn), Hd; reflexivity.
    - apply andb_prop in Hw as [Hd Hz]. apply negb_true_iff in Hd, Hz. cbn [andb] in Hz.
      destruct o; destruct l; unfold flag; cbn [render_item]; tstep;
        rewrite strip_prefix_app, Hz, Hd; reflexivity.
    - apply negb_true_iff in Hw.
      destruct o; destruct l; unfold flag; cbn [render_item]; tstep; rewrite Hw; reflexivity.
    - destruct o; destruct l; unfold flag; cbn [render_item]; tstep; reflexivity.
    - destruct (counts a b) as [[n0 r0]|] eqn:Hc; [|discriminate].
      destruct o; destruct l; unfold flag; cbn [render_item]; tstep; rewrite Hc;
        cbn [denote_step opt_step]; unfold rep_of; rewrite Hc; reflexivity.
    - apply andb_prop in Hw as [Hw Hwe]. apply andb_prop in Hw as [Hd Hwt].
      apply negb_true_iff in Hd.
      set (pol := match k with GG => true | GV => false end).
      assert (Henter : run o [] (render_item (IGlob l k pat th el) ++ rest)
                = run o [mkFrame pol pat [] None]
                      (render th ++ match el with Some e => T "--else" :: render e | None => [] end
                                 ++ T "--end" :: rest)).
      { cbn [render_item]. unfold pol.
        destruct o; destruct k; destruct l; unfold flag; cbn [app]; tstep; rewrite Hd;
          rewrite <- ?app_assoc; destruct el; reflexivity. }
      rewrite Henter.
      rewrite scope_items; [|exact Hwt|destruct el; reflexivity].
      cbn [active f_el f_th set_active denote_step opt_step]. fold pol.
      destruct el as [e|].
      + cbn [app]. step. unfold felse; cbn [f_pol f_pat f_th].
        change (peek_nondash (render e ++ T "--end" :: rest)) with
               (peek_nondash (render e ++ [T "--end"] ++ rest)).
        rewrite (peek_render e ([T "--end"] ++ rest)) by reflexivity. cbn [app].
        rewrite scope_items; [|exact Hwe|reflexivity].
        cbn [active f_el f_th set_active f_pol f_pat].
        step. unfold close1; cbn [f_pol f_pat f_th f_el]. destruct o; reflexivity.
      + cbn [app]. step. unfold close1; cbn [f_pol f_pat f_th f_el]. destruct o; reflexivity.
    - destruct o; destruct k; destruct l; cbn [render_item optk_flag app]; tstep; reflexivity.
    - apply negb_true_iff in Hw.
      destruct o; destruct k; destruct l; unfold flag; cbn [render_item app]; tstep;
        rewrite Hw; reflexivity.
  Qed.

  Lemma top_items its : forall o rest,
    forallb (wf_item true) its = true ->
    run o [] (render its ++ rest) = run (fold_left top_step its o) [] rest.
  Proof.
    induction its as [|i its IH]; intros o rest Hw; [reflexivity|].
    cbn [forallb] in Hw. apply andb_prop in Hw as [Hwi Hw].
    unfold render; cbn [flat_map fold_left]. rewrite <- app_assoc. fold (render its).
    rewrite top_item by assumption. now apply IH.
  Qed.

  Lemma fold_opt_set_cmds its : forall o c,
    fold_left opt_step its (set_cmds o c) = set_cmds (fold_left opt_step its o) c.
  Proof.
    induction its as [|j its IH]; intros o c; cbn [fold_left]; [reflexivity|].
    now rewrite opt_step_set_cmds, IH.
  Qed.

  Lemma fold_top_step its : forall o,
    fold_left top_step its o
    = set_cmds (fold_left opt_step its o) (fold_left denote_step its (o_cmds o)).
  Proof.
    induction its as [|i its IH]; intros o; cbn [fold_left]; [now rewrite set_cmds_id|].
    rewrite IH. unfold top_step. rewrite set_cmds_cmds, fold_opt_set_cmds.
    now rewrite set_cmds_twice.
  Qed.

  (** The model of [Opts::parse] computes what the item list denotes. *)
  Theorem parse_render its :
    forallb (wf_item true) its = true ->
    parse file_ok (render its) = Ok (denote_opts its).
  Proof.
    intros Hw. unfold parse, denote_opts, denote.
    rewrite <- (app_nil_r (render its)), top_items by assumption.
    cbn [run close_all]. now rewrite fold_top_step.
  Qed.
End Run.
