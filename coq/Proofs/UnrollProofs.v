(** Flattening the command tree of an item list gives the command tree of the
    textually unrolled item list. *)
From Vicut Require Import Base.Prelude Model.Args Spec.Items Proofs.ArgsProofs.

(** Items without [-r] and without option flags, at any depth. *)
Fixpoint plain (i : item) : bool :=
  match i with
  | IRep _ _ _ | IOpt _ _ | IOptV _ _ _ => false
  | IGlob _ _ _ th el =>
    forallb plain th && match el with Some e => forallb plain e | None => true end
  | _ => true
  end.

Fixpoint pcmd (i : item) : cmd :=
  match i with
  | ICut _ s => CCut s
  | INamed _ n s => CNamed n s
  | IMove _ s => CMove s
  | INext _ => CNext
  | IGlob _ k pat th el =>
    CGlobal (match k with GG => true | GV => false end) pat (map pcmd th)
      (match el with Some e => Some (map pcmd e) | None => None end)
  | _ => CNext
  end.

Lemma denote_plain_n : forall n g, (lsize g <= n)%nat -> forallb plain g = true ->
  forall l, fold_left denote_step g l = l ++ map pcmd g.
Proof.
  induction n as [|n IHn]; intros g Hsz Hp l.
  - destruct g as [|i g]; [cbn; now rewrite app_nil_r|].
    cbn in Hsz. pose proof (isize_pos i). lia.
  - destruct g as [|i g]; [cbn; now rewrite app_nil_r|].
    cbn [forallb] in Hp. apply andb_prop in Hp as [Hi Hp].
    cbn [lsize fold_right] in Hsz. pose proof (isize_pos i).
    cbn [fold_left map]. rewrite IHn; [|unfold lsize; lia|assumption].
    replace (l ++ pcmd i :: map pcmd g) with ((l ++ [pcmd i]) ++ map pcmd g)
      by (now rewrite <- app_assoc).
    f_equal.
    destruct i as [l0 s|l0 nm s|l0 s|l0|l0 a b|l0 k pat th el|k l0|k l0 v];
      cbn [plain] in Hi; try discriminate; try reflexivity.
    cbn [denote_step pcmd]. apply andb_prop in Hi as [Ht He]. cbn [isize] in Hsz.
    rewrite (IHn th); [|unfold lsize; lia|assumption]. cbn [app].
    destruct el as [e|]; [|reflexivity].
    rewrite (IHn e); [|unfold lsize; lia|assumption]. reflexivity.
Qed.

Lemma denote_plain g : forallb plain g = true -> denote g = map pcmd g.
Proof. intros H. unfold denote. now rewrite (denote_plain_n _ g (le_n _) H). Qed.

Lemma flatten_plain_n : forall n g, (lsize g <= n)%nat -> forallb plain g = true ->
  flat_map flatten1 (map pcmd g) = map pcmd g.
Proof.
  induction n as [|n IHn]; intros g Hsz Hp.
  - destruct g as [|i g]; [reflexivity|]. cbn in Hsz. pose proof (isize_pos i). lia.
  - destruct g as [|i g]; [reflexivity|].
    cbn [forallb] in Hp. apply andb_prop in Hp as [Hi Hp].
    cbn [lsize fold_right] in Hsz. pose proof (isize_pos i).
    cbn [map flat_map]. rewrite IHn; [|unfold lsize; lia|assumption].
    change (pcmd i :: map pcmd g) with ([pcmd i] ++ map pcmd g). f_equal.
    destruct i as [l0 s|l0 nm s|l0 s|l0|l0 a b|l0 k pat th el|k l0|k l0 v];
      cbn [plain] in Hi; try discriminate; try reflexivity.
    cbn [pcmd flatten1]. apply andb_prop in Hi as [Ht He]. cbn [isize] in Hsz.
    rewrite (IHn th); [|unfold lsize; lia|assumption].
    destruct el as [e|]; [|reflexivity].
    rewrite (IHn e); [|unfold lsize; lia|assumption]. reflexivity.
Qed.

Lemma flatten1_plain i : plain i = true -> flatten1 (pcmd i) = [pcmd i].
Proof.
  intros H. pose proof (flatten_plain_n _ [i] (le_n _)) as F. cbn [forallb map flat_map] in F.
  rewrite H in F. specialize (F eq_refl). now rewrite app_nil_r in F.
Qed.

Lemma map_repeat_list {A B} (f : A -> B) l k :
  map f (repeat_list l k) = repeat_list (map f l) k.
Proof. induction k; cbn; [reflexivity|]. now rewrite map_app, IHk. Qed.

Lemma forallb_repeat_list {A} (p : A -> bool) l k :
  forallb p l = true -> forallb p (repeat_list l k) = true.
Proof. intros H; induction k; cbn; [reflexivity|]. now rewrite forallb_app, H, IHk. Qed.

Lemma Forall2_firstn {A B} (R : A -> B -> Prop) l1 l2 :
  Forall2 R l1 l2 -> forall k, Forall2 R (firstn k l1) (firstn k l2).
Proof. induction 1; intros [|k]; cbn; constructor; auto. Qed.
Lemma Forall2_skipn {A B} (R : A -> B -> Prop) l1 l2 :
  Forall2 R l1 l2 -> forall k, Forall2 R (skipn k l1) (skipn k l2).
Proof. induction 1; intros [|k]; cbn; auto. Qed.
Lemma Forall_firstn {A} (P : A -> Prop) l : Forall P l -> forall k, Forall P (firstn k l).
Proof. induction 1; intros [|k]; cbn; constructor; auto. Qed.
Lemma Forall_skipn {A} (P : A -> Prop) l : Forall P l -> forall k, Forall P (skipn k l).
Proof. induction 1; intros [|k]; cbn; auto. Qed.

Lemma Forall2_length {A B} (R : A -> B -> Prop) l1 l2 :
  Forall2 R l1 l2 -> List.length l1 = List.length l2.
Proof. induction 1; cbn; congruence. Qed.

Lemma forallb_concat {A} (p : A -> bool) ll :
  Forall (fun l => forallb p l = true) ll -> forallb p (concat ll) = true.
Proof. induction 1; cbn; [reflexivity|]. now rewrite forallb_app, H, IHForall. Qed.

(** The invariant relating the command list under construction with the
    groups of the unrolling. *)
Definition grel (c : cmd) (g : list item) : Prop := flatten1 c = map pcmd g.
Definition Inv (l : list cmd) (gs : list (list item)) : Prop :=
  Forall2 grel l gs /\ Forall (fun g => forallb plain g = true) gs.

Lemma inv_flatten l gs : Inv l gs ->
  flatten l = map pcmd (concat gs) /\ forallb plain (concat gs) = true.
Proof.
  intros [H2 Hp]. split; [|now apply forallb_concat].
  unfold flatten. induction H2 as [|c g l gs Hc H2 IH]; [reflexivity|].
  cbn [flat_map concat]. rewrite map_app. inversion Hp; subst.
  rewrite IH by assumption. now rewrite Hc.
Qed.

Lemma inv_snoc l gs c g : Inv l gs -> grel c g -> forallb plain g = true ->
  Inv (l ++ [c]) (gs ++ [g]).
Proof.
  intros [H2 Hp] Hc Hg. split.
  - apply Forall2_app; [assumption|]. constructor; [assumption|constructor].
  - apply Forall_app; split; [assumption|]. constructor; [assumption|constructor].
Qed.

Lemma unroll_inv_n : forall n its, (lsize its <= n)%nat ->
  forall l gs, Inv l gs ->
    Inv (fold_left denote_step its l) (fold_left unroll_step its gs).
Proof.
  induction n as [|n IHn]; intros its Hsz l gs HI.
  - destruct its as [|i its]; [assumption|]. cbn in Hsz. pose proof (isize_pos i). lia.
  - destruct its as [|i its]; [assumption|].
    cbn [lsize fold_right] in Hsz. pose proof (isize_pos i).
    cbn [fold_left]. apply IHn; [unfold lsize; lia|].
    destruct i as [l0 s|l0 nm s|l0 s|l0|l0 a b|l0 k pat th el|k l0|k l0 v];
      cbn [denote_step unroll_step];
      try (apply inv_snoc; [assumption|reflexivity|reflexivity]); try assumption.
    + (* -r *)
      unfold rep_of. destruct (counts a b) as [[n0 r0]|]; [|assumption].
      destruct HI as [H2 Hp]. unfold repeat_last.
      pose proof (Forall2_length _ _ _ H2) as Hlen.
      apply inv_snoc.
      * split.
        -- unfold dropn_end. rewrite Hlen. now apply Forall2_firstn.
        -- unfold dropn_end. now apply Forall_firstn.
      * unfold grel. cbn [flatten1]. rewrite map_repeat_list. f_equal.
        assert (HI' : Inv (lastn (N.to_nat n0) l) (lastn (N.to_nat n0) gs)).
        { split; unfold lastn; [rewrite Hlen; now apply Forall2_skipn|now apply Forall_skipn]. }
        apply inv_flatten in HI' as [HF _]. exact HF.
      * apply forallb_repeat_list. apply forallb_concat. unfold lastn. now apply Forall_skipn.
    + (* -g ... --end *)
      cbn [isize] in Hsz.
      assert (Ht : Inv (fold_left denote_step th []) (fold_left unroll_step th [])).
      { apply IHn; [unfold lsize; lia|]. split; constructor. }
      apply inv_flatten in Ht as [Ft Pt].
      apply inv_snoc; [assumption| |].
      * unfold grel. cbn [flatten1 map pcmd]. fold (flatten (fold_left denote_step th [])).
        rewrite Ft. destruct el as [e|]; [|reflexivity].
        assert (He : Inv (fold_left denote_step e []) (fold_left unroll_step e [])).
        { apply IHn; [unfold lsize; lia|]. split; constructor. }
        apply inv_flatten in He as [Fe _].
        fold (flatten (fold_left denote_step e [])). now rewrite Fe.
      * cbn [forallb plain]. rewrite Pt. cbn [andb].
        destruct el as [e|]; [|reflexivity].
        assert (He : Inv (fold_left denote_step e []) (fold_left unroll_step e [])).
        { apply IHn; [unfold lsize; lia|]. split; constructor. }
        apply inv_flatten in He as [_ Pe]. now rewrite Pe.
Qed.

Lemma denote_skip_opts os : forall l rest,
  forallb is_opt os = true ->
  fold_left denote_step (os ++ rest) l = fold_left denote_step rest l.
Proof.
  induction os as [|i os IH]; intros l rest H; [reflexivity|].
  cbn [forallb] in H. apply andb_prop in H as [Hi H]. cbn [app fold_left].
  destruct i; try discriminate; cbn [denote_step]; now apply IH.
Qed.

Lemma forallb_filter {A} (p : A -> bool) l : forallb p (filter p l) = true.
Proof. induction l as [|x l IH]; cbn; [reflexivity|]. destruct (p x) eqn:E; cbn; now rewrite ?E. Qed.

(** Flattening = unrolling, and the unrolled list has no [-r] left. *)
Theorem flatten_denote_unroll its :
  flatten (denote its) = denote (unroll its).
Proof.
  unfold unroll, denote at 2. rewrite denote_skip_opts by apply forallb_filter.
  pose proof (unroll_inv_n _ its (le_n _) [] [] (conj (Forall2_nil _) (Forall_nil _))) as HI.
  apply inv_flatten in HI as [HF HP]. unfold denote at 1. rewrite HF.
  fold (denote (concat (fold_left unroll_step its []))). now rewrite denote_plain.
Qed.

Theorem unroll_no_repeat its :
  forallb plain (concat (fold_left unroll_step its [])) = true.
Proof.
  pose proof (unroll_inv_n _ its (le_n _) [] [] (conj (Forall2_nil _) (Forall_nil _))) as HI.
  now apply inv_flatten in HI as [_ HP].
Qed.

(** Options are untouched by unrolling. *)
Lemma opt_step_nonopt o i : is_opt i = false -> opt_step o i = o.
Proof. destruct o; destruct i; cbn; try discriminate; reflexivity. Qed.

Lemma fold_opt_filter its : forall o,
  fold_left opt_step (filter is_opt its) o = fold_left opt_step its o.
Proof.
  induction its as [|i its IH]; intros o; [reflexivity|]. cbn [filter fold_left].
  destruct (is_opt i) eqn:E; cbn [fold_left]; [apply IH|].
  rewrite opt_step_nonopt by assumption. apply IH.
Qed.

Lemma fold_opt_plain g : forall o, forallb plain g = true -> fold_left opt_step g o = o.
Proof.
  induction g as [|i g IH]; intros o H; [reflexivity|].
  cbn [forallb] in H. apply andb_prop in H as [Hi H]. cbn [fold_left].
  rewrite opt_step_nonopt; [now apply IH|]. destruct i; try reflexivity; discriminate.
Qed.

Theorem unroll_opts its :
  fold_left opt_step (unroll its) opts0 = fold_left opt_step its opts0.
Proof.
  unfold unroll. rewrite fold_left_app, fold_opt_filter.
  apply fold_opt_plain, unroll_no_repeat.
Qed.

(** ** Unrolling preserves well-formedness. *)
Lemma wf_groups_n : forall n its top, (lsize its <= n)%nat ->
  forallb (wf_item top) its = true ->
  forall gs, Forall (fun g => forallb (wf_item top) g = true) gs ->
    Forall (fun g => forallb (wf_item top) g = true) (fold_left unroll_step its gs).
Proof.
  induction n as [|n IHn]; intros its top Hsz Hw gs Hg.
  - destruct its as [|i its]; [assumption|]. cbn in Hsz. pose proof (isize_pos i). lia.
  - destruct its as [|i its]; [assumption|].
    cbn [lsize fold_right] in Hsz. pose proof (isize_pos i).
    cbn [forallb] in Hw. apply andb_prop in Hw as [Hi Hw].
    cbn [fold_left]. apply IHn; [unfold lsize; lia|assumption|].
    assert (Hsnoc : forall g, forallb (wf_item top) g = true ->
                              Forall (fun g => forallb (wf_item top) g = true) (gs ++ [g])).
    { intros g Hgw. apply Forall_app; split; [assumption|]. constructor; [assumption|constructor]. }
    destruct i as [l0 s|l0 nm s|l0 s|l0|l0 a b|l0 k pat th el|k l0|k l0 v];
      cbn [unroll_step]; try assumption;
      try (apply Hsnoc; cbn [forallb]; now rewrite Hi).
    + destruct (counts a b) as [[n0 r0]|]; [|assumption].
      apply Forall_app; split; [unfold dropn_end; now apply Forall_firstn|].
      constructor; [|constructor].
      apply forallb_repeat_list, forallb_concat. unfold lastn. now apply Forall_skipn.
    + apply Hsnoc. cbn [forallb wf_item]. cbn [wf_item] in Hi. cbn [isize] in Hsz.
      apply andb_prop in Hi as [Hi He]. apply andb_prop in Hi as [Hd Ht].
      rewrite Hd. cbn [andb].
      assert (Ht' : forallb (wf_item false) (concat (fold_left unroll_step th [])) = true).
      { apply forallb_concat. apply IHn; [unfold lsize; lia|assumption|constructor]. }
      rewrite Ht'. cbn [andb].
      destruct el as [e|]; [|reflexivity].
      assert (He' : forallb (wf_item false) (concat (fold_left unroll_step e [])) = true).
      { apply forallb_concat. apply IHn; [unfold lsize; lia|assumption|constructor]. }
      now rewrite He'.
Qed.

Lemma forallb_filter_sub {A} (p q : A -> bool) l :
  forallb p l = true -> forallb p (filter q l) = true.
Proof.
  induction l as [|x l IH]; cbn; [reflexivity|]. intros H. apply andb_prop in H as [Hx H].
  destruct (q x); cbn; rewrite ?Hx; auto.
Qed.

Theorem unroll_wf its :
  forallb (wf_item true) its = true -> forallb (wf_item true) (unroll its) = true.
Proof.
  intros H. unfold unroll. rewrite forallb_app, forallb_filter_sub by assumption. cbn [andb].
  apply forallb_concat. apply (wf_groups_n _ its true (le_n _) H). constructor.
Qed.
