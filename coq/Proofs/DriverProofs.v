(** Facts about the driver model: write-back, backups, all-or-nothing,
    line splitting, order restoration. *)
From Vicut Require Import Base.Prelude Model.Format Model.Drivers.

(** ** The model file system. *)
Lemma fs_get_put_same fs p o : fs_get (fs_put fs p o) p = Some o.
Proof.
  induction fs as [|[q o'] fs IH]; cbn [fs_put fs_get].
  - now rewrite text_eqb_refl.
  - destruct (text_eqb p q) eqn:E; cbn [fs_get]; rewrite E; auto.
Qed.

Lemma fs_get_put_other fs p q o : p <> q -> fs_get (fs_put fs p o) q = fs_get fs q.
Proof.
  intros Hne. induction fs as [|[r o'] fs IH]; cbn [fs_put fs_get].
  - destruct (text_eqb q p) eqn:E; [apply text_eqb_eq in E; congruence|reflexivity].
  - destruct (text_eqb p r) eqn:E; cbn [fs_get].
    + apply text_eqb_eq in E. subst r.
      destruct (text_eqb q p) eqn:E2; [apply text_eqb_eq in E2; congruence|reflexivity].
    + destruct (text_eqb q r); auto.
Qed.

Section WriteBack.
  Variable unit : option text -> text -> outcome (list record).
  Variable o : dopts.
  Hypothesis Hin : do_inplace o = true.

  (** the write loop shared by all [-i] drivers: payloads in order *)
  Fixpoint wb_all (l : list (text * text)) (s : dstate) : result :=
    match l with
    | [] => (s, Done)
    | (p, t) :: l' =>
      match write_back o s p t with
      | (s', Done) => wb_all l' s'
      | r => r
      end
    end.

  (** without [--backup]: every named file holds its payload, nothing else
      changes, nothing is printed *)
  Theorem wb_all_no_backup l : forall s,
    do_backup o = false -> NoDup (map fst l) ->
    exists s', wb_all l s = (s', Done)
      /\ d_out s' = d_out s
      /\ (forall p t, In (p, t) l -> fs_get (d_fs s') p = Some (FText t))
      /\ (forall q, ~ In q (map fst l) -> fs_get (d_fs s') q = fs_get (d_fs s) q).
  Proof.
    induction l as [|[p t] l IH]; intros s Hb Hnd.
    - exists s. split; [reflexivity|]. split; [reflexivity|]. split; [intros ? ? []|reflexivity].
    - cbn [map fst] in Hnd. inversion Hnd as [|? ? Hni Hnd']; subst.
      cbn [wb_all]. unfold write_back. rewrite Hb.
      set (s1 := mkD (fs_put (d_fs s) p (FText t)) (d_out s)).
      destruct (IH s1 Hb Hnd') as (s' & Hr & Ho & Hin' & Hout).
      exists s'. split; [exact Hr|]. split; [now rewrite Ho|]. split.
      + intros q u [E|Hq].
        * inversion E; subst q u. rewrite Hout by assumption. cbn [s1 d_fs].
          apply fs_get_put_same.
        * now apply Hin'.
      + intros q Hq. cbn [map fst In] in Hq.
        rewrite Hout by tauto. cbn [s1 d_fs]. apply fs_get_put_other. tauto.
  Qed.

  (** with [--backup]: additionally every backup sibling holds the original
      object, provided backup names collide neither with named files nor with
      each other *)
  Theorem wb_all_backup l : forall s,
    do_backup o = true ->
    NoDup (map fst l ++ map (fun pt => backup_path (T "bak") (fst pt)) l) ->
    (forall p t, In (p, t) l -> fs_get (d_fs s) p <> None) ->
    exists s', wb_all l s = (s', Done)
      /\ d_out s' = d_out s
      /\ (forall p t, In (p, t) l ->
            fs_get (d_fs s') p = Some (FText t)
            /\ fs_get (d_fs s') (backup_path (T "bak") p) = fs_get (d_fs s) p)
      /\ (forall q, ~ In q (map fst l) ->
            ~ In q (map (fun pt => backup_path (T "bak") (fst pt)) l) ->
            fs_get (d_fs s') q = fs_get (d_fs s) q).
  Proof.
    induction l as [|[p t] l IH]; intros s Hb Hnd Hex.
    - exists s. split; [reflexivity|]. split; [reflexivity|]. split; [intros ? ? []|reflexivity].
    - cbn [map fst app] in Hnd.
      set (bp := fun pt : text * text => backup_path (T "bak") (fst pt)) in *.
      inversion Hnd as [|? ? Hni Hnd1]; subst.
      assert (Hnd' : NoDup (map fst l ++ map bp l)).
      { apply NoDup_remove_1 in Hnd1. exact Hnd1. }
      assert (Hbp_ni : ~ In (bp (p, t)) (map fst l ++ map bp l)).
      { apply NoDup_remove_2 in Hnd1. exact Hnd1. }
      assert (Hp_bp : p <> bp (p, t)).
      { intros E. apply Hni. apply in_or_app. right. left. exact (eq_sym E). }
      destruct (fs_get (d_fs s) p) as [ob|] eqn:Hgp; [|exfalso; eapply Hex; [left; reflexivity|assumption]].
      cbn [wb_all]. unfold write_back. rewrite Hb, Hgp.
      set (fs1 := fs_put (d_fs s) (backup_path (T "bak") p) ob).
      set (s1 := mkD (fs_put fs1 p (FText t)) (d_out s)).
      assert (Hex1 : forall q u, In (q, u) l -> fs_get (d_fs s1) q <> None).
      { intros q u Hq. cbn [s1 d_fs].
        assert (q <> p).
        { intros ->. apply Hni. apply in_or_app. left. apply in_map_iff. now exists (p, u). }
        assert (q <> bp (p, t)).
        { intros ->. apply Hbp_ni. apply in_or_app. left. apply in_map_iff. now exists (bp (p, t), u). }
        rewrite fs_get_put_other by (intros X; apply H; now symmetry). unfold fs1.
        rewrite fs_get_put_other by (intros X; apply H0; now symmetry). eapply Hex. right. eassumption. }
      destruct (IH s1 Hb Hnd' Hex1) as (s' & Hr & Ho & Hin' & Hout).
      exists s'. split; [exact Hr|]. split; [now rewrite Ho|]. split.
      + intros q u [E|Hq].
        * inversion E; subst q u.
          assert (N1 : ~ In p (map fst l)) by (intros X; apply Hni; apply in_or_app; now left).
          assert (N2 : ~ In p (map bp l)) by (intros X; apply Hni; apply in_or_app; right; now right).
          assert (N3 : ~ In (bp (p, t)) (map fst l)) by (intros X; apply Hbp_ni; apply in_or_app; now left).
          assert (N4 : ~ In (bp (p, t)) (map bp l)) by (intros X; apply Hbp_ni; apply in_or_app; now right).
          split.
          -- rewrite Hout by assumption. cbn [s1 d_fs]. apply fs_get_put_same.
          -- change (backup_path (T "bak") p) with (bp (p, t)).
             rewrite Hout by assumption. cbn [s1 d_fs].
 rewrite fs_get_put_other by assumption. unfold fs1.
             rewrite Hgp. apply fs_get_put_same.
        * destruct (Hin' q u Hq) as [A B]. split; [exact A|].
          rewrite B. cbn [s1 d_fs].
          assert (q <> p).
          { intros ->. apply Hni. apply in_or_app. left. apply in_map_iff. now exists (p, u). }
          assert (q <> bp (p, t)).
          { intros ->. apply Hbp_ni. apply in_or_app. left. apply in_map_iff. now exists (bp (p, t), u). }
          rewrite fs_get_put_other by (intros X; apply H; now symmetry). unfold fs1.
          apply fs_get_put_other. intros X; apply H0; now symmetry.
      + intros q Hq1 Hq2. cbn [map fst In] in Hq1, Hq2.
        rewrite Hout by tauto. cbn [s1 d_fs].
        rewrite fs_get_put_other by tauto. unfold fs1.
        apply fs_get_put_other. intros X. apply Hq2. left. exact X.
  Qed.
End WriteBack.

(** ** The parallel drivers: emit = write-back of the formatted payloads. *)
Section Emit.
  Variable unit : option text -> text -> outcome (list record).
  Variable o : dopts.

  Lemma emit_all_inplace payloads : forall s,
    do_inplace o = true -> emit_all o payloads s = wb_all o payloads s.
  Proof.
    induction payloads as [|[p t] payloads IH]; intros s Hi; cbn [emit_all wb_all]; [reflexivity|].
    rewrite Hi. destruct (write_back o s p t) as [s' [|b]]; [now apply IH|reflexivity].
  Qed.

  Lemma files_emit_inplace results : forall payloads s,
    do_inplace o = true -> fmt_results o results = Ok payloads ->
    files_emit o results s = wb_all o payloads s.
  Proof. intros payloads s Hi Hf. unfold files_emit. rewrite Hf. now apply emit_all_inplace. Qed.

  (** a formatting error (unknown template field) in any file leaves everything untouched *)
  Theorem files_emit_atomic results s :
    (forall payloads, fmt_results o results <> Ok payloads) ->
    exists b, files_emit o results s = (s, Failed b).
  Proof.
    intros H. unfold files_emit. destruct (fmt_results o results) as [l| |x|] eqn:E.
    - exfalso. now apply (H l).
    - now exists false.
    - now exists true.
    - now exists false.
  Qed.

  (** all-or-nothing for the parallel driver: an unreadable file or an
      aborting unit leaves the file system and stdout exactly as they were *)
  Theorem files_parallel_atomic s :
    (read_all (d_fs s) (do_files o) = None \/
     exists work, read_all (d_fs s) (do_files o) = Some work /\
                  forall r, exec_all unit work <> Ok r) ->
    exists b, files_parallel unit o s = (s, Failed b).
  Proof.
    unfold files_parallel. intros [Hr|(work & Hr & He)]; rewrite Hr.
    - now exists false.
    - destruct (exec_all unit work) as [r| |x|] eqn:E.
      + exfalso. now apply (He r).
      + now exists false.
      + now exists true.
      + now exists false.
  Qed.

  Theorem lw_files_parallel_atomic s :
    (read_all (d_fs s) (do_files o) = None \/
     exists work, read_all (d_fs s) (do_files o) = Some work /\
                  forall r, lw_exec_all unit o work <> Ok r) ->
    exists b, lw_files_parallel unit o s = (s, Failed b).
  Proof.
    unfold lw_files_parallel. intros [Hr|(work & Hr & He)]; rewrite Hr.
    - now exists false.
    - destruct (lw_exec_all unit o work) as [r| |x|] eqn:E.
      + exfalso. now apply (He r).
      + now exists false.
      + now exists true.
      + now exists false.
  Qed.

  (** the twin: a single file without [-i] prints exactly the payload that
      [-i] writes *)
  Theorem single_file_twin p recs t s :
    do_files o = [p] -> format_output (do_fmt o) recs = Ok t ->
    (do_inplace o = false -> files_emit o [(p, recs)] s = (out s t, Done))
    /\ (do_inplace o = true -> files_emit o [(p, recs)] s = write_back o s p t).
  Proof.
    intros Hf Ht. split; intros Hi; unfold files_emit; cbn [fmt_results]; rewrite Ht; cbn [emit_all]; rewrite Hi.
    - unfold multi. rewrite Hf. reflexivity.
    - destruct (write_back o s p t) as [s' [|b]]; reflexivity.
  Qed.
End Emit.

(** ** [get_lines]. *)
Lemma get_lines_aux_concat t : forall cur, concat (get_lines_aux cur t) = cur ++ t.
Proof.
  induction t as [|c t IH]; intros cur; cbn [get_lines_aux].
  - destruct cur; cbn; now rewrite ?app_nil_r.
  - destruct (c =? 10); cbn [concat]; rewrite IH; now rewrite <- app_assoc.
Qed.

Theorem get_lines_concat t : concat (get_lines t) = t.
Proof. apply get_lines_aux_concat. Qed.

Definition nl_free (l : text) : Prop := ~ In 10 l.

Lemma get_lines_aux_shape t : forall cur, nl_free cur ->
  Forall (fun l => l <> [] /\ exists body, nl_free body /\ (l = body ++ [10] \/ l = body))
         (get_lines_aux cur t).
Proof.
  induction t as [|c t IH]; intros cur Hc; cbn [get_lines_aux].
  - destruct cur as [|x cur]; cbn [is_nil]; constructor; [|constructor].
    split; [discriminate|]. exists (x :: cur). auto.
  - destruct (N.eqb_spec c 10) as [->|Hne].
    + constructor.
      * split; [destruct cur; discriminate|]. exists cur. auto.
      * apply IH. intros [].
    + apply IH. unfold nl_free. intros Hin. apply in_app_or in Hin as [Hin|[E|[]]]; [now apply Hc|].
      congruence.
Qed.

(** every line is non-empty, has no newline except possibly as its last
    character; only the last line may lack the terminator *)
Theorem get_lines_shape t :
  Forall (fun l => l <> [] /\ exists body, nl_free body /\ (l = body ++ [10] \/ l = body))
         (get_lines t).
Proof. apply get_lines_aux_shape. intros []. Qed.

(** ** Output of concatenated records = concatenation of the outputs. *)
Lemma format_template_app t r1 : forall r2 o1 o2,
  format_template t r1 = Ok o1 -> format_template t r2 = Ok o2 ->
  format_template t (r1 ++ r2) = Ok (o1 ++ o2).
Proof.
  induction r1 as [|r r1 IH]; intros r2 o1 o2 H1 H2; cbn [app format_template] in *.
  - inversion H1. exact H2.
  - destruct (tmpl_scan r None [] t) as [line|]; [|discriminate].
    destruct (format_template t r1) as [rest| | |] eqn:E; try discriminate.
    inversion H1; subst o1. rewrite (IH r2 rest o2 eq_refl H2). now rewrite <- app_assoc.
Qed.

Lemma std_lines_app d r1 r2 :
  flat_map (std_line d) (r1 ++ r2) = flat_map (std_line d) r1 ++ flat_map (std_line d) r2.
Proof. apply flat_map_app. Qed.

(** ** [format_linewise]: outside JSON the output of a --linewise run is the
    per-line outputs put together in input order *)
Lemma fmt_units_concat o rs : forall ts,
  Forall2 (fun r t => format_output (do_fmt o) r = Ok t) rs ts ->
  fmt_units o rs = Ok (concat ts).
Proof.
  induction rs as [|r rs IH]; intros ts H; inversion H as [|? t ? ts' Hr Hrest]; subst; [reflexivity|].
  cbn [fmt_units concat]. rewrite Hr, (IH _ Hrest). reflexivity.
Qed.

Lemma fmt_units_fail o rs r :
  In r rs -> format_output (do_fmt o) r = Exit1 ->
  (forall r', In r' rs -> format_output (do_fmt o) r' = Exit1 \/ exists t, format_output (do_fmt o) r' = Ok t) ->
  fmt_units o rs = Exit1.
Proof.
  induction rs as [|r0 rs IH]; intros Hin Hf Hall; [destruct Hin|].
  cbn [fmt_units].
  destruct (Hall r0 (or_introl eq_refl)) as [E|[t E]]; rewrite E; [reflexivity|].
  destruct Hin as [->|Hin]; [congruence|].
  rewrite (IH Hin Hf (fun r' H' => Hall r' (or_intror H'))). reflexivity.
Qed.
