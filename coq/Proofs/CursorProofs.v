(** The editor's position always agrees with its text. *)
From Vicut Require Import Base.Prelude Model.Text Model.Global Model.Cursor Proofs.TextProofs.

(** after every command the cursor lies inside the text ... *)
Theorem epilogue_in_bounds cl cur excl :
  (epilogue_cursor cl cur excl <= (if excl then length cl - 1 else length cl))%nat.
Proof.
  unfold epilogue_cursor.
  destruct (excl && _ && _); lia.
Qed.

(** ... and in normal mode never on the terminator of a non-empty line *)
Theorem epilogue_off_newline cl cur :
  let c := epilogue_cursor cl cur true in
  ~ (exists p, c = S p /\ nth_error cl c = Some [10] /\ exists x, nth_error cl p = Some x /\ x <> [10]).
Proof.
  cbn zeta. unfold epilogue_cursor. cbn [andb].
  set (c1 := Nat.min cur (length cl - 1)).
  destruct (nth_error cl c1) as [c|] eqn:E1.
  - destruct (is_nl c) eqn:Enl; cbn [andb].
    + destruct c1 as [|p] eqn:Ec; [intros (q & Hq & _); discriminate|].
      destruct (nth_error cl p) as [d|] eqn:E2.
      * destruct (is_nl d) eqn:End; cbn [negb].
        -- (* previous cluster is a newline: stays *)
           intros (q & Hq & _ & x & Hx & Hne). inversion Hq; subst q. rewrite E2 in Hx. inversion Hx; subst x.
           apply Hne. unfold is_nl in End. now apply text_eqb_eq in End.
        -- (* pushed back onto [p], which is not a newline *)
           replace (S p - 1)%nat with p by lia.
           intros (q & Hq & Hn & _). rewrite E2 in Hn. inversion Hn; subst d.
           unfold is_nl in End. cbn in End. discriminate.
      * intros (q & Hq & _ & x & Hx & _). inversion Hq; subst q. rewrite E2 in Hx. discriminate.
    + intros (q & Hq & Hn & _). rewrite E1 in Hn. inversion Hn; subst c.
      unfold is_nl in Enl. cbn in Enl. discriminate.
  - cbn [andb]. intros (q & Hq & Hn & _). rewrite E1 in Hn. discriminate.
Qed.

(** the epilogue changes nothing when the cursor is already valid *)
Theorem epilogue_idempotent cl cur excl :
  epilogue_cursor cl (epilogue_cursor cl cur excl) excl = epilogue_cursor cl cur excl.
Proof.
  destruct excl.
  - pose proof (epilogue_in_bounds cl cur true) as Hb. cbn in Hb.
    pose proof (epilogue_off_newline cl cur) as Hn. cbn zeta in Hn.
    set (c := epilogue_cursor cl cur true) in *.
    unfold epilogue_cursor at 1. cbn [andb]. rewrite Nat.min_l by exact Hb.
    destruct (nth_error cl c) as [x|] eqn:E1; [|reflexivity].
    destruct (is_nl x) eqn:Ex; cbn [andb]; [|reflexivity].
    destruct c as [|p] eqn:Ec; [reflexivity|].
    destruct (nth_error cl p) as [y|] eqn:E2; [|reflexivity].
    destruct (is_nl y) eqn:Ey; cbn [negb]; [reflexivity|].
    exfalso. apply Hn. exists p. split; [reflexivity|]. split.
    + unfold is_nl in Ex. apply text_eqb_eq in Ex. subst x. reflexivity.
    + exists y. split; [exact E2|]. intros ->. unfold is_nl in Ey. cbn in Ey. discriminate.
  - unfold epilogue_cursor. cbn [andb]. now rewrite Nat.min_l by apply Nat.le_min_r.
Qed.

(** line numbers: counting newline characters (as [line] does) and counting
    newline clusters (as [line_bounds], hence [col], does) agree when every
    newline is a cluster of its own *)
Lemma count_nl_app a b : count_nl_chars (a ++ b) = (count_nl_chars a + count_nl_chars b)%nat.
Proof. unfold count_nl_chars. now rewrite filter_app, app_length. Qed.

Theorem line_numbers_agree cl cur :
  nl_alone cl -> line_number_chars cl cur = line_number_clusters cl cur.
Proof.
  unfold line_number_chars, line_number_clusters. intros Hal.
  assert (H : forall l, (forall c, In c l -> In 10 c -> c = [10]) ->
              count_nl_chars (concat l) = length (filter is_nl l)).
  { induction l as [|c l IH]; intros Hl; [reflexivity|]. cbn [concat filter].
    rewrite count_nl_app, IH by (intros; apply Hl; [now right|assumption]).
    destruct (is_nl c) eqn:E.
    - unfold is_nl in E. apply text_eqb_eq in E. subst c. reflexivity.
    - assert (Hn : count_nl_chars c = 0%nat).
      { unfold count_nl_chars. destruct (filter (fun x => x =? 10) c) as [|y r] eqn:Ef; [reflexivity|].
        exfalso. assert (Hin : In y (filter (fun x => x =? 10) c)) by (rewrite Ef; now left).
        apply filter_In in Hin as [Hin Hy]. apply N.eqb_eq in Hy. subst y.
        rewrite (Hl c (or_introl eq_refl) Hin) in E. unfold is_nl in E. cbn in E. discriminate. }
      rewrite Hn. reflexivity. }
  apply H. intros c Hc. apply Hal. eapply (In_firstn_in _ _ _ Hc) || idtac.
  revert Hc. clear. revert cur. induction cl as [|x cl IH]; intros [|cur] Hc; cbn in Hc; try tauto.
  destruct Hc as [<-|Hc]; [now left|]. right. eapply IH. exact Hc.
Qed.

(** [pos] is the byte offset at which the cluster under the cursor starts *)
Theorem byte_pos_is_offset cl cur :
  (cur < length cl)%nat -> nth_error (offsets cl) cur = Some (byte_pos cl cur).
Proof. intros H. unfold offsets, byte_pos. now rewrite offsets_from_nth. Qed.
