(** The reference interpreter of vic: blocks are scopes, output only grows. *)
From Vicut Require Import Base.Prelude Model.Format Model.Vic.

Definition keys {A} (fr : list (text * A)) : list text := map fst fr.

(** what running anything may do to the variable stack and the output:
    same depth, the outer frames keep their names, the innermost frame may only
    gain names, and the output is extended *)
Definition R (a b : state) : Prop :=
  length (vars b) = length (vars a)
  /\ map keys (tl (vars b)) = map keys (tl (vars a))
  /\ incl (keys (hd [] (vars a))) (keys (hd [] (vars b)))
  /\ exists o, output b = output a ++ o.

Lemma R_refl a : R a a.
Proof. repeat split; auto using incl_refl. exists []. now rewrite app_nil_r. Qed.

Lemma R_trans a b c : R a b -> R b c -> R a c.
Proof.
  intros (L1 & T1 & I1 & o1 & O1) (L2 & T2 & I2 & o2 & O2). repeat split; try congruence.
  - eapply incl_tran; eassumption.
  - exists (o1 ++ o2). now rewrite O2, O1, app_assoc.
Qed.

Lemma fset_keys_existing {A} x (v : A) f : flookup x f <> None -> keys (fset x v f) = keys f.
Proof.
  induction f as [|[k w] f IH]; cbn [flookup fset]; [congruence|].
  destruct (text_eqb k x); cbn [keys map fst]; [reflexivity|]. intros H. f_equal. now apply IH.
Qed.

Lemma fset_keys_incl {A} x (v : A) f : incl (keys f) (keys (fset x v f)).
Proof.
  induction f as [|[k w] f IH]; cbn [fset]; [intros y []|].
  destruct (text_eqb k x); cbn [keys map fst]; [apply incl_refl|].
  intros y [<-|H]; [now left|right; now apply IH].
Qed.

Lemma assign_shape x v : forall fs fs', assign_stack x v fs = Some fs' -> map keys fs' = map keys fs.
Proof.
  induction fs as [|f fs IH]; intros fs' H; cbn [assign_stack] in H; [discriminate|].
  destruct (flookup x f) eqn:E.
  - injection H as <-. cbn [map]. f_equal. apply fset_keys_existing. congruence.
  - destruct (assign_stack x v fs) as [r|] eqn:E2; [|discriminate]. injection H as <-.
    cbn [map]. f_equal. now apply IH.
Qed.

Lemma R_assign st x v fs : assign_stack x v (vars st) = Some fs -> R st (mkSt fs (funs st) (output st)).
Proof.
  intros H. apply assign_shape in H. unfold R. cbn [vars output].
  assert (L : length fs = length (vars st)).
  { apply (f_equal (@length _)) in H. now rewrite !map_length in H. }
  destruct fs as [|f fs], (vars st) as [|g gs]; try discriminate; cbn [tl hd map] in *.
  - repeat split; auto using incl_refl. exists []. now rewrite app_nil_r.
  - injection H as H1 H2. repeat split; auto.
    + unfold keys in *. rewrite H1. apply incl_refl.
    + exists []. now rewrite app_nil_r.
Qed.

Lemma R_declare st x v : vars st <> [] -> R st (declare x v st).
Proof.
  unfold declare, R. destruct (vars st) as [|f fs]; [congruence|]. intros _. cbn [vars output tl hd length].
  repeat split; auto. - apply fset_keys_incl. - exists []. now rewrite app_nil_r.
Qed.

Lemma R_emit st t : R st (emit t st).
Proof. unfold R, emit; cbn. repeat split; auto using incl_refl. now exists t. Qed.

Lemma R_nonempty a b : R a b -> vars a <> [] -> vars b <> [].
Proof. intros (L & _) H E. rewrite E in L. destruct (vars a); [congruence|discriminate]. Qed.

(** leaving a scope that was entered: exactly the frames and names of before *)
Definition same_names (a b : state) : Prop :=
  map keys (vars b) = map keys (vars a) /\ exists o, output b = output a ++ o.

Lemma pop_after_push st st1 : R (push_scope st) st1 -> same_names st (pop_scope st1).
Proof.
  unfold R, push_scope, pop_scope, same_names. cbn [vars output tl hd length].
  intros (L & T & _ & O). split; [|exact O].
  destruct (vars st1) as [|t r]; [discriminate|]. exact T.
Qed.

Lemma same_names_R a b : same_names a b -> R a b.
Proof.
  intros (K & O). unfold R. repeat split.
  - apply (f_equal (@length _)) in K. now rewrite !map_length in K.
  - destruct (vars a), (vars b); try discriminate; cbn in *; congruence.
  - destruct (vars a), (vars b); try discriminate; cbn in *; [apply incl_refl|].
    injection K as K1 _. unfold keys in *. rewrite K1. apply incl_refl.
  - exact O.
Qed.

(** the states a result carries *)
Definition sres_ok (P : state -> Prop) (r : sres) : Prop :=
  match r with
  | RNormal st | RBreak st | RContinue st | RReturn _ st => P st
  | RErr | RFuel => True
  end.
Definition eres_ok (P : state -> Prop) (r : eres) : Prop :=
  match r with EV _ st => P st | _ => True end.

Definition Pall (f : nat) : Prop :=
  (forall e st, vars st <> [] -> eres_ok (R st) (eval f e st))
  /\ (forall es st, vars st <> [] -> R st (snd (fst (eval_list f es st))))
  /\ (forall fn vs st, vars st <> [] -> eres_ok (R st) (call f fn vs st))
  /\ (forall s st, vars st <> [] -> sres_ok (R st) (exec f s st))
  /\ (forall b st, vars st <> [] -> sres_ok (same_names st) (scoped f b st))
  /\ (forall b st, vars st <> [] -> sres_ok (R st) (exec_block f b st))
  /\ (forall x items body st, vars st <> [] -> sres_ok (R st) (for_items f x items body st)).

Ltac ne := solve [assumption | eauto using R_nonempty, same_names_R].
Ltac fin :=
  solve [ exact I | apply R_refl | assumption
        | eapply R_trans; [eassumption|]; solve [apply R_refl | assumption | eapply R_trans; eassumption]
        | eauto using R_trans, R_refl ].

Theorem all_R : forall f, Pall f.
Proof.
  induction f as [|f (IHe & IHl & IHc & IHx & IHs & IHb & IHf)].
  - unfold Pall. cbn. refine (conj _ (conj _ (conj _ (conj _ (conj _ (conj _ _)))))); intros; try exact I; apply R_refl.
  - assert (Ee : forall e st v st1, vars st <> [] -> eval f e st = EV v st1 -> R st st1).
    { intros e st v st1 Hn E. specialize (IHe e st Hn). now rewrite E in IHe. }
    assert (El : forall es st o st1 b, vars st <> [] -> eval_list f es st = (o, st1, b) -> R st st1).
    { intros es st o st1 b Hn E. specialize (IHl es st Hn). now rewrite E in IHl. }
    assert (Ec : forall fn vs st v st1, vars st <> [] -> call f fn vs st = EV v st1 -> R st st1).
    { intros fn vs st v st1 Hn E. specialize (IHc fn vs st Hn). now rewrite E in IHc. }
    unfold Pall. refine (conj _ (conj _ (conj _ (conj _ (conj _ (conj _ _)))))).
    + (* eval *)
      intros e st Hn. cbn [eval]. destruct e; cbn [eres_ok]; try apply R_refl.
      * destruct (lookup_stack x (vars st)); cbn; [apply R_refl|exact I].
      * destruct (eval f e st) as [v st1| |] eqn:E1; try exact I.
        destruct v; try exact I. destruct (z <? 0)%Z; [exact I|].
        pose proof (Ee _ _ _ _ Hn E1) as R1.
        destruct (lookup_stack x (vars st1)) as [[]|]; try exact I.
        -- destruct (nth_error t (Z.to_nat z)); cbn; [exact R1|exact I].
        -- destruct (nth_error l (Z.to_nat z)); cbn; [exact R1|exact I].
      * destruct (eval_list f es st) as [[o st1] b] eqn:E1.
        pose proof (El _ _ _ _ _ Hn E1) as R1. destruct o; [exact R1|]. destruct b; exact I.
      * destruct (eval f e1 st) as [v st1| |] eqn:E1; try exact I. destruct v; try exact I.
        pose proof (Ee _ _ _ _ Hn E1) as R1.
        destruct (eval f e2 st1) as [v2 st2| |] eqn:E2; try exact I. destruct v2; try exact I.
        pose proof (Ee _ _ _ _ (R_nonempty _ _ R1 Hn) E2) as R2.
        destruct (arith op z z0); cbn; [eapply R_trans; eassumption|exact I].
      * destruct (eval f e1 st) as [v st1| |] eqn:E1; try exact I.
        pose proof (Ee _ _ _ _ Hn E1) as R1.
        destruct (eval f e2 st1) as [v2 st2| |] eqn:E2; try exact I.
        pose proof (Ee _ _ _ _ (R_nonempty _ _ R1 Hn) E2) as R2.
        destruct (compare op v v2); cbn; [eapply R_trans; eassumption|exact I].
      * destruct (eval f e1 st) as [v st1| |] eqn:E1; try exact I.
        pose proof (Ee _ _ _ _ Hn E1) as R1.
        destruct (eval f e2 st1) as [v2 st2| |] eqn:E2; try exact I.
        pose proof (Ee _ _ _ _ (R_nonempty _ _ R1 Hn) E2) as R2. cbn. eapply R_trans; eassumption.
      * destruct (eval f e1 st) as [v st1| |] eqn:E1; try exact I.
        pose proof (Ee _ _ _ _ Hn E1) as R1.
        destruct (eval f e2 st1) as [v2 st2| |] eqn:E2; try exact I.
        pose proof (Ee _ _ _ _ (R_nonempty _ _ R1 Hn) E2) as R2. cbn. eapply R_trans; eassumption.
      * destruct (eval f e st) as [v st1| |] eqn:E1; try exact I. cbn. eapply Ee; eassumption.
      * destruct (eval_list f args st) as [[o st1] b] eqn:E1.
        pose proof (El _ _ _ _ _ Hn E1) as R1. destruct o as [vs|]; [|destruct b; exact I].
        specialize (IHc f0 vs st1 (R_nonempty _ _ R1 Hn)).
        destruct (call f f0 vs st1); cbn in *; try exact I. eapply R_trans; eassumption.
      * destruct (eval f e1 st) as [v st1| |] eqn:E1; try exact I. destruct v; try exact I.
        pose proof (Ee _ _ _ _ Hn E1) as R1.
        destruct (eval f e2 st1) as [v2 st2| |] eqn:E2; try exact I. destruct v2; try exact I.
        pose proof (Ee _ _ _ _ (R_nonempty _ _ R1 Hn) E2) as R2. cbn. eapply R_trans; eassumption.
    + (* eval_list *)
      intros es0 st Hn. cbn [eval_list]. destruct es0 as [|e es']; [apply R_refl|].
      destruct (eval f e st) as [v st1| |] eqn:E1; try apply R_refl.
      pose proof (Ee _ _ _ _ Hn E1) as R1.
      destruct (eval_list f es' st1) as [[o st2] b] eqn:E2.
      pose proof (El _ _ _ _ _ (R_nonempty _ _ R1 Hn) E2) as R2.
      destruct o; cbn; eapply R_trans; eassumption.
    + (* call *)
      intros fn vs st Hn. cbn [call]. destruct (lookup_stack fn (funs st)) as [[params body]|]; [|exact I].
      destruct (negb (length params =? length vs)%nat); [exact I|]. cbv zeta.
      set (st2 := mkSt _ _ _).
      assert (R2 : R (push_scope st) st2).
      { unfold st2, push_scope, R. cbn [vars output tl hd length]. repeat split; auto.
        - intros y []. - exists []. now rewrite app_nil_r. }
      assert (N2 : vars st2 <> []) by (unfold st2, push_scope; cbn; congruence).
      specialize (IHb body st2 N2).
      destruct (exec_block f body st2) as [s3|s3|s3|v s3| |]; cbn [sres_ok eres_ok] in *; try exact I;
        apply same_names_R, pop_after_push; eapply R_trans; eassumption.
    + (* exec *)
      intros s st Hn. cbn [exec]. destruct s; cbn [sres_ok].
      * destruct (eval f e st) as [v st1| |] eqn:E1; try exact I. cbn.
        pose proof (Ee _ _ _ _ Hn E1) as R1. eapply R_trans; [exact R1|]. apply R_declare. ne.
      * destruct (eval f e st) as [v st1| |] eqn:E1; try exact I.
        pose proof (Ee _ _ _ _ Hn E1) as R1.
        match goal with |- sres_ok _ (match ?nv with _ => _ end) => destruct nv as [newv|] end; [|exact I].
        destruct (assign_stack x newv (vars st1)) eqn:EA; [|exact I]. cbn.
        eapply R_trans; [exact R1|]. exact (R_assign _ _ _ _ EA).
      * destruct (eval f e st) as [v st1| |] eqn:E1; try exact I.
        pose proof (Ee _ _ _ _ Hn E1) as R1.
        destruct (eval f i st1) as [v2 st2| |] eqn:E2; try exact I. destruct v2; try exact I.
        pose proof (Ee _ _ _ _ (R_nonempty _ _ R1 Hn) E2) as R2.
        destruct (z <? 0)%Z; [exact I|].
        destruct (lookup_stack x (vars st2)) as [[]|]; try exact I.
        destruct (set_nth (Z.to_nat z) v l); [|exact I].
        destruct (assign_stack x (VArr l0) (vars st2)) eqn:EA; [|exact I]. cbn.
        eapply R_trans; [exact R1|]. eapply R_trans; [exact R2|]. exact (R_assign _ _ _ _ EA).
      * destruct (eval f e st) as [v st1| |] eqn:E1; try exact I.
        pose proof (Ee _ _ _ _ Hn E1) as R1.
        destruct (lookup_stack x (vars st1)) as [[]|]; try exact I.
        -- destruct (assign_stack x (VStr (t ++ show v)) (vars st1)) eqn:EA; [|exact I]. cbn.
           eapply R_trans; [exact R1|]. exact (R_assign _ _ _ _ EA).
        -- destruct (assign_stack x (VArr (l ++ [v])) (vars st1)) eqn:EA; [|exact I]. cbn.
           eapply R_trans; [exact R1|]. exact (R_assign _ _ _ _ EA).
      * destruct (lookup_stack x (vars st)) as [[]|]; try exact I.
        -- destruct (assign_stack x (VStr (removelast t)) (vars st)) eqn:EA; [|exact I]. cbn. exact (R_assign _ _ _ _ EA).
        -- destruct (assign_stack x (VArr (removelast l)) (vars st)) eqn:EA; [|exact I]. cbn. exact (R_assign _ _ _ _ EA).
      * destruct (eval_list f es st) as [[o st1] b] eqn:E1.
        pose proof (El _ _ _ _ _ Hn E1) as R1. destruct o; [|destruct b; exact I]. cbn.
        eapply R_trans; [exact R1|]. apply R_emit.
      * destruct branches as [|[c b] rest].
        -- destruct els as [b|]; [|apply R_refl].
           specialize (IHs b st Hn). destruct (scoped f b st); cbn in *; try exact I; now apply same_names_R.
        -- destruct (eval f c st) as [v st1| |] eqn:E1; try exact I.
           pose proof (Ee _ _ _ _ Hn E1) as R1. pose proof (R_nonempty _ _ R1 Hn) as N1.
           destruct (truthy v).
           ++ specialize (IHs b st1 N1). destruct (scoped f b st1); cbn in *; try exact I;
                (eapply R_trans; [exact R1|]; now apply same_names_R).
           ++ specialize (IHx (SIf rest els) st1 N1). destruct (exec f (SIf rest els) st1); cbn in *; try exact I;
                (eapply R_trans; eassumption).
      * destruct (eval f c st) as [v st1| |] eqn:E1; try exact I.
        pose proof (Ee _ _ _ _ Hn E1) as R1. pose proof (R_nonempty _ _ R1 Hn) as N1.
        destruct (xorb until (truthy v)); [|exact R1].
        specialize (IHs body st1 N1).
        destruct (scoped f body st1) as [s2|s2|s2|v2 s2| |]; cbn [sres_ok] in *; try exact I.
        -- pose proof (R_trans _ _ _ R1 (same_names_R _ _ IHs)) as R2.
           specialize (IHx (SLoop until c body) s2 (R_nonempty _ _ R2 Hn)).
           destruct (exec f (SLoop until c body) s2); cbn in *; try exact I; eapply R_trans; eassumption.
        -- eapply R_trans; [exact R1|]. now apply same_names_R.
        -- pose proof (R_trans _ _ _ R1 (same_names_R _ _ IHs)) as R2.
           specialize (IHx (SLoop until c body) s2 (R_nonempty _ _ R2 Hn)).
           destruct (exec f (SLoop until c body) s2); cbn in *; try exact I; eapply R_trans; eassumption.
        -- eapply R_trans; [exact R1|]. now apply same_names_R.
      * destruct (eval f iter st) as [v st1| |] eqn:E1; try exact I.
        pose proof (Ee _ _ _ _ Hn E1) as R1. pose proof (R_nonempty _ _ R1 Hn) as N1.
        destruct (items_of v) as [items|]; [|exact I].
        specialize (IHf x items body st1 N1).
        destruct (for_items f x items body st1); cbn in *; try exact I; eapply R_trans; eassumption.
      * cbn. unfold R. cbn [vars output]. repeat split; auto using incl_refl. exists []. now rewrite app_nil_r.
      * destruct (eval_list f args st) as [[o st1] b] eqn:E1.
        pose proof (El _ _ _ _ _ Hn E1) as R1. destruct o as [vs|]; [|destruct b; exact I].
        specialize (IHc f0 vs st1 (R_nonempty _ _ R1 Hn)).
        destruct (call f f0 vs st1); cbn in *; try exact I. eapply R_trans; eassumption.
      * destruct (eval f e st) as [v st1| |] eqn:E1; try exact I. cbn. eapply Ee; eassumption.
      * apply R_refl.
      * apply R_refl.
    + (* scoped *)
      intros b st Hn. cbn [scoped].
      assert (N : vars (push_scope st) <> []) by (unfold push_scope; cbn; congruence).
      specialize (IHb b (push_scope st) N).
      destruct (exec_block f b (push_scope st)); cbn [sres_ok] in *; try exact I; now apply pop_after_push.
    + (* exec_block *)
      intros b0 st Hn. cbn [exec_block]. destruct b0 as [|s b']; [apply R_refl|].
      specialize (IHx s st Hn).
      destruct (exec f s st) as [s1|s1|s1|v s1| |]; cbn [sres_ok] in *; try exact I; try assumption.
      specialize (IHb b' s1 (R_nonempty _ _ IHx Hn)).
      destruct (exec_block f b' s1); cbn in *; try exact I; eapply R_trans; eassumption.
    + (* for_items *)
      intros x items0 body st Hn. cbn [for_items]. destruct items0 as [|v items]; [apply R_refl|].
      assert (N : vars (push_scope st) <> []) by (unfold push_scope; cbn; congruence).
      assert (N2 : vars (declare x v (push_scope st)) <> []) by (unfold declare, push_scope; cbn; congruence).
      pose proof (R_declare (push_scope st) x v N) as Rd.
      specialize (IHb body (declare x v (push_scope st)) N2).
      destruct (exec_block f body (declare x v (push_scope st))) as [s1|s1|s1|r s1| |]; cbn [sres_ok] in *; try exact I.
      * pose proof (pop_after_push _ _ (R_trans _ _ _ Rd IHb)) as S1. apply same_names_R in S1.
        specialize (IHf x items body (pop_scope s1) (R_nonempty _ _ S1 Hn)).
        destruct (for_items f x items body (pop_scope s1)); cbn in *; try exact I; eapply R_trans; eassumption.
      * apply same_names_R, pop_after_push. eapply R_trans; eassumption.
      * pose proof (pop_after_push _ _ (R_trans _ _ _ Rd IHb)) as S1. apply same_names_R in S1.
        specialize (IHf x items body (pop_scope s1) (R_nonempty _ _ S1 Hn)).
        destruct (for_items f x items body (pop_scope s1)); cbn in *; try exact I; eapply R_trans; eassumption.
      * apply same_names_R, pop_after_push. eapply R_trans; eassumption.
Qed.

(** ** Blocks are scopes *)
Theorem scoped_same_names f b st :
  vars st <> [] -> sres_ok (same_names st) (scoped f b st).
Proof. intros H. destruct (all_R f) as (_ & _ & _ & _ & Hs & _ & _). now apply Hs. Qed.

Lemma flookup_keys {A} x : forall (f g : list (text * A)), keys f = keys g -> flookup x f = None -> flookup x g = None.
Proof.
  induction f as [|[k v] f IH]; intros [|[k' v'] g] K H; try discriminate; [reflexivity|].
  cbn [keys map fst] in K. injection K as -> K. cbn [flookup] in *.
  destruct (text_eqb k' x); [discriminate|]. now apply IH.
Qed.

Lemma lookup_keys {A} x : forall (fs gs : list (list (text * A))),
  map keys fs = map keys gs -> lookup_stack x fs = None -> lookup_stack x gs = None.
Proof.
  induction fs as [|f fs IH]; intros [|g gs] K H; try discriminate; [reflexivity|].
  cbn [map] in K. injection K as K1 K2. cbn [lookup_stack] in *.
  destruct (flookup x f) eqn:E; [discriminate|]. rewrite (flookup_keys x f g K1 E). now apply IH.
Qed.

(** a name that is not visible before a block is not visible after it,
    however the block is left: what the block declares ends with it *)
Theorem block_local_not_visible f b st x :
  vars st <> [] -> lookup_stack x (vars st) = None ->
  sres_ok (fun st' => lookup_stack x (vars st') = None) (scoped f b st).
Proof.
  intros Hn Hx. pose proof (scoped_same_names f b st Hn) as H.
  destruct (scoped f b st); cbn [sres_ok] in *; try exact I;
    destruct H as [K _]; (eapply lookup_keys; [symmetry; exact K|exact Hx]).
Qed.

(** and a name that is visible stays visible (an inner [let] of the same name
    shadows it only inside) *)
Lemma flookup_keys_some {A} x : forall (f g : list (text * A)), keys f = keys g -> flookup x f <> None -> flookup x g <> None.
Proof.
  intros f g K H E. apply H. eapply flookup_keys; [symmetry; exact K|exact E].
Qed.

(** the program's output only grows: nothing printed is taken back *)
Theorem output_grows f prog st :
  vars st <> [] -> sres_ok (fun st' => exists o, output st' = output st ++ o) (exec_block f prog st).
Proof.
  intros Hn. destruct (all_R f) as (_ & _ & _ & _ & _ & Hb & _). specialize (Hb prog st Hn).
  destruct (exec_block f prog st); cbn [sres_ok] in *; try exact I; now destruct Hb as (_ & _ & _ & O).
Qed.

(** ** Fuel: a run that ends within its fuel gives the same result with more *)
Definition le_e (a b : eres) : Prop := a = EFuel \/ a = b.
Definition le_s (a b : sres) : Prop := a = RFuel \/ a = b.
Definition le_l (a b : option (list val) * state * bool) : Prop := (exists st, a = (None, st, true)) \/ a = b.

Definition Mono (f : nat) : Prop :=
  forall g, (f <= g)%nat ->
  (forall e st, le_e (eval f e st) (eval g e st))
  /\ (forall es st, le_l (eval_list f es st) (eval_list g es st))
  /\ (forall fn vs st, le_e (call f fn vs st) (call g fn vs st))
  /\ (forall s st, le_s (exec f s st) (exec g s st))
  /\ (forall b st, le_s (scoped f b st) (scoped g b st))
  /\ (forall b st, le_s (exec_block f b st) (exec_block g b st))
  /\ (forall x items body st, le_s (for_items f x items body st) (for_items g x items body st)).

Ltac fuel_step g IHe IHl IHc IHx IHs IHb IHf :=
  match goal with
  | |- context [eval g ?a ?s] =>
      let F := fresh "F" in destruct (IHe a s) as [F|F]; [rewrite F; cbn; solve [left; reflexivity | left; eexists; reflexivity] | rewrite <- F]
  | |- context [eval_list g ?a ?s] =>
      let F := fresh "F" in let s0 := fresh "s0" in
      destruct (IHl a s) as [[s0 F]|F]; [rewrite F; cbn; solve [left; reflexivity | left; eexists; reflexivity] | rewrite <- F]
  | |- context [call g ?fn ?vs ?s] =>
      let F := fresh "F" in destruct (IHc fn vs s) as [F|F]; [rewrite F; cbn; solve [left; reflexivity | left; eexists; reflexivity] | rewrite <- F]
  | |- context [exec g ?a ?s] =>
      let F := fresh "F" in destruct (IHx a s) as [F|F]; [rewrite F; cbn; solve [left; reflexivity | left; eexists; reflexivity] | rewrite <- F]
  | |- context [scoped g ?a ?s] =>
      let F := fresh "F" in destruct (IHs a s) as [F|F]; [rewrite F; cbn; solve [left; reflexivity | left; eexists; reflexivity] | rewrite <- F]
  | |- context [exec_block g ?a ?s] =>
      let F := fresh "F" in destruct (IHb a s) as [F|F]; [rewrite F; cbn; solve [left; reflexivity | left; eexists; reflexivity] | rewrite <- F]
  | |- context [for_items g ?x ?i ?b ?s] =>
      let F := fresh "F" in destruct (IHf x i b s) as [F|F]; [rewrite F; cbn; solve [left; reflexivity | left; eexists; reflexivity] | rewrite <- F]
  end.
Ltac same_split :=
  match goal with
  | |- le_e ?a ?a => now right
  | |- le_s ?a ?a => now right
  | |- le_l ?a ?a => now right
  | |- le_e (match ?x with _ => _ end) _ => destruct x eqn:?
  | |- le_s (match ?x with _ => _ end) _ => destruct x eqn:?
  | |- le_l (match ?x with _ => _ end) _ => destruct x eqn:?
  | |- le_e (if ?x then _ else _) _ => destruct x eqn:?
  | |- le_s (if ?x then _ else _) _ => destruct x eqn:?
  | |- le_l (let '(_, _) := ?x in _) _ => destruct x eqn:?
  end.

Theorem mono_all : forall f, Mono f.
Proof.
  induction f as [|f IH]; intros g Hle.
  - refine (conj _ (conj _ (conj _ (conj _ (conj _ (conj _ _)))))); intros; cbn;
      try (now left); left; eexists; reflexivity.
  - destruct g as [|g]; [lia|]. destruct (IH g ltac:(lia)) as (IHe & IHl & IHc & IHx & IHs & IHb & IHf).
    refine (conj _ (conj _ (conj _ (conj _ (conj _ (conj _ _)))))).
    + intros e st. cbn [eval]. destruct e; try (now right);
        repeat (fuel_step g IHe IHl IHc IHx IHs IHb IHf || same_split).
    + intros es0 st. cbn [eval_list]. destruct es0 as [|e es']; [now right|].
      repeat (fuel_step g IHe IHl IHc IHx IHs IHb IHf || same_split).
    + intros fn vs st. cbn [call]. cbv zeta.
      repeat (fuel_step g IHe IHl IHc IHx IHs IHb IHf || same_split).
    + intros s st. cbn [exec]. destruct s; try (now right);
        repeat (fuel_step g IHe IHl IHc IHx IHs IHb IHf || same_split).
    + intros b st. cbn [scoped]. repeat (fuel_step g IHe IHl IHc IHx IHs IHb IHf || same_split).
    + intros b0 st. cbn [exec_block]. destruct b0 as [|s b']; [now right|].
      repeat (fuel_step g IHe IHl IHc IHx IHs IHb IHf || same_split).
    + intros x items0 body st. cbn [for_items]. destruct items0 as [|v items]; [now right|].
      repeat (fuel_step g IHe IHl IHc IHx IHs IHb IHf || same_split).
Qed.

Corollary exec_fuel_enough f g s st :
  (f <= g)%nat -> exec f s st <> RFuel -> exec g s st = exec f s st.
Proof.
  intros Hle Hn. destruct (mono_all f g Hle) as (_ & _ & _ & Hx & _). destruct (Hx s st) as [E|E]; congruence.
Qed.

Corollary run_fuel_enough f g globals prog :
  (f <= g)%nat -> run_prog f globals prog <> RFuel -> run_prog g globals prog = run_prog f globals prog.
Proof.
  unfold run_prog. intros Hle Hn. destruct (mono_all f g Hle) as (_ & _ & _ & _ & _ & Hb & _).
  destruct (Hb prog (st0 globals)) as [E|E]; congruence.
Qed.

Corollary eval_fuel_enough f g e st :
  (f <= g)%nat -> eval f e st <> EFuel -> eval g e st = eval f e st.
Proof.
  intros Hle Hn. destruct (mono_all f g Hle) as (He & _). destruct (He e st) as [E|E]; congruence.
Qed.
