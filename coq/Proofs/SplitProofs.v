(** Splitting a key string at command boundaries changes nothing. *)
From Vicut Require Import Base.Prelude Model.Keys Model.Split Proofs.KeysProofs.

Section SplitProofs.
  Variable st : Type.
  Variable step_key : key -> st -> st.
  Variable finish : st -> st.
  Variable snm : st -> st.

  (** the editor is at a command boundary: Normal mode, nothing pending, no
      selection. At a boundary neither the end-of-keys submit nor the mode
      reset changes anything. *)
  Variable boundary : st -> Prop.
  Hypothesis finish_boundary : forall s, boundary s -> finish s = s.
  Hypothesis snm_boundary : forall s, boundary s -> snm s = s.

  Notation run := (run_keys st step_key).
  Notation feed := (feed st step_key finish snm false).
  Notation feed_all := (feed_all st step_key finish snm false).

  Lemma run_app k1 k2 s : run (k1 ++ k2) s = run k2 (run k1 s).
  Proof. unfold run_keys. apply fold_left_app. Qed.

  Lemma keys_of_toks l : toks_ok l = true -> fst (keys_of (render_toks l)) = map tok_key l.
  Proof.
    intros H. unfold keys_of.
    assert (L : forall l, (length l <= length (render_toks l))%nat).
    { clear. induction l as [|t l IH]; [reflexivity|]. unfold render_toks in *. cbn [flat_map length].
      rewrite app_length.
      assert (1 <= length (tok_bytes t))%nat.
      { destruct t as [[|] k|c]; [destruct k; cbn; lia|destruct k; cbn; lia|].
        cbn [tok_bytes]. unfold utf8_char. repeat (destruct (_ <? _); cbn [length]; try lia). }
      lia. }
    rewrite read_tokens; [reflexivity|assumption|]. specialize (L l). lia.
  Qed.

  Lemma toks_ok_app_l l1 l2 : toks_ok (l1 ++ l2) = true -> toks_ok l1 = true.
  Proof.
    unfold toks_ok. rewrite forallb_app. intros H. apply andb_prop in H as [H1 H2].
    apply andb_prop in H1 as [H1 _]. rewrite H1. cbn [andb].
    clear H1. revert H2. induction l1 as [|t l1 IH]; intros H; [reflexivity|].
    cbn [app] in H. destruct t as [[|] k|c]; try (cbn [esc_ok] in *; now apply IH).
    destruct k; try (cbn [esc_ok] in *; now apply IH).
    destruct l1 as [|t' l1']; [reflexivity|].
    cbn [app] in H. destruct t' as [a k'|c'].
    - cbn [esc_ok] in *. now apply IH.
    - cbn [esc_ok] in *. apply andb_prop in H as [Hc H]. rewrite Hc. cbn [andb]. now apply IH.
  Qed.

  Lemma toks_ok_app_r l1 l2 : toks_ok (l1 ++ l2) = true -> toks_ok l2 = true.
  Proof.
    unfold toks_ok. rewrite forallb_app. intros H. apply andb_prop in H as [H1 H2].
    apply andb_prop in H1 as [_ H1]. rewrite H1. cbn [andb]. clear H1.
    induction l1 as [|t l1 IH]; [exact H2|]. apply IH. eapply esc_ok_tail. exact H2.
  Qed.

  (** One split: if the keys of the first part leave the editor at a command
      boundary, giving the two parts as two arguments is giving them as one. *)
  Theorem split_once (l1 l2 : list tok) s :
    toks_ok (l1 ++ l2) = true ->
    boundary (run (map tok_key l1) s) ->
    feed_all [render_toks l1; render_toks l2] s = feed_all [render_toks (l1 ++ l2)] s.
  Proof.
    intros Hok Hb. unfold Split.feed_all. cbn [fold_left]. unfold Split.feed.
    rewrite !keys_of_toks by (eauto using toks_ok_app_l, toks_ok_app_r).
    rewrite map_app, run_app.
    now rewrite (finish_boundary _ Hb), (snm_boundary _ Hb).
  Qed.

  (** Every way of splitting a sequence of complete commands over several
      arguments gives the same final state as the single argument. [cmds] are
      the commands (token lists); a splitting groups consecutive commands. *)
  Fixpoint boundaries (cmds : list (list tok)) (s : st) : Prop :=
    match cmds with
    | [] => True
    | c :: rest => boundary (run (map tok_key c) s) /\ boundaries rest (run (map tok_key c) s)
    end.

  Lemma boundaries_run cmds : forall s, boundaries cmds s -> cmds <> [] ->
    boundary (run (map tok_key (concat cmds)) s).
  Proof.
    induction cmds as [|c rest IH]; intros s Hb Hne; [congruence|].
    cbn [concat boundaries] in *. destruct Hb as [Hb1 Hb2]. rewrite map_app, run_app.
    destruct rest as [|c2 rest2]; [cbn; exact Hb1|]. apply IH; [exact Hb2|discriminate].
  Qed.

  Lemma boundaries_app c1 : forall c2 s, boundaries (c1 ++ c2) s ->
    boundaries c1 s /\ boundaries c2 (run (map tok_key (concat c1)) s).
  Proof.
    induction c1 as [|c rest IH]; intros c2 s H; [split; [exact I|exact H]|].
    cbn [app boundaries concat] in *. destruct H as [Hb H]. destruct (IH c2 _ H) as [H1 H2].
    split; [split; assumption|]. now rewrite map_app, run_app.
  Qed.

  Theorem split_any (groups : list (list (list tok))) : forall s,
    toks_ok (concat (concat groups)) = true ->
    boundaries (concat groups) s ->
    Forall (fun g => g <> []) groups ->
    feed_all (map (fun g => render_toks (concat g)) groups) s
    = run (map tok_key (concat (concat groups))) s.
  Proof.
    induction groups as [|g groups IH]; intros s Hok Hb Hne; [reflexivity|].
    cbn [map concat] in *. unfold Split.feed_all in *. cbn [fold_left].
    inversion Hne as [|? ? Hg Hne']; subst.
    rewrite concat_app in Hok.
    destruct (boundaries_app g (concat groups) s Hb) as [Hb1 Hb2].
    pose proof (boundaries_run g s Hb1 Hg) as Hbg.
    unfold Split.feed at 2. rewrite keys_of_toks by (eapply toks_ok_app_l; exact Hok).
    rewrite (finish_boundary _ Hbg), (snm_boundary _ Hbg).
    rewrite IH; [|eapply toks_ok_app_r; exact Hok|exact Hb2|exact Hne'].
    rewrite concat_app. now rewrite map_app, run_app.
  Qed.
End SplitProofs.
