(** Spelling (short/long flags) and the position of option flags do not change
    what a command line denotes. *)
From Vicut Require Import Base.Prelude Model.Args Spec.Items Proofs.ArgsProofs Proofs.UnrollProofs.

(** Re-spell every flag of an item list: [f] maps "was long" to "is long". *)
Fixpoint respell (f : bool -> bool) (i : item) : item :=
  match i with
  | ICut l s => ICut (f l) s
  | INamed l n s => INamed (f l) n s
  | IMove l s => IMove (f l) s
  | INext l => INext (f l)
  | IRep l n r => IRep (f l) n r
  | IGlob l k pat th el =>
    IGlob (f l) k pat (map (respell f) th)
          (match el with Some e => Some (map (respell f) e) | None => None end)
  | IOpt k l => IOpt k (f l)
  | IOptV k l v => IOptV k (f l) v
  end.

Lemma respell_n f : forall n its, (lsize its <= n)%nat ->
  (forall l, fold_left denote_step (map (respell f) its) l = fold_left denote_step its l)
  /\ (forall top, forallb (wf_item top) (map (respell f) its) = forallb (wf_item top) its).
Proof.
  induction n as [|n IHn]; intros its Hsz.
  - destruct its as [|i its]; [split; reflexivity|]. cbn in Hsz. pose proof (isize_pos i). lia.
  - destruct its as [|i its]; [split; reflexivity|].
    cbn [lsize fold_right] in Hsz. pose proof (isize_pos i).
    destruct (IHn its ltac:(unfold lsize; lia)) as [IHd IHw].
    assert (Hi : (forall l, denote_step l (respell f i) = denote_step l i)
                 /\ (forall top, wf_item top (respell f i) = wf_item top i)).
    { destruct i as [l0 s|l0 nm s|l0 s|l0|l0 a b|l0 k pat th el|k l0|k l0 v];
        try (split; reflexivity).
      cbn [isize] in Hsz.
      destruct (IHn th ltac:(unfold lsize; lia)) as [Td Tw].
      split.
      - intros l. cbn [respell denote_step]. rewrite Td.
        destruct el as [e|]; [|reflexivity].
        destruct (IHn e ltac:(unfold lsize; lia)) as [Ed _]. now rewrite Ed.
      - intros top. cbn [respell wf_item]. rewrite Tw.
        destruct el as [e|]; [|reflexivity].
        destruct (IHn e ltac:(unfold lsize; lia)) as [_ Ew]. now rewrite Ew. }
    destruct Hi as [Hd Hw]. split.
    + intros l. cbn [map fold_left]. now rewrite Hd, IHd.
    + intros top. cbn [map forallb]. now rewrite Hw, IHw.
Qed.

Lemma opt_step_respell f o i : opt_step o (respell f i) = opt_step o i.
Proof. destruct o; destruct i as [| | | | | |k l|k l v]; try destruct k; reflexivity. Qed.

Lemma fold_opt_respell f its : forall o,
  fold_left opt_step (map (respell f) its) o = fold_left opt_step its o.
Proof.
  induction its as [|i its IH]; intros o; [reflexivity|]. cbn [map fold_left].
  now rewrite opt_step_respell, IH.
Qed.

Theorem denote_opts_respell f its : denote_opts (map (respell f) its) = denote_opts its.
Proof.
  unfold denote_opts, denote. rewrite fold_opt_respell.
  now rewrite (proj1 (respell_n f _ its (le_n _))).
Qed.

Theorem wf_respell f its top :
  forallb (wf_item top) (map (respell f) its) = forallb (wf_item top) its.
Proof. apply (proj2 (respell_n f _ its (le_n _))). Qed.

(** Position of options. *)
Definition is_cmd (i : item) : bool := negb (is_opt i).

Lemma denote_filter_cmd its : forall l,
  fold_left denote_step (filter is_cmd its) l = fold_left denote_step its l.
Proof.
  induction its as [|i its IH]; intros l; [reflexivity|]. cbn [filter fold_left].
  destruct i; cbn [is_cmd is_opt negb fold_left denote_step]; apply IH.
Qed.

Theorem denote_opts_split its :
  denote_opts its
  = set_cmds (fold_left opt_step (filter is_opt its) opts0) (denote (filter is_cmd its)).
Proof.
  unfold denote_opts, denote. now rewrite fold_opt_filter, denote_filter_cmd.
Qed.
