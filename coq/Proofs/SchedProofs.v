(** Schedule independence of the parallel drivers. *)
From Vicut Require Import Base.Prelude Model.Format Model.Sched.
From Coq Require Import Permutation.

Section SortFacts.
  Context {A : Type}.
  Notation ins := (@insert_by A).

  Lemma insert_comm (x y : nat * A) l :
    fst x <> fst y -> ins x (ins y l) = ins y (ins x l).
  Proof.
    intros Hne. induction l as [|z l IH]; cbn [insert_by].
    - destruct (Nat.ltb_spec (fst y) (fst x)), (Nat.ltb_spec (fst x) (fst y)); try lia; reflexivity.
    - destruct (Nat.ltb_spec (fst z) (fst y)) as [Hzy|Hzy];
        destruct (Nat.ltb_spec (fst z) (fst x)) as [Hzx|Hzx]; cbn [insert_by].
      + destruct (Nat.ltb_spec (fst z) (fst x)); [|lia].
        destruct (Nat.ltb_spec (fst z) (fst y)); [|lia]. now rewrite IH.
      + destruct (Nat.ltb_spec (fst z) (fst x)); [lia|].
        destruct (Nat.ltb_spec (fst x) (fst y)); [|lia].
        destruct (Nat.ltb_spec (fst z) (fst y)); [|lia]. reflexivity.
      + destruct (Nat.ltb_spec (fst y) (fst x)); [|lia].
        destruct (Nat.ltb_spec (fst z) (fst x)); [|lia].
        destruct (Nat.ltb_spec (fst z) (fst y)); [lia|]. reflexivity.
      + destruct (Nat.ltb_spec (fst y) (fst x)), (Nat.ltb_spec (fst x) (fst y)); try lia.
        * destruct (Nat.ltb_spec (fst z) (fst x)); [lia|]. reflexivity.
        * destruct (Nat.ltb_spec (fst z) (fst y)); [lia|]. reflexivity.
  Qed.

  Lemma sort_perm (l l' : list (nat * A)) :
    Permutation l l' -> NoDup (map fst l) -> sort_tagged l = sort_tagged l'.
  Proof.
    induction 1 as [|x l l' Hp IH|x y l|l1 l2 l3 H1 IH1 H2 IH2]; intros Hnd.
    - reflexivity.
    - cbn [sort_tagged fold_right map] in *. inversion Hnd; subst.
      unfold sort_tagged in IH. now rewrite IH.
    - cbn [sort_tagged fold_right map] in *. inversion Hnd as [|? ? Hni Hnd']; subst.
      apply insert_comm. intros E. apply Hni. left. now symmetry.
    - rewrite IH1 by assumption. apply IH2.
      eapply Permutation_NoDup; [|exact Hnd]. now apply Permutation_map.
  Qed.

  Lemma insert_smallest (x : nat * A) l :
    Forall (fun y => fst x < fst y)%nat l -> ins x l = x :: l.
  Proof.
    destruct l as [|y l]; [reflexivity|]. intros H. inversion H; subst. cbn [insert_by].
    destruct (Nat.ltb_spec (fst y) (fst x)); [lia|reflexivity].
  Qed.

  Lemma tag_from_lower n (l : list A) : forall m, (m < n)%nat ->
    Forall (fun y => m < fst y)%nat (tag_from n l).
  Proof.
    revert n; induction l as [|x l IH]; intros n m H; cbn [tag_from]; constructor; [exact H|].
    apply IH. lia.
  Qed.

  Lemma sort_tag_from n (l : list A) : sort_tagged (tag_from n l) = tag_from n l.
  Proof.
    revert n; induction l as [|x l IH]; intros n; cbn [tag_from sort_tagged fold_right]; [reflexivity|].
    fold (sort_tagged (tag_from (S n) l)). rewrite IH. apply insert_smallest.
    apply (tag_from_lower (S n) l n). lia.
  Qed.

  Lemma tag_from_keys n (l : list A) : map fst (tag_from n l) = seq n (length l).
  Proof. revert n; induction l; intros n; cbn; [reflexivity|]. now rewrite IHl. Qed.

  (** whatever order the tagged results are collected in, sorting by the tag
      gives them back in input order *)
  Theorem sort_restores_order (items : list A) (collected : list (nat * A)) :
    Permutation collected (tag_from 0 items) ->
    map snd (sort_tagged collected) = items.
  Proof.
    intros Hp. rewrite (sort_perm collected (tag_from 0 items) Hp).
    - rewrite sort_tag_from. clear Hp. generalize 0%nat. induction items as [|x items IH]; intros n;
        cbn [tag_from map snd]; [reflexivity|]. f_equal. apply IH.
    - eapply Permutation_NoDup; [apply Permutation_map, Permutation_sym, Hp|].
      rewrite tag_from_keys. apply seq_NoDup.
  Qed.
End SortFacts.

Section Isolation.
  Variable regs : Type.
  Variable regs0 : regs.
  Variable body : regs -> text -> outcome (list record) * regs.

  (** with the reset, what a unit produces does not depend on the registers its
      worker thread holds, i.e. on which units ran there before *)
  Lemma worker_isolated units : forall r,
    worker regs (execute regs regs0 body) r units
    = map (fun it => (fst it, fst (body regs0 (snd it)))) units.
  Proof.
    induction units as [|[i t] units IH]; intros r; cbn [worker map]; [reflexivity|].
    unfold execute at 1. destruct (body regs0 t) as [res r'] eqn:E. cbn [fst snd].
    rewrite E. cbn [fst]. now rewrite IH.
  Qed.

  (** every schedule (assignment of the units to any number of workers, in any
      order, each worker starting from arbitrary registers) yields, after the
      sort, the results of the units in input order *)
  Theorem schedule_independent (texts : list text) sched :
    Permutation (flat_map snd sched) (tag_from 0 texts) ->
    map snd (sort_tagged (run_sched regs (execute regs regs0 body) sched))
    = map (fun t => fst (body regs0 t)) texts.
  Proof.
    intros Hp. apply sort_restores_order.
    assert (E : run_sched regs (execute regs regs0 body) sched
                = map (fun it => (fst it, fst (body regs0 (snd it)))) (flat_map snd sched)).
    { unfold run_sched. clear Hp. induction sched as [|[r us] sched IH]; cbn [flat_map fst snd]; [reflexivity|].
      rewrite map_app, worker_isolated. f_equal. exact IH. }
    rewrite E.
    assert (T : forall n (l : list text),
               map (fun it : nat * text => (fst it, fst (body regs0 (snd it)))) (tag_from n l)
               = tag_from n (map (fun t => fst (body regs0 t)) l)).
    { intros n l; revert n; induction l; intros n; cbn; [reflexivity|]. now rewrite IHl. }
    rewrite <- T. now apply Permutation_map.
  Qed.
End Isolation.

(** Without the reset (the pinned revision) the result depends on the schedule:
    a unit that pastes before it yanks sees what its thread ran before. *)
Theorem noreset_schedule_dependent :
  exists (body : text -> text -> outcome (list record) * text)
         (s1 s2 : list (text * list (nat * text))),
    Permutation (flat_map snd s1) (flat_map snd s2) /\
    map snd (sort_tagged (run_sched text (execute_noreset text body) s1))
    <> map snd (sort_tagged (run_sched text (execute_noreset text body) s2)).
Proof.
  (* body: the record is the register content, then the line is yanked *)
  exists (fun r t => (Ok [[(T "1", r)]], t)).
  exists [([], [(0%nat, T "a"); (1%nat, T "b")])],
         [([], [(0%nat, T "a")]); ([], [(1%nat, T "b")])].
  split; [reflexivity|]. vm_compute. discriminate.
Qed.
