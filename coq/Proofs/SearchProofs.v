(** A search lands on the next match and nowhere else. *)
From Vicut Require Import Base.Prelude Model.Search.
From Coq Require Import Sorting.Sorted.

Lemma position_some {A} (p : A -> bool) l i :
  position p l = Some i ->
  exists x, nth_error l i = Some x /\ p x = true /\
            forall j y, (j < i)%nat -> nth_error l j = Some y -> p y = false.
Proof.
  revert i; induction l as [|a l IH]; intros i H; cbn in H; [discriminate|].
  destruct (p a) eqn:E.
  - inversion H; subst. exists a. repeat split; auto. intros j y Hj; lia.
  - destruct (position p l) as [k|] eqn:Ek; cbn in H; [|discriminate]. inversion H; subst.
    destruct (IH k eq_refl) as (x & Hx & Hp & Hmin). exists x. repeat split; auto.
    intros [|j] y Hj Hy; cbn in Hy; [congruence|]. eapply Hmin; [|eassumption]. lia.
Qed.

Lemma position_none {A} (p : A -> bool) l :
  position p l = None -> forall x, In x l -> p x = false.
Proof.
  induction l as [|a l IH]; intros H x Hin; [destruct Hin|]. cbn in H.
  destruct (p a) eqn:E; [discriminate|].
  destruct (position p l) eqn:Ek; cbn in H; [discriminate|].
  destruct Hin as [<-|Hin]; auto.
Qed.

Lemma rposition_some {A} (p : A -> bool) l i :
  rposition p l = Some i ->
  exists x, nth_error l i = Some x /\ p x = true /\
            forall j y, (i < j)%nat -> nth_error l j = Some y -> p y = false.
Proof.
  revert i; induction l as [|a l IH]; intros i H; cbn in H; [discriminate|].
  destruct (rposition p l) as [k|] eqn:Ek.
  - inversion H; subst. destruct (IH k eq_refl) as (x & Hx & Hp & Hmax).
    exists x. repeat split; auto. intros [|j] y Hj Hy; [lia|]. cbn in Hy. eapply Hmax; [|eassumption]. lia.
  - destruct (p a) eqn:E; [|discriminate]. inversion H; subst. exists a. repeat split; auto.
    intros [|j] y Hj Hy; [lia|]. cbn in Hy.
    assert (G : forall l', rposition p l' = None -> forall x, In x l' -> p x = false).
    { clear. induction l' as [|b l' IH]; intros H x Hin; [destruct Hin|]. cbn in H.
      destruct (rposition p l') eqn:E; [discriminate|]. destruct (p b) eqn:Eb; [discriminate|].
      destruct Hin as [<-|Hin]; auto. }
    eapply G; [exact Ek|]. eapply nth_error_In; eassumption.
Qed.

Lemma rposition_none {A} (p : A -> bool) l :
  rposition p l = None -> forall x, In x l -> p x = false.
Proof.
  induction l as [|b l IH]; intros H x Hin; [destruct Hin|]. cbn in H.
  destruct (rposition p l) eqn:E; [discriminate|]. destruct (p b) eqn:Eb; [discriminate|].
  destruct Hin as [<-|Hin]; auto.
Qed.

(** [/pat]: the result is a match; if some match starts after the cursor it is
    the first such one (every earlier match starts at or before the cursor),
    otherwise it is the first match of the buffer *)
Theorem search_fwd_spec starts cur r :
  search_fwd starts cur = Some r ->
  In r starts /\
  ((cur < r)%nat /\ (exists i, nth_error starts i = Some r /\
                               forall j y, (j < i)%nat -> nth_error starts j = Some y -> (y <= cur)%nat)
   \/ (forall x, In x starts -> (x <= cur)%nat) /\ nth_error starts 0 = Some r).
Proof.
  unfold search_fwd. intros H.
  destruct (position (fun s => Nat.ltb cur s) starts) as [i|] eqn:E.
  - destruct (position_some _ _ _ E) as (x & Hx & Hp & Hmin). rewrite Hx in H. inversion H; subst.
    split; [eapply nth_error_In; eassumption|]. left.
    apply Nat.ltb_lt in Hp. split; [assumption|]. exists i. split; [assumption|].
    intros j y Hj Hy. specialize (Hmin j y Hj Hy). apply Nat.ltb_ge in Hmin. exact Hmin.
  - split; [eapply nth_error_In; eassumption|]. right. split; [|assumption].
    intros x Hin. pose proof (position_none _ _ E x Hin) as Hn. apply Nat.ltb_ge in Hn. exact Hn.
Qed.

Theorem search_bwd_spec starts cur r :
  search_bwd starts cur = Some r ->
  In r starts /\
  ((r < cur)%nat /\ (exists i, nth_error starts i = Some r /\
                               forall j y, (i < j)%nat -> nth_error starts j = Some y -> (cur <= y)%nat)
   \/ (forall x, In x starts -> (cur <= x)%nat) /\ nth_error starts (length starts - 1) = Some r).
Proof.
  unfold search_bwd. intros H.
  destruct (rposition (fun s => Nat.ltb s cur) starts) as [i|] eqn:E.
  - destruct (rposition_some _ _ _ E) as (x & Hx & Hp & Hmax). rewrite Hx in H. inversion H; subst.
    split; [eapply nth_error_In; eassumption|]. left.
    apply Nat.ltb_lt in Hp. split; [assumption|]. exists i. split; [assumption|].
    intros j y Hj Hy. specialize (Hmax j y Hj Hy). apply Nat.ltb_ge in Hmax. exact Hmax.
  - split; [eapply nth_error_In; eassumption|]. right. split; [|assumption].
    intros x Hin. pose proof (rposition_none _ _ E x Hin) as Hn. apply Nat.ltb_ge in Hn. exact Hn.
Qed.

(** no match anywhere: the motion is Null, cursor and text stay *)
Theorem search_nomatch cur fwd count :
  search_fwd [] cur = None /\ search_bwd [] cur = None /\ match_step [] cur fwd count = None.
Proof. repeat split. Qed.

(** [n] without a count is the search in the remembered direction *)
Theorem match_step_one starts cur :
  match_step starts cur true 1 = search_fwd starts cur
  /\ match_step starts cur false 1 = search_bwd starts cur.
Proof.
  unfold match_step, search_fwd, search_bwd.
  destruct starts as [|s0 rest]; [split; reflexivity|].
  set (l := s0 :: rest). assert (Hn : (0 < length l)%nat) by (cbn; lia).
  replace (1 - 1)%nat with 0%nat by lia. rewrite Nat.mod_0_l by lia.
  split.
  - destruct (position (fun s => Nat.ltb cur s) l) as [i|] eqn:E.
    + destruct (position_some _ _ _ E) as (x & Hx & _). rewrite Nat.add_0_r.
      assert (i < length l)%nat by (apply nth_error_Some; congruence).
      now rewrite Nat.mod_small.
    + rewrite Nat.add_0_r, Nat.mod_0_l by lia. reflexivity.
  - destruct (rposition (fun s => Nat.ltb s cur) l) as [i|] eqn:E.
    + destruct (rposition_some _ _ _ E) as (x & Hx & _).
      assert (i < length l)%nat by (apply nth_error_Some; congruence).
      rewrite Nat.sub_0_r.
      replace (i + length l)%nat with (i + 1 * length l)%nat by lia.
      rewrite Nat.mod_add by lia. now rewrite Nat.mod_small.
    + rewrite Nat.sub_0_r.
      replace (length l - 1 + length l)%nat with ((length l - 1) + 1 * length l)%nat by lia.
      rewrite Nat.mod_add by lia. rewrite Nat.mod_small by lia. reflexivity.
Qed.

(** whatever the count, [n]/[N] land on a match *)
Theorem match_step_in starts cur fwd count r :
  match_step starts cur fwd count = Some r -> In r starts.
Proof.
  unfold match_step. destruct starts as [|s0 rest]; [discriminate|].
  intros H. eapply nth_error_In. exact H.
Qed.

(** the byte offset of a cluster start maps back to the index of that cluster *)
Lemma index_of_byte_nth gidx : forall i b,
  NoDup gidx -> nth_error gidx i = Some b -> index_of_byte gidx b = Some i.
Proof.
  unfold index_of_byte. induction gidx as [|x l IH]; intros i b Hnd Hn; [destruct i; discriminate|].
  inversion Hnd as [|? ? Hni Hnd']; subst. destruct i as [|i]; cbn in Hn |- *.
  - inversion Hn; subst. now rewrite Nat.eqb_refl.
  - destruct (Nat.eqb_spec x b) as [->|Hne].
    + exfalso. apply Hni. eapply nth_error_In; eassumption.
    + now rewrite (IH i b Hnd' Hn).
Qed.

(** ** A count on [n] is [n] pressed that many times. *)
Definition increasing (l : list nat) : Prop :=
  forall i j x y, (i < j)%nat -> nth_error l i = Some x -> nth_error l j = Some y -> (x < y)%nat.

Lemma position_first_gt l : increasing l -> forall i x,
  nth_error l i = Some x ->
  position (fun s => Nat.ltb x s) l = (if Nat.ltb (S i) (length l) then Some (S i) else None).
Proof.
  intros Hinc i x Hx.
  destruct (Nat.ltb_spec (S i) (length l)) as [Hlt|Hge].
  - destruct (nth_error l (S i)) as [y|] eqn:Ey; [|apply nth_error_None in Ey; lia].
    assert (Hxy : (x < y)%nat) by (eapply (Hinc i (S i)); eauto).
    destruct (position (fun s => Nat.ltb x s) l) as [k|] eqn:E.
    + destruct (position_some _ _ _ E) as (z & Hz & Hp & Hmin). apply Nat.ltb_lt in Hp.
      f_equal. destruct (Nat.lt_trichotomy k (S i)) as [Hk|[Hk|Hk]]; [|assumption|].
      * (* k <= i: then z <= x *)
        exfalso. destruct (Nat.eq_dec k i) as [->|Hne]; [rewrite Hx in Hz; inversion Hz; lia|].
        assert (z < x)%nat by (eapply (Hinc k i); eauto; lia). lia.
      * exfalso. specialize (Hmin (S i) y Hk Ey). apply Nat.ltb_ge in Hmin. lia.
    + exfalso. pose proof (position_none _ _ E y (nth_error_In _ _ Ey)) as Hn.
      apply Nat.ltb_ge in Hn. lia.
  - destruct (position (fun s => Nat.ltb x s) l) as [k|] eqn:E; [|reflexivity].
    exfalso. destruct (position_some _ _ _ E) as (z & Hz & Hp & _). apply Nat.ltb_lt in Hp.
    assert (Hk : (k < length l)%nat) by (apply nth_error_Some; congruence).
    destruct (Nat.eq_dec k i) as [->|Hne]; [rewrite Hx in Hz; inversion Hz; lia|].
    assert (k < i)%nat by lia.
    assert (z < x)%nat by (eapply (Hinc k i); eauto). lia.
Qed.

(** one press of [n] (forward) from the cursor *)
Definition press (starts : list nat) (c : nat) : nat :=
  match search_fwd starts c with Some r => r | None => c end.

Lemma press_from_match starts : increasing starts -> forall i x,
  nth_error starts i = Some x ->
  nth_error starts (Nat.modulo (S i) (length starts)) = Some (press starts x).
Proof.
  intros Hinc i x Hx. unfold press, search_fwd.
  assert (Hi : (i < length starts)%nat) by (apply nth_error_Some; congruence).
  rewrite (position_first_gt _ Hinc i x Hx).
  destruct (Nat.ltb_spec (S i) (length starts)) as [Hlt|Hge].
  - rewrite Nat.mod_small by lia.
    destruct (nth_error starts (S i)) eqn:E; [reflexivity|apply nth_error_None in E; lia].
  - assert (S i = length starts) by lia. rewrite H, Nat.mod_same by lia.
    destruct (nth_error starts 0) eqn:E; [reflexivity|apply nth_error_None in E; lia].
Qed.

Lemma iter_press starts : increasing starts -> forall k i x,
  nth_error starts i = Some x ->
  nth_error starts (Nat.modulo (i + k) (length starts)) = Some (Nat.iter k (press starts) x).
Proof.
  intros Hinc. induction k as [|k IH]; intros i x Hx.
  - assert (Hi : (i < length starts)%nat) by (apply nth_error_Some; congruence).
    rewrite Nat.add_0_r, Nat.mod_small by lia. exact Hx.
  - assert (Hi : (i < length starts)%nat) by (apply nth_error_Some; congruence).
    change (Nat.iter (S k) (press starts) x) with (press starts (Nat.iter k (press starts) x)).
    specialize (IH i x Hx).
    pose proof (press_from_match starts Hinc _ _ IH) as Hp.
    rewrite <- Hp. f_equal.
    replace (i + S k)%nat with (S (i + k)) by lia.
    rewrite <- (Nat.add_1_l (i + k)), <- (Nat.add_1_l (Nat.modulo (i + k) (length starts))).
    rewrite (Nat.add_mod 1 (i + k)) by lia. rewrite (Nat.add_mod 1 (Nat.modulo (i + k) (length starts))) by lia.
    rewrite Nat.mod_mod by lia. reflexivity.
Qed.

(** [count]n lands where pressing [n] [count] times would *)
Theorem count_is_repetition starts cur k :
  increasing starts -> starts <> [] ->
  match_step starts cur true (S k)
  = option_map (fun r => Nat.iter k (press starts) r) (search_fwd starts cur).
Proof.
  intros Hinc Hne. unfold match_step, search_fwd.
  destruct starts as [|s0 rest]; [congruence|]. set (l := s0 :: rest) in *.
  assert (Hn : (0 < length l)%nat) by (cbn; lia).
  replace (S k - 1)%nat with k by lia.
  set (first := match position (fun s => Nat.ltb cur s) l with Some i => i | None => 0%nat end).
  assert (Hf : exists x, nth_error l first = Some x /\
                (match position (fun s => Nat.ltb cur s) l with
                 | Some i => nth_error l i | None => nth_error l 0 end) = Some x).
  { unfold first. destruct (position (fun s => Nat.ltb cur s) l) as [i|] eqn:E.
    - destruct (position_some _ _ _ E) as (x & Hx & _). exists x. auto.
    - exists s0. split; reflexivity. }
  destruct Hf as (x & Hx & Hs). rewrite Hs. cbn [option_map].
  rewrite <- (iter_press l Hinc k first x Hx). f_equal.
  rewrite Nat.add_mod_idemp_r by lia. reflexivity.
Qed.
