(** Facts about the formatters: JSON strings decode to the field text, field
    numbering, template substitution, verbatim printing. *)
From Vicut Require Import Base.Prelude Model.Format.

(** ** A decoder for JSON string literals (RFC 8259 escapes). *)
Definition hex_val (c : N) : option N :=
  if (48 <=? c) && (c <=? 57) then Some (c - 48)
  else if (97 <=? c) && (c <=? 102) then Some (c - 87)
  else if (65 <=? c) && (c <=? 70) then Some (c - 55)
  else None.

(** after the opening quote: returns the decoded text and what follows the
    closing quote *)
Fixpoint json_unstring (t : text) (acc : text) {struct t} : option (text * text) :=
  match t with
  | [] => None
  | 34 :: rest => Some (acc, rest)
  | 92 :: 117 :: a :: b :: c :: d :: rest =>
    match hex_val a, hex_val b, hex_val c, hex_val d with
    | Some a, Some b, Some c, Some d =>
      json_unstring rest (acc ++ [((a * 16 + b) * 16 + c) * 16 + d])
    | _, _, _, _ => None
    end
  | 92 :: e :: rest =>
    let k v := json_unstring rest (acc ++ [v]) in
    if e =? 34 then k 34 else if e =? 92 then k 92 else if e =? 47 then k 47
    else if e =? 98 then k 8 else if e =? 102 then k 12 else if e =? 110 then k 10
    else if e =? 114 then k 13 else if e =? 116 then k 9 else None
  | c :: rest => if c <? 32 then None else json_unstring rest (acc ++ [c])
  end.
Definition json_parse_string (t : text) : option (text * text) :=
  match t with 34 :: rest => json_unstring rest [] | _ => None end.

Lemma control_escape_ok :
  forallb (fun c => match json_unstring (json_escape_char c ++ [34]) [] with
                    | Some ([c'], []) => c' =? c
                    | _ => false end) (map N.of_nat (seq 0 32)) = true.
Proof. vm_compute. reflexivity. Qed.

Lemma unstring_step c rest acc :
  json_unstring (json_escape_char c ++ rest) acc = json_unstring rest (acc ++ [c]).
Proof.
  destruct (c <? 32) eqn:Hlt.
  - (* finitely many control characters: computed *)
    apply N.ltb_lt in Hlt.
    assert (Hin : In c (map N.of_nat (seq 0 32))).
    { apply in_map_iff. exists (N.to_nat c). split; [apply N2Nat.id|].
      apply in_seq. lia. }
    revert acc rest. revert c Hlt Hin.
    assert (H : forall c, In c (map N.of_nat (seq 0 32)) ->
               forall acc rest, json_unstring (json_escape_char c ++ rest) acc
                                = json_unstring rest (acc ++ [c])).
    { intros c Hin. cbn in Hin.
      repeat (destruct Hin as [<-|Hin]; [intros acc rest; reflexivity|]). destruct Hin. }
    intros c _ Hin. apply H. exact Hin.
  - apply N.ltb_ge in Hlt. unfold json_escape_char.
    destruct (c =? 34) eqn:E1; [apply N.eqb_eq in E1; subst; reflexivity|].
    destruct (c =? 92) eqn:E2; [apply N.eqb_eq in E2; subst; reflexivity|].
    apply N.eqb_neq in E1, E2.
    destruct (c =? 8) eqn:E3; [apply N.eqb_eq in E3; lia|].
    destruct (c =? 12) eqn:E4; [apply N.eqb_eq in E4; lia|].
    destruct (c =? 10) eqn:E5; [apply N.eqb_eq in E5; lia|].
    destruct (c =? 13) eqn:E6; [apply N.eqb_eq in E6; lia|].
    destruct (c =? 9) eqn:E7; [apply N.eqb_eq in E7; lia|].
    assert (Hl : (c <? 32) = false) by (apply N.ltb_ge; lia). rewrite Hl.
    cbn [app json_unstring].
    destruct c as [|p]; [lia|].
    (* c is an ordinary character: not a quote, not a backslash, not a control *)
    assert (Hq : N.pos p <> 34) by assumption. assert (Hb : N.pos p <> 92) by assumption.
    destruct p as [p|p|]; try (destruct p as [p|p|]; try (destruct p as [p|p|];
      try (destruct p as [p|p|]; try (destruct p as [p|p|]; try (destruct p as [p|p|];
        try (destruct p as [p|p|])))))); cbn [json_unstring]; try rewrite Hl; try reflexivity;
      try lia; try congruence.
Qed.

Theorem json_string_roundtrip s rest :
  json_parse_string (json_string s ++ rest) = Some (s, rest).
Proof.
  unfold json_string, json_parse_string. cbn [app]. rewrite <- app_assoc. cbn [app].
  assert (H : forall acc, json_unstring (flat_map json_escape_char s ++ 34 :: rest) acc
                          = Some (acc ++ s, rest)).
  { induction s as [|c s IH]; intros acc; cbn [flat_map app].
    - now rewrite app_nil_r.
    - rewrite <- app_assoc, unstring_step, IH. now rewrite <- app_assoc. }
  apply H.
Qed.

(** ** Field numbering: within a group the j-th cut gets key j unless named. *)
Fixpoint keys_from (n : N) (l : list (option text * text)) : list text :=
  match l with
  | [] => []
  | (Some k, _) :: l' => k :: keys_from (n + 1) l'
  | (None, _) :: l' => show_N (n + 1) :: keys_from (n + 1) l'
  end.

Lemma cuts_keys l : forall c,
  let c' := fold_left (fun c nv => ctx_field (fst nv) (Some (snd nv)) c) l c in
  map fst (fields c') = map fst (fields c) ++ keys_from (field_num c) l
  /\ map snd (fields c') = map snd (fields c) ++ map snd l
  /\ fmt_lines c' = fmt_lines c.
Proof.
  induction l as [|[nm v] l IH]; intros c; cbn [fold_left keys_from map].
  - now rewrite !app_nil_r.
  - specialize (IH (ctx_field nm (Some v) c)). cbn zeta in IH. destruct IH as (Hk & Hv & Hl).
    cbn [fst snd]. rewrite Hk, Hv, Hl. unfold ctx_field. cbn [fields field_num fmt_lines].
    rewrite !map_app. cbn [map fst snd]. rewrite <- !app_assoc. cbn [app].
    destruct nm; repeat split; reflexivity.
Qed.

Theorem numbering_after_break l c :
  let c' := fold_left (fun c nv => ctx_field (fst nv) (Some (snd nv)) c) l (ctx_break c) in
  map fst (fields c') = keys_from 0 l /\ map snd (fields c') = map snd l.
Proof.
  pose proof (cuts_keys l (ctx_break c)) as H. cbn zeta in *. destruct H as (Hk & Hv & _).
  split; [rewrite Hk|rewrite Hv]; reflexivity.
Qed.

(** a failed cut still advances the counter *)
Lemma failed_cut_counts nm c : field_num (ctx_field nm None c) = field_num c + 1
  /\ fields (ctx_field nm None c) = fields c.
Proof. split; reflexivity. Qed.

(** ** Verbatim printing when nothing is cut. *)
Theorem verbatim_no_cut delim buf :
  format_standard delim (ctx_finish false true false buf ctx0) = buf.
Proof.
  unfold format_standard, ctx_finish, no_fields_extracted.
  cbn [ctx0 fields fmt_lines is_nil andb negb forallb is_sentinel].
  change (text_eqb (T "0") (T "0")) with true. cbn [andb flat_map snd].
  now rewrite !app_nil_r.
Qed.

(** ** Templates. *)
Definition plain_char (c : N) : bool := negb ((c =? 92) || (c =? 123) || (c =? 125)).

Lemma tmpl_literal r lit : forall cur rest,
  forallb plain_char lit = true ->
  tmpl_scan r None cur (lit ++ rest) = tmpl_scan r None (cur ++ lit) rest.
Proof.
  induction lit as [|c lit IH]; intros cur rest H; cbn [app]; [now rewrite app_nil_r|].
  cbn [forallb] in H. apply andb_prop in H as [Hc H].
  unfold plain_char in Hc. apply negb_true_iff in Hc.
  apply orb_false_iff in Hc as [Hc H3]. apply orb_false_iff in Hc as [H1 H2].
  apply N.eqb_neq in H1, H2.
  replace (cur ++ c :: lit) with ((cur ++ [c]) ++ lit) by (now rewrite <- app_assoc).
  rewrite <- IH by assumption.
  destruct c as [|p]; [reflexivity|].
  destruct (N.eq_dec (N.pos p) 92) as [E|E]; [contradiction|].
  destruct (N.eq_dec (N.pos p) 123) as [E'|E']; [contradiction|].
  cbn [tmpl_scan].
  repeat (destruct p as [p|p|]; try reflexivity; try congruence).
Qed.

Lemma tmpl_name r name : forall acc cur rest v,
  forallb plain_char name = true ->
  lookup (acc ++ name) r = Some v ->
  tmpl_scan r (Some acc) cur (name ++ 125 :: 125 :: rest) = tmpl_scan r None (cur ++ v) rest.
Proof.
  induction name as [|c name IH]; intros acc cur rest v H Hl; cbn [app].
  - rewrite app_nil_r in Hl. cbn [tmpl_scan]. now rewrite Hl.
  - cbn [forallb] in H. apply andb_prop in H as [Hc H].
    unfold plain_char in Hc. apply negb_true_iff in Hc.
    apply orb_false_iff in Hc as [Hc H3]. apply orb_false_iff in Hc as [H1 H2].
    apply N.eqb_neq in H1, H2, H3.
    rewrite <- (IH (acc ++ [c]) cur rest v H) by (now rewrite <- app_assoc).
    destruct c as [|p]; [reflexivity|].
    cbn [tmpl_scan].
    repeat (destruct p as [p|p|]; try reflexivity; try congruence).
Qed.

(** A placeholder [{{name}}] whose field exists is replaced by the field. *)
Theorem tmpl_hole r name cur rest v :
  forallb plain_char name = true -> lookup name r = Some v ->
  tmpl_scan r None cur (123 :: 123 :: name ++ 125 :: 125 :: rest)
  = tmpl_scan r None (cur ++ v) rest.
Proof. intros H Hl. cbn [tmpl_scan]. now apply tmpl_name. Qed.

(** an unknown placeholder is an error (exit 1), never silently dropped *)
Theorem tmpl_unknown r name cur rest :
  forallb plain_char name = true -> lookup name r = None ->
  tmpl_scan r None cur (123 :: 123 :: name ++ 125 :: 125 :: rest) = None.
Proof.
  intros H Hl. cbn [tmpl_scan].
  assert (G : forall acc, lookup (acc ++ name) r = None ->
              tmpl_scan r (Some acc) cur (name ++ 125 :: 125 :: rest) = None).
  { clear Hl. induction name as [|c name IH]; intros acc Hl; cbn [app].
    - rewrite app_nil_r in Hl. cbn [tmpl_scan]. now rewrite Hl.
    - cbn [forallb] in H. apply andb_prop in H as [Hc H].
      unfold plain_char in Hc. apply negb_true_iff in Hc.
      apply orb_false_iff in Hc as [Hc H3]. apply orb_false_iff in Hc as [H1 H2].
      apply N.eqb_neq in H1, H2, H3.
      rewrite <- (IH H (acc ++ [c])) by (now rewrite <- app_assoc).
      destruct c as [|p]; [reflexivity|].
      cbn [tmpl_scan].
      repeat (destruct p as [p|p|]; try reflexivity; try congruence). }
  now apply G.
Qed.
