(** -g visits exactly the matching lines, -v exactly the others. *)
From Vicut Require Import Base.Prelude Model.Global.

Section G.
  Variable matches : text -> bool.

  (** every scanned line is visited exactly once, iff it matches (resp. does
      not match) *)
  Theorem visited_exactly cl pol n :
    In n (global_lines matches cl pol)
    <-> In n (scanned cl) /\ matches (line_text cl n) = pol.
  Proof.
    unfold global_lines. rewrite <- in_rev, filter_In.
    split; intros [A B]; split; auto.
    - now apply eqb_prop.
    - subst. apply eqb_reflx.
  Qed.

  Lemma scanned_nodup cl : NoDup (scanned cl).
  Proof. unfold scanned. apply NoDup_filter, seq_NoDup. Qed.

  Theorem visited_once cl pol : NoDup (global_lines matches cl pol).
  Proof.
    unfold global_lines. apply NoDup_rev, NoDup_filter, scanned_nodup.
  Qed.

  (** -g and -v partition the scanned lines *)
  Theorem complement cl n :
    In n (scanned cl) ->
    (In n (global_lines matches cl true) <-> ~ In n (global_lines matches cl false)).
  Proof.
    intros Hs. rewrite !visited_exactly. split.
    - intros [_ Ht] [_ Hf]. congruence.
    - intros H. split; [assumption|]. destruct (matches (line_text cl n)); [reflexivity|].
      exfalso. apply H. auto.
  Qed.

  (** the scope runs for the lines in descending order *)
  Theorem visited_descending cl pol :
    forall i j x y, (i < j)%nat ->
      nth_error (global_lines matches cl pol) i = Some x ->
      nth_error (global_lines matches cl pol) j = Some y -> (y < x)%nat.
  Proof.
    unfold global_lines, scanned.
    set (f := fun n => Bool.eqb (matches (line_text cl n)) pol).
    set (g := fun n => negb (Nat.ltb 0 n && Nat.eqb (line_start cl n) (length cl))).
    assert (Hinc : forall l, (forall a b u v, (a < b)%nat -> nth_error l a = Some u -> nth_error l b = Some v -> (u < v)%nat) ->
                   forall p, (forall a b u v, (a < b)%nat -> nth_error (filter p l) a = Some u -> nth_error (filter p l) b = Some v -> (u < v)%nat)).
    { induction l as [|h l IH]; intros Hl p a b u v Hab Ha Hb; [destruct a; discriminate|].
      assert (Hl' : forall a b u v, (a < b)%nat -> nth_error l a = Some u -> nth_error l b = Some v -> (u < v)%nat).
      { intros a' b' u' v' H1 H2 H3. eapply (Hl (S a') (S b')); [lia| |]; eassumption. }
      cbn [filter] in Ha, Hb. destruct (p h).
      - destruct a as [|a]; destruct b as [|b]; try lia; cbn in Ha, Hb.
        + inversion Ha; subst.
          assert (Hv : In v l) by (apply (nth_error_In _ b) in Hb; apply filter_In in Hb; tauto).
          apply In_nth_error in Hv as [k Hk]. eapply (Hl 0%nat (S k)); [lia|reflexivity|exact Hk].
        + eapply (IH Hl' p a b); [lia| |]; eassumption.
      - eapply (IH Hl' p a b); eassumption. }
    assert (Hseq : forall n a b u v, (a < b)%nat -> nth_error (seq 0 n) a = Some u -> nth_error (seq 0 n) b = Some v -> (u < v)%nat).
    { intros n a b u v Hab Ha Hb.
      assert (a < n)%nat by (rewrite <- (seq_length n 0); apply nth_error_Some; congruence).
      assert (b < n)%nat by (rewrite <- (seq_length n 0); apply nth_error_Some; congruence).
      rewrite (nth_error_nth' _ 0%nat) in Ha by (rewrite seq_length; lia).
      rewrite (nth_error_nth' _ 0%nat) in Hb by (rewrite seq_length; lia).
      rewrite seq_nth in Ha, Hb by lia. inversion Ha; inversion Hb; lia. }
    pose proof (Hinc _ (Hinc _ (Hseq (total_lines cl)) g) f) as Hfl.
    intros i j x y Hij Hi Hj.
    set (l := filter f (filter g (seq 0 (total_lines cl)))) in *.
    assert (Hli : (i < length l)%nat) by (rewrite <- rev_length; apply nth_error_Some; congruence).
    assert (Hlj : (j < length l)%nat) by (rewrite <- rev_length; apply nth_error_Some; congruence).
    rewrite (nth_error_nth' _ 0%nat) in Hi by (rewrite rev_length; lia).
    rewrite (nth_error_nth' _ 0%nat) in Hj by (rewrite rev_length; lia).
    rewrite rev_nth in Hi, Hj by lia. inversion Hi; inversion Hj; subst.
    eapply (Hfl (length l - S j)%nat (length l - S i)%nat); [lia| |];
      apply nth_error_nth'; lia.
  Qed.
End G.

(** the start of a line depends only on the text before it *)
Lemma line_start_from_prefix cl : forall cl' pos n k,
  firstn k cl = firstn k cl' ->
  (line_start_from cl pos n <= pos + k)%nat ->
  (n <= length (filter is_nl (firstn k cl)))%nat ->
  line_start_from cl' pos n = line_start_from cl pos n.
Proof.
  induction cl as [|c cl IH]; intros cl' pos n k Hpre Hle Hn.
  - rewrite firstn_nil in Hn. cbn in Hn. assert (n = 0)%nat by lia. subst. destruct cl'; reflexivity.
  - destruct n as [|n]; [destruct cl'; reflexivity|].
    destruct k as [|k]; [cbn in Hn; lia|].
    destruct cl' as [|c' cl']; [cbn in Hpre; discriminate|].
    cbn [firstn] in Hpre. inversion Hpre; subst c'.
    cbn [line_start_from] in *. cbn [firstn filter] in Hn.
    destruct (is_nl c) eqn:E.
    + cbn [length] in Hn. apply (IH cl' (S pos) n k); [assumption|lia|lia].
    + apply (IH cl' (S pos) (S n) k); [assumption|lia|assumption].
Qed.

(** Editing the buffer at or after the start of line [n] does not move that
    start: visiting lines last-to-first keeps the positions of the lines still
    to be visited valid. *)
Theorem line_start_stable cl cl' n :
  let s := line_start cl n in
  firstn s cl = firstn s cl' ->
  (n <= length (filter is_nl (firstn s cl)))%nat ->
  line_start cl' n = s.
Proof.
  cbn zeta. intros Hpre Hn. unfold line_start.
  apply (line_start_from_prefix cl cl' 0 n (line_start cl n)); [exact Hpre|unfold line_start; lia|exact Hn].
Qed.
