(** Slicing through a fresh cache cuts whole clusters of the current text. *)
From Vicut Require Import Base.Prelude Model.Text.

Lemma u8len_pos c : (1 <= u8len c)%nat.
Proof. unfold u8len. repeat (destruct (_ <? _)); lia. Qed.

Lemma blen_app a b : blen (a ++ b) = (blen a + blen b)%nat.
Proof. induction a as [|c a IH]; cbn [app blen fold_right]; [reflexivity|]. fold (blen (a ++ b)) (blen a). lia. Qed.

Lemma drop_bytes_app pre rest : drop_bytes (pre ++ rest) (blen pre) = Some rest.
Proof.
  induction pre as [|c pre IH]; cbn [app blen fold_right]; [destruct rest; reflexivity|].
  fold (blen pre). pose proof (u8len_pos c).
  destruct (u8len c + blen pre)%nat eqn:E; [lia|]. cbn [drop_bytes]. rewrite <- E.
  destruct (Nat.leb_spec (u8len c) (u8len c + blen pre)); [|lia].
  replace (u8len c + blen pre - u8len c)%nat with (blen pre) by lia. exact IH.
Qed.

Lemma take_bytes_app mid rest : take_bytes (mid ++ rest) (blen mid) = Some mid.
Proof.
  induction mid as [|c mid IH]; cbn [app blen fold_right]; [destruct rest; reflexivity|].
  fold (blen mid). pose proof (u8len_pos c).
  destruct (u8len c + blen mid)%nat eqn:E; [lia|]. cbn [take_bytes]. rewrite <- E.
  destruct (Nat.leb_spec (u8len c) (u8len c + blen mid)); [|lia].
  replace (u8len c + blen mid - u8len c)%nat with (blen mid) by lia. now rewrite IH.
Qed.

Lemma get_range_mid pre mid post :
  get_range (pre ++ mid ++ post) (blen pre) (blen pre + blen mid) = Some mid.
Proof.
  unfold get_range. destruct (Nat.leb_spec (blen pre) (blen pre + blen mid)); [|lia].
  rewrite drop_bytes_app. replace (blen pre + blen mid - blen pre)%nat with (blen mid) by lia.
  apply take_bytes_app.
Qed.

Lemma offsets_from_nth cl : forall n k,
  (k < length cl)%nat ->
  nth_error (offsets_from n cl) k = Some (n + blen (concat (firstn k cl)))%nat.
Proof.
  induction cl as [|c cl IH]; intros n k Hk; cbn [length] in Hk; [lia|].
  destruct k as [|k]; cbn [offsets_from nth_error firstn concat blen fold_right].
  - f_equal. lia.
  - rewrite IH by lia. rewrite blen_app. f_equal. lia.
Qed.

Lemma offsets_from_length cl : forall n, length (offsets_from n cl) = length cl.
Proof. induction cl; intros n; cbn; auto. Qed.

Lemma offsets_from_nth_none cl n k : (length cl <= k)%nat -> nth_error (offsets_from n cl) k = None.
Proof. intros H. apply nth_error_None. now rewrite offsets_from_length. Qed.

Lemma skipn_skipn' {A} (l : list A) : forall a b, skipn a (skipn b l) = skipn (b + a) l.
Proof.
  induction l as [|x l IH]; intros a b.
  - now rewrite !skipn_nil.
  - destruct b as [|b]; cbn [skipn Nat.add]; [reflexivity|]. apply IH.
Qed.

Lemma split3 {A} (l : list A) s e : (s <= e)%nat -> (e <= length l)%nat ->
  l = firstn s l ++ firstn (e - s) (skipn s l) ++ skipn e l.
Proof.
  intros H1 H2. rewrite <- (firstn_skipn s l) at 1. f_equal.
  rewrite <- (firstn_skipn (e - s) (skipn s l)) at 1. f_equal.
  rewrite skipn_skipn'. f_equal. lia.
Qed.

(** The cache is fresh: it holds the offsets of a segmentation [cl] of the
    buffer. Then a slice [s, e) is the concatenation of clusters s..e-1. *)
Theorem slice_fresh (cl : list text) (s e : nat) :
  (s <= e)%nat -> (e <= length cl)%nat -> (s < length cl)%nat ->
  slice_idx (concat cl) (offsets cl) s e = Some (concat (sub_clusters cl s e)).
Proof.
  intros Hse He Hs. unfold slice_idx, offsets, sub_clusters.
  rewrite offsets_from_nth by assumption. cbn [Nat.add].
  assert (Hb : match nth_error (offsets_from 0 cl) e with
               | Some b => Some b
               | None => if Nat.eqb e (length (offsets_from 0 cl)) then Some (blen (concat cl)) else None
               end = Some (blen (concat (firstn e cl)))).
  { destruct (Nat.eq_dec e (length cl)) as [->|Hne].
    - rewrite offsets_from_nth_none by lia. rewrite offsets_from_length, Nat.eqb_refl.
      now rewrite firstn_all.
    - rewrite offsets_from_nth by lia. reflexivity. }
  rewrite Hb.
  rewrite (split3 cl s e Hse He) at 1. rewrite !concat_app.
  assert (Hfe : firstn e cl = firstn s cl ++ firstn (e - s) (skipn s cl)).
  { rewrite (split3 cl s e Hse He) at 1.
    rewrite firstn_app. rewrite firstn_length_le by lia.
    rewrite (firstn_all2 (firstn s cl)) by (rewrite firstn_length; lia).
    f_equal. rewrite firstn_app.
    rewrite firstn_length_le by (rewrite skipn_length; lia).
    replace (e - s - (e - s))%nat with 0%nat by lia. cbn [firstn]. rewrite app_nil_r.
    apply firstn_all2. rewrite firstn_length. lia. }
  rewrite Hfe, concat_app, blen_app. apply get_range_mid.
Qed.

(** the slice is a contiguous stretch of the buffer *)
Corollary slice_fresh_contiguous cl s e :
  (s <= e)%nat -> (e <= length cl)%nat ->
  concat cl = concat (firstn s cl) ++ concat (sub_clusters cl s e) ++ concat (skipn e cl).
Proof. intros. rewrite <- !concat_app. f_equal. now apply split3. Qed.

(** ** [read_field] = the stretch between the two cursor positions, inclusive. *)
Definition span (cl : list text) (c0 c1 : nat) : text :=
  let n := length cl in
  concat (sub_clusters cl (Nat.min (Nat.min c0 c1) (n - 1)) (Nat.min (Nat.max c0 c1 + 1) n)).

Theorem read_field_is_span cl c0 c1 :
  cl <> [] ->
  read_field_post (concat cl) (offsets cl) (length cl) c0 c1 None
  = Some (match concat cl with [] => [] | _ => span cl c0 c1 end).
Proof.
  intros Hne. unfold read_field_post.
  destruct (concat cl) as [|x r] eqn:Ec; [reflexivity|]. rewrite <- Ec.
  unfold field_bounds, clamp_new, upper_bound. cbn [cl_val cl_excl cl_max].
  assert (Hn : (1 <= length cl)%nat) by (destruct cl; [congruence|cbn; lia]).
  rewrite slice_fresh; [reflexivity| | |].
  all: unfold text in *; lia.
Qed.

(** a charwise selection [s..=e] yields the clusters s..e (clamped to the text) *)
Theorem selected_char_is_clusters cl s e :
  (s <= e)%nat -> (s < length cl)%nat ->
  selected_content (concat cl) (offsets cl) (length cl) SelChar (OneDim s e)
  = Some (concat (sub_clusters cl s (Nat.min (e + 1) (length cl)))).
Proof. intros. cbn [selected_content]. apply slice_fresh; unfold text in *; lia. Qed.

Theorem selected_line_is_clusters cl s e :
  (s <= e)%nat -> (e <= length cl)%nat -> (s < length cl)%nat ->
  selected_content (concat cl) (offsets cl) (length cl) SelLine (OneDim s e)
  = Some (concat (sub_clusters cl s e)).
Proof. intros. cbn [selected_content]. now apply slice_fresh. Qed.
