(** No crash, no hang: the modelled components have no failing outcome. *)
From Vicut Require Import Base.Prelude Model.Args.

Definition graceful {A} (x : outcome A) : Prop :=
  match x with Ok _ | Exit1 => True | Panic _ | OutOfFuel => False end.

Ltac crack :=
  repeat (match goal with
          | |- graceful (Ok _) => exact I
          | |- graceful Exit1 => exact I
          | |- graceful (match ?x with _ => _ end) => destruct x eqn:?
          | |- graceful (if ?b then _ else _) => destruct b eqn:?
          end).

(** [Opts::parse] / [handle_global_arg]: whatever the argument vector, the
    stack of open scopes and the answers of the file system, the outcome is a
    parsed option set or the usage error - never a panic, and the recursion is
    structural on the argument list, so it ends. *)
Lemma run_graceful file_ok : forall n args, (length args <= n)%nat ->
  forall o stk, graceful (run file_ok o stk args).
Proof.
  induction n as [|n IH]; intros args Hl o stk.
  - destruct args; [|cbn in Hl; lia]. exact I.
  - destruct args as [|g rest]; [exact I|]. cbn [length] in Hl.
    assert (IH0 : forall o stk, graceful (run file_ok o stk rest)) by (intros; apply IH; lia).
    assert (IH1 : forall a r, rest = a :: r -> forall o stk, graceful (run file_ok o stk r)).
    { intros a r -> o' s'. apply IH. cbn [length] in Hl. lia. }
    assert (IH2 : forall a b r, rest = a :: b :: r -> forall o stk, graceful (run file_ok o stk r)).
    { intros a b r -> o' s'. apply IH. cbn [length] in Hl. lia. }
    cbn [run]. unfold handle_filename.
    destruct stk as [|f fs].
    + crack; try apply IH0; try (eapply IH1; reflexivity); try (eapply IH2; reflexivity).
      all: match goal with H : (if ?b then _ else _) = _ |- _ => destruct b; discriminate end.
    + cbv zeta. crack; try apply IH0; try (eapply IH1; reflexivity); try (eapply IH2; reflexivity).
Qed.

Theorem parse_graceful file_ok args : graceful (parse file_ok args).
Proof. unfold parse. now apply (run_graceful file_ok (length args)). Qed.

(** ** The key reader makes progress: every key it returns costs at least one
    byte, so the key loop of [exec_loop] ends and the fuel [keys_of] gives
    [read_keys] is never what stops it. *)
From Vicut Require Import Model.Keys.

Lemma split_gt_len : forall bs acc buf rest,
  split_gt bs acc = Some (buf, rest) -> (length rest < length bs)%nat.
Proof.
  induction bs as [|b r IH]; intros acc buf rest H; cbn [split_gt] in H; [discriminate|].
  destruct (b =? 62).
  - injection H as _ <-. cbn [length]. lia.
  - apply IH in H. cbn [length]. lia.
Qed.

Lemma alias_len bs k rest : parse_byte_alias bs = Some (k, rest) -> (length rest < length bs)%nat.
Proof.
  unfold parse_byte_alias. destruct (split_gt bs []) as [[buf r]|] eqn:E; [|discriminate].
  apply split_gt_len in E. destruct buf as [|b0 buf0]; [discriminate|].
  destruct (strip_mods _ _ _) as [b' m]. destruct (alias_key b' m); [|discriminate].
  intros H. injection H as _ <-. exact E.
Qed.

Lemma esc_digits_len : forall bs acc ds rest,
  esc_digits bs acc = (ds, rest) -> (length rest <= length bs)%nat.
Proof.
  induction bs as [|b r IH]; intros acc ds rest H; cbn [esc_digits] in H.
  - injection H as _ <-. cbn. lia.
  - destruct ((b =? 126) || (b =? 59)); [injection H as _ <-; cbn [length]; lia|].
    destruct (is_digit b); [apply IH in H; cbn [length]; lia|].
    injection H as _ <-. cbn [length]. lia.
Qed.

Lemma esc_seq_len bs k rest : parse_esc_seq bs = Some (k, rest) -> (length rest < length bs)%nat.
Proof.
  unfold parse_esc_seq. intros H.
  destruct bs as [|b r]; [discriminate|].
  repeat (match type of H with
          | (match ?x with _ => _ end) = _ => destruct x eqn:?
          | (if ?c then _ else _) = _ => destruct c
          | (let '(_, _) := ?p in _) = _ => destruct p as [? ?] eqn:?
          end; try discriminate);
    try (injection H as _ <-); cbn [length]; try lia.
  all: match goal with E : esc_digits _ _ = _ |- _ => apply esc_digits_len in E; cbn [length] in *; lia end.
Qed.

Lemma loop_progress : forall fuel collected bytes esc k r',
  read_key_loop fuel collected bytes esc = (Some k, r') ->
  (length (r_bytes r') < length bytes)%nat.
Proof.
  induction fuel as [|f IH]; intros collected bytes esc k r' H; cbn [read_key_loop] in H; [discriminate|].
  destruct bytes as [|b rest]; [discriminate|].
  destruct (if (b =? 60) && negb esc then parse_byte_alias rest else None) as [[k0 rest0]|] eqn:Ea.
  - injection H as _ <-. cbn [r_bytes length].
    destruct ((b =? 60) && negb esc); [|discriminate]. apply alias_len in Ea. lia.
  - cbv zeta in H.
    destruct (is_nil_N collected && (b =? 27)
              && match rest with x :: _ => (x =? 91) || (x =? 79) | [] => false end).
    + destruct (parse_esc_seq rest) as [[k1 rest1]|] eqn:Ee; [|discriminate].
      injection H as _ <-. apply esc_seq_len in Ee. cbn [r_bytes length]. lia.
    + destruct (utf8_first (collected ++ [b])) as [[c n]|].
      * destruct (n =? length (collected ++ [b]))%nat.
        -- injection H as _ <-. cbn [r_bytes length]. lia.
        -- apply IH in H. cbn [length]. lia.
      * apply IH in H. cbn [length]. lia.
Qed.

Theorem read_key_progress r k r' :
  read_key r = (Some k, r') -> (length (r_bytes r') < length (r_bytes r))%nat.
Proof. unfold read_key. apply loop_progress. Qed.

(** more fuel than bytes changes nothing: the reader stops because [read_key]
    returned [None], never because the fuel ran out *)
Theorem read_keys_fuel : forall f r extra,
  (length (r_bytes r) < f)%nat -> read_keys (f + extra) r = read_keys f r.
Proof.
  induction f as [|f IH]; intros r extra Hl; [lia|].
  cbn [Nat.add read_keys]. destruct (read_key r) as [[k|] r'] eqn:E; [|reflexivity].
  apply read_key_progress in E. rewrite IH by lia. reflexivity.
Qed.

Corollary keys_of_fuel bs extra :
  read_keys (S (length bs) + extra) (mkReader bs false) = keys_of bs.
Proof. unfold keys_of. apply read_keys_fuel. cbn. lia. Qed.

(** and it returns at most one key per byte *)
Theorem read_keys_bound : forall f r,
  (length (fst (read_keys f r)) <= length (r_bytes r))%nat.
Proof.
  induction f as [|f IH]; intros r; cbn [read_keys]; [cbn; lia|].
  destruct (read_key r) as [[k|] r'] eqn:E; [|cbn; lia].
  apply read_key_progress in E. specialize (IH r').
  destruct (read_keys f r') as [ks r'']. cbn [fst length] in *. lia.
Qed.

(** ** The drivers: a run whose units ([execute] on one input) end gracefully
    ends gracefully - formatting, the file plumbing and the dispatch add no
    panic of their own. *)
From Vicut Require Import Model.Format Model.Drivers.

Lemma format_template_graceful t recs : graceful (format_template t recs).
Proof.
  induction recs as [|r recs IH]; cbn [format_template]; [exact I|].
  destruct (tmpl_scan r None [] t); [|exact I].
  destruct (format_template t recs); cbn in *; auto.
Qed.

Lemma format_output_graceful f recs : graceful (format_output f recs).
Proof. destruct f; cbn [format_output]; try exact I. apply format_template_graceful. Qed.

Definition no_panic (r : result) : Prop := snd r <> Failed true.

Section DriversTotal.
  Variable unit : option text -> text -> outcome (list record).
  Variable o : dopts.
  Hypothesis unit_graceful : forall f t, graceful (unit f t).

  Lemma fail_of_graceful {A} (x : outcome A) s : graceful x -> no_panic (s, fail_of x).
  Proof. destruct x; cbn; intros H; try contradiction; discriminate. Qed.

  Ltac split_outcomes :=
    repeat match goal with
           | |- graceful (match ?x with _ => _ end) => destruct x eqn:?; cbn in *
           end; auto.

  Lemma units_seq_graceful f lines : graceful (units_seq unit f lines).
  Proof.
    induction lines as [|l ls IH]; cbn [units_seq]; [exact I|].
    pose proof (unit_graceful f l) as Hu.
    destruct (unit f l); cbn in Hu; try contradiction; [|exact I].
    destruct (units_seq unit f ls); cbn in *; auto.
  Qed.

  Lemma exec_all_graceful work : graceful (exec_all unit work).
  Proof.
    induction work as [|[p c] rest IH]; cbn [exec_all]; [exact I|].
    pose proof (unit_graceful (Some p) c) as Hu.
    destruct (unit (Some p) c); cbn in Hu; try contradiction; [|exact I].
    destruct (exec_all unit rest); cbn in *; auto.
  Qed.

  Lemma fmt_results_graceful results : graceful (fmt_results o results).
  Proof.
    induction results as [|[p recs] rest IH]; cbn [fmt_results]; [exact I|].
    pose proof (format_output_graceful (do_fmt o) recs) as Hf.
    destruct (format_output (do_fmt o) recs); cbn in Hf; try contradiction; [|exact I].
    destruct (fmt_results o rest); cbn in *; auto.
  Qed.

  Lemma fmt_each_graceful rs : graceful (fmt_each o rs).
  Proof.
    induction rs as [|r rest IH]; cbn [fmt_each]; [exact I|].
    pose proof (format_output_graceful (do_fmt o) r) as Hf.
    destruct (format_output (do_fmt o) r); cbn in Hf; try contradiction; [|exact I].
    destruct (fmt_each o rest); cbn in *; auto.
  Qed.

  Lemma fmt_units_graceful rs : graceful (fmt_units o rs).
  Proof.
    induction rs as [|r rest IH]; cbn [fmt_units]; [exact I|].
    pose proof (format_output_graceful (do_fmt o) r) as Hf.
    destruct (format_output (do_fmt o) r); cbn in Hf; try contradiction; [|exact I].
    destruct (fmt_units o rest); cbn in *; auto.
  Qed.

  Lemma format_linewise_graceful rs : graceful (format_linewise o rs).
  Proof.
    unfold format_linewise. destruct (do_json o); [apply format_output_graceful|apply fmt_units_graceful].
  Qed.

  Lemma lw_exec_all_graceful work : graceful (lw_exec_all unit o work).
  Proof.
    induction work as [|[p c] rest IH]; cbn [lw_exec_all]; [exact I|]. cbv zeta.
    pose proof (units_seq_graceful (Some p) (get_lines c)) as Hu.
    destruct (units_seq unit (Some p) (get_lines c)) as [rs| | |]; cbn in Hu; try contradiction; [|exact I].
    pose proof (fmt_each_graceful rs) as Hf.
    destruct (fmt_each o rs); cbn in Hf; try contradiction; [|exact I].
    destruct (lw_exec_all unit o rest); cbn in *; auto.
  Qed.

  Lemma write_back_no_panic s p output : no_panic (write_back o s p output).
  Proof.
    unfold write_back, no_panic. destruct (do_backup o); [|cbn; discriminate].
    destruct (fs_get (d_fs s) p); cbn; discriminate.
  Qed.

  Lemma emit_all_no_panic payloads : forall s, no_panic (emit_all o payloads s).
  Proof.
    induction payloads as [|[p output] rest IH]; intros s; cbn [emit_all]; [cbn; discriminate|].
    destruct (do_inplace o).
    - pose proof (write_back_no_panic s p output) as Hw.
      destruct (write_back o s p output) as [s' [|b]]; [apply IH|exact Hw].
    - destruct (multi o); apply IH.
  Qed.

  Lemma lw_emit_no_panic paths per_file : forall s, no_panic (lw_emit o paths per_file s).
  Proof.
    induction paths as [|p rest IH]; intros s; cbn [lw_emit]; [cbn; discriminate|]. cbv zeta.
    destruct (do_inplace o).
    - match goal with |- no_panic (match write_back o s p ?out with _ => _ end) =>
        pose proof (write_back_no_panic s p out) as Hw; destruct (write_back o s p out) as [s' [|b]] end;
        [apply IH|exact Hw].
    - destruct (multi o); apply IH.
  Qed.

  Lemma files_serial_no_panic files : forall jd s, no_panic (files_serial unit o files jd s).
  Proof.
    induction files as [|p rest IH]; intros jd s; cbn [files_serial].
    - destruct (do_json o); cbn; discriminate.
    - destruct (fs_read (d_fs s) p) as [content|]; [|cbn; discriminate].
      pose proof (unit_graceful (Some p) content) as Hu.
      destruct (unit (Some p) content) as [recs| | |] eqn:Eu; cbn in Hu; try contradiction;
        [|cbn; discriminate].
      destruct (do_json o); [apply IH|].
      pose proof (format_output_graceful (do_fmt o) recs) as Hf.
      destruct (format_output (do_fmt o) recs) as [output| | |]; cbn in Hf; try contradiction;
        [|cbn; discriminate].
      destruct (do_inplace o).
      + pose proof (write_back_no_panic s p output) as Hw.
        destruct (write_back o s p output) as [s' [|b]]; [apply IH|exact Hw].
      + destruct (multi o && is_nil output); [apply IH|]. cbv zeta. apply IH.
  Qed.

  Lemma lw_files_serial_no_panic files : forall jd s, no_panic (lw_files_serial unit o files jd s).
  Proof.
    induction files as [|p rest IH]; intros jd s; cbn [lw_files_serial].
    - destruct (do_json o); cbn; discriminate.
    - destruct (fs_read (d_fs s) p) as [content|]; [|cbn; discriminate].
      pose proof (units_seq_graceful (Some p) (get_lines content)) as Hu.
      destruct (units_seq unit (Some p) (get_lines content)) as [rs| | |]; cbn in Hu; try contradiction;
        [|cbn; discriminate].
      cbv zeta. destruct (do_json o); [apply IH|].
      pose proof (format_linewise_graceful rs) as Hf.
      destruct (format_linewise o rs) as [output| | |]; cbn in Hf; try contradiction;
        [|cbn; discriminate].
      destruct (do_inplace o).
      + pose proof (write_back_no_panic s p output) as Hw.
        destruct (write_back o s p output) as [s' [|b]]; [apply IH|exact Hw].
      + destruct (multi o && is_nil output); [apply IH|]. apply IH.
  Qed.

  Theorem run_main_no_panic linewise serial input s :
    no_panic (run_main unit o linewise serial input s).
  Proof.
    unfold run_main.
    assert (Hlw : no_panic (linewise_stdin unit o input s)).
    { unfold linewise_stdin.
      pose proof (units_seq_graceful None (get_lines input)) as Hu.
      destruct (units_seq unit None (get_lines input)) as [rs| | |]; cbn in Hu; try contradiction;
        [|cbn; discriminate].
      pose proof (format_linewise_graceful rs) as Hf.
      destruct (format_linewise o rs); cbn in Hf; try contradiction; cbn; discriminate. }
    destruct linewise, serial; destruct (is_nil (do_files o)); try exact Hlw.
    - apply lw_files_serial_no_panic.
    - unfold lw_files_parallel. destruct (read_all _ _) as [work|]; [|cbn; discriminate].
      pose proof (lw_exec_all_graceful work) as H.
      destruct (lw_exec_all unit o work); cbn in H; try contradiction; [|cbn; discriminate].
      destruct (do_json o && multi o); [cbn; discriminate|apply lw_emit_no_panic].
    - unfold exec_stdin.
      pose proof (unit_graceful None input) as Hu.
      destruct (unit None input) as [recs| | |]; cbn in Hu; try contradiction; [|cbn; discriminate].
      pose proof (format_output_graceful (do_fmt o) recs) as Hf.
      destruct (format_output (do_fmt o) recs); cbn in Hf; try contradiction; cbn; discriminate.
    - apply files_serial_no_panic.
    - unfold exec_stdin.
      pose proof (unit_graceful None input) as Hu.
      destruct (unit None input) as [recs| | |]; cbn in Hu; try contradiction; [|cbn; discriminate].
      pose proof (format_output_graceful (do_fmt o) recs) as Hf.
      destruct (format_output (do_fmt o) recs); cbn in Hf; try contradiction; cbn; discriminate.
    - unfold files_parallel. destruct (read_all _ _) as [work|]; [|cbn; discriminate].
      pose proof (exec_all_graceful work) as H.
      destruct (exec_all unit work) as [results| | |]; cbn in H; try contradiction; [|cbn; discriminate].
      destruct (do_json o && multi o); [cbn; discriminate|].
      unfold files_emit. pose proof (fmt_results_graceful results) as Hf.
      destruct (fmt_results o results); cbn in Hf; try contradiction; [apply emit_all_no_panic|cbn; discriminate].
  Qed.
End DriversTotal.
