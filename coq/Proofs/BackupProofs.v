(** The write phase of the parallel [-i] drivers in two passes (every backup, then every file): a backup that cannot be
    made leaves every named file as it was; when all can be made the result is the one the per-file loop is specified
    to give (C05). *)
From Vicut Require Import Base.Prelude Model.Format Model.Drivers Proofs.DriverProofs.

Lemma nodup_app_left {A} (a b : list A) : NoDup (a ++ b) -> NoDup a.
Proof.
  induction a as [|x a IH]; intros H; [constructor|]. cbn [app] in H. inversion H as [|? ? Hni Hnd]; subst.
  constructor; [intros X; apply Hni; apply in_or_app; now left|now apply IH].
Qed.
Lemma nodup_app_right {A} (a b : list A) : NoDup (a ++ b) -> NoDup b.
Proof.
  induction a as [|x a IH]; intros H; [exact H|]. cbn [app] in H. inversion H; subst. now apply IH.
Qed.

Section TwoPhase.
  Variable o : dopts.
  Notation bp := (backup_path (T "bak")).

  (** the backup pass writes backup siblings and nothing else *)
  Lemma backup_all_elsewhere : forall paths fs q,
    ~ In q (map bp paths) -> fs_get (fst (backup_all paths fs)) q = fs_get fs q.
  Proof.
    induction paths as [|p rest IH]; intros fs q Hq; cbn [backup_all]; [reflexivity|].
    destruct (fs_get fs p) as [ob|]; [|reflexivity].
    cbn [map In] in Hq. rewrite IH by tauto.
    apply fs_get_put_other. intros E. apply Hq. left. exact E.
  Qed.

  (** a backup that cannot be made: the run fails, nothing is printed, and every named file - indeed everything that is
      not a backup sibling - is as it was *)
  Theorem two_phase_fault_atomic (l : list (text * text)) (s : dstate) :
    do_backup o = true ->
    snd (backup_all (map fst l) (d_fs s)) = false ->
    (forall p q, In p (map fst l) -> In q (map fst l) -> bp q <> p) ->
    exists s', emit_two_phase o l s = (s', Failed false)
      /\ d_out s' = d_out s
      /\ (forall p, In p (map fst l) -> fs_get (d_fs s') p = fs_get (d_fs s) p)
      /\ (forall q, ~ In q (map bp (map fst l)) -> fs_get (d_fs s') q = fs_get (d_fs s) q).
  Proof.
    intros Hb Hf Hnc. unfold emit_two_phase. rewrite Hb.
    destruct (backup_all (map fst l) (d_fs s)) as [fs1 ok] eqn:E. cbn [snd] in Hf. subst ok.
    exists (mkD fs1 (d_out s)). split; [reflexivity|]. split; [reflexivity|].
    assert (Hel : forall q, ~ In q (map bp (map fst l)) -> fs_get fs1 q = fs_get (d_fs s) q).
    { intros q Hq. pose proof (backup_all_elsewhere (map fst l) (d_fs s) q Hq) as H. now rewrite E in H. }
    split; [|exact Hel].
    intros p Hp. cbn [d_fs]. apply Hel. intros Hin. apply in_map_iff in Hin. destruct Hin as (q & Hq & Hqin).
    exact (Hnc p q Hp Hqin Hq).
  Qed.

  (** when every file is there: all backups are made, each holding what its file held *)
  Lemma backup_all_ok : forall paths fs,
    NoDup (map bp paths) -> (forall p, In p paths -> ~ In p (map bp paths)) ->
    (forall p, In p paths -> fs_get fs p <> None) ->
    snd (backup_all paths fs) = true
    /\ (forall p, In p paths -> fs_get (fst (backup_all paths fs)) (bp p) = fs_get fs p).
  Proof.
    induction paths as [|p rest IH]; intros fs Hnd Hnc Hex; cbn [backup_all]; [split; [reflexivity|intros ? []]|].
    destruct (fs_get fs p) as [ob|] eqn:Hg; [|exfalso; eapply Hex; [left; reflexivity|exact Hg]].
    cbn [map] in Hnd. inversion Hnd as [|? ? Hni Hnd']; subst.
    assert (Hex' : forall q, In q rest -> fs_get (fs_put fs (bp p) ob) q <> None).
    { intros q Hq. rewrite fs_get_put_other; [apply Hex; now right|].
      intros X. apply (Hnc q (or_intror Hq)). cbn [map In]. left. exact X. }
    assert (Hnc' : forall q, In q rest -> ~ In q (map bp rest)).
    { intros q Hq X. apply (Hnc q (or_intror Hq)). cbn [map In]. now right. }
    destruct (IH (fs_put fs (bp p) ob) Hnd' Hnc' Hex') as [Hok Hbk]. split; [exact Hok|].
    intros q [->|Hq].
    - rewrite backup_all_elsewhere by exact Hni. rewrite fs_get_put_same. now rewrite Hg.
    - rewrite (Hbk q Hq). apply fs_get_put_other.
      intros X. apply (Hnc q (or_intror Hq)). cbn [map In]. left. exact X.
  Qed.

  Lemma write_all_spec : forall l fs,
    NoDup (map fst l) ->
    (forall p t, In (p, t) l -> fs_get (write_all l fs) p = Some (FText t))
    /\ (forall q, ~ In q (map fst l) -> fs_get (write_all l fs) q = fs_get fs q).
  Proof.
    induction l as [|[p t] l IH]; intros fs Hnd; cbn [write_all]; [split; [intros ? ? []|reflexivity]|].
    cbn [map fst] in Hnd. inversion Hnd as [|? ? Hni Hnd']; subst.
    destruct (IH (fs_put fs p (FText t)) Hnd') as [Hin Hout]. split.
    - intros q u [E|Hq]; [inversion E; subst q u; rewrite Hout by exact Hni; apply fs_get_put_same|now apply Hin].
    - intros q Hq. cbn [map fst In] in Hq. rewrite Hout by tauto. apply fs_get_put_other. tauto.
  Qed.

  (** ... and the outcome is the one C05 specifies for the per-file loop: every named file holds its payload, every backup
      sibling what the file held, nothing else changes, nothing is printed *)
  Theorem two_phase_backup_spec (l : list (text * text)) (s : dstate) :
    do_backup o = true ->
    NoDup (map fst l ++ map (fun pt => bp (fst pt)) l) ->
    (forall p t, In (p, t) l -> fs_get (d_fs s) p <> None) ->
    exists s', emit_two_phase o l s = (s', Done)
      /\ d_out s' = d_out s
      /\ (forall p t, In (p, t) l ->
            fs_get (d_fs s') p = Some (FText t) /\ fs_get (d_fs s') (bp p) = fs_get (d_fs s) p)
      /\ (forall q, ~ In q (map fst l) -> ~ In q (map (fun pt => bp (fst pt)) l) ->
            fs_get (d_fs s') q = fs_get (d_fs s) q).
  Proof.
    intros Hb Hnd Hex. unfold emit_two_phase. rewrite Hb.
    assert (Hmm : map (fun pt : text * text => bp (fst pt)) l = map bp (map fst l)) by (now rewrite map_map).
    rewrite Hmm in *.
    assert (Hnd1 : NoDup (map fst l)) by (eapply nodup_app_left; exact Hnd).
    assert (Hnd2 : NoDup (map bp (map fst l))) by (eapply nodup_app_right; exact Hnd).
    assert (Hdisj : forall p, In p (map fst l) -> ~ In p (map bp (map fst l))).
    { intros p Hp Hq. apply in_split in Hp. destruct Hp as (l1 & l2 & E). rewrite E in Hnd.
      rewrite <- app_assoc in Hnd. apply NoDup_remove_2 in Hnd. apply Hnd.
      apply in_or_app. right. apply in_or_app. right. rewrite <- E. exact Hq. }
    assert (Hex' : forall p, In p (map fst l) -> fs_get (d_fs s) p <> None).
    { intros p Hp. apply in_map_iff in Hp. destruct Hp as ([q t] & <- & Hin). exact (Hex q t Hin). }
    destruct (backup_all_ok (map fst l) (d_fs s) Hnd2 Hdisj Hex') as [Hok Hbk].
    destruct (backup_all (map fst l) (d_fs s)) as [fs1 ok] eqn:E. cbn [fst snd] in *. subst ok.
    destruct (write_all_spec l fs1 Hnd1) as [Hin Hout].
    exists (mkD (write_all l fs1) (d_out s)). split; [reflexivity|]. split; [reflexivity|]. cbn [d_fs]. split.
    - intros p t Hpt. split; [now apply Hin|].
      assert (Hp : In p (map fst l)) by (apply in_map_iff; now exists (p, t)).
      rewrite Hout.
      + now apply Hbk.
      + intros X. apply (Hdisj (bp p) X). apply in_map. exact Hp.
    - intros q Hq1 Hq2. rewrite Hout by exact Hq1.
      pose proof (backup_all_elsewhere (map fst l) (d_fs s) q Hq2) as H. now rewrite E in H.
  Qed.
End TwoPhase.
