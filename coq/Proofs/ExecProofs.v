(** Executing a repeat group is executing its body written out, for every
    editor core in which scopes are transparent to the commands. *)
From Vicut Require Import Base.Prelude Model.Args Model.Exec Spec.Items.

Fixpoint csize (c : cmd) : nat :=
  match c with
  | CRepeat body _ => S (fold_right (fun x a => csize x + a) 0 body)%nat
  | CGlobal _ _ th el =>
    S (fold_right (fun x a => csize x + a) 0 th
       + match el with Some e => fold_right (fun x a => csize x + a) 0 e | None => 0 end)%nat
  | _ => 1%nat
  end.
Definition clsize (l : list cmd) : nat := fold_right (fun x a => csize x + a)%nat 0%nat l.
Lemma csize_pos c : (1 <= csize c)%nat.
Proof. destruct c; cbn; lia. Qed.

Section ExecProofs.
  Variable st : Type.
  Variable do_move : text -> st -> st.
  Variable do_cut : option text -> text -> st -> st.
  Variable do_next : st -> st.
  Variable snm : st -> st.
  Variable descend ascend : st -> st.
  Variable glines : bool -> text -> st -> list nat.
  Variable goto_line : nat -> st -> option st.

  (** The contract of the core: leaving a scope undoes entering it, and an
      extra (empty) scope is invisible to commands that declare nothing. *)
  Hypothesis asc_desc : forall s, ascend (descend s) = s.
  Hypothesis move_desc : forall k s, do_move k (descend s) = descend (do_move k s).
  Hypothesis cut_desc : forall n k s, do_cut n k (descend s) = descend (do_cut n k s).
  Hypothesis next_desc : forall s, do_next (descend s) = descend (do_next s).
  Hypothesis snm_desc : forall s, snm (descend s) = descend (snm s).
  Hypothesis glines_desc : forall p q s, glines p q (descend s) = glines p q s.
  Hypothesis goto_desc : forall ln s,
      goto_line ln (descend s) = option_map descend (goto_line ln s).

  Notation exec := (exec st do_move do_cut do_next snm descend ascend glines goto_line).
  Notation seq := (seq st do_move do_cut do_next snm descend ascend glines goto_line).

  Lemma seq_app l1 l2 s : seq (l1 ++ l2) s = seq l2 (seq l1 s).
  Proof. revert s; induction l1 as [|c l1 IH]; intros s; cbn [app seq]; auto. Qed.

  Lemma iter_succ_r {A} (f : A -> A) k x : Nat.iter (S k) f x = Nat.iter k f (f x).
  Proof.
    induction k as [|k IH]; [reflexivity|].
    change (f (Nat.iter (S k) f x) = f (Nat.iter k f (f x))). now f_equal.
  Qed.

  Lemma seq_repeat_list l k : forall s, seq (repeat_list l k) s = Nat.iter k (seq l) s.
  Proof.
    induction k as [|k IH]; intros s; cbn [repeat_list]; [reflexivity|].
    now rewrite seq_app, IH, iter_succ_r.
  Qed.

  Lemma N_iter_nat {A} (f : A -> A) k x : N.iter k f x = Nat.iter (N.to_nat k) f x.
  Proof. apply Nnat.N2Nat.inj_iter. Qed.

  Lemma iter_desc f (Hf : forall s, f (descend s) = descend (f s)) k s :
    Nat.iter k f (descend s) = descend (Nat.iter k f s).
  Proof.
    induction k as [|k IH]; [reflexivity|].
    change (f (Nat.iter k f (descend s)) = descend (f (Nat.iter k f s))). now rewrite IH, Hf.
  Qed.

  (** commands commute with entering a scope *)
  Lemma exec_desc_n : forall n,
    (forall c, (csize c <= n)%nat -> forall s, exec c (descend s) = descend (exec c s))
    /\ (forall l, (clsize l <= n)%nat -> forall s, seq l (descend s) = descend (seq l s)).
  Proof.
    induction n as [|n [IHc IHl]].
    - split.
      + intros c H. pose proof (csize_pos c). lia.
      + intros [|c l] H s; [reflexivity|]. cbn in H. pose proof (csize_pos c). lia.
    - assert (Hc : forall c, (csize c <= S n)%nat ->
                             forall s, exec c (descend s) = descend (exec c s)).
      { intros c Hs s. destruct c as [|k|k|nm k|body k|pol pat th el].
        - apply next_desc.
        - apply move_desc.
        - apply cut_desc.
        - apply cut_desc.
        - rewrite !exec_repeat, !N_iter_nat. cbn [csize] in Hs.
          assert (Hb : forall s, seq body (descend s) = descend (seq body s))
            by (apply IHl; unfold clsize; lia).
          rewrite !(iter_desc _ Hb), !asc_desc. reflexivity.
        - rewrite !exec_global, glines_desc. cbn [csize] in Hs.
          assert (Ht : forall s, seq th (descend s) = descend (seq th s))
            by (apply IHl; unfold clsize; lia).
          destruct (glines pol pat s) as [|ln lines].
          + destruct el as [e|]; [|reflexivity].
            assert (He : forall s, seq e (descend s) = descend (seq e s))
              by (apply IHl; unfold clsize; lia).
            now rewrite !He, !asc_desc.
          + generalize (ln :: lines). clear ln lines. intros lines. revert s.
            induction lines as [|ln lines IH]; intros s; cbn [fold_left]; [reflexivity|].
            rewrite goto_desc. destruct (goto_line ln s) as [s1|]; cbn [option_map].
            * rewrite !Ht, !asc_desc. apply IH.
            * apply IH. }
      split; [exact Hc|].
      intros l. induction l as [|c l IH]; intros Hs s; [reflexivity|].
      cbn [clsize fold_right] in Hs. pose proof (csize_pos c).
      cbn [seq]. rewrite Hc by lia. rewrite snm_desc. apply IH. unfold clsize. lia.
  Qed.

  Lemma seq_desc l s : seq l (descend s) = descend (seq l s).
  Proof. apply (proj2 (exec_desc_n (clsize l))). lia. Qed.

  (** a repeat group = its body, [k] times *)
  Lemma exec_repeat_iter body k s :
    exec (CRepeat body k) s = Nat.iter (N.to_nat k) (seq body) s.
  Proof.
    rewrite exec_repeat, N_iter_nat, (iter_desc _ (seq_desc body)). apply asc_desc.
  Qed.

  (** ** Flattening preserves execution.
      The only difference between a repeat group and its written-out body is
      one more mode reset after the group; resets are idempotent and the
      initial state is already reset. *)
  Definition Settled (s : st) : Prop := snm s = s.
  Hypothesis snm_idem : forall s, snm (snm s) = snm s.
  Hypothesis goto_settled : forall ln s s1,
      Settled s -> goto_line ln s = Some s1 -> Settled s1.

  Lemma settled_desc s : Settled s -> Settled (descend s).
  Proof. unfold Settled; intros H. now rewrite snm_desc, H. Qed.

  Lemma seq_settled l : forall s, Settled s -> Settled (seq l s).
  Proof.
    induction l as [|c l IH]; intros s H; [assumption|].
    cbn [seq]. apply IH. unfold Settled. apply snm_idem.
  Qed.

  Lemma iter_settled l k s : Settled s -> Settled (Nat.iter k (seq l) s).
  Proof.
    intros H; induction k as [|k IH]; [assumption|].
    change (Settled (seq l (Nat.iter k (seq l) s))). now apply seq_settled.
  Qed.

  Lemma iter_ext_settled l1 l2
        (H : forall s, Settled s -> seq l1 s = seq l2 s) k s :
    Settled s -> Nat.iter k (seq l1) s = Nat.iter k (seq l2) s.
  Proof.
    intros Hs. induction k as [|k IH]; [reflexivity|].
    change (seq l1 (Nat.iter k (seq l1) s) = seq l2 (Nat.iter k (seq l2) s)).
    rewrite IH. apply H. now apply iter_settled.
  Qed.

  Definition gbody th :=
    (fun s ln => match goto_line ln s with
                 | Some s1 => ascend (seq th (descend s1))
                 | None => s end).

  Lemma gfold_ext th1 th2 (H : forall s, Settled s -> seq th1 s = seq th2 s) lines :
    forall s, Settled s ->
      fold_left (gbody th1) lines s = fold_left (gbody th2) lines s.
  Proof.
    induction lines as [|ln lines IH]; intros s Hs; cbn [fold_left]; [reflexivity|].
    unfold gbody at 2 4. destruct (goto_line ln s) as [s1|] eqn:E; [|now apply IH].
    assert (H1 : Settled s1) by (eapply goto_settled; eassumption).
    rewrite !seq_desc, !asc_desc, H by assumption.
    apply IH. now apply seq_settled.
  Qed.

  Lemma seq_flatten_n : forall n l, (clsize l <= n)%nat ->
    forall s, Settled s -> seq (flatten l) s = seq l s.
  Proof.
    induction n as [|n IHn]; intros l Hs s Hset.
    - destruct l as [|c l]; [reflexivity|]. cbn in Hs. pose proof (csize_pos c). lia.
    - destruct l as [|c l]; [reflexivity|].
      cbn [clsize fold_right] in Hs. pose proof (csize_pos c).
      unfold flatten. cbn [flat_map]. rewrite seq_app. fold (flatten l).
      cbn [seq].
      enough (Hc : seq (flatten1 c) s = snm (exec c s)).
      { rewrite Hc. apply IHn; [unfold clsize; lia|]. unfold Settled. apply snm_idem. }
      destruct c as [|k|k|nm k|body k|pol pat th el]; try reflexivity.
      + cbn [flatten1]. fold (flatten body). cbn [csize] in Hs.
        rewrite seq_repeat_list, exec_repeat_iter.
        assert (Hb : forall s, Settled s -> seq (flatten body) s = seq body s)
          by (intros; apply IHn; [unfold clsize; lia|assumption]).
        rewrite (iter_ext_settled _ _ Hb) by assumption.
        symmetry. apply iter_settled. assumption.
      + cbn [flatten1 seq]. f_equal. cbn [csize] in Hs.
        fold (flatten th).
        assert (Ht : forall s, Settled s -> seq (flatten th) s = seq th s)
          by (intros; apply IHn; [unfold clsize; lia|assumption]).
        rewrite !exec_global.
        destruct (glines pol pat s) as [|ln lines].
        * destruct el as [e|]; [|reflexivity]. fold (flatten e).
          rewrite (IHn e); [reflexivity|unfold clsize; lia|now apply settled_desc].
        * apply (gfold_ext _ _ Ht (ln :: lines)). assumption.
  Qed.

  Theorem seq_flatten l s : Settled s -> seq (flatten l) s = seq l s.
  Proof. apply (seq_flatten_n (clsize l)). lia. Qed.
End ExecProofs.
