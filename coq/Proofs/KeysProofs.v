(** Key reading: UTF-8 reassembly, aliases vs raw bytes, literal '<'. *)
From Vicut Require Import Base.Prelude Model.Keys.
From Coq Require Import ZArith Lia ZifyBool ZifyN.
Ltac Zify.zify_post_hook ::= Z.div_mod_to_equations.

Arguments N.add : simpl never.
Arguments N.sub : simpl never.
Arguments N.mul : simpl never.
Arguments N.div : simpl never.
Arguments N.modulo : simpl never.
Arguments N.ltb : simpl never.
Arguments N.leb : simpl never.
Arguments N.eqb : simpl never.

Lemma utf8_first_char c rest :
  scalar c = true ->
  utf8_first (utf8_char c ++ rest) = Some (c, length (utf8_char c)).
Proof.
  intros Hs. unfold scalar in Hs. unfold utf8_char.
  destruct (c <? 128) eqn:H1.
  - cbn [app utf8_first length]. now rewrite H1.
  - destruct (c <? 2048) eqn:H2.
    + cbn [app utf8_first length].
      assert (E0 : (192 + c / 64 <? 128) = false) by lia. rewrite E0.
      assert (E1 : ((194 <=? 192 + c / 64) && (192 + c / 64 <=? 223)) = true) by lia. rewrite E1.
      assert (E2 : cont (128 + c mod 64) = true) by (unfold cont; lia). rewrite E2.
      do 2 f_equal. lia.
    + destruct (c <? 65536) eqn:H3.
      * cbn [app utf8_first length].
        assert (E0 : (224 + c / 4096 <? 128) = false) by lia. rewrite E0.
        assert (E1 : ((194 <=? 224 + c / 4096) && (224 + c / 4096 <=? 223)) = false) by lia. rewrite E1.
        assert (E2 : ((224 <=? 224 + c / 4096) && (224 + c / 4096 <=? 239)) = true) by lia. rewrite E2.
        assert (E3 : cont (128 + (c / 64) mod 64) = true) by (unfold cont; lia).
        assert (E4 : cont (128 + c mod 64) = true) by (unfold cont; lia).
        rewrite E3, E4. cbn [andb].
        assert (E5 : negb ((224 + c / 4096 =? 224) && (128 + (c / 64) mod 64 <? 160)) = true) by lia.
        assert (E6 : negb ((224 + c / 4096 =? 237) && (160 <=? 128 + (c / 64) mod 64)) = true) by lia.
        rewrite E5, E6. cbn [andb]. do 2 f_equal. lia.
      * cbn [app utf8_first length].
        assert (E0 : (240 + c / 262144 <? 128) = false) by lia. rewrite E0.
        assert (E1 : ((194 <=? 240 + c / 262144) && (240 + c / 262144 <=? 223)) = false) by lia. rewrite E1.
        assert (E2 : ((224 <=? 240 + c / 262144) && (240 + c / 262144 <=? 239)) = false) by lia. rewrite E2.
        assert (E2' : ((240 <=? 240 + c / 262144) && (240 + c / 262144 <=? 244)) = true) by lia. rewrite E2'.
        assert (E3 : cont (128 + (c / 4096) mod 64) = true) by (unfold cont; lia).
        assert (E4 : cont (128 + (c / 64) mod 64) = true) by (unfold cont; lia).
        assert (E4' : cont (128 + c mod 64) = true) by (unfold cont; lia).
        rewrite E3, E4, E4'. cbn [andb].
        assert (E5 : negb ((240 + c / 262144 =? 240) && (128 + (c / 4096) mod 64 <? 144)) = true) by lia.
        assert (E6 : negb ((240 + c / 262144 =? 244) && (144 <=? 128 + (c / 4096) mod 64)) = true) by lia.
        rewrite E5, E6. cbn [andb]. do 2 f_equal. lia.
Qed.

(** ** Tokens: special keys (in alias or raw notation) and ordinary characters. *)
Inductive skey := SEsc | SCR | SEnter | SBS | SDel | SCw | SCv | SCr
                | SLeft | SRight | SUp | SDown | SHome | SEnd.

Definition alias_bytes (k : skey) : list N :=
  match k with
  | SEsc => T "<esc>" | SCR => T "<CR>" | SEnter => T "<enter>" | SBS => T "<BS>"
  | SDel => T "<del>" | SCw => T "<c-w>" | SCv => T "<c-v>" | SCr => T "<c-r>"
  | SLeft => T "<left>" | SRight => T "<right>" | SUp => T "<up>" | SDown => T "<down>"
  | SHome => T "<home>" | SEnd => T "<end>"
  end.
Definition raw_bytes (k : skey) : list N :=
  match k with
  | SEsc => [27] | SCR => [13] | SEnter => [13] | SBS => [127]
  | SDel => [27; 91; 51; 126] | SCw => [23] | SCv => [22] | SCr => [18]
  | SLeft => [27; 91; 68] | SRight => [27; 91; 67] | SUp => [27; 91; 65] | SDown => [27; 91; 66]
  | SHome => [27; 91; 49; 126] | SEnd => [27; 91; 52; 126]
  end.
Definition skey_key (k : skey) : key :=
  match k with
  | SEsc => (KEsc, 0) | SCR => (KEnter, 0) | SEnter => (KEnter, 0) | SBS => (KBackspace, 0)
  | SDel => (KDelete, 0) | SCw => (KChar 87, 8) | SCv => (KChar 86, 8) | SCr => (KChar 82, 8)
  | SLeft => (KLeft, 0) | SRight => (KRight, 0) | SUp => (KUp, 0) | SDown => (KDown, 0)
  | SHome => (KHome, 0) | SEnd => (KEnd, 0)
  end.

Inductive tok := TKey (alias : bool) (k : skey) | TChar (c : N).

Definition tok_bytes (t : tok) : list N :=
  match t with
  | TKey true k => alias_bytes k
  | TKey false k => raw_bytes k
  | TChar c => utf8_char c
  end.
Definition tok_key (t : tok) : key :=
  match t with TKey _ k => skey_key k | TChar c => key_of_char c end.
Definition render_toks (l : list tok) : list N := flat_map tok_bytes l.

(** an ordinary character: a scalar value other than '<', '\' and ESC *)
Definition plainc (c : N) : bool :=
  scalar c && negb (c =? 60) && negb (c =? 92) && negb (c =? 27).

(** a raw ESC must not be followed by '[' or 'O' (those bytes are an escape
    sequence by definition) *)
Fixpoint esc_ok (l : list tok) : bool :=
  match l with
  | TKey false SEsc :: ((TChar c :: _) as l') => negb ((c =? 91) || (c =? 79)) && esc_ok l'
  | _ :: l' => esc_ok l'
  | [] => true
  end.
Definition toks_ok (l : list tok) : bool :=
  forallb (fun t => match t with TChar c => plainc c | _ => true end) l && esc_ok l.

Lemma alias_step k R e :
  e = false -> read_key (mkReader (alias_bytes k ++ R) e) = (Some (skey_key k), mkReader R false).
Proof. intros ->. destruct k; reflexivity. Qed.

Lemma raw_step k R :
  (k = SEsc -> match R with x :: _ => ((x =? 91) || (x =? 79)) = false | [] => True end) ->
  read_key (mkReader (raw_bytes k ++ R) false) = (Some (skey_key k), mkReader R false).
Proof.
  intros H. destruct k; try reflexivity.
  specialize (H eq_refl). destruct R as [|x R]; [reflexivity|].
  cbn [raw_bytes app]. unfold read_key. cbn [r_bytes r_esc read_key_loop].
  change (27 =? 60) with false. change (27 =? 92) with false. change (27 =? 27) with true.
  cbn [andb negb is_nil_N]. rewrite H. reflexivity.
Qed.

Lemma skipn_app_len {A} (l R : list A) : skipn (length l) (l ++ R) = R.
Proof. induction l; cbn; auto. Qed.

Lemma utf8_char_head c : scalar c = true ->
  exists b tl, utf8_char c = b :: tl /\ (c <? 128 = true -> b = c /\ tl = [])
               /\ (c <? 128 = false -> 192 <= b /\ tl <> []).
Proof.
  intros Hs. unfold utf8_char.
  destruct (c <? 128) eqn:H1; [eexists _, _; repeat split; congruence|].
  destruct (c <? 2048) eqn:H2; [eexists _, _; split; [reflexivity|]; split; [congruence|]; intros _; split; [lia|discriminate]|].
  destruct (c <? 65536) eqn:H3; eexists _, _; (split; [reflexivity|]; split; [congruence|]; intros _; split; [lia|discriminate]).
Qed.

Ltac bfact e v := let H := fresh in assert (H : e = v) by lia; rewrite H; clear H.
Ltac decide_bools :=
  repeat match goal with
  | |- context [negb (andb ?a ?b)] => first [ bfact (negb (andb a b)) true | bfact (negb (andb a b)) false ]
  | |- context [andb ?a ?b] => first [ bfact (andb a b) true | bfact (andb a b) false ]
  | |- context [N.eqb ?a ?b] => first [ bfact (N.eqb a b) true | bfact (N.eqb a b) false ]
  | |- context [N.ltb ?a ?b] => first [ bfact (N.ltb a b) true | bfact (N.ltb a b) false ]
  | |- context [N.leb ?a ?b] => first [ bfact (N.leb a b) true | bfact (N.leb a b) false ]
  end.
Ltac crunch :=
  repeat (progress (cbn [read_key_loop app is_nil_N andb orb negb length Nat.eqb utf8_first]; unfold cont; decide_bools)).

Lemma char_step c R :
  plainc c = true ->
  read_key (mkReader (utf8_char c ++ R) false) = (Some (key_of_char c), mkReader R false).
Proof.
  intros Hp. unfold plainc in Hp.
  apply andb_prop in Hp as [Hp H27]. apply andb_prop in Hp as [Hp H92]. apply andb_prop in Hp as [Hs H60].
  apply negb_true_iff in H27, H92, H60. unfold scalar in Hs.
  unfold read_key. cbn [r_bytes r_esc]. unfold utf8_char.
  destruct (c <? 128) eqn:H1; [|destruct (c <? 2048) eqn:H2; [|destruct (c <? 65536) eqn:H3]];
    crunch.
  all: try reflexivity.
  all: do 2 f_equal; f_equal; lia.
Qed.

Lemma esc_ok_tail t l : esc_ok (t :: l) = true -> esc_ok l = true.
Proof.
  destruct t as [[|] k|c]; try (cbn; tauto).
  destruct k; cbn [esc_ok]; try tauto.
  destruct l as [|[a k'|c'] l]; try tauto. intros H. now apply andb_prop in H as [_ H].
Qed.

(** Every key string built from special keys - each independently written as
    alias or as raw bytes - and ordinary characters (multi-byte included) is read
    to its end: one key per token, in order, nothing left in the queue. The
    result does not depend on the notation chosen. *)
Theorem read_tokens l : forall fuel,
  toks_ok l = true -> (length l < fuel)%nat ->
  read_keys fuel (mkReader (render_toks l) false) = (map tok_key l, mkReader [] false).
Proof.
  induction l as [|t l IH]; intros fuel Hok Hf.
  - destruct fuel; [lia|]. reflexivity.
  - destruct fuel as [|fuel]; [lia|]. cbn [length] in Hf.
    unfold toks_ok in Hok. apply andb_prop in Hok as [Hpl Hesc].
    cbn [forallb] in Hpl. apply andb_prop in Hpl as [Ht Hpl].
    assert (Hok' : toks_ok l = true).
    { unfold toks_ok. rewrite Hpl. cbn [andb]. eapply esc_ok_tail; eassumption. }
    cbn [render_toks flat_map read_keys map].
    assert (Hstep : read_key (mkReader (tok_bytes t ++ render_toks l) false)
                    = (Some (tok_key t), mkReader (render_toks l) false)).
    { destruct t as [[|] k|c]; cbn [tok_bytes tok_key].
      - now apply alias_step.
      - apply raw_step. intros ->.
        destruct l as [|t' l']; [exact I|].
        destruct t' as [[|] k'|c']; cbn [render_toks flat_map tok_bytes].
        + destruct k'; reflexivity.
        + destruct k'; reflexivity.
        + cbn [esc_ok] in Hesc. apply andb_prop in Hesc as [Hc' _]. apply negb_true_iff in Hc'.
          cbn [forallb] in Hpl. apply andb_prop in Hpl as [Hp' _].
          unfold plainc in Hp'. apply andb_prop in Hp' as [Hp' _]. apply andb_prop in Hp' as [Hp' _].
          apply andb_prop in Hp' as [Hs' _].
          destruct (utf8_char_head c' Hs') as (b & tl & Hc & Hlo & Hhi). rewrite Hc. cbn [app].
          destruct (c' <? 128) eqn:E.
          * destruct (Hlo eq_refl) as [-> _]. exact Hc'.
          * destruct (Hhi eq_refl). lia.
      - now apply char_step. }
    fold (render_toks l). rewrite Hstep. rewrite (IH fuel Hok') by lia. reflexivity.
Qed.

(** "\<" is taken literally: the backslash and the '<' are both delivered,
    whatever follows - even the body of an alias *)
Theorem escaped_lt R :
  exists r1 r2,
    read_key (mkReader (92 :: 60 :: R) false) = (Some (KChar 92, 0), r1) /\
    read_key r1 = (Some (KChar 60, 0), r2) /\ r_bytes r2 = R /\ r_esc r2 = false.
Proof. eexists _, _. repeat split. Qed.

(** '<' that does not start an alias is taken literally and reading goes on
    right after it *)
Theorem nonalias_lt R e :
  parse_byte_alias R = None ->
  read_key (mkReader (60 :: R) e) = (Some (KChar 60, 0), mkReader R false).
Proof.
  intros H. unfold read_key. cbn [r_bytes r_esc read_key_loop]. rewrite H.
  destruct (negb e); reflexivity.
Qed.
