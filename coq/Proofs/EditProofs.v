(** Edits are local and conserve text. *)
From Vicut Require Import Base.Prelude Model.Text Model.Edit Proofs.TextProofs.
From Coq Require Import ZifyBool ZifyN Lia.

(** delete: before = pre ++ mid ++ post, after = pre ++ post, register = mid *)
Theorem delete_local cl s e :
  (s <= e)%nat -> (e <= length cl)%nat ->
  let '(rest, reg) := delete_range cl s e in
  exists pre mid post,
    concat cl = pre ++ mid ++ post /\ concat rest = pre ++ post /\ reg = RSpan mid
    /\ pre = concat (firstn s cl) /\ post = concat (skipn e cl).
Proof.
  intros Hse He. cbn. exists (concat (firstn s cl)), (concat (sub_clusters cl s e)), (concat (skipn e cl)).
  repeat split.
  - now apply slice_fresh_contiguous.
  - now rewrite concat_app.
Qed.

Theorem delete_lines_local cl s e :
  (s <= e)%nat -> (e <= length cl)%nat ->
  let '(rest, reg) := delete_lines cl s e in
  exists pre mid post,
    concat cl = pre ++ mid ++ post /\ concat rest = pre ++ post /\ reg = RLine (with_newline mid).
Proof.
  intros Hse He. cbn. exists (concat (firstn s cl)), (concat (sub_clusters cl s e)), (concat (skipn e cl)).
  repeat split; [now apply slice_fresh_contiguous|now rewrite concat_app].
Qed.

(** the line break a linewise register carries is the text's own, except for the unterminated last line *)
Lemma with_newline_spec t :
  with_newline t = t \/ (with_newline t = t ++ [10] /\ t <> [] /\ forall t', t <> t' ++ [10]).
Proof.
  unfold with_newline. destruct (rev t) as [|c r] eqn:E.
  { left. apply (f_equal (@rev _)) in E. rewrite rev_involutive in E. now subst. }
  destruct (N.eqb_spec c 10) as [->|Hne]; [now left|]. right. split; [reflexivity|]. split.
  - intros ->. discriminate.
  - intros t' ->. rewrite rev_app_distr in E. cbn in E. injection E as E1 _. congruence.
Qed.

(** yank: the text is untouched, the register holds exactly the covered span *)
Theorem yank_local cl s e :
  (s <= e)%nat -> (e <= length cl)%nat ->
  let '(rest, reg) := yank_range cl s e in
  rest = cl /\ exists pre mid post, concat cl = pre ++ mid ++ post /\ reg = RSpan mid.
Proof.
  intros Hse He. cbn. split; [reflexivity|].
  exists (concat (firstn s cl)), (concat (sub_clusters cl s e)), (concat (skipn e cl)).
  split; [now apply slice_fresh_contiguous|reflexivity].
Qed.

(** yank and delete over the same range put the same text into the register *)
Theorem yank_eq_delete cl s e : snd (yank_range cl s e) = snd (delete_range cl s e).
Proof. reflexivity. Qed.

(** put: exactly the register's text is inserted, everything else is preserved *)
Theorem put_local cl i pieces :
  concat (insert_span cl i pieces) = concat (firstn i cl) ++ concat pieces ++ concat (skipn i cl)
  /\ concat cl = concat (firstn i cl) ++ concat (skipn i cl).
Proof.
  unfold insert_span. rewrite !concat_app. split; [reflexivity|].
  now rewrite <- concat_app, firstn_skipn.
Qed.

(** delete followed by put at the same place restores the text *)
Theorem delete_put_inverse cl s e :
  (s <= e)%nat -> (e <= length cl)%nat ->
  concat (insert_span (fst (drain cl s e)) s (sub_clusters cl s e)) = concat cl.
Proof.
  intros Hse He. cbn [drain fst]. unfold insert_span.
  assert (Hl : length (firstn s cl) = s) by (apply firstn_length_le; lia).
  rewrite firstn_app, Hl, Nat.sub_diag, firstn_O, app_nil_r.
  rewrite (firstn_all2 (firstn s cl)) by lia.
  rewrite skipn_app, Hl, Nat.sub_diag. cbn [skipn].
  rewrite (skipn_all2 (firstn s cl)) by lia. cbn [app].
  rewrite !concat_app. symmetry. now apply slice_fresh_contiguous.
Qed.

(** upper-case registers append, lower-case ones overwrite *)
Theorem append_spans a b : reg_store true (RSpan a) (RSpan b) = RSpan (a ++ b).
Proof. reflexivity. Qed.
Theorem overwrite a new : reg_store false a new = new.
Proof. reflexivity. Qed.

(** case verbs: cluster count preserved, everything outside [s, e) preserved
    cluster by cluster, inside only one-character clusters change *)
Lemma sub_clusters_length cl s e : (s <= e)%nat -> (e <= length cl)%nat ->
  length (sub_clusters cl s e) = (e - s)%nat.
Proof. intros. unfold sub_clusters. rewrite firstn_length, skipn_length. lia. Qed.

Theorem case_preserves_shape f cl s e :
  (s <= e)%nat -> (e <= length cl)%nat ->
  let cl' := case_range f cl s e in
  length cl' = length cl
  /\ firstn s cl' = firstn s cl /\ skipn e cl' = skipn e cl
  /\ Forall2 (fun c c' => c' = map_cluster f c) (sub_clusters cl s e) (sub_clusters cl' s e).
Proof.
  intros Hse He. cbn zeta. unfold case_range.
  assert (Hl : length (firstn s cl) = s) by (apply firstn_length_le; lia).
  assert (Hm : length (map (map_cluster f) (sub_clusters cl s e)) = (e - s)%nat)
    by (rewrite map_length; now apply sub_clusters_length).
  split; [|split; [|split]].
  - rewrite !app_length, Hl, Hm, skipn_length. lia.
  - rewrite firstn_app, Hl, Nat.sub_diag, firstn_O, app_nil_r. apply firstn_all2. lia.
  - rewrite skipn_app, Hl. rewrite (skipn_all2 (firstn s cl)) by lia. cbn [app].
    rewrite skipn_app, Hm. replace (e - s - (e - s))%nat with 0%nat by lia.
    rewrite (skipn_all2 (map _ _)) by lia. reflexivity.
  - unfold sub_clusters at 2.
    rewrite skipn_app, Hl, (skipn_all2 (firstn s cl)), Nat.sub_diag by lia. cbn [app skipn].
    rewrite firstn_app, Hm, Nat.sub_diag, firstn_O, app_nil_r.
    rewrite firstn_all2 by lia.
    clear Hm. induction (sub_clusters cl s e); cbn; constructor; auto.
Qed.

(** the case maps only ever change ASCII letters, into ASCII letters *)
Lemma toggle_only_letters c : toggle_char c <> c -> (is_lower c || is_upper c) = true.
Proof. unfold toggle_char. destruct (is_lower c), (is_upper c); cbn; congruence. Qed.
Lemma toggle_involutive c : toggle_char (toggle_char c) = c.
Proof.
  unfold toggle_char, is_lower, is_upper.
  destruct ((97 <=? c) && (c <=? 122)) eqn:E1.
  - assert (H : (97 <=? c - 32) && (c - 32 <=? 122) = false) by lia. rewrite H.
    assert (H2 : (65 <=? c - 32) && (c - 32 <=? 90) = true) by lia. rewrite H2. lia.
  - destruct ((65 <=? c) && (c <=? 90)) eqn:E2.
    + assert (H : (97 <=? c + 32) && (c + 32 <=? 122) = true) by lia. rewrite H. lia.
    + now rewrite E1, E2.
Qed.
