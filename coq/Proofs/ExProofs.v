(** The ex reference semantics changes exactly the addressed lines. *)
From Vicut Require Import Base.Prelude Model.Regex Model.Ex.

(** ** text <-> lines *)
Definition nl_free (l : text) : Prop := ~ In 10 l.

Lemma split_aux_line l : forall cur rest, nl_free l ->
  split_lines_aux cur (l ++ 10 :: rest) = (cur ++ l) :: split_lines_aux [] rest.
Proof.
  induction l as [|c l IH]; intros cur rest Hf; cbn [app split_lines_aux].
  - rewrite N.eqb_refl, app_nil_r. reflexivity.
  - destruct (N.eqb_spec c 10) as [->|Hne]; [exfalso; apply Hf; now left|].
    rewrite IH by (intros H; apply Hf; now right). now rewrite <- app_assoc.
Qed.

(** every list of newline-free lines is what its text splits into *)
Theorem split_join ls : Forall nl_free ls -> split_lines (join_lines ls) = ls.
Proof.
  unfold split_lines. induction ls as [|l ls IH]; intros HF; [reflexivity|].
  inversion HF as [|? ? Hl HF']; subst. cbn [join_lines flat_map]. rewrite <- app_assoc. cbn [app].
  rewrite split_aux_line by assumption. cbn [app]. f_equal. apply IH; assumption.
Qed.

(** an unterminated last line is a line too *)
Theorem split_join_unterminated ls l :
  Forall nl_free ls -> nl_free l -> l <> [] -> split_lines (join_lines ls ++ l) = ls ++ [l].
Proof.
  unfold split_lines. induction ls as [|l0 ls IH]; intros HF Hl Hne.
  - cbn [join_lines flat_map app].
    assert (G : forall cur, split_lines_aux cur l = match cur ++ l with [] => [] | x => [x] end).
    { clear Hne. induction l as [|c l IHl]; intros cur; cbn [split_lines_aux].
      - rewrite app_nil_r. destruct cur; reflexivity.
      - destruct (N.eqb_spec c 10) as [->|_]; [exfalso; apply Hl; now left|].
        rewrite IHl by (intros H; apply Hl; now right). now rewrite <- app_assoc. }
    rewrite G. cbn [app]. destruct l; [congruence|reflexivity].
  - inversion HF as [|? ? Hl0 HF']; subst. cbn [join_lines flat_map]. rewrite <- !app_assoc. cbn [app].
    rewrite split_aux_line by assumption. cbn [app]. f_equal. now apply IH.
Qed.

(** ** ranges *)
Lemma fix0_pos n : (1 <= fix0 n)%nat.
Proof. destruct n; cbn; lia. Qed.

Lemma valid_range_bounds s a b lo hi :
  valid_range s a b = Some (lo, hi) -> (1 <= lo /\ lo <= hi /\ hi <= nlines s)%nat.
Proof.
  unfold valid_range. pose proof (fix0_pos a) as Pa. pose proof (fix0_pos b) as Pb.
  generalize dependent (fix0 a). generalize dependent (fix0 b). intros fb Pb fa Pa H.
  destruct (Nat.leb_spec fa fb) as [L|L].
  - destruct (Nat.leb_spec fb (nlines s)) as [L2|L2]; [|discriminate]. injection H as <- <-. lia.
  - destruct (Nat.leb_spec fa (nlines s)) as [L2|L2]; [|discriminate]. injection H as <- <-. lia.
Qed.

Theorem resolve_bounds s r d lo hi :
  resolve s r d = Some (lo, hi) -> (1 <= lo /\ lo <= hi /\ hi <= nlines s)%nat.
Proof.
  destruct r as [|a|a b|]; cbn [resolve]; intros H.
  - destruct d; eapply valid_range_bounds; eassumption.
  - destruct (eval_addr s a); [|discriminate]. eapply valid_range_bounds; eassumption.
  - destruct (eval_addr s a), (eval_addr s b); try discriminate. eapply valid_range_bounds; eassumption.
  - eapply valid_range_bounds; eassumption.
Qed.

(** a backwards range is the same range *)
Theorem resolve_swap s a b d : resolve s (RTwo a b) d = resolve s (RTwo b a) d.
Proof.
  cbn [resolve]. destruct (eval_addr s a) as [n|], (eval_addr s b) as [m|]; try reflexivity.
  unfold valid_range.
  destruct (Nat.leb_spec (fix0 n) (fix0 m)), (Nat.leb_spec (fix0 m) (fix0 n)); try reflexivity; try lia.
  replace (fix0 m) with (fix0 n) by lia. reflexivity.
Qed.

Lemma skipn_skipn {A} (n : nat) : forall (m : nat) (l : list A), skipn n (skipn m l) = skipn (m + n) l.
Proof.
  intros m; induction m as [|m IH]; intros l; [reflexivity|].
  destruct l as [|x l]; [now rewrite !skipn_nil|]. cbn [Nat.add skipn]. apply IH.
Qed.

(** the three parts of a buffer around a range *)
Theorem parts ls lo hi : (1 <= lo)%nat -> (lo <= hi)%nat ->
  ls = before lo ls ++ within lo hi ls ++ after hi ls.
Proof.
  intros H1 H2. unfold before, within, after.
  rewrite <- (firstn_skipn (lo - 1) ls) at 1. f_equal.
  rewrite <- (firstn_skipn (hi - (lo - 1)) (skipn (lo - 1) ls)) at 1. f_equal.
  rewrite skipn_skipn. f_equal. lia.
Qed.

Lemma within_length ls lo hi : (1 <= lo)%nat -> (lo <= hi)%nat -> (hi <= length ls)%nat ->
  length (within lo hi ls) = (hi - lo + 1)%nat.
Proof. intros. unfold within. rewrite firstn_length, skipn_length. lia. Qed.

(** ** the commands *)
Theorem del_exact s r lo hi :
  resolve s r false = Some (lo, hi) ->
  e_lines (estep s (EDel r)) = before lo (e_lines s) ++ after hi (e_lines s)
  /\ e_reg (estep s (EDel r)) = within lo hi (e_lines s)
  /\ length (e_lines (estep s (EDel r))) = (nlines s - (hi - lo + 1))%nat.
Proof.
  intros H. pose proof (resolve_bounds _ _ _ _ _ H) as (B1 & B2 & B3).
  cbn [estep]. rewrite H. cbn [e_lines e_reg]. repeat split.
  unfold before, after, nlines in *. rewrite app_length, firstn_length, skipn_length. lia.
Qed.

Theorem invalid_noop s r :
  resolve s r false = None ->
  estep s (EDel r) = s /\ estep s (EYank r) = s
  /\ (forall re rep g, estep s (ESub r re rep g) = s) /\ (forall k, estep s (ENormal r k) = s).
Proof. intros H. cbn [estep]. rewrite H. repeat split. Qed.

Theorem invalid_global_noop s r neg re c :
  resolve s r true = None -> estep s (EGlobal neg r re c) = s.
Proof. intros H. cbn [estep]. now rewrite H. Qed.

Theorem yank_exact s r lo hi :
  resolve s r false = Some (lo, hi) ->
  e_lines (estep s (EYank r)) = e_lines s /\ e_reg (estep s (EYank r)) = within lo hi (e_lines s).
Proof. intros H. cbn [estep]. rewrite H. split; reflexivity. Qed.

Theorem sub_exact s r re rep g lo hi :
  resolve s r false = Some (lo, hi) ->
  e_lines (estep s (ESub r re rep g))
  = before lo (e_lines s) ++ map (subst_line re rep g) (within lo hi (e_lines s)) ++ after hi (e_lines s)
  /\ length (e_lines (estep s (ESub r re rep g))) = nlines s.
Proof.
  intros H. pose proof (resolve_bounds _ _ _ _ _ H) as (B1 & B2 & B3).
  cbn [estep]. rewrite H. cbn [e_lines]. split; [reflexivity|].
  unfold nlines. rewrite (parts (e_lines s) lo hi B1 B2) at 4.
  rewrite !app_length, map_length. reflexivity.
Qed.

(** [:g/pat/d] keeps exactly the lines of the range that do not match *)
Lemma map_sel_del sel ls : map_sel sel (fun _ => None) ls = filter (fun l => negb (sel l)) ls.
Proof. induction ls as [|l ls IH]; [reflexivity|]. cbn [map_sel filter]. destruct (sel l); cbn [negb]; now rewrite IH. Qed.

Theorem global_del_exact s r neg re lo hi :
  resolve s r true = Some (lo, hi) ->
  e_lines (estep s (EGlobal neg r re GDel))
  = before lo (e_lines s) ++ filter (fun l => negb (xorb neg (matches re l))) (within lo hi (e_lines s)) ++ after hi (e_lines s).
Proof.
  intros H. cbn [estep]. rewrite H. cbn [e_lines].
  change (apply_gcmd GDel) with (fun _ : text => @None text). now rewrite map_sel_del.
Qed.

(** [:g/pat/s] changes exactly the matching lines of the range *)
Lemma map_sel_some sel f ls :
  map_sel sel (fun l => Some (f l)) ls = map (fun l => if sel l then f l else l) ls.
Proof. induction ls as [|l ls IH]; [reflexivity|]. cbn [map_sel map]. destruct (sel l); now rewrite IH. Qed.

Theorem global_sub_exact s r neg re re2 rep g lo hi :
  resolve s r true = Some (lo, hi) ->
  e_lines (estep s (EGlobal neg r re (GSub re2 rep g)))
  = before lo (e_lines s)
    ++ map (fun l => if xorb neg (matches re l) then subst_line re2 rep g l else l) (within lo hi (e_lines s))
    ++ after hi (e_lines s).
Proof.
  intros H. cbn [estep]. rewrite H. cbn [e_lines].
  change (apply_gcmd (GSub re2 rep g)) with (fun l : text => Some (subst_line re2 rep g l)).
  now rewrite map_sel_some.
Qed.

(** yank then put: the yanked lines appear after line [k], nothing else moves *)
Theorem yank_put_exact s r lo hi k :
  resolve s r false = Some (lo, hi) -> (k <= nlines s)%nat ->
  e_lines (estep (estep s (EYank r)) (EPut (Some (ANum k))))
  = firstn k (e_lines s) ++ within lo hi (e_lines s) ++ skipn k (e_lines s).
Proof.
  intros H Hk. pose proof (resolve_bounds _ _ _ _ _ H) as (B1 & B2 & B3).
  cbn [estep]. rewrite H. cbn [eval_addr e_lines e_reg].
  pose proof (within_length (e_lines s) lo hi B1 B2 B3) as WL.
  destruct (within lo hi (e_lines s)) as [|w ws] eqn:E; [cbn in WL; lia|].
  unfold nlines in *. cbn [e_lines].
  destruct (Nat.leb_spec k (length (e_lines s))) as [_|L]; [reflexivity|lia].
Qed.

(** ** the matcher: the first match is the leftmost one *)
Definition here_at (re : regex) (at0 : bool) (k : nat) (t : text) : option nat :=
  if re_bol re && negb (at0 && Nat.eqb k 0) then None else mhere (re_items re) (re_eol re) (skipn k t).

Theorem find_leftmost re : forall t at0 s n,
  find_from re at0 t = Some (s, n) ->
  here_at re at0 s t = Some n /\ forall k, (k < s)%nat -> here_at re at0 k t = None.
Proof.
  induction t as [|c t IH]; intros at0 s n H.
  - cbn [find_from] in H.
    destruct (if re_bol re && negb at0 then None else mhere (re_items re) (re_eol re) []) as [m|] eqn:E; [|discriminate].
    injection H as <- <-. split; [|intros k Hk; lia].
    unfold here_at. cbn [Nat.eqb skipn]. rewrite andb_true_r. exact E.
  - cbn [find_from] in H.
    destruct (if re_bol re && negb at0 then None else mhere (re_items re) (re_eol re) (c :: t)) as [m|] eqn:E.
    + injection H as <- <-. split; [|intros k Hk; lia].
      unfold here_at. cbn [Nat.eqb skipn]. rewrite andb_true_r. exact E.
    + destruct (find_from re false t) as [[s' n']|] eqn:F; [|discriminate].
      injection H as <- <-. destruct (IH _ _ _ F) as [A B]. split.
      * unfold here_at in *. cbn [Nat.eqb skipn andb negb] in *. rewrite andb_false_r. cbn [negb]. exact A.
      * intros k Hk. destruct k as [|k].
        -- unfold here_at. cbn [Nat.eqb skipn]. rewrite andb_true_r. exact E.
        -- specialize (B k ltac:(lia)). unfold here_at in *. cbn [Nat.eqb skipn andb negb] in *.
           rewrite andb_false_r. cbn [negb]. exact B.
Qed.

Theorem subst_first_spec re rep l :
  match find re l with
  | Some (s, n) => subst_first re rep l = firstn s l ++ rep ++ skipn (s + n) l
                   /\ l = firstn s l ++ firstn n (skipn s l) ++ skipn (s + n) l
  | None => subst_first re rep l = l
  end.
Proof.
  unfold subst_first. destruct (find re l) as [[s n]|]; [|reflexivity]. split; [reflexivity|].
  rewrite <- (skipn_skipn n s l), (firstn_skipn n (skipn s l)). symmetry. apply firstn_skipn.
Qed.

Theorem no_match_unchanged re rep g l : matches re l = false -> subst_line re rep g l = l.
Proof.
  unfold matches, subst_line, subst_first, subst_all, find. intros H.
  destruct (find_from re true l) as [[s n]|] eqn:E; [discriminate|].
  destruct g; [|reflexivity]. cbn [subst_all_from]. now rewrite E.
Qed.
