(** Dot repeats the last change exactly. *)
From Vicut Require Import Base.Prelude Model.Dot.

Section DotProofs.
  Variable lb vicmd : Type.
  Variable lb_exec : vicmd -> lb -> lb.
  Variable repeatable : vicmd -> bool.
  Variable with_count : nat -> vicmd -> vicmd.

  Notation do_cmd := (do_cmd lb vicmd lb_exec repeatable).
  Notation do_dot := (do_dot lb vicmd lb_exec with_count).
  Notation vstate := (vstate lb vicmd).

  Definition run_cmds (cs : list vicmd) (s : vstate) : vstate := fold_left (fun s c => do_cmd c s) cs s.

  (** motions, yanks and failed commands are not repeatable: they leave the
      stored change alone *)
  Lemma between_keeps_repeat cs : forall s,
    forallb (fun c => negb (repeatable c)) cs = true ->
    v_repeat lb vicmd (run_cmds cs s) = v_repeat lb vicmd s.
  Proof.
    induction cs as [|c cs IH]; intros s H; [reflexivity|].
    cbn [forallb] in H. apply andb_prop in H as [Hc H]. apply negb_true_iff in Hc.
    cbn [run_cmds fold_left]. fold (run_cmds cs (do_cmd c s)). rewrite IH by assumption.
    unfold Dot.do_cmd. cbn [v_repeat]. now rewrite Hc.
  Qed.

  Lemma between_lb cs : forall s,
    v_lb lb vicmd (run_cmds cs s) = fold_left (fun l c => lb_exec c l) cs (v_lb lb vicmd s).
  Proof. induction cs as [|c cs IH]; intros s; [reflexivity|]. cbn [run_cmds fold_left]. apply IH. Qed.

  (** [X between .] = [X between X]: the line buffer (text, cursor, registers)
      is the same whether '.' is pressed or X typed again *)
  Theorem dot_is_retyping (X : vicmd) (between : list vicmd) (s : vstate) :
    repeatable X = true ->
    forallb (fun c => negb (repeatable c)) between = true ->
    v_lb lb vicmd (do_dot 1 (run_cmds between (do_cmd X s)))
    = v_lb lb vicmd (do_cmd X (run_cmds between (do_cmd X s))).
  Proof.
    intros HX Hb. unfold Dot.do_dot. rewrite between_keeps_repeat by assumption.
    assert (R : v_repeat lb vicmd (do_cmd X s) = Some (RSingle vicmd X)).
    { unfold Dot.do_cmd. cbn [v_repeat]. now rewrite HX. }
    rewrite R. reflexivity.
  Qed.

  Lemma dot_eq_cmd (X : vicmd) (t : vstate) :
    repeatable X = true -> v_repeat lb vicmd t = Some (RSingle vicmd X) -> do_dot 1 t = do_cmd X t.
  Proof.
    intros HX R. unfold Dot.do_dot, Dot.do_cmd. rewrite R, HX. reflexivity.
  Qed.

  (** and '.' leaves itself repeatable: chains X . . . = X X X X *)
  Theorem dot_chain (X : vicmd) (k : nat) (s : vstate) :
    repeatable X = true ->
    v_lb lb vicmd (Nat.iter k (do_dot 1) (do_cmd X s))
    = v_lb lb vicmd (Nat.iter k (do_cmd X) (do_cmd X s)).
  Proof.
    intros HX.
    assert (G : forall k, Nat.iter k (do_dot 1) (do_cmd X s) = Nat.iter k (do_cmd X) (do_cmd X s)).
    { induction k0 as [|k0 IH]; [reflexivity|].
      change (do_dot 1 (Nat.iter k0 (do_dot 1) (do_cmd X s)) = do_cmd X (Nat.iter k0 (do_cmd X) (do_cmd X s))).
      rewrite IH.
      assert (R : v_repeat lb vicmd (Nat.iter k0 (do_cmd X) (do_cmd X s)) = Some (RSingle vicmd X)).
      { clear IH. destruct k0 as [|k1]; cbn [Nat.iter]; unfold Dot.do_cmd; cbn [v_repeat]; now rewrite HX. }
      now apply dot_eq_cmd. }
    now rewrite G.
  Qed.

  (** a count on '.' acts as the stored command with that count *)
  Theorem dot_count (X : vicmd) (n : nat) (s : vstate) :
    repeatable X = true -> (1 < n)%nat ->
    v_lb lb vicmd (do_dot n (do_cmd X s)) = lb_exec (with_count n X) (lb_exec X (v_lb lb vicmd s)).
  Proof.
    intros HX Hn. unfold Dot.do_dot, Dot.do_cmd. cbn [v_repeat v_lb]. rewrite HX.
    destruct (Nat.ltb_spec 1 n); [reflexivity|lia].
  Qed.

  (** nothing to repeat: '.' does nothing *)
  Theorem dot_without_change (n : nat) (l : lb) :
    do_dot n (mkV lb vicmd l None) = mkV lb vicmd l None.
  Proof. reflexivity. Qed.
End DotProofs.
