(** Model of src/reader.rs ([RawReader]) and [KeyEvent::new] (src/keys.rs):
    the bytes of a key string become key events. *)
From Vicut Require Import Base.Prelude.

Inductive keycode :=
| KChar (c : N) | KBackspace | KBackTab | KDelete | KDown | KEnd | KEnter | KEsc
| KF (n : N) | KHome | KInsert | KLeft | KNull | KPageDown | KPageUp | KRight | KTab | KUp.

(** modifier bits as in [ModKeys]: CTRL = 8, ALT = 4, SHIFT = 2 *)
Definition M_NONE : N := 0.
Definition M_CTRL : N := 8.
Definition M_ALT : N := 4.
Definition M_SHIFT : N := 2.
Definition key := (keycode * N)%type.

(** ** UTF-8: the first scalar value of a byte list, as [str::from_utf8] accepts
    it (shortest form, no surrogates, at most U+10FFFF). Returns the scalar and
    its length in bytes. *)
Definition cont (b : N) : bool := (128 <=? b) && (b <=? 191).
Definition utf8_first (bs : list N) : option (N * nat) :=
  match bs with
  | [] => None
  | b0 :: r =>
    if b0 <? 128 then Some (b0, 1%nat)
    else if (194 <=? b0) && (b0 <=? 223) then
      match r with
      | b1 :: _ => if cont b1 then Some ((b0 - 192) * 64 + (b1 - 128), 2%nat) else None
      | _ => None
      end
    else if (224 <=? b0) && (b0 <=? 239) then
      match r with
      | b1 :: b2 :: _ =>
        if cont b1 && cont b2
           && negb ((b0 =? 224) && (b1 <? 160))       (* overlong *)
           && negb ((b0 =? 237) && (160 <=? b1))      (* surrogates *)
        then Some (((b0 - 224) * 64 + (b1 - 128)) * 64 + (b2 - 128), 3%nat) else None
      | _ => None
      end
    else if (240 <=? b0) && (b0 <=? 244) then
      match r with
      | b1 :: b2 :: b3 :: _ =>
        if cont b1 && cont b2 && cont b3
           && negb ((b0 =? 240) && (b1 <? 144))
           && negb ((b0 =? 244) && (144 <=? b1))
        then Some ((((b0 - 240) * 64 + (b1 - 128)) * 64 + (b2 - 128)) * 64 + (b3 - 128), 4%nat)
        else None
      | _ => None
      end
    else None
  end.

(** the encoder, for statements about round trips *)
Definition utf8_char (c : N) : list N :=
  if c <? 128 then [c]
  else if c <? 2048 then [192 + c / 64; 128 + c mod 64]
  else if c <? 65536 then [224 + c / 4096; 128 + (c / 64) mod 64; 128 + c mod 64]
  else [240 + c / 262144; 128 + (c / 4096) mod 64; 128 + (c / 64) mod 64; 128 + c mod 64].
Definition utf8 (t : text) : list N := flat_map utf8_char t.
Definition scalar (c : N) : bool := (c <? 55296) || ((57344 <=? c) && (c <? 1114112)).

(** ** [KeyEvent::new] on a one-character string. [char::is_control] is Cc. *)
Definition is_control (c : N) : bool := (c <? 32) || ((127 <=? c) && (c <=? 159)).

Definition key_of_char (c : N) : key :=
  if is_control c then
    if c =? 0 then (KChar 64, M_CTRL)
    else if (1 <=? c) && (c <=? 7) then (KChar (64 + c), M_CTRL)
    else if c =? 8 then (KBackspace, M_NONE)
    else if c =? 9 then (KTab, M_NONE)
    else if (10 <=? c) && (c <=? 12) then (KChar (64 + c), M_CTRL)
    else if c =? 13 then (KEnter, M_NONE)
    else if (14 <=? c) && (c <=? 26) then (KChar (64 + c), M_CTRL)
    else if c =? 27 then (KEsc, M_NONE)
    else if (28 <=? c) && (c <=? 31) then (KChar (64 + c), M_CTRL)
    else if c =? 127 then (KBackspace, M_NONE)
    else if c =? 155 then (KEsc, M_SHIFT)
    else (KNull, M_NONE)
  else (KChar c, M_NONE).

(** ** [parse_esc_seq]: after an ESC that is followed by '[' or 'O'. *)
Definition is_digit (b : N) : bool := (48 <=? b) && (b <=? 57).

(** digits collected after the first one, until '~', ';' or a non-digit (which
    is consumed as well) *)
Fixpoint esc_digits (bs : list N) (acc : list N) : list N * list N :=
  match bs with
  | [] => (acc, [])
  | b :: r =>
    if (b =? 126) || (b =? 59) then (acc, r)
    else if is_digit b then esc_digits r (acc ++ [b])
    else (acc, r)
  end.

Definition esc_key (digits : list N) : keycode :=
  match digits with
  | [49] => KHome | [51] => KDelete | [52] => KEnd | [53] => KPageUp | [54] => KPageDown
  | [55] => KHome | [56] => KEnd
  | [49; 53] => KF 5 | [49; 55] => KF 6 | [49; 56] => KF 7 | [49; 57] => KF 8
  | [50; 48] => KF 9 | [50; 49] => KF 10 | [50; 51] => KF 11 | [50; 52] => KF 12
  | _ => KEsc
  end.

(** [None]: the bytes ran out in the middle of the sequence *)
Definition parse_esc_seq (bs : list N) : option (key * list N) :=
  match bs with
  | [] => None
  | 91 :: r =>                                   (* '[' *)
    match r with
    | [] => None
    | b2 :: r2 =>
      if b2 =? 65 then Some ((KUp, M_NONE), r2)
      else if b2 =? 66 then Some ((KDown, M_NONE), r2)
      else if b2 =? 67 then Some ((KRight, M_NONE), r2)
      else if b2 =? 68 then Some ((KLeft, M_NONE), r2)
      else if (49 <=? b2) && (b2 <=? 57) then
        let '(ds, rest) := esc_digits r2 [b2] in Some ((esc_key ds, M_NONE), rest)
      else Some ((KEsc, M_NONE), r2)
    end
  | 79 :: r =>                                   (* 'O' *)
    match r with
    | [] => None
    | b2 :: r2 =>
      Some ((if b2 =? 80 then KF 1 else if b2 =? 81 then KF 2 else if b2 =? 82 then KF 3
             else if b2 =? 83 then KF 4 else KEsc, M_NONE), r2)
    end
  | _ :: r => Some ((KEsc, M_NONE), r)
  end.

(** ** [parse_byte_alias]: after a '<'. *)
(** the bytes up to the closing '>' and what follows it; [None]: no '>' *)
Fixpoint split_gt (bs : list N) (acc : list N) : option (list N * list N) :=
  match bs with
  | [] => None
  | b :: r => if b =? 62 then Some (acc, r) else split_gt r (acc ++ [b])
  end.

Fixpoint strip_mods (fuel : nat) (buf : list N) (mods : N) : list N * N :=
  match fuel with
  | O => (buf, mods)
  | S f =>
    match buf with
    | 99 :: 45 :: r => strip_mods f r (N.lor mods M_CTRL)
    | 115 :: 45 :: r => strip_mods f r (N.lor mods M_SHIFT)
    | 97 :: 45 :: r => strip_mods f r (N.lor mods M_ALT)
    | _ => (buf, mods)
    end
  end.

Definition is_ascii_alnum (b : N) : bool :=
  is_digit b || ((65 <=? b) && (b <=? 90)) || ((97 <=? b) && (b <=? 122)).
Definition to_upper (b : N) : N := if (97 <=? b) && (b <=? 122) then b - 32 else b.

Fixpoint digits_u8 (ds : list N) (acc : N) : option N :=
  match ds with
  | [] => if acc <? 256 then Some acc else None
  | d :: r => if is_digit d then
                let acc' := acc * 10 + (d - 48) in
                if acc' <? 256 then digits_u8 r acc' else None
              else None
  end.

Definition alias_key (buf : list N) (mods : N) : option key :=
  if text_eqb buf (T "esc") then Some (KEsc, mods)
  else if text_eqb buf (T "CR") then Some (KEnter, mods)
  else if text_eqb buf (T "return") || text_eqb buf (T "enter") then Some (KEnter, mods)
  else if text_eqb buf (T "tab") then Some (KChar 9, mods)
  else if text_eqb buf (T "BS") then Some (KBackspace, mods)
  else if text_eqb buf (T "del") then Some (KDelete, mods)
  else if text_eqb buf (T "ins") then Some (KInsert, mods)
  else if text_eqb buf (T "home") then Some (KHome, mods)
  else if text_eqb buf (T "end") then Some (KEnd, mods)
  else if text_eqb buf (T "left") then Some (KLeft, mods)
  else if text_eqb buf (T "right") then Some (KRight, mods)
  else if text_eqb buf (T "up") then Some (KUp, mods)
  else if text_eqb buf (T "down") then Some (KDown, mods)
  else if text_eqb buf (T "pgup") then Some (KPageUp, mods)
  else if text_eqb buf (T "pgdown") then Some (KPageDown, mods)
  else match buf with
       | [b] => if is_ascii_alnum b then Some (KChar (to_upper b), mods) else None
       | 102 :: (d :: _) as ds =>
         if forallb is_digit ds then
           match digits_u8 ds 0 with Some n => Some (KF n, mods) | None => None end
         else None
       | _ => None
       end.

Definition parse_byte_alias (bs : list N) : option (key * list N) :=
  match split_gt bs [] with
  | None => None
  | Some ([], _) => None
  | Some (buf, rest) =>
    let '(buf', mods) := strip_mods (length buf) buf M_NONE in
    match alias_key buf' mods with
    | Some k => Some (k, rest)
    | None => None
    end
  end.

(** ** [read_key]. The reader state is the byte queue and [is_escaped]. *)
Record reader := mkReader { r_bytes : list N; r_esc : bool }.

Definition is_nil_N (l : list N) : bool := match l with [] => true | _ => false end.

(** The loop of [read_key]: pop one byte at a time (at most four) until the
    collected bytes are one UTF-8 character. Every popped byte is first tested
    for an alias ('<' while not escaped) and updates the escape flag; an ESC as
    first byte followed by '[' or 'O' delegates to [parse_esc_seq]. *)
Fixpoint read_key_loop (fuel : nat) (collected : list N) (bytes : list N) (esc : bool)
  : option key * reader :=
  match fuel with
  | O => (None, mkReader bytes esc)
  | S f =>
    match bytes with
    | [] => (None, mkReader [] esc)
    | b :: rest =>
      let alias := if (b =? 60) && negb esc then parse_byte_alias rest else None in
      match alias with
      | Some (k, rest') => (Some k, mkReader rest' esc)
      | None =>
        let esc' := if b =? 92 then negb esc else false in
        let collected' := collected ++ [b] in
        if is_nil_N collected && (b =? 27)
           && match rest with x :: _ => (x =? 91) || (x =? 79) | [] => false end then
          match parse_esc_seq rest with
          | Some (k, rest') => (Some k, mkReader rest' esc')
          | None => (None, mkReader [] esc')
          end
        else
          match utf8_first collected' with
          | Some (c, n) =>
            if (n =? length collected')%nat then (Some (key_of_char c), mkReader rest esc')
            else read_key_loop f collected' rest esc'      (* cannot happen: kept for totality *)
          | None => read_key_loop f collected' rest esc'
          end
      end
    end
  end.

Definition read_key (r : reader) : option key * reader :=
  read_key_loop 4 [] (r_bytes r) (r_esc r).

(** every key of a byte string, until the reader gives up *)
Fixpoint read_keys (fuel : nat) (r : reader) : list key * reader :=
  match fuel with
  | O => ([], r)
  | S f =>
    match read_key r with
    | (Some k, r') => let '(ks, r'') := read_keys f r' in (k :: ks, r'')
    | (None, r') => ([], r')
    end
  end.
Definition keys_of (bs : list N) : list key * reader :=
  read_keys (S (length bs)) (mkReader bs false).

(** ** [ViCut::expand_literal] (src/exec.rs): what a [-m]/[-c] argument goes
    through before it reaches the reader. [vars] resolves [${{name}}]. *)
Section Expand.
  Variable vars : text -> option text.

  (** scanning a variable name until "}}" *)
  Fixpoint scan_var (t : text) (acc : text) : option (text * text) :=
    match t with
    | [] => None
    | 125 :: 125 :: r => Some (acc, r)
    | c :: r => scan_var r (acc ++ [c])
    end.

  Fixpoint expand_literal (fuel : nat) (t : text) : option text :=
    match fuel with
    | O => Some []
    | S f =>
      match t with
      | [] => Some []
      | 92 :: [] => Some []                                   (* a trailing backslash is dropped *)
      | 92 :: n :: r =>
        match expand_literal f r with
        | Some e => Some ((if (n =? 36) || (n =? 34) then [n] else [92; n]) ++ e)
        | None => None
        end
      | 36 :: 123 :: 123 :: r =>
        match scan_var r [] with
        | None => None                                         (* "Unmatched ${{" *)
        | Some (name, r') =>
          match expand_literal f r' with
          | Some e => Some ((match vars name with Some v => v | None => [] end) ++ e)
          | None => None
          end
        end
      | 36 :: a :: b :: r =>
        match expand_literal f r with Some e => Some (36 :: a :: b :: e) | None => None end
      | 36 :: r => Some (36 :: r)                              (* fewer than two characters left *)
      | c :: r =>
        match expand_literal f r with Some e => Some (c :: e) | None => None end
      end
    end.
End Expand.
