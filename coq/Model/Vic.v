(** A reference interpreter for the well-defined core of vic (property C17):
    let, integer arithmetic evaluated left to right, comparisons, && ||,
    if/elif/else, while/until, for over ranges, arrays and strings, push/pop,
    indexing, functions with parameters and return, block scoping with
    shadowing, string interpolation, echo.

    It says what the source means in the ordinary reading of such a language:
    a block opens a scope that ends with the block however it is left;
    [break]/[continue] leave/continue the innermost loop from any depth;
    [return] leaves the function from any depth. Recursion is on fuel; running
    out of fuel is its own outcome and is excluded by the theorems. *)
From Vicut Require Import Base.Prelude Model.Format.
From Coq Require Export ZArith.

Inductive val :=
| VNum (z : Z) | VStr (t : text) | VBool (b : bool) | VArr (l : list val) | VNull.

Definition show_Z (z : Z) : text :=
  match z with
  | Z0 => T "0"
  | Zpos p => show_N (Npos p)
  | Zneg p => 45 :: show_N (Npos p)
  end.

(** [Display for Val] *)
Fixpoint show (v : val) : text :=
  match v with
  | VNum z => show_Z z
  | VStr t => t
  | VBool true => T "true"
  | VBool false => T "false"
  | VNull => T "null"
  | VArr l =>
    let fix go (l : list val) : text :=
      match l with
      | [] => []
      | [x] => show x
      | x :: l' => show x ++ T ", " ++ go l'
      end in
    91 :: go l ++ [93]
  end.

Definition truthy (v : val) : bool :=
  match v with
  | VStr t => negb (is_nil t)
  | VNum z => negb (Z.eqb z 0)
  | VArr l => match l with [] => false | _ => true end
  | VBool b => b
  | VNull => false
  end.

Inductive binop := OAdd | OSub | OMul | ODiv | OMod.
Inductive cmpop := CEq | CNe | CLt | CLe | CGt | CGe.
Inductive piece := PText (t : text) | PVar (x : text).

Inductive expr :=
| EInt (z : Z)
| EVar (x : text)
| EIdx (x : text) (i : expr)
| ELit (ps : list piece)
| EBool (b : bool)
| ENull
| EArr (es : list expr)
| EBin (op : binop) (a b : expr)
| ECmp (op : cmpop) (a b : expr)
| EAnd (a b : expr)
| EOr (a b : expr)
| ENot (a : expr)
| ECall (f : text) (args : list expr)
| ERange (incl : bool) (a b : expr).

Inductive stmt :=
| SLet (x : text) (e : expr)
| SSet (x : text) (op : option binop) (e : expr)
| SSetIdx (x : text) (i e : expr)
| SPush (x : text) (e : expr)
| SPop (x : text)
| SEcho (es : list expr)
| SIf (branches : list (expr * list stmt)) (els : option (list stmt))
| SLoop (until : bool) (c : expr) (body : list stmt)      (* while / until *)
| SFor (x : text) (iter : expr) (body : list stmt)
| SDef (f : text) (params : list text) (body : list stmt)
| SCall (f : text) (args : list expr)
| SReturn (e : expr)
| SBreak
| SContinue.

(** ** State: scope frames innermost first; the last frame is the global one *)
Definition frame := list (text * val).
Definition fframe := list (text * (list text * list stmt)).
Record state := mkSt { vars : list frame; funs : list fframe; output : text }.

Fixpoint flookup {A} (x : text) (f : list (text * A)) : option A :=
  match f with
  | [] => None
  | (k, v) :: f' => if text_eqb k x then Some v else flookup x f'
  end.
Fixpoint lookup_stack {A} (x : text) (fs : list (list (text * A))) : option A :=
  match fs with
  | [] => None
  | f :: fs' => match flookup x f with Some v => Some v | None => lookup_stack x fs' end
  end.
Fixpoint fset {A} (x : text) (v : A) (f : list (text * A)) : list (text * A) :=
  match f with
  | [] => [(x, v)]
  | (k, w) :: f' => if text_eqb k x then (k, v) :: f' else (k, w) :: fset x v f'
  end.
(** [let]: the innermost frame *)
Definition declare (x : text) (v : val) (st : state) : state :=
  match vars st with
  | f :: fs => mkSt (fset x v f :: fs) (funs st) (output st)
  | [] => mkSt [[(x, v)]] (funs st) (output st)
  end.
(** assignment: the innermost frame that has the name *)
Fixpoint assign_stack (x : text) (v : val) (fs : list frame) : option (list frame) :=
  match fs with
  | [] => None
  | f :: fs' =>
    match flookup x f with
    | Some _ => Some (fset x v f :: fs')
    | None => match assign_stack x v fs' with Some r => Some (f :: r) | None => None end
    end
  end.
Definition push_scope (st : state) : state := mkSt ([] :: vars st) ([] :: funs st) (output st).
Definition pop_scope (st : state) : state := mkSt (tl (vars st)) (tl (funs st)) (output st).
Definition emit (t : text) (st : state) : state := mkSt (vars st) (funs st) (output st ++ t).

(** ** Outcomes *)
Inductive eres := EV (v : val) (st : state) | EErr | EFuel.
Inductive sres :=
| RNormal (st : state) | RBreak (st : state) | RContinue (st : state)
| RReturn (v : val) (st : state) | RErr | RFuel.

(** integers are 64-bit and every operation is checked: a result outside the range is a run-time error *)
Definition in_i64 (z : Z) : bool := (Z.leb (-9223372036854775808) z && Z.leb z 9223372036854775807)%Z.
Definition checked (z : Z) : option Z := if in_i64 z then Some z else None.
Definition arith (op : binop) (a b : Z) : option Z :=
  match op with
  | OAdd => checked (a + b)%Z
  | OSub => checked (a - b)%Z
  | OMul => checked (a * b)%Z
  | ODiv => if Z.eqb b 0 then None else checked (Z.quot a b)
  | OMod => if Z.eqb b 0 then None else checked (Z.rem a b)
  end.

Definition compare (op : cmpop) (a b : val) : option bool :=
  match a, b with
  | VNum x, VNum y =>
    Some (match op with
          | CEq => Z.eqb x y | CNe => negb (Z.eqb x y) | CLt => Z.ltb x y
          | CLe => Z.leb x y | CGt => Z.ltb y x | CGe => Z.leb y x end)
  | VStr x, VStr y =>
    match op with CEq => Some (text_eqb x y) | CNe => Some (negb (text_eqb x y)) | _ => None end
  | VBool x, VBool y =>
    match op with CEq => Some (Bool.eqb x y) | CNe => Some (negb (Bool.eqb x y)) | _ => None end
  | _, _ => None
  end.

Fixpoint zrange (n : nat) (from : Z) : list val :=
  match n with O => [] | S k => VNum from :: zrange k (from + 1)%Z end.

(** the items a [for] runs over *)
Definition items_of (v : val) : option (list val) :=
  match v with
  | VArr l => Some l
  | VStr t => Some (map (fun c => VStr [c]) t)
  | _ => None
  end.

Fixpoint set_nth {A} (n : nat) (x : A) (l : list A) : option (list A) :=
  match l, n with
  | [], _ => None
  | _ :: l', O => Some (x :: l')
  | y :: l', S k => match set_nth k x l' with Some r => Some (y :: r) | None => None end
  end.

(** ** The interpreter *)
Fixpoint eval (fuel : nat) (e : expr) (st : state) {struct fuel} : eres :=
  match fuel with
  | O => EFuel
  | S f =>
    match e with
    | EInt z => EV (VNum z) st
    | EBool b => EV (VBool b) st
    | ENull => EV VNull st
    | EVar x => match lookup_stack x (vars st) with Some v => EV v st | None => EErr end
    | ELit ps =>
      EV (VStr (flat_map (fun p => match p with
                                   | PText t => t
                                   | PVar x => match lookup_stack x (vars st) with Some v => show v | None => [] end
                                   end) ps)) st
    | EIdx x i =>
      match eval f i st with
      | EV (VNum z) st1 =>
        if Z.ltb z 0 then EErr else
        match lookup_stack x (vars st1) with
        | Some (VArr l) => match nth_error l (Z.to_nat z) with Some v => EV v st1 | None => EErr end
        | Some (VStr t) => match nth_error t (Z.to_nat z) with Some c => EV (VStr [c]) st1 | None => EErr end
        | _ => EErr
        end
      | EV _ _ => EErr | EErr => EErr | EFuel => EFuel
      end
    | EArr es =>
      match eval_list f es st with
      | (Some vs, st1, _) => EV (VArr vs) st1
      | (None, _, true) => EFuel
      | (None, _, false) => EErr
      end
    | EBin op a b =>
      match eval f a st with
      | EV (VNum x) st1 =>
        match eval f b st1 with
        | EV (VNum y) st2 => match arith op x y with Some z => EV (VNum z) st2 | None => EErr end
        | EV _ _ => EErr | EErr => EErr | EFuel => EFuel
        end
      | EV _ _ => EErr | EErr => EErr | EFuel => EFuel
      end
    | ECmp op a b =>
      match eval f a st with
      | EV x st1 =>
        match eval f b st1 with
        | EV y st2 => match compare op x y with Some r => EV (VBool r) st2 | None => EErr end
        | EErr => EErr | EFuel => EFuel
        end
      | EErr => EErr | EFuel => EFuel
      end
    | EAnd a b | EOr a b =>
      (* both sides are evaluated; conditions have no side effects in the core *)
      match eval f a st with
      | EV x st1 =>
        match eval f b st1 with
        | EV y st2 =>
          EV (VBool (match e with EAnd _ _ => truthy x && truthy y | _ => truthy x || truthy y end)) st2
        | EErr => EErr | EFuel => EFuel
        end
      | EErr => EErr | EFuel => EFuel
      end
    | ENot a =>
      match eval f a st with
      | EV x st1 => EV (VBool (negb (truthy x))) st1
      | EErr => EErr | EFuel => EFuel
      end
    | ERange incl a b =>
      match eval f a st with
      | EV (VNum x) st1 =>
        match eval f b st1 with
        | EV (VNum y) st2 =>
          let hi := if incl then (y + 1)%Z else y in
          EV (VArr (zrange (Z.to_nat (hi - x)) x)) st2
        | EV _ _ => EErr | EErr => EErr | EFuel => EFuel
        end
      | EV _ _ => EErr | EErr => EErr | EFuel => EFuel
      end
    | ECall fn args =>
      match eval_list f args st with
      | (Some vs, st1, _) => call f fn vs st1
      | (None, _, true) => EFuel
      | (None, _, false) => EErr
      end
    end
  end

with eval_list (fuel : nat) (es : list expr) (st : state) {struct fuel} : option (list val) * state * bool :=
  match fuel with
  | O => (None, st, true)
  | S f =>
    match es with
    | [] => (Some [], st, false)
    | e :: es' =>
      match eval f e st with
      | EV v st1 =>
        match eval_list f es' st1 with
        | (Some vs, st2, b) => (Some (v :: vs), st2, b)
        | r => r
        end
      | EErr => (None, st, false)
      | EFuel => (None, st, true)
      end
    end
  end

(** a call: arguments are bound in a new scope, the body runs there, the scope
    ends with the call; falling off the end returns null *)
with call (fuel : nat) (fn : text) (vs : list val) (st : state) {struct fuel} : eres :=
  match fuel with
  | O => EFuel
  | S f =>
    match lookup_stack fn (funs st) with
    | None => EErr
    | Some (params, body) =>
      if negb (Nat.eqb (length params) (length vs)) then EErr else
      let st1 := push_scope st in
      let st2 := mkSt (match vars st1 with fr :: fs => (combine params vs ++ fr) :: fs | [] => [combine params vs] end)
                      (funs st1) (output st1) in
      match exec_block f body st2 with
      | RNormal st3 => EV VNull (pop_scope st3)
      | RReturn v st3 => EV v (pop_scope st3)
      | RBreak st3 | RContinue st3 => EV VNull (pop_scope st3)
      | RErr => EErr
      | RFuel => EFuel
      end
    end
  end

with exec (fuel : nat) (s : stmt) (st : state) {struct fuel} : sres :=
  match fuel with
  | O => RFuel
  | S f =>
    match s with
    | SLet x e =>
      match eval f e st with EV v st1 => RNormal (declare x v st1) | EErr => RErr | EFuel => RFuel end
    | SSet x op e =>
      match eval f e st with
      | EV v st1 =>
        let nv := match op with
                  | None => Some v
                  | Some o => match lookup_stack x (vars st1), v with
                              | Some (VNum a), VNum b => option_map VNum (arith o a b)
                              | _, _ => None
                              end
                  end in
        match nv with
        | Some nv => match assign_stack x nv (vars st1) with
                     | Some fs => RNormal (mkSt fs (funs st1) (output st1))
                     | None => RErr end
        | None => RErr
        end
      | EErr => RErr | EFuel => RFuel
      end
    | SSetIdx x i e =>
      match eval f e st with
      | EV v st1 =>
        match eval f i st1 with
        | EV (VNum z) st2 =>
          if Z.ltb z 0 then RErr else
          match lookup_stack x (vars st2) with
          | Some (VArr l) =>
            match set_nth (Z.to_nat z) v l with
            | Some l' => match assign_stack x (VArr l') (vars st2) with
                         | Some fs => RNormal (mkSt fs (funs st2) (output st2)) | None => RErr end
            | None => RErr
            end
          | _ => RErr
          end
        | EV _ _ => RErr | EErr => RErr | EFuel => RFuel
        end
      | EErr => RErr | EFuel => RFuel
      end
    | SPush x e =>
      match eval f e st with
      | EV v st1 =>
        match lookup_stack x (vars st1) with
        | Some (VArr l) => match assign_stack x (VArr (l ++ [v])) (vars st1) with
                           | Some fs => RNormal (mkSt fs (funs st1) (output st1)) | None => RErr end
        | Some (VStr t) => match assign_stack x (VStr (t ++ show v)) (vars st1) with
                           | Some fs => RNormal (mkSt fs (funs st1) (output st1)) | None => RErr end
        | _ => RErr
        end
      | EErr => RErr | EFuel => RFuel
      end
    | SPop x =>
      match lookup_stack x (vars st) with
      | Some (VArr l) => match assign_stack x (VArr (removelast l)) (vars st) with
                         | Some fs => RNormal (mkSt fs (funs st) (output st)) | None => RErr end
      | Some (VStr t) => match assign_stack x (VStr (removelast t)) (vars st) with
                         | Some fs => RNormal (mkSt fs (funs st) (output st)) | None => RErr end
      | _ => RErr
      end
    | SEcho es =>
      match eval_list f es st with
      | (Some vs, st1, _) =>
        let fix join (l : list val) : text :=
          match l with [] => [] | [v] => show v | v :: l' => show v ++ [32] ++ join l' end in
        RNormal (emit (join vs ++ [10]) st1)
      | (None, _, true) => RFuel
      | (None, _, false) => RErr
      end
    | SIf branches els =>
      match branches with
      | [] => match els with
              | Some b => scoped f b st
              | None => RNormal st
              end
      | (c, b) :: rest =>
        match eval f c st with
        | EV v st1 => if truthy v then scoped f b st1 else exec f (SIf rest els) st1
        | EErr => RErr | EFuel => RFuel
        end
      end
    | SLoop until c body =>
      match eval f c st with
      | EV v st1 =>
        if xorb until (truthy v) then
          match scoped f body st1 with
          | RNormal st2 | RContinue st2 => exec f (SLoop until c body) st2
          | RBreak st2 => RNormal st2
          | r => r
          end
        else RNormal st1
      | EErr => RErr | EFuel => RFuel
      end
    | SFor x iter body =>
      match eval f iter st with
      | EV v st1 =>
        match items_of v with
        | Some items => for_items f x items body st1
        | None => RErr
        end
      | EErr => RErr | EFuel => RFuel
      end
    | SDef fn params body =>
      RNormal (mkSt (vars st) (match funs st with fr :: fs => fset fn (params, body) fr :: fs | [] => [[(fn, (params, body))]] end) (output st))
    | SCall fn args =>
      match eval_list f args st with
      | (Some vs, st1, _) =>
        match call f fn vs st1 with EV _ st2 => RNormal st2 | EErr => RErr | EFuel => RFuel end
      | (None, _, true) => RFuel
      | (None, _, false) => RErr
      end
    | SReturn e =>
      match eval f e st with EV v st1 => RReturn v st1 | EErr => RErr | EFuel => RFuel end
    | SBreak => RBreak st
    | SContinue => RContinue st
    end
  end

(** a block in a scope of its own; the scope ends however the block is left *)
with scoped (fuel : nat) (b : list stmt) (st : state) {struct fuel} : sres :=
  match fuel with
  | O => RFuel
  | S f =>
    match exec_block f b (push_scope st) with
    | RNormal st1 => RNormal (pop_scope st1)
    | RBreak st1 => RBreak (pop_scope st1)
    | RContinue st1 => RContinue (pop_scope st1)
    | RReturn v st1 => RReturn v (pop_scope st1)
    | RErr => RErr
    | RFuel => RFuel
    end
  end

with exec_block (fuel : nat) (b : list stmt) (st : state) {struct fuel} : sres :=
  match fuel with
  | O => RFuel
  | S f =>
    match b with
    | [] => RNormal st
    | s :: b' =>
      match exec f s st with
      | RNormal st1 => exec_block f b' st1
      | r => r
      end
    end
  end

with for_items (fuel : nat) (x : text) (items : list val) (body : list stmt) (st : state) {struct fuel} : sres :=
  match fuel with
  | O => RFuel
  | S f =>
    match items with
    | [] => RNormal st
    | v :: items' =>
      match exec_block f body (declare x v (push_scope st)) with
      | RNormal st1 | RContinue st1 => for_items f x items' body (pop_scope st1)
      | RBreak st1 => RNormal (pop_scope st1)
      | RReturn r st1 => RReturn r (pop_scope st1)
      | RErr => RErr
      | RFuel => RFuel
      end
    end
  end.

(** a program: statements at the top level, in the global scope *)
Definition st0 (globals : frame) : state := mkSt [globals] [[]] [].
Definition run_prog (fuel : nat) (globals : frame) (prog : list stmt) : sres :=
  exec_block fuel prog (st0 globals).
