(** Model of the parallel execution of units of work: worker threads with a
    thread-local register file, any assignment of units to workers, any order
    of collection, then [sort_by_key] on the unit index. *)
From Vicut Require Import Base.Prelude Model.Format.
From Coq Require Import Permutation.

Section Sched.
  Variable regs : Type.
  Variable regs0 : regs.                      (* [Registers::new()] *)
  (** the body of [execute] after the register reset: runs the commands on one
      unit starting from the given registers, returns the records (or aborts)
      and the registers it leaves behind in the thread local *)
  Variable body : regs -> text -> outcome (list record) * regs.

  (** [execute]: [register::reset_registers()] comes first *)
  Definition execute (r : regs) (t : text) : outcome (list record) * regs := body regs0 t.
  (** the pinned revision had no reset *)
  Definition execute_noreset (r : regs) (t : text) : outcome (list record) * regs := body r t.

  (** one worker thread: its units in the order it got them, the thread-local
      registers threaded through *)
  Fixpoint worker (ex : regs -> text -> outcome (list record) * regs)
           (r : regs) (units : list (nat * text)) : list (nat * outcome (list record)) :=
    match units with
    | [] => []
    | (i, t) :: rest => let '(res, r') := ex r t in (i, res) :: worker ex r' rest
    end.

  (** a schedule: for every worker its initial registers and its units *)
  Definition run_sched (ex : regs -> text -> outcome (list record) * regs)
             (sched : list (regs * list (nat * text))) : list (nat * outcome (list record)) :=
    flat_map (fun w => worker ex (fst w) (snd w)) sched.
End Sched.

(** [sort_by_key(|(i,_)| i)] as insertion sort (keys are distinct, so stability
    does not matter) *)
Section Sort.
  Context {A : Type}.
  Fixpoint insert_by (x : nat * A) (l : list (nat * A)) : list (nat * A) :=
    match l with
    | [] => [x]
    | y :: l' => if Nat.ltb (fst y) (fst x) then y :: insert_by x l' else x :: l
    end.
  Definition sort_tagged (l : list (nat * A)) : list (nat * A) := fold_right insert_by [] l.
  Fixpoint tag_from (n : nat) (l : list A) : list (nat * A) :=
    match l with [] => [] | x :: l' => (n, x) :: tag_from (S n) l' end.
End Sort.
