(** Model of the search motions of [LineBuf::eval_motion] (src/linebuf.rs):
    [PatternSearch], [PatternSearchRev], [NextMatch], [PrevMatch] and
    [find_index_for_byte_pos]. The regex engine is an oracle: [starts] is the
    list of byte offsets at which [find_iter] reports matches on the whole
    buffer, in increasing order. *)
From Vicut Require Import Base.Prelude.

(** position of the first element satisfying [p] *)
Fixpoint position {A} (p : A -> bool) (l : list A) : option nat :=
  match l with
  | [] => None
  | x :: l' => if p x then Some O else option_map S (position p l')
  end.
(** position of the last element satisfying [p] *)
Fixpoint rposition {A} (p : A -> bool) (l : list A) : option nat :=
  match l with
  | [] => None
  | x :: l' =>
    match rposition p l' with
    | Some i => Some (S i)
    | None => if p x then Some O else None
    end
  end.

(** [/pat]: the first match that starts after the cursor, else the first match *)
Definition search_fwd (starts : list nat) (cur : nat) : option nat :=
  match position (fun s => Nat.ltb cur s) starts with
  | Some i => nth_error starts i
  | None => nth_error starts 0
  end.
(** [?pat]: the last match that starts before the cursor, else the last match *)
Definition search_bwd (starts : list nat) (cur : nat) : option nat :=
  match rposition (fun s => Nat.ltb s cur) starts with
  | Some i => nth_error starts i
  | None => nth_error starts (length starts - 1)
  end.

(** [n] / [N] with a count: [forward] already combines the key with the
    direction of the last search *)
Definition match_step (starts : list nat) (cur : nat) (forward : bool) (count : nat) : option nat :=
  match starts with
  | [] => None
  | _ =>
    let n := length starts in
    let steps := Nat.modulo (count - 1) n in
    let target :=
        if forward then
          let first := match position (fun s => Nat.ltb cur s) starts with Some i => i | None => O end in
          Nat.modulo (first + steps) n
        else
          let first := match rposition (fun s => Nat.ltb s cur) starts with Some i => i | None => (n - 1)%nat end in
          Nat.modulo (first + n - steps) n in
    nth_error starts target
  end.

(** [find_index_for_byte_pos]: the cluster whose start is that byte offset *)
Definition index_of_byte (gidx : list nat) (b : nat) : option nat :=
  position (fun x => Nat.eqb x b) gidx.

(** the cursor after a search motion: the cluster index of the match start;
    [None]: the motion is [Null], nothing moves *)
Definition search_cursor (gidx : list nat) (m : option nat) : option nat :=
  match m with Some b => index_of_byte gidx b | None => None end.
