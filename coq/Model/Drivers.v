(** Model of the drivers of src/main.rs: [exec_stdin], [exec_files],
    [exec_linewise], [execute_linewise], [execute_multi_thread_files] and
    [execute_multi_thread_files_linewise], over a model file system and
    parametric in what [execute] returns for one unit of work. *)
From Vicut Require Import Base.Prelude Model.Format.

(** ** File system: readable UTF-8 text, or something [read_to_string] rejects
    (invalid UTF-8, a directory). Absent paths do not exist. *)
Inductive fobj := FText (t : text) | FBad.
Definition fsys := list (text * fobj).

Fixpoint fs_get (fs : fsys) (p : text) : option fobj :=
  match fs with
  | [] => None
  | (q, o) :: fs' => if text_eqb p q then Some o else fs_get fs' p
  end.
Definition fs_read (fs : fsys) (p : text) : option text :=
  match fs_get fs p with Some (FText t) => Some t | _ => None end.
Fixpoint fs_put (fs : fsys) (p : text) (o : fobj) : fsys :=
  match fs with
  | [] => [(p, o)]
  | (q, o') :: fs' => if text_eqb p q then (q, o) :: fs' else (q, o') :: fs_put fs' p o
  end.

(** [Path::with_extension(format!("{ext}.{bak}"))] on the last component. *)
Fixpoint rsplit_at (c : N) (s : text) (acc : text) : option (text * text) :=
  (* splits at the last [c]: returns (before, after) *)
  match s with
  | [] => None
  | x :: s' =>
    match rsplit_at c s' (acc ++ [x]) with
    | Some r => Some r
    | None => if x =? c then Some (acc, s') else None
    end
  end.
Definition split_dir (p : text) : text * text :=
  match rsplit_at 47 p [] with
  | Some (d, f) => (d ++ [47], f)
  | None => ([], p)
  end.
(** stem and extension as [Path::file_stem]/[extension] see them: a leading
    dot does not start an extension *)
Definition split_ext (f : text) : text * option text :=
  match f with
  | [] => ([], None)
  | c0 :: f' =>
    match rsplit_at 46 f' [] with
    | Some (s, e) => (c0 :: s, Some e)
    | None => (f, None)
    end
  end.
Definition backup_path (bak : text) (p : text) : text :=
  let '(d, f) := split_dir p in
  let '(stem, ext) := split_ext f in
  d ++ stem ++ [46] ++ (match ext with Some e => e | None => [] end) ++ [46] ++ bak.

Record dstate := mkD { d_fs : fsys; d_out : text }.
Definition out (s : dstate) (t : text) : dstate := mkD (d_fs s) (d_out s ++ t).

Inductive status := Done | Failed (panic : bool).
Definition result := (dstate * status)%type.

Record dopts := mkDO {
  do_fmt : fmt; do_json : bool; do_inplace : bool; do_backup : bool;
  do_files : list text }.

Section Drivers.
  (** what [execute(args, text, filename)] returns, registers fresh *)
  Variable unit : option text -> text -> outcome (list record).
  Variable o : dopts.

  Definition multi : bool := match do_files o with _ :: _ :: _ => true | _ => false end.

  (** write back one file ([-i]), with the optional backup first *)
  Definition write_back (s : dstate) (p : text) (output : text) : result :=
    let fs := d_fs s in
    let fs1 := if do_backup o then
                 match fs_get fs p with
                 | Some ob => Some (fs_put fs (backup_path (T "bak") p) ob)
                 | None => None            (* fs::copy fails: exit 1 *)
                 end
               else Some fs in
    match fs1 with
    | Some fs1 => (mkD (fs_put fs1 p (FText output)) (d_out s), Done)
    | None => (s, Failed false)
    end.

  (** the write phase of the parallel [-i] drivers as the code has it since the repair of the vanished-file defect: first
      every backup ([make_backups]), then every file.  A copy that fails (the file is gone) ends the run with the
      backups made so far and no file rewritten. *)
  Fixpoint backup_all (paths : list text) (fs : fsys) : fsys * bool :=
    match paths with
    | [] => (fs, true)
    | p :: rest =>
      match fs_get fs p with
      | Some ob => backup_all rest (fs_put fs (backup_path (T "bak") p) ob)
      | None => (fs, false)
      end
    end.
  Fixpoint write_all (l : list (text * text)) (fs : fsys) : fsys :=
    match l with [] => fs | (p, t) :: rest => write_all rest (fs_put fs p (FText t)) end.
  Definition emit_two_phase (l : list (text * text)) (s : dstate) : result :=
    if do_backup o then
      match backup_all (map fst l) (d_fs s) with
      | (fs1, true) => (mkD (write_all l fs1) (d_out s), Done)
      | (fs1, false) => (mkD fs1 (d_out s), Failed false)
      end
    else (mkD (write_all l (d_fs s)) (d_out s), Done).

  Definition fail_of {A} (x : outcome A) : status :=
    match x with Panic _ => Failed true | _ => Failed false end.

  (** [exec_stdin] *)
  Definition exec_stdin (input : text) (s : dstate) : result :=
    match unit None input with
    | Ok recs =>
      match format_output (do_fmt o) recs with
      | Ok output => (out s (output ++ [10]), Done)
      | e => (s, fail_of e)
      end
    | e => (s, fail_of e)
    end.

  (** all units of one input in order; the first failure aborts *)
  Fixpoint units_seq (f : option text) (lines : list text) : outcome (list (list record)) :=
    match lines with
    | [] => Ok []
    | l :: ls =>
      match unit f l with
      | Ok r => match units_seq f ls with Ok rs => Ok (r :: rs) | e => e end
      | Exit1 => Exit1 | Panic x => Panic x | OutOfFuel => OutOfFuel
      end
    end.

  (** [format_linewise]: every line's records are formatted on their own and the
      pieces put together in input order; JSON is one document for all lines *)
  Fixpoint fmt_units (rs : list (list record)) : outcome text :=
    match rs with
    | [] => Ok []
    | r :: rest =>
      match format_output (do_fmt o) r, fmt_units rest with
      | Ok t, Ok ts => Ok (t ++ ts)
      | Ok _, e => match e with Ok _ => Exit1 | Exit1 => Exit1 | Panic x => Panic x | OutOfFuel => OutOfFuel end
      | Exit1, _ => Exit1 | Panic x, _ => Panic x | OutOfFuel, _ => OutOfFuel
      end
    end.
  Definition format_linewise (rs : list (list record)) : outcome text :=
    if do_json o then format_output (do_fmt o) (concat rs) else fmt_units rs.

  (** [--linewise] on stdin, serial and parallel alike *)
  Definition linewise_stdin (input : text) (s : dstate) : result :=
    match units_seq None (get_lines input) with
    | Ok rs =>
      match format_linewise rs with
      | Ok output => (out s (output ++ [10]), Done)
      | e => (s, fail_of e)
      end
    | e => (s, fail_of e)
    end.

  (** [exec_files --serial] *)
  Fixpoint files_serial (files : list text) (jd : list (text * list record)) (s : dstate)
    : result :=
    match files with
    | [] => if do_json o then (out s (format_json_files jd), Done) else (s, Done)
    | p :: rest =>
      match fs_read (d_fs s) p with
      | None => (s, Failed false)
      | Some content =>
        match unit (Some p) content with
        | Ok recs =>
          if do_json o then files_serial rest (jd ++ [(p, recs)]) s
          else
            match format_output (do_fmt o) recs with
            | Ok output =>
              if do_inplace o then
                match write_back s p output with
                | (s', Done) => files_serial rest jd s'
                | r => r
                end
              else if multi && is_nil output then files_serial rest jd s
              else
                let s1 := if multi then out s (T "--- " ++ p ++ [10]) else s in
                files_serial rest jd (out s1 (output ++ [10]))
            | e => (s, fail_of e)
            end
        | e => (s, fail_of e)
        end
      end
    end.

  (** read every file first *)
  Fixpoint read_all (fs : fsys) (files : list text) : option (list (text * text)) :=
    match files with
    | [] => Some []
    | p :: rest =>
      match fs_read fs p, read_all fs rest with
      | Some c, Some l => Some ((p, c) :: l)
      | _, _ => None
      end
    end.

  Fixpoint exec_all (work : list (text * text)) : outcome (list (text * list record)) :=
    match work with
    | [] => Ok []
    | (p, c) :: rest =>
      match unit (Some p) c, exec_all rest with
      | Ok r, Ok rs => Ok ((p, r) :: rs)
      | Ok _, e => match e with Ok _ => Exit1 | Exit1 => Exit1 | Panic x => Panic x | OutOfFuel => OutOfFuel end
      | Exit1, _ => Exit1 | Panic x, _ => Panic x | OutOfFuel, _ => OutOfFuel
      end
    end.

  (** all outputs are formatted before anything is written or printed *)
  Fixpoint fmt_results (results : list (text * list record)) : outcome (list (text * text)) :=
    match results with
    | [] => Ok []
    | (p, recs) :: rest =>
      match format_output (do_fmt o) recs, fmt_results rest with
      | Ok t, Ok l => Ok ((p, t) :: l)
      | Ok _, Exit1 | Exit1, _ => Exit1
      | Ok _, Panic x | Panic x, _ => Panic x
      | Ok _, OutOfFuel | OutOfFuel, _ => OutOfFuel
      end
    end.

  (** the write/print loop of [execute_multi_thread_files] *)
  Fixpoint emit_all (payloads : list (text * text)) (s : dstate) : result :=
    match payloads with
    | [] => (s, Done)
    | (p, output) :: rest =>
      if do_inplace o then
        match write_back s p output with
        | (s', Done) => emit_all rest s'
        | r => r
        end
      else if multi then
        emit_all rest (if is_nil output then s else out s (T "--- " ++ p ++ [10] ++ output ++ [10]))
      else emit_all rest (out s output)
    end.

  Definition files_emit (results : list (text * list record)) (s : dstate) : result :=
    match fmt_results results with
    | Ok payloads => emit_all payloads s
    | e => (s, fail_of e)
    end.

  (** [execute_multi_thread_files]: read all, execute all, then emit *)
  Definition files_parallel (s : dstate) : result :=
    match read_all (d_fs s) (do_files o) with
    | None => (s, Failed false)
    | Some work =>
      match exec_all work with
      | Ok results =>
        if do_json o && multi then (out s (format_json_files results), Done)
        else files_emit results s
      | e => (s, fail_of e)
      end
    end.

  (** [exec_linewise --serial] with files *)
  Fixpoint lw_files_serial (files : list text) (jd : list (text * list record)) (s : dstate)
    : result :=
    match files with
    | [] =>
      (* with --json control falls through to the common tail of the serial
         branch, which prints the (empty) rest and a newline *)
      if do_json o then (out s (format_json_files jd ++ format_json [] ++ [10]), Done) else (s, Done)
    | p :: rest =>
      match fs_read (d_fs s) p with
      | None => (s, Failed false)
      | Some content =>
        match units_seq (Some p) (get_lines content) with
        | Ok rs =>
          let lines := concat rs in
          if do_json o then lw_files_serial rest (jd ++ [(p, lines)]) s
          else
            match format_linewise rs with
            | Ok output =>
              if do_inplace o then
                match write_back s p output with
                | (s', Done) => lw_files_serial rest jd s'
                | r => r
                end
              else if multi && is_nil output then lw_files_serial rest jd s
              else
                let s1 := if multi then out s (T "--- " ++ p ++ [10]) else s in
                lw_files_serial rest jd (out s1 (output ++ [10]))
            | e => (s, fail_of e)
            end
        | e => (s, fail_of e)
        end
      end
    end.

  (** [execute_multi_thread_files_linewise]: every line is formatted on its
      own; per file the pieces are joined in line order; files are visited in
      argument order (the JSON multi-file form still in path order: BTreeMap). *)
  Fixpoint fmt_each (rs : list (list record)) : outcome (list text) :=
    match rs with
    | [] => Ok []
    | r :: rest =>
      match format_output (do_fmt o) r, fmt_each rest with
      | Ok t, Ok ts => Ok (t :: ts)
      | Ok _, e => match e with Ok _ => Exit1 | Exit1 => Exit1 | Panic x => Panic x | OutOfFuel => OutOfFuel end
      | Exit1, _ => Exit1 | Panic x, _ => Panic x | OutOfFuel, _ => OutOfFuel
      end
    end.

  Fixpoint insert_path (p : text) (l : list text) : list text :=
    match l with
    | [] => [p]
    | q :: l' => if text_ltb p q then p :: l else q :: insert_path p l'
    end.
  Definition sort_paths (l : list text) : list text := fold_right insert_path [] l.

  Fixpoint lw_exec_all (work : list (text * text)) : outcome (list (text * list text)) :=
    match work with
    | [] => Ok []
    | (p, c) :: rest =>
      let here := match units_seq (Some p) (get_lines c) with
                  | Ok rs => fmt_each rs
                  | Exit1 => Exit1 | Panic x => Panic x | OutOfFuel => OutOfFuel
                  end in
      match here, lw_exec_all rest with
      | Ok ts, Ok l => Ok ((p, ts) :: l)
      | Ok _, e => match e with Ok _ => Exit1 | Exit1 => Exit1 | Panic x => Panic x | OutOfFuel => OutOfFuel end
      | Exit1, _ => Exit1 | Panic x, _ => Panic x | OutOfFuel, _ => OutOfFuel
      end
    end.

  Fixpoint lookup_file {A} (p : text) (l : list (text * A)) : option A :=
    match l with
    | [] => None
    | (q, a) :: l' => if text_eqb p q then Some a else lookup_file p l'
    end.

  Fixpoint lw_emit (paths : list text) (per_file : list (text * list text)) (s : dstate) : result :=
    match paths with
    | [] => (s, Done)
    | p :: rest =>
      (* a file without lines has no entry: it is treated as having no output *)
      let ts := match lookup_file p per_file with Some ts => ts | None => [] end in
      let output := concat ts in
      if do_inplace o then
        match write_back s p output with
        | (s', Done) => lw_emit rest per_file s'
        | r => r
        end
      else if multi then
        lw_emit rest per_file (if is_nil output then s else out s (T "--- " ++ p ++ [10] ++ output ++ [10]))
      else lw_emit rest per_file (out s output)
    end.

  Definition lw_files_parallel (s : dstate) : result :=
    match read_all (d_fs s) (do_files o) with
    | None => (s, Failed false)
    | Some work =>
      match lw_exec_all work with
      | Ok per_file =>
        if do_json o && multi then
          (out s (format_json_files
                    (map (fun p => (p, match lookup_file p per_file with
                                       | Some ts => map (fun nt => [(show_N (fst nt), snd nt)])
                                                        (combine (map N.of_nat (seq 0 (length ts))) ts)
                                       | None => [] end))
                         (filter (fun p => match lookup_file p per_file with Some (_ :: _) => true | _ => false end)
                                 (sort_paths (do_files o))))), Done)
        else lw_emit (do_files o) per_file s
      | e => (s, fail_of e)
      end
    end.

  (** [main]'s dispatch *)
  Definition run_main (linewise serial : bool) (input : text) (s : dstate) : result :=
    if linewise then
      if serial then
        if is_nil (do_files o) then linewise_stdin input s else lw_files_serial (do_files o) [] s
      else
        if is_nil (do_files o) then linewise_stdin input s else lw_files_parallel s
    else if is_nil (do_files o) then exec_stdin input s
    else if serial then files_serial (do_files o) [] s
    else files_parallel s.
End Drivers.
