(** Model of [exec_cmd] (src/main.rs) for the command-line fragment of [Cmd],
    parametric in the editor core: what a [-m]/[-c]/[-n] does to the state, how
    the mode is reset, how scopes nest and which lines a [-g] visits are
    section variables. *)
From Vicut Require Import Base.Prelude Model.Args.

Section Exec.
  Variable st : Type.
  Variable do_move : text -> st -> st.                (* Cmd::Motion *)
  Variable do_cut : option text -> text -> st -> st.  (* Cmd::Field / Cmd::NamedField *)
  Variable do_next : st -> st.                        (* Cmd::BreakGroup *)
  Variable snm : st -> st.                            (* if !keep_mode { set_normal_mode() } *)
  Variable descend ascend : st -> st.                 (* variable/function scopes *)
  Variable glines : bool -> text -> st -> list nat.   (* eval_motion(Global/NotGlobal) *)
  Variable goto_line : nat -> st -> option st.        (* line_bounds + cursor.set; None: skipped *)

  Fixpoint exec (c : cmd) (s : st) {struct c} : st :=
    let fix seq (l : list cmd) (s : st) {struct l} : st :=
        match l with
        | [] => s
        | c :: l' => seq l' (snm (exec c s))
        end in
    match c with
    | CNext => do_next s
    | CMove k => do_move k s
    | CCut k => do_cut None k s
    | CNamed n k => do_cut (Some n) k s
    | CRepeat body k => ascend (N.iter k (seq body) (descend s))
    | CGlobal pol pat th el =>
      match glines pol pat s with
      | [] => match el with
              | Some e => ascend (seq e (descend s))
              | None => s
              end
      | lines =>
        fold_left (fun s ln =>
                     match goto_line ln s with
                     | Some s1 => ascend (seq th (descend s1))
                     | None => s
                     end) lines s
      end
    end.

  (** a command list: every command is followed by the mode reset *)
  Fixpoint seq (l : list cmd) (s : st) : st :=
    match l with
    | [] => s
    | c :: l' => seq l' (snm (exec c s))
    end.

  Lemma exec_repeat body k s :
    exec (CRepeat body k) s = ascend (N.iter k (seq body) (descend s)).
  Proof. reflexivity. Qed.

  Lemma exec_global pol pat th el s :
    exec (CGlobal pol pat th el) s =
    match glines pol pat s with
    | [] => match el with Some e => ascend (seq e (descend s)) | None => s end
    | lines =>
      fold_left (fun s ln => match goto_line ln s with
                             | Some s1 => ascend (seq th (descend s1))
                             | None => s end) lines s
    end.
  Proof. reflexivity. Qed.
End Exec.
