(** Observation functions used by the correspondence harness: they turn model
    values into plain tuples that print compactly and parse easily. *)
From Vicut Require Import Base.Prelude Model.Args Spec.Items.

Definition opts_obs (o : opts) :=
  (o_delimiter o, o_template o,
   [o_inplace o; o_json o; o_trace o; o_linewise o; o_trim o; o_keep_mode o;
    o_backup o; o_serial o; o_gln o; o_silent o],
   o_cmds o, o_files o).

Definition parse_obs (files : list text) (args : list text) :=
  match parse (fun p => mem_text p files) args with
  | Ok o => Ok (opts_obs o)
  | Exit1 => Exit1
  | Panic s => Panic s
  | OutOfFuel => OutOfFuel
  end.
