(** Observation functions used by the correspondence harness: they turn model
    values into plain tuples that print compactly and parse easily. *)
From Vicut Require Import Base.Prelude Model.Args Spec.Items.

Definition opts_obs (o : opts) :=
  (o_delimiter o, o_template o,
   [o_inplace o; o_json o; o_trace o; o_linewise o; o_trim o; o_keep_mode o;
    o_backup o; o_serial o; o_gln o; o_silent o],
   o_cmds o, o_files o).

Definition parse_obs (files : list text) (args : list text) :=
  match parse (fun p => mem_text p files) args with
  | Ok o => Ok (opts_obs o)
  | Exit1 => Exit1
  | Panic s => Panic s
  | OutOfFuel => OutOfFuel
  end.

From Vicut Require Import Model.Format.

Definition fmt_of (k : N) (arg : text) : fmt :=
  if k =? 0 then FJson else if k =? 1 then FTemplate arg else FStandard arg.
Definition fmt_obs (c : N * text * list record) : outcome text :=
  let '(k, arg, recs) := c in format_output (fmt_of k arg) recs.

(** record assembly from per-command results: [(kind, name, result)] with kind
    0 = cut, 1 = named cut, 2 = -n; then the end of [execute]. *)
Definition assemble_obs (c : list (N * text * option text) * (bool * bool * bool * text)) : list record :=
  let '(steps, (silent, print_buffer, trim, buffer)) := c in
  ctx_finish silent print_buffer trim buffer
    (fold_left (fun cx st => let '(k, nm, res) := st in
                             if k =? 2 then ctx_break cx
                             else ctx_field (if k =? 1 then Some nm else None) res cx)
               steps ctx0).

From Vicut Require Import Model.Drivers.

(** Driver observation: the unit function is a finite table (what the hook
    recorded for each unit that ran); a unit without an entry failed. *)
Fixpoint unit_lookup (tbl : list (option text * text * list record)) (dflt : outcome (list record))
         (f : option text) (t : text) : outcome (list record) :=
  match tbl with
  | [] => dflt
  | (f', t', r) :: tbl' =>
    if (match f, f' with
        | Some a, Some b => text_eqb a b
        | None, None => true
        | _, _ => false end) && text_eqb t t'
    then Ok r else unit_lookup tbl' dflt f t
  end.

Definition fs_obs (fs : fsys) : list (text * option text) :=
  map (fun po => (fst po, match snd po with FText t => Some t | FBad => None end)) fs.
Definition fs_of_obs (l : list (text * option text)) : fsys :=
  map (fun po => (fst po, match snd po with Some t => FText t | None => FBad end)) l.

Definition driver_obs
  (c : (N * text * bool * bool * bool * list text) * (bool * bool * bool) * text
       * list (text * option text) * list (option text * text * list record)) :=
  let '((fk, farg, json, inplace, backup, files), (linewise, serial, dflt_panic), input, fs, tbl) := c in
  let o := mkDO (fmt_of fk farg) json inplace backup files in
  let dflt := if dflt_panic then Panic P_other else Exit1 in
  let '(s, st) := run_main (unit_lookup tbl dflt) o linewise serial input (mkD (fs_of_obs fs) []) in
  (fs_obs (d_fs s), d_out s, match st with Done => 0 | Failed false => 1 | Failed true => 2 end).

From Vicut Require Import Model.Keys.
Definition keys_obs (bs : list N) :=
  let '(ks, r) := keys_of bs in (ks, r_bytes r, r_esc r).
Definition expand_obs (t : text) := expand_literal (fun _ => None) (S (length t)) t.

From Vicut Require Import Model.Text.
(** read_field after the key loop: (buf, cached offsets, cap, c0, c1, selection) *)
Definition field_obs (c : text * list nat * nat * nat * nat * option (N * sel_range)) : option text :=
  let '(buf, gidx, cap, c0, c1, sel) := c in
  read_field_post buf gidx cap c0 c1
    (match sel with
     | Some (m, r) => Some ((if m =? 0 then SelChar else if m =? 1 then SelLine else SelBlock), r)
     | None => None
     end).

From Vicut Require Import Model.Undo.
(** ops: (kind, pre, after, session) with kind 0 = command, 1 = undo, 2 = redo, 3 = end of a key string; session 0 = stands alone,
    1 = opens an insert session (c, o, O), 2 = typed character *)
Definition undo_obs (c : text * list (N * option text * text * N)) :=
  let '(t, ops) := c in
  let s := urun t (map (fun o => let '(k, pre, a, ci) := o in
                                 if k =? 0 then OCmd pre a (if ci =? 0 then KPlain else if ci =? 1 then KOpens else KContinues)
                                 else if k =? 1 then OUndo else if k =? 2 then ORedo else OBoundary) ops) in
  (u_buf s, map (fun e => (e_old e, e_new e)) (u_undo s), map (fun e => (e_old e, e_new e)) (u_redo s)).

From Vicut Require Import Model.Search.
(** (cached offsets, match starts, cursor byte offset, kind, count): kind 0 [/], 1 [?],
    2 n/N going forwards, 3 n/N going backwards *)
Definition search_obs (c : list nat * list nat * nat * N * nat) : option nat :=
  let '(gidx, starts, cur, kind, count) := c in
  search_cursor gidx
    (if kind =? 0 then search_fwd starts cur
     else if kind =? 1 then search_bwd starts cur
     else match_step starts cur (kind =? 2) count).

From Vicut Require Import Model.Global.
(** (clusters, which line texts match, polarity) -> (visited lines, their starts) *)
Definition global_obs (c : list text * list (text * bool) * bool) :=
  let '(cl, tbl, pol) := c in
  let m := fun t => match List.find (fun p => text_eqb (fst p) t) tbl with Some p => snd p | None => false end in
  map (fun n => (n, line_start cl n)) (global_lines m cl pol).

From Vicut Require Import Model.Edit.
Definition reg_obs (r : regcontent) : N * list text :=
  match r with RSpan t => (0, [t]) | RLine t => (1, [t]) | RBlock rows => (2, rows) | REmpty => (3, []) end.
(** (clusters, s, e, kind): kind 0 delete (Span), 1 yank, 2 delete lines *)
Definition edit_obs (c : list text * nat * nat * N) : text * (N * list text) :=
  let '(cl, s, e, k) := c in
  let '(rest, reg) := if k =? 0 then delete_range cl s e else if k =? 1 then yank_range cl s e else delete_lines cl s e in
  (concat rest, reg_obs reg).

From Vicut Require Import Model.Cursor.
(** (clusters, cursor) -> (line by characters, line by clusters, byte offset, char) *)
Definition position_obs (c : list text * nat) :=
  let '(cl, cur) := c in
  (line_number_chars cl cur, line_number_clusters cl cur, byte_pos cl cur, char_at cl cur,
   cur - line_start cl (line_number_clusters cl cur))%nat.

From Vicut Require Import Model.Regex Model.Ex.
(** the reference result of a chain of ex commands: the lines of the buffer,
    and whether the buffer was ever empty on the way (Vim keeps one empty line
    then, so the comparison of the reference with Vim leaves those runs out) *)
Fixpoint ex_trace (s : estate) (cs : list ecmd) : list estate :=
  match cs with [] => [s] | c :: cs' => s :: ex_trace (estep s c) cs' end.
Definition ex_obs (c : text * list ecmd) : list text * bool * bool :=
  let tr := ex_trace (einit (fst c)) (snd c) in
  (e_lines (erun (fst c) (snd c)),
   existsb (fun s => match e_lines s with [] => true | _ => false end) tr,
   (* the last line was empty at some point: without a terminator such a line has no text to stand for it *)
   existsb (fun s => match rev (e_lines s) with [] :: _ => true | _ => false end) tr).

From Vicut Require Import Model.Vic.
(** the reference run of a vic program: (0, output) finished, (1, output so far) error, (2, _) out of fuel *)
Definition vic_obs (c : list (text * val) * list stmt) : N * text :=
  match run_prog (N.to_nat 6000) (fst c) (snd c) with
  | RNormal st | RBreak st | RContinue st | RReturn _ st => (0, output st)
  | RErr => (1, [])
  | RFuel => (2, [])
  end.

From Vicut Require Import Model.Motions.
(** the cursor after a counted motion *)
Definition motion_obs (c : text * motion * nat * nat) : N :=
  let '(t, m, count, i) := c in N.of_nat (move t m count i).

From Vicut Require Import Model.Ops.
(** (operator 0 d / 1 y / 2 c, typed text, text, motion or None for the doubled operator, count, cursor) *)
Definition op_obs (c : N * text * text * option motion * nat * nat) : text * N * option (bool * text) :=
  let '(k, ins, t, m, count, i) := c in
  let k := if k =? 0 then OpDelete else if k =? 1 then OpYank else OpChange in
  let s := match m with Some m => run_op k ins t m count i | None => run_lines k ins t count i end in
  (o_text s, N.of_nat (o_cur s), o_reg s).

(** an operator command followed by a put: (operator case as for [op_obs], put behind the cursor?, count of the put) *)
Definition op_put_obs (c : (N * text * text * option motion * nat * nat) * bool * nat) : text * N * option (bool * text) :=
  let '((k, ins, t, m, count, i), after, pc) := c in
  let k := if k =? 0 then OpDelete else if k =? 1 then OpYank else OpChange in
  let s := match m with Some m => run_op k ins t m count i | None => run_lines k ins t count i end in
  let s' := put after pc s in
  (o_text s', N.of_nat (o_cur s'), o_reg s').

(** an operator over a word text object: (operator, typed text, text, WORD?, "a" rather than "i"?, cursor) *)
Definition obj_obs (c : N * text * text * bool * bool * nat) : text * N * option (bool * text) :=
  let '(k, ins, t, big, include, i) := c in
  let k := if k =? 0 then OpDelete else if k =? 1 then OpYank else OpChange in
  let r := word_object big include t i in
  let s := apply_op k ins (mkO t i None) (match k with OpDelete => delete_promote t r | _ => r end) in
  (o_text s, N.of_nat (o_cur s), o_reg s).

(** an operator over a line motion: (operator, typed text, text, 0 j / 1 k / 2 G / 3 gg, count or None, cursor) *)
Definition opv_obs (c : N * text * text * N * option nat * nat) : text * N * option (bool * text) :=
  let '(k, ins, t, m, count, i) := c in
  let k := if k =? 0 then OpDelete else if k =? 1 then OpYank else OpChange in
  let m := if m =? 0 then VDown else if m =? 1 then VUp else if m =? 2 then VGoto else VFirst in
  let s := run_op_v k ins t m count i in
  (o_text s, N.of_nat (o_cur s), o_reg s).

(** a case operator: (0 g~ / 1 gU / 2 gu, text, motion or None for the doubled operator, count, cursor) *)
Definition case_obs (c : N * text * option motion * nat * nat) : text * N :=
  let '(k, t, m, count, i) := c in
  let k := if k =? 0 then CToggle else if k =? 1 then CUpper else CLower in
  let s := match m with Some m => run_case k t m count i | None => run_case_lines k t count i end in
  (o_text s, N.of_nat (o_cur s)).
(** ~ and r: (None for ~ or Some c for r c, text, count, cursor) *)
Definition tilde_obs (c : option N * text * nat * nat) : text * N :=
  let '(r, t, count, i) := c in
  let s := match r with Some ch => run_replace t ch count i | None => run_tilde t count i end in
  (o_text s, N.of_nat (o_cur s)).

(** J: (text, count, cursor) *)
Definition join_obs (c : text * nat * nat) : text * N :=
  let '(t, count, i) := c in let s := run_join t count i in (o_text s, N.of_nat (o_cur s)).

(** an operator over a line motion followed by a put *)
Definition opv_put_obs (c : (N * text * text * N * option nat * nat) * bool * nat) : text * N * option (bool * text) :=
  let '((k, ins, t, m, count, i), after, pc) := c in
  let k := if k =? 0 then OpDelete else if k =? 1 then OpYank else OpChange in
  let m := if m =? 0 then VDown else if m =? 1 then VUp else if m =? 2 then VGoto else VFirst in
  let s' := put after pc (run_op_v k ins t m count i) in
  (o_text s', N.of_nat (o_cur s'), o_reg s').

(** j / k as motions: (text, down?, count, cursor) *)
Definition vert_obs (c : text * bool * nat * nat) : N :=
  let '(t, down, count, i) := c in N.of_nat (move_vert t down count i).

(** the write phase in two passes with [--backup]: (files present when it starts, payloads in argument order) ->
    (files afterwards, 0 done / 1 failed) *)
Definition two_phase_obs (c : list (text * option text) * list (text * text)) : list (text * option text) * N :=
  let '(fso, l) := c in
  let o := mkDO (FStandard [32]) false true true (map fst l) in
  match emit_two_phase o l (mkD (fs_of_obs fso) []) with
  | (s', Done) => (fs_obs (d_fs s'), 0)
  | (s', Failed _) => (fs_obs (d_fs s'), 1)
  end.

(** an operator command, a counted put, and the same put again without a count (the count is the command's own: it does
    not stay for the next one) *)
Definition op_put_put_obs (c : (N * text * text * option motion * nat * nat) * bool * nat) : text * N * option (bool * text) :=
  let '((k, ins, t, m, count, i), after, pc) := c in
  let k := if k =? 0 then OpDelete else if k =? 1 then OpYank else OpChange in
  let s := match m with Some m => run_op k ins t m count i | None => run_lines k ins t count i end in
  let s' := put after 1 (put after pc s) in
  (o_text s', N.of_nat (o_cur s'), o_reg s').
