(** Observation functions used by the correspondence harness: they turn model
    values into plain tuples that print compactly and parse easily. *)
From Vicut Require Import Base.Prelude Model.Args Spec.Items.

Definition opts_obs (o : opts) :=
  (o_delimiter o, o_template o,
   [o_inplace o; o_json o; o_trace o; o_linewise o; o_trim o; o_keep_mode o;
    o_backup o; o_serial o; o_gln o; o_silent o],
   o_cmds o, o_files o).

Definition parse_obs (files : list text) (args : list text) :=
  match parse (fun p => mem_text p files) args with
  | Ok o => Ok (opts_obs o)
  | Exit1 => Exit1
  | Panic s => Panic s
  | OutOfFuel => OutOfFuel
  end.

From Vicut Require Import Model.Format.

Definition fmt_of (k : N) (arg : text) : fmt :=
  if k =? 0 then FJson else if k =? 1 then FTemplate arg else FStandard arg.
Definition fmt_obs (c : N * text * list record) : outcome text :=
  let '(k, arg, recs) := c in format_output (fmt_of k arg) recs.

(** record assembly from per-command results: [(kind, name, result)] with kind
    0 = cut, 1 = named cut, 2 = -n; then the end of [execute]. *)
Definition assemble_obs (c : list (N * text * option text) * (bool * bool * bool * text)) : list record :=
  let '(steps, (silent, print_buffer, trim, buffer)) := c in
  ctx_finish silent print_buffer trim buffer
    (fold_left (fun cx st => let '(k, nm, res) := st in
                             if k =? 2 then ctx_break cx
                             else ctx_field (if k =? 1 then Some nm else None) res cx)
               steps ctx0).
