(** Model of the undo machinery of [LineBuf] (src/linebuf.rs): [Edit],
    [handle_edit], the bookkeeping of [exec_cmd], [Verb::Undo]/[Verb::Redo].
    What a command does to the text is a parameter of the operation. *)
From Vicut Require Import Base.Prelude.

Record edit := mkEdit { e_old : text; e_new : text; e_merging : bool }.

(** stacks are kept top first *)
Record ustate := mkU { u_buf : text; u_undo : list edit; u_redo : list edit }.

(** how a command relates to insert sessions: a typed character (InsertChar, ReplaceChar) continues the open
    record; c, o and O open one for the text typed after them; everything else, r included, stands alone *)
Inductive ckind := KPlain | KOpens | KContinues.
Definition continues (k : ckind) : bool := match k with KContinues => true | _ => false end.
Definition sessiony (k : ckind) : bool := match k with KPlain => false | _ => true end.

Inductive uop :=
| OCmd (pre : option text) (after : text) (kind : ckind)
    (* a command that is not u / <c-r>: the text it leaves. [pre] is the text
       [handle_block_insert] left just before the command ran, when leaving a
       block insert copied the typed text to the other lines of the block *)
| OUndo
| ORedo
| OBoundary.    (* the end of a key string ([set_normal_mode]): an insert session left open is over, its record is closed *)

Definition stop_merge (l : list edit) : list edit :=
  match l with e :: l' => mkEdit (e_old e) (e_new e) false :: l' | [] => [] end.
Definition start_merge (l : list edit) : list edit :=
  match l with e :: l' => mkEdit (e_old e) (e_new e) true :: l' | [] => [] end.
Definition top_merging (l : list edit) : bool :=
  match l with e :: _ => e_merging e | [] => false end.

(** [handle_edit(before, after)] *)
Definition handle_edit (undo : list edit) (before after : text) : list edit :=
  if top_merging undo then
    match undo with
    | e :: l' => mkEdit (e_old e) after (e_merging e) :: l'
    | [] => [mkEdit before after false]
    end
  else mkEdit before after false :: undo.

(** [handle_block_insert]: the copies are made in place and the newest record is
    made to cover them; with no record there is nothing to copy *)
Definition amend (s : ustate) (pre : option text) : ustate :=
  match pre, u_undo s with
  | Some p, e :: l => mkU p (mkEdit (e_old e) p (e_merging e) :: l) (u_redo s)
  | _, _ => s
  end.

(** [LineBuf::exec_cmd] as far as text and stacks are concerned: a command
    that is not u / <c-r> and leaves the text [after] *)
Definition cmd_step (s : ustate) (after : text) (k : ckind) : ustate :=
  let was := top_merging (u_undo s) in
  let undo1 := if was && negb (continues k) then stop_merge (u_undo s) else u_undo s in
  let undo2 := if text_eqb (u_buf s) after then undo1 else handle_edit undo1 (u_buf s) after in
  (* only a record made by this command, or one that was already open, takes the following characters *)
  let own := Nat.ltb (length (u_undo s)) (length undo2) || (continues k && was) in
  let undo3 := if sessiony k && own then start_merge undo2 else undo2 in
  mkU after undo3 [].                                  (* clear_redos *)

Definition ustep (s : ustate) (o : uop) : ustate :=
  match o with
  | OCmd pre after k => cmd_step (amend s pre) after k
  | OUndo =>
    let undo1 := if top_merging (u_undo s) then stop_merge (u_undo s) else u_undo s in
    match undo1 with
    | [] => mkU (u_buf s) undo1 (u_redo s)
    | e :: l' => mkU (e_old e) l' (mkEdit (e_new e) (e_old e) false :: u_redo s)
    end
  | OBoundary => mkU (u_buf s) (stop_merge (u_undo s)) (u_redo s)
  | ORedo =>
    let undo1 := if top_merging (u_undo s) then stop_merge (u_undo s) else u_undo s in
    match u_redo s with
    | [] => mkU (u_buf s) undo1 (u_redo s)
    | e :: l' => mkU (e_old e) (mkEdit (e_new e) (e_old e) false :: undo1) l'
    end
  end.

Definition uinit (t : text) : ustate := mkU t [] [].
Definition urun (t : text) (ops : list uop) : ustate := fold_left ustep ops (uinit t).
