(** Model of the editing primitives of [LineBuf] on the buffer seen as its list
    of grapheme clusters, and of the registers (src/register.rs):
    [drain], [slice], [get_register_content] for charwise ranges and whole
    lines, [insert_register_content], [replace_at], the case/rot13 verbs. *)
From Vicut Require Import Base.Prelude Model.Text.

Inductive regcontent := RSpan (t : text) | RLine (t : text) | RBlock (rows : list text) | REmpty.

(** [Register::write] / [Register::append] *)
Definition reg_write (old new : regcontent) : regcontent := new.
Definition reg_append (old new : regcontent) : regcontent :=
  match new with
  | REmpty => old
  | RSpan s | RLine s =>
    match old with
    | REmpty => new
    | RSpan e => RSpan (e ++ s)
    | RLine e => RLine (e ++ s)
    | RBlock _ => new
    end
  | RBlock v =>
    match old with
    | RBlock e => RBlock (e ++ v)
    | _ => RBlock v
    end
  end.

(** an upper-case register name appends, a lower-case one overwrites *)
Definition reg_store (upper : bool) (old new : regcontent) : regcontent :=
  if upper then reg_append old new else reg_write old new.

(** [drain(s, e)]: clusters [s, e) removed; [slice(s..e)]: the same clusters read *)
Definition drain (cl : list text) (s e : nat) : list text * text :=
  (firstn s cl ++ skipn e cl, concat (sub_clusters cl s e)).
Definition slice (cl : list text) (s e : nat) : text := concat (sub_clusters cl s e).

(** [Delete]/[Change] (drain) and [Yank] (slice) over a charwise range *)
Definition delete_range (cl : list text) (s e : nat) : list text * regcontent :=
  let '(rest, removed) := drain cl s e in (rest, RSpan removed).
Definition yank_range (cl : list text) (s e : nat) : list text * regcontent :=
  (cl, RSpan (slice cl s e)).
(** ... and over whole lines ([dd], [yy], [:d], [:y]) *)
(** a line in a register always carries its line break: it is supplied for the
    unterminated last line *)
Definition with_newline (t : text) : text :=
  match rev t with
  | [] => []
  | c :: _ => if c =? 10 then t else t ++ [10]
  end.
Definition delete_lines (cl : list text) (s e : nat) : list text * regcontent :=
  let '(rest, removed) := drain cl s e in (rest, RLine (with_newline removed)).

(** [insert_register_content] for a Span register at cluster index [i]; the
    inserted text becomes clusters of its own ([seg] re-segments it) *)
Definition insert_span (cl : list text) (i : nat) (pieces : list text) : list text :=
  firstn i cl ++ pieces ++ skipn i cl.

(** [replace_at(i, new)] with a one-cluster replacement *)
Definition replace_cluster (cl : list text) (i : nat) (new : text) : list text :=
  match nth_error cl i with
  | None => cl ++ [new]
  | Some c => if text_eqb c [10] then firstn i cl ++ [new] ++ skipn i cl   (* pushes the newline forward *)
              else firstn i cl ++ [new] ++ skipn (S i) cl
  end.

(** the case verbs touch single ASCII letters only *)
Definition is_lower (c : N) : bool := (97 <=? c) && (c <=? 122).
Definition is_upper (c : N) : bool := (65 <=? c) && (c <=? 90).
Definition toggle_char (c : N) : N := if is_lower c then c - 32 else if is_upper c then c + 32 else c.
Definition lower_char (c : N) : N := if is_upper c then c + 32 else c.
Definition upper_char (c : N) : N := if is_lower c then c - 32 else c.
Definition rot13_char (c : N) : N :=
  if is_lower c then 97 + (c - 97 + 13) mod 26
  else if is_upper c then 65 + (c - 65 + 13) mod 26 else c.

(** a case verb over clusters [s, e): clusters of exactly one character are
    mapped through [f], everything else is left alone *)
Definition map_cluster (f : N -> N) (c : text) : text :=
  match c with [x] => [f x] | _ => c end.
Definition case_range (f : N -> N) (cl : list text) (s e : nat) : list text :=
  firstn s cl ++ map (map_cluster f) (sub_clusters cl s e) ++ skipn e cl.
(** rot13 maps every character of the span (it works on the string) *)
Definition rot13_range (cl : list text) (s e : nat) : list text :=
  firstn s cl ++ map (map rot13_char) (sub_clusters cl s e) ++ skipn e cl.
