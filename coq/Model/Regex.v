(** A small backtracking regular-expression matcher over code points, with the
    leftmost-first semantics of the Rust regex crate on the fragment the
    generators use: literals, [.], classes [[abc]] [[^abc]] [[a-z]], [\d],
    the postfix operators [*] [+] [?] on one atom, and the anchors [^] [$].
    A line never contains a newline, so [.] matches every character. *)
From Vicut Require Import Base.Prelude.

Inductive atom :=
| AChar (c : N)
| AAny
| AClass (neg : bool) (ranges : list (N * N)).     (* [\d] is [AClass false [(48,57)]] *)

Inductive ritem :=
| ROne (a : atom) | RStar (a : atom) | RPlus (a : atom) | ROpt (a : atom).

Record regex := mkRe { re_bol : bool; re_items : list ritem; re_eol : bool }.

Fixpoint in_ranges (c : N) (rs : list (N * N)) : bool :=
  match rs with
  | [] => false
  | (lo, hi) :: rs' => ((lo <=? c) && (c <=? hi)) || in_ranges c rs'
  end.

Definition amatch (a : atom) (c : N) : bool :=
  match a with
  | AChar d => c =? d
  | AAny => true
  | AClass neg rs => xorb neg (in_ranges c rs)
  end.

(** greedy repetition of [a], then the continuation [k]; the result is the
    number of characters consumed. Longest repetition first (leftmost-first). *)
Fixpoint star (a : atom) (k : text -> option nat) (t : text) : option nat :=
  match t with
  | c :: t' =>
    if amatch a c then
      match star a k t' with
      | Some n => Some (S n)
      | None => k t
      end
    else k t
  | [] => k t
  end.

(** match the items at the start of [t]; [eol] demands the end of the line *)
Fixpoint mhere (items : list ritem) (eol : bool) (t : text) : option nat :=
  match items with
  | [] => if eol then match t with [] => Some O | _ => None end else Some O
  | ROne a :: r =>
    match t with
    | c :: t' => if amatch a c then option_map S (mhere r eol t') else None
    | [] => None
    end
  | RStar a :: r => star a (mhere r eol) t
  | RPlus a :: r =>
    match t with
    | c :: t' => if amatch a c then option_map S (star a (mhere r eol) t') else None
    | [] => None
    end
  | ROpt a :: r =>
    match t with
    | c :: t' =>
      if amatch a c then
        match mhere r eol t' with
        | Some n => Some (S n)
        | None => mhere r eol t
        end
      else mhere r eol t
    | [] => mhere r eol t
    end
  end.

(** leftmost match at or after the start of [t]: (offset, length). [at0] tells
    whether [t] starts at the beginning of the line (for [^]). *)
Fixpoint find_from (re : regex) (at0 : bool) (t : text) : option (nat * nat) :=
  let here := if re_bol re && negb at0 then None else mhere (re_items re) (re_eol re) t in
  match here with
  | Some n => Some (O, n)
  | None =>
    match t with
    | [] => None
    | _ :: t' =>
      match find_from re false t' with
      | Some (s, n) => Some (S s, n)
      | None => None
      end
    end
  end.

Definition find (re : regex) (line : text) : option (nat * nat) := find_from re true line.
Definition matches (re : regex) (line : text) : bool :=
  match find re line with Some _ => true | None => false end.

(** replace the first match *)
Definition subst_first (re : regex) (rep line : text) : text :=
  match find re line with
  | Some (s, n) => firstn s line ++ rep ++ skipn (s + n) line
  | None => line
  end.

(** replace every match, left to right, never overlapping; an empty match is
    not taken where the previous match ended, and after an empty match the
    scan moves on by one character (regex::find_iter) *)
Fixpoint subst_all_from (fuel : nat) (re : regex) (rep : text) (at0 : bool) (prev_end_here : bool)
         (t : text) : text :=
  match fuel with
  | O => t
  | S f =>
    match find_from re at0 t with
    | None => t
    | Some (s, n) =>
      match n with
      | O =>
        (* empty match at offset s *)
        if (Nat.eqb s 0) && prev_end_here then
          match t with
          | [] => []
          | c :: t' => c :: subst_all_from f re rep false false t'
          end
        else
          match skipn s t with
          | [] => firstn s t ++ rep
          | c :: t' => firstn s t ++ rep ++ c :: subst_all_from f re rep false false t'
          end
      | S _ =>
        firstn s t ++ rep ++ subst_all_from f re rep false true (skipn (s + n) t)
      end
    end
  end.

Definition subst_all (re : regex) (rep line : text) : text :=
  subst_all_from (S (S (length line))) re rep true false line.

Definition subst_line (re : regex) (rep : text) (g : bool) (line : text) : text :=
  if g then subst_all re rep line else subst_first re rep line.
