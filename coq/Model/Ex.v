(** The line-oriented reference semantics of the ex commands (property C16):
    a buffer is a list of lines (without terminators); a command addresses
    lines by number and changes exactly those. This is the specification the
    implementation (src/modes/ex.rs, LineBuf::exec_verb for Delete / Yank / Put /
    Substitute with line motions, ViCut::exec_ex_global / exec_ex_normal) is
    compared against; it follows Vim's rules for addresses. *)
From Vicut Require Import Base.Prelude Model.Regex.

(** ** Text <-> lines. A final line without terminator is a line like any
    other; the text after a final newline is not a line. *)
Fixpoint split_lines_aux (cur : text) (t : text) : list text :=
  match t with
  | [] => match cur with [] => [] | _ => [cur] end
  | c :: t' => if c =? 10 then cur :: split_lines_aux [] t' else split_lines_aux (cur ++ [c]) t'
  end.
Definition split_lines (t : text) : list text := split_lines_aux [] t.
Definition join_lines (ls : list text) : text := flat_map (fun l => l ++ [10]) ls.

(** ** Addresses *)
Inductive addr := ANum (n : nat) | ACur | ALast | AOff (neg : bool) (n : nat).
Inductive range := RDefault | ROne_ (a : addr) | RTwo (a b : addr) | RAll.

Record estate := mkE {
  e_lines : list text;
  e_cur : nat;                 (* cursor line, 1-based; 1 on an empty buffer *)
  e_reg : list text }.         (* the unnamed register after a linewise yank / delete *)

Definition nlines (s : estate) : nat := length (e_lines s).

(** line number an address denotes; may be past the last line. An offset that
    would lead before line 0 is invalid ([None]). *)
Definition eval_addr (s : estate) (a : addr) : option nat :=
  match a with
  | ANum n => Some n
  | ACur => Some (e_cur s)
  | ALast => Some (nlines s)
  | AOff false n => Some (e_cur s + n)%nat
  | AOff true n => if Nat.leb n (e_cur s) then Some (e_cur s - n)%nat else None
  end.

(** the addressed lines [lo..hi], 1-based inclusive: number 0 is read as 1, a
    backwards range is swapped, a range that reaches past the last line is
    invalid ([None]: the command does nothing) *)
Definition fix0 (n : nat) : nat := match n with O => 1%nat | _ => n end.
Definition valid_range (s : estate) (lo hi : nat) : option (nat * nat) :=
  let lo := fix0 lo in let hi := fix0 hi in
  let '(lo, hi) := if Nat.leb lo hi then (lo, hi) else (hi, lo) in
  if Nat.leb hi (nlines s) then Some (lo, hi) else None.
Definition resolve (s : estate) (r : range) (dflt_all : bool) : option (nat * nat) :=
  match r with
  | RDefault => if dflt_all then valid_range s 1 (nlines s) else valid_range s (e_cur s) (e_cur s)
  | ROne_ a => match eval_addr s a with Some n => valid_range s n n | None => None end
  | RTwo a b =>
    match eval_addr s a, eval_addr s b with
    | Some n, Some m => valid_range s n m
    | _, _ => None
    end
  | RAll => valid_range s 1 (nlines s)
  end.

(** lines [lo..hi] of a list (1-based inclusive) and what is around them *)
Definition before (lo : nat) (ls : list text) : list text := firstn (lo - 1) ls.
Definition within (lo hi : nat) (ls : list text) : list text := firstn (hi - (lo - 1)) (skipn (lo - 1) ls).
Definition after (hi : nat) (ls : list text) : list text := skipn hi ls.

(** ** Commands *)
Inductive nkeys :=
| NX                 (* x: delete the first character of the line *)
| NDD                (* dd *)
| NAppend (t : text) (* A<t><esc> *)
| NInsert (t : text) (* I<t><esc>: before the first non-blank character *)
| NUpper.            (* gUU, ASCII *)

Inductive gcmd :=
| GDel
| GSub (re : regex) (rep : text) (g : bool)
| GNormal (k : nkeys).

Inductive ecmd :=
| ESub (r : range) (re : regex) (rep : text) (g : bool)
| EDel (r : range)
| EYank (r : range)
| EPut (a : option addr)
| EGlobal (neg : bool) (r : range) (re : regex) (c : gcmd)
| ENormal (r : range) (k : nkeys)
| EGoto (n : nat).            (* a normal-mode [nG] between ex commands *)

Definition clamp_cur (n : nat) (c : nat) : nat :=
  if Nat.leb c 1 then 1%nat else if Nat.leb c n then c else Nat.max 1 n.

Definition to_upper_ascii (c : N) : N := if (97 <=? c) && (c <=? 122) then c - 32 else c.

Definition is_blank (c : N) : bool := (c =? 32) || (c =? 9).
Fixpoint span_blank (l : text) : text * text :=
  match l with
  | c :: l' => if is_blank c then let '(a, b) := span_blank l' in (c :: a, b) else ([], l)
  | [] => ([], [])
  end.

(** what a normal-mode key string does to one line: the new line, or [None]
    when the line is deleted *)
Definition apply_nkeys (k : nkeys) (l : text) : option text :=
  match k with
  | NX => Some (tl l)
  | NDD => None
  | NAppend t => Some (l ++ t)
  | NInsert t => let '(ws, rest) := span_blank l in Some (ws ++ t ++ rest)
  | NUpper => Some (map to_upper_ascii l)
  end.

Definition apply_gcmd (c : gcmd) (l : text) : option text :=
  match c with
  | GDel => None
  | GSub re rep g => Some (subst_line re rep g l)
  | GNormal k => apply_nkeys k l
  end.

(** apply [f] to the lines satisfying [sel]; [None] deletes the line *)
Fixpoint map_sel (sel : text -> bool) (f : text -> option text) (ls : list text) : list text :=
  match ls with
  | [] => []
  | l :: ls' =>
    if sel l then match f l with Some l' => l' :: map_sel sel f ls' | None => map_sel sel f ls' end
    else l :: map_sel sel f ls'
  end.

(** the last (1-based, relative to [lo]) line satisfying [sel], for the cursor *)
Fixpoint last_sel (sel : text -> bool) (ls : list text) (idx : nat) (acc : option nat) : option nat :=
  match ls with
  | [] => acc
  | l :: ls' => last_sel sel ls' (S idx) (if sel l then Some idx else acc)
  end.

(** [:[range]normal!] goes by line number: for [i = lo .. hi] the keys run on
    line [i] of the buffer as it is then (the last line when [i] is past it) *)
Fixpoint replace_nth (i : nat) (ls : list text) (f : text -> option text) : list text :=
  match ls with
  | [] => []
  | l :: ls' =>
    match i with
    | O => match f l with Some l' => l' :: ls' | None => ls' end
    | S i' => l :: replace_nth i' ls' f
    end
  end.
Fixpoint normal_range (count : nat) (i : nat) (k : nkeys) (ls : list text) : list text :=
  match count with
  | O => ls
  | S c =>
    match ls with
    | [] => []
    | _ => normal_range c (S i) k (replace_nth (Nat.min i (length ls) - 1) ls (apply_nkeys k))
    end
  end.

Definition estep (s : estate) (c : ecmd) : estate :=
  let ls := e_lines s in
  match c with
  | EGoto n => mkE ls (clamp_cur (nlines s) n) (e_reg s)
  | EDel r =>
    match resolve s r false with
    | None => s
    | Some (lo, hi) =>
      let ls' := before lo ls ++ after hi ls in
      mkE ls' (clamp_cur (length ls') lo) (within lo hi ls)
    end
  | EYank r =>
    match resolve s r false with
    | None => s
    | Some (lo, hi) => mkE ls (e_cur s) (within lo hi ls)
    end
  | EPut a =>
    (* after the addressed line; address 0: before the first line *)
    match (match a with Some a => eval_addr s a | None => Some (e_cur s) end) with
    | None => s
    | Some n =>
      if Nat.leb n (nlines s) then
        match e_reg s with
        | [] => s
        | reg => mkE (firstn n ls ++ reg ++ skipn n ls) (n + length reg)%nat reg
        end
      else s
    end
  | ESub r re rep g =>
    match resolve s r false with
    | None => s
    | Some (lo, hi) =>
      let mid := within lo hi ls in
      let cur := match last_sel (matches re) mid lo None with Some i => i | None => e_cur s end in
      mkE (before lo ls ++ map (subst_line re rep g) mid ++ after hi ls) cur (e_reg s)
    end
  | EGlobal neg r re c =>
    match resolve s r true with
    | None => s
    | Some (lo, hi) =>
      let sel l := xorb neg (matches re l) in
      let mid := within lo hi ls in
      let ls' := before lo ls ++ map_sel sel (apply_gcmd c) mid ++ after hi ls in
      let reg := match c with
                 | GDel | GNormal NDD => match rev (filter sel mid) with l :: _ => [l] | [] => e_reg s end
                 | _ => e_reg s
                 end in
      mkE ls' (clamp_cur (length ls') (e_cur s)) reg
    end
  | ENormal r k =>
    match resolve s r false with
    | None => s
    | Some (lo, hi) =>
      let ls' := normal_range (S (hi - lo)) lo k ls in
      mkE ls' (clamp_cur (length ls') hi) (e_reg s)
    end
  end.

Definition einit (t : text) : estate := mkE (split_lines t) 1%nat [].
Definition erun (t : text) (cs : list ecmd) : estate := fold_left estep cs (einit t).
