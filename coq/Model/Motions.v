(** Reference model of the core cursor motions of Vim on a flat buffer (property
    C02): h l 0 ^ $, w b e ge and their WORD forms, f F t T, all with counts.
    The buffer is a list of code points with 10 as the line break; the cursor is
    an index. The cursor is never on the line break of a non-empty line; on an
    empty line it is on that line's break (or at the end of an unterminated
    empty last line).

    The word motions follow Vim's fwd_word / bck_word / end_word / bckend_word:
    blanks are class 0, an empty line is a word, a word ends at the line break. *)
From Vicut Require Import Base.Prelude.

Definition nl : N := 10.
Definition is_blank_c (c : N) : bool := (c =? 32) || (c =? 9) || (c =? nl).
Definition is_wordchar (c : N) : bool :=
  ((48 <=? c) && (c <=? 57)) || ((65 <=? c) && (c <=? 90)) || ((97 <=? c) && (c <=? 122)) || (c =? 95) || (128 <=? c).

(** the class of a character for w/b/e/ge; [big] for the WORD forms *)
Definition cclass (big : bool) (c : N) : N :=
  if is_blank_c c then 0 else if big then 1 else if is_wordchar c then 2 else 1.
Definition class_at (big : bool) (t : text) (i : nat) : N :=
  match nth_error t i with Some c => cclass big c | None => 0 end.
Definition char_at (t : text) (i : nat) : option N := nth_error t i.
Definition is_nl_at (t : text) (i : nat) : bool :=
  match nth_error t i with Some c => c =? nl | None => false end.
(** the line break of an empty line *)
Definition empty_line_at (t : text) (i : nat) : bool :=
  is_nl_at t i && match i with O => true | S j => is_nl_at t j end.

(** one position forward / backward as the cursor sees the text: the line break
    of a non-empty line is not a position *)
Definition step_fwd (t : text) (i : nat) : nat :=
  let n := length t in
  let j := S i in
  if Nat.ltb j n && is_nl_at t j && negb (empty_line_at t j) then Nat.min (S j) n else Nat.min j n.
Definition step_bwd (t : text) (i : nat) : option nat :=
  match i with
  | O => None
  | S j => if is_nl_at t j && negb (empty_line_at t j) then (match j with O => None | S k => Some k end) else Some j
  end.

(** ** w *)
Fixpoint skip_class_fwd (fuel : nat) (big : bool) (t : text) (cls : N) (i : nat) : nat :=
  match fuel with
  | O => i
  | S f =>
    if Nat.ltb i (length t) && (class_at big t i =? cls) && negb (empty_line_at t i) then
      let j := step_fwd t i in
      if Nat.eqb j (S i) then skip_class_fwd f big t cls j else j      (* a word ends at the line break *)
    else i
  end.
Fixpoint skip_blank_fwd (fuel : nat) (big : bool) (t : text) (i : nat) : nat :=
  match fuel with
  | O => i
  | S f =>
    if Nat.ltb i (length t) && (class_at big t i =? 0) && negb (empty_line_at t i)
    then skip_blank_fwd f big t (step_fwd t i) else i
  end.
Definition word_fwd1 (big : bool) (t : text) (i : nat) : nat :=
  let n := length t in
  if Nat.leb n i then n else
  let c0 := class_at big t i in
  let j := step_fwd t i in
  let crossed := negb (Nat.eqb j (S i)) in
  let j := if negb (c0 =? 0) && negb crossed then skip_class_fwd n big t c0 j else j in
  skip_blank_fwd n big t j.

(** ** b *)
Fixpoint skip_blank_bwd (fuel : nat) (big : bool) (t : text) (i : nat) : option nat :=
  (* [None]: ran into the start of the text *)
  match fuel with
  | O => Some i
  | S f =>
    if (class_at big t i =? 0) then
      if empty_line_at t i then Some i
      else match step_bwd t i with Some j => skip_blank_bwd f big t j | None => None end
    else Some i
  end.
Fixpoint to_word_start (fuel : nat) (big : bool) (t : text) (cls : N) (i : nat) : nat :=
  match fuel with
  | O => i
  | S f =>
    match step_bwd t i with
    | None => i
    | Some j =>
      if Nat.eqb (S j) i && (class_at big t j =? cls) && negb (empty_line_at t j)
      then to_word_start f big t cls j else i
    end
  end.
Definition word_bwd1 (big : bool) (t : text) (i : nat) : nat :=
  let n := length t in
  match step_bwd t (Nat.min i n) with
  | None => O
  | Some j =>
    match skip_blank_bwd (S n) big t j with
    | None => O
    | Some k =>
      if empty_line_at t k && (class_at big t k =? 0) then k
      else to_word_start n big t (class_at big t k) k
    end
  end.

(** ** e *)
Fixpoint to_word_end (fuel : nat) (big : bool) (t : text) (cls : N) (i last : nat) : nat :=
  match fuel with
  | O => last
  | S f =>
    if Nat.ltb i (length t) && (class_at big t i =? cls) && negb (empty_line_at t i) then
      let j := step_fwd t i in
      if Nat.eqb j (S i) then to_word_end f big t cls j i else i
    else last
  end.
Fixpoint skip_blank_fwd_all (fuel : nat) (big : bool) (t : text) (i last : nat) : nat * nat :=
  (* over blanks, empty lines included; returns (position, last blank passed) *)
  match fuel with
  | O => (i, last)
  | S f =>
    if Nat.ltb i (length t) && (class_at big t i =? 0)
    then skip_blank_fwd_all f big t (step_fwd t i) i else (i, last)
  end.
Definition end_fwd1 (big : bool) (t : text) (i : nat) : nat :=
  let n := length t in
  if Nat.leb n i then n else
  let c0 := class_at big t i in
  let j := step_fwd t i in
  if Nat.leb n j then i else
  if Nat.eqb j (S i) && (class_at big t j =? c0) && negb (c0 =? 0) && negb (empty_line_at t j)
  then to_word_end n big t c0 j j
  else
    let '(k, last) := skip_blank_fwd_all n big t j j in
    if Nat.leb n k then last else to_word_end n big t (class_at big t k) k k.

(** ** ge *)
Fixpoint skip_class_bwd (fuel : nat) (big : bool) (t : text) (cls : N) (i : nat) : option nat :=
  match fuel with
  | O => Some i
  | S f =>
    if (class_at big t i =? cls) && negb (empty_line_at t i) then
      match step_bwd t i with
      | None => None
      | Some j => if Nat.eqb (S j) i then skip_class_bwd f big t cls j else Some j
      end
    else Some i
  end.
Definition end_bwd1 (big : bool) (t : text) (i : nat) : nat :=
  let n := length t in
  let c0 := class_at big t i in
  let from := Nat.min i n in
  match step_bwd t from with
  | None => O
  | Some j =>
    let crossed := negb (Nat.eqb (S j) from) in
    let r := if negb (c0 =? 0) && negb crossed then skip_class_bwd (S n) big t c0 j else Some j in
    match r with
    | None => O
    | Some k => match skip_blank_bwd (S n) big t k with Some m => m | None => O end
    end
  end.

(** ** lines *)
Fixpoint line_start_from (t : text) (i : nat) : nat :=
  (* index of the first character of the line that position [i] is on *)
  match i with
  | O => O
  | S j => if is_nl_at t j then i else line_start_from t j
  end.
Fixpoint find_nl (t : text) (i fuel : nat) : nat :=
  (* the line break at or after [i], or the length of the text *)
  match fuel with
  | O => i
  | S f => if Nat.leb (length t) i then length t else if is_nl_at t i then i else find_nl t (S i) f
  end.
Definition line_end (t : text) (i : nat) : nat := find_nl t i (S (length t)).   (* exclusive, before the break *)
Definition last_col (t : text) (i : nat) : nat :=
  let s := line_start_from t i in let e := line_end t i in Nat.max s (e - 1).

(** the cursor of normal mode: inside the text, never on the break of a non-empty line *)
Definition settle (t : text) (i : nat) : nat :=
  let n := length t in
  let i := Nat.min i (n - 1) in
  if is_nl_at t i && negb (empty_line_at t i) then i - 1 else i.

(** ** the motions *)
Inductive motion :=
| MLeft | MRight | MLineStart | MFirstNonBlank | MLineEnd
| MWord (big : bool) | MBack (big : bool) | MEnd (big : bool) | MBackEnd (big : bool)
| MFind (c : N) | MFindBack (c : N) | MTill (c : N) | MTillBack (c : N).

Fixpoint iter {A} (n : nat) (f : A -> A) (x : A) : A :=
  match n with O => x | S k => iter k f (f x) end.

Fixpoint find_fwd (t : text) (c : N) (i e : nat) (fuel : nat) : option nat :=
  match fuel with
  | O => None
  | S f => if Nat.leb e i then None else
           match nth_error t i with
           | Some d => if d =? c then Some i else find_fwd t c (S i) e f
           | None => None
           end
  end.
Fixpoint find_bwd (t : text) (c : N) (s i : nat) : option nat :=
  (* the last occurrence in [s, i) *)
  match i with
  | O => None
  | S j => if Nat.ltb j s then None else
           match nth_error t j with
           | Some d => if d =? c then Some j else find_bwd t c s j
           | None => find_bwd t c s j
           end
  end.
Fixpoint nth_occ_fwd (t : text) (c : N) (e : nat) (count : nat) (i : nat) : option nat :=
  match count with
  | O => Some i
  | S k => match find_fwd t c (S i) e (length t) with Some j => nth_occ_fwd t c e k j | None => None end
  end.
Fixpoint nth_occ_bwd (t : text) (c : N) (s : nat) (count : nat) (i : nat) : option nat :=
  match count with
  | O => Some i
  | S k => match find_bwd t c s (Nat.min i (line_end t s)) with Some j => nth_occ_bwd t c s k j | None => None end
  end.
Fixpoint first_nonblank (t : text) (i e : nat) (fuel : nat) : nat :=
  match fuel with
  | O => i
  | S f => if Nat.leb e i then Nat.max (e - 1) (line_start_from t (e - 1)) else
           match nth_error t i with
           | Some c => if (c =? 32) || (c =? 9) then first_nonblank t (S i) e f else i
           | None => i
           end
  end.

(** the cursor after [count][motion] from cursor [i] (plain movement, normal mode) *)
Definition move (t : text) (m : motion) (count : nat) (i : nat) : nat :=
  let count := Nat.max count 1 in
  let s := line_start_from t i in
  let e := line_end t i in
  match m with
  | MLeft => Nat.max s (i - count)
  | MRight => Nat.min (i + count) (Nat.max s (e - 1))
  | MLineStart => s
  | MFirstNonBlank => if Nat.eqb s e then s else first_nonblank t s e (S (length t))
  | MLineEnd => Nat.max s (e - 1)      (* count 1 only *)
  | MWord big => settle t (iter count (word_fwd1 big t) i)
  | MBack big => iter count (word_bwd1 big t) i
  | MEnd big => settle t (iter count (end_fwd1 big t) i)
  | MBackEnd big => iter count (end_bwd1 big t) i
  | MFind c => match nth_occ_fwd t c e count i with Some j => j | None => i end
  | MFindBack c => match nth_occ_bwd t c s count i with Some j => j | None => i end
  | MTill c => match nth_occ_fwd t c e count i with Some j => j - 1 | None => i end
  | MTillBack c => match nth_occ_bwd t c s count i with Some j => S j | None => i end
  end.
