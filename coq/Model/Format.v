(** Model of the output side of src/main.rs: records, the three formatters,
    [trim_fields], [get_lines], and the record bookkeeping of [exec_cmd]. *)
From Vicut Require Import Base.Prelude.

Definition field := (text * text)%type.        (* (name, value) *)
Definition record := list field.

(** ** JSON ([format_output_json], serde_json pretty printer, BTreeMap keys) *)

Definition hex_digit (n : N) : N := if n <? 10 then 48 + n else 87 + n.   (* lower case *)

(** serde_json's string escaping; non-ASCII is written as is. *)
Definition json_escape_char (c : N) : text :=
  if c =? 34 then [92; 34]
  else if c =? 92 then [92; 92]
  else if c =? 8 then [92; 98]
  else if c =? 12 then [92; 102]
  else if c =? 10 then [92; 110]
  else if c =? 13 then [92; 114]
  else if c =? 9 then [92; 116]
  else if c <? 32 then [92; 117; 48; 48; hex_digit (c / 16); hex_digit (c mod 16)]
  else [c].
Definition json_string (s : text) : text := 34 :: flat_map json_escape_char s ++ [34].

(** Lexicographic order on code points (= byte order of the UTF-8 encodings). *)
Fixpoint text_ltb (a b : text) : bool :=
  match a, b with
  | [], [] => false
  | [], _ :: _ => true
  | _ :: _, [] => false
  | x :: a', y :: b' => if x <? y then true else if y <? x then false else text_ltb a' b'
  end.

(** [Map::insert] into the sorted map: a later value replaces an earlier one. *)
Fixpoint map_insert (k v : text) (m : record) : record :=
  match m with
  | [] => [(k, v)]
  | (k', v') :: m' =>
    if text_eqb k k' then (k, v) :: m'
    else if text_ltb k k' then (k, v) :: m
    else (k', v') :: map_insert k v m'
  end.
Definition to_map (r : record) : record :=
  fold_left (fun m kv => map_insert (fst kv) (snd kv) m) r [].

Fixpoint join (sep : text) (l : list text) : text :=
  match l with
  | [] => []
  | [x] => x
  | x :: l' => x ++ sep ++ join sep l'
  end.

(** serde_json values and its pretty printer (2-space indent). *)
Inductive jv := JStr (s : text) | JArr (l : list jv) | JObj (m : list (text * jv)).

Definition spaces (n : nat) : text := repeat 32 n.

Fixpoint pretty (ind : nat) (v : jv) {struct v} : text :=
  match v with
  | JStr s => json_string s
  | JArr [] => T "[]"
  | JArr l =>
    T "[" ++ [10]
      ++ join [44; 10] (map (fun x => spaces (ind + 2) ++ pretty (ind + 2) x) l)
      ++ [10] ++ spaces ind ++ T "]"
  | JObj [] => T "{}"
  | JObj m =>
    T "{" ++ [10]
      ++ join [44; 10] (map (fun kv => spaces (ind + 2) ++ json_string (fst kv) ++ T ": "
                                              ++ pretty (ind + 2) (snd kv)) m)
      ++ [10] ++ spaces ind ++ T "}"
  end.

Definition is_nil {A} (l : list A) : bool := match l with [] => true | _ => false end.

Definition jv_record (r : record) : jv :=
  JObj (map (fun kv => (fst kv, JStr (snd kv))) (to_map r)).

Definition format_json (recs : list record) : text :=
  if forallb is_nil recs then [] else pretty 0 (JArr (map jv_record recs)).

(** [format_output_json_files]: one object per file. *)
Definition format_json_files (files : list (text * list record)) : text :=
  pretty 0 (JArr (map (fun pf => JObj [(T "__content__", JArr (map jv_record (snd pf)));
                                       (T "__filename__", JStr (fst pf))]) files)).

(** ** Standard format ([format_output_standard]) *)
Definition is_sentinel (r : record) : bool :=
  match r with [(k, _)] => text_eqb k (T "0") | _ => false end.
(** every record is a whole buffer (one per line with [--linewise]) *)
Definition no_fields_extracted (recs : list record) : bool :=
  negb (is_nil recs) && forallb is_sentinel recs.

Definition ends_nl (s : text) : bool :=
  match rev s with 10 :: _ => true | _ => false end.

Definition std_line (delim : text) (r : record) : text :=
  let line := join delim (map snd r) in if ends_nl line then line else line ++ [10].

Definition format_standard (delim : text) (recs : list record) : text :=
  if no_fields_extracted recs then flat_map (fun r => flat_map snd r) recs
  else flat_map (std_line delim) recs.

(** ** Template format ([format_output_template]) *)
Fixpoint lookup (name : text) (r : record) : option text :=
  match r with
  | [] => None
  | (k, v) :: r' => if text_eqb k name then Some v else lookup name r'
  end.

(** One pass over the template for one record. [name = None]: outside a
    placeholder; [Some acc]: inside [{{ ... ]. [cur] is the line so far. *)
Fixpoint tmpl_scan (r : record) (name : option text) (cur : text) (t : text) {struct t}
  : option text :=
  match name with
  | None =>
    match t with
    | [] => Some cur
    | 92 :: c :: t' => tmpl_scan r None (cur ++ [c]) t'
    | 92 :: [] => Some cur
    | 123 :: 123 :: t' => tmpl_scan r (Some []) cur t'
    | c :: t' => tmpl_scan r None (cur ++ [c]) t'
    end
  | Some acc =>
    match t with
    | [] => Some (cur ++ acc)                       (* unclosed: the name is copied *)
    | 92 :: c :: t' => tmpl_scan r (Some (acc ++ [c])) cur t'
    | 92 :: [] => Some (cur ++ acc)
    | 125 :: 125 :: t' =>
      match lookup acc r with
      | Some v => tmpl_scan r None (cur ++ v) t'
      | None => None                                (* unknown field: error, exit 1 *)
      end
    | c :: t' => tmpl_scan r (Some (acc ++ [c])) cur t'
    end
  end.

Fixpoint format_template (t : text) (recs : list record) : outcome text :=
  match recs with
  | [] => Ok []
  | r :: recs' =>
    match tmpl_scan r None [] t with
    | None => Exit1
    | Some line =>
      match format_template t recs' with
      | Ok rest => Ok ((if is_nil line then [] else line ++ [10]) ++ rest)
      | e => e
      end
    end
  end.

(** ** [trim_fields]: [str::trim] (Unicode White_Space). *)
Definition is_white_space (c : N) : bool :=
  ((9 <=? c) && (c <=? 13)) || (c =? 32) || (c =? 133) || (c =? 160) || (c =? 5760)
  || ((8192 <=? c) && (c <=? 8202)) || (c =? 8232) || (c =? 8233) || (c =? 8239)
  || (c =? 8287) || (c =? 12288).
Fixpoint trim_start_ws (s : text) : text :=
  match s with c :: s' => if is_white_space c then trim_start_ws s' else s | [] => [] end.
Definition trim_ws (s : text) : text := rev (trim_start_ws (rev (trim_start_ws s))).
Definition trim_fields (recs : list record) : list record :=
  map (map (fun kv => (fst kv, trim_ws (snd kv)))) recs.

(** ** [format_output] *)
Inductive fmt := FJson | FTemplate (t : text) | FStandard (delim : text).
Definition format_output (f : fmt) (recs : list record) : outcome text :=
  match f with
  | FJson => Ok (format_json recs)
  | FTemplate t => format_template t recs
  | FStandard d => Ok (format_standard d recs)
  end.

(** ** [get_lines]: split after every '\n'; a non-empty rest is the last line. *)
Fixpoint get_lines_aux (cur : text) (t : text) : list text :=
  match t with
  | [] => if is_nil cur then [] else [cur]
  | c :: t' => if c =? 10 then (cur ++ [c]) :: get_lines_aux [] t'
               else get_lines_aux (cur ++ [c]) t'
  end.
Definition get_lines (t : text) : list text := get_lines_aux [] t.

(** ** Record bookkeeping of [exec_cmd] / [execute] ([ExecCtx]). *)
Record ctx := mkCtx { field_num : N; fields : record; fmt_lines : list record }.
Definition ctx0 := mkCtx 0 [] [].

Fixpoint dec_digits (fuel : nat) (n : N) (acc : text) : text :=
  match fuel with
  | O => acc
  | S f => let acc' := (48 + n mod 10) :: acc in
           if n <? 10 then acc' else dec_digits f (n / 10) acc'
  end.
Definition show_N (n : N) : text := dec_digits 25 n [].

(** [Cmd::Field] / [Cmd::NamedField]: the counter always advances; a failed
    command ([res = None]) adds no field. *)
Definition ctx_field (name : option text) (res : option text) (c : ctx) : ctx :=
  let n := field_num c + 1 in
  match res with
  | Some v => mkCtx n (fields c ++ [(match name with Some k => k | None => show_N n end, v)]) (fmt_lines c)
  | None => mkCtx n (fields c) (fmt_lines c)
  end.
(** [Cmd::BreakGroup] *)
Definition ctx_break (c : ctx) : ctx :=
  mkCtx 0 [] (if is_nil (fields c) then fmt_lines c else fmt_lines c ++ [fields c]).
(** end of [execute]: pending fields become the last record; with nothing
    extracted the whole buffer may become the sentinel record "0". *)
Definition ctx_finish (silent print_buffer trim : bool) (buffer : text) (c : ctx) : list record :=
  let lines := if is_nil (fields c) then fmt_lines c else fmt_lines c ++ [fields c] in
  if is_nil lines && silent then []
  else
    let lines := if is_nil lines && print_buffer then [[(T "0", buffer)]] else lines in
    if trim then trim_fields lines else lines.
