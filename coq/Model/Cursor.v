(** Model of how [LineBuf] keeps the cursor in agreement with the text: the
    clamp, the end of [exec_cmd] (refresh of the offset cache, pushing the
    cursor off a line terminator) and the position built-ins of vic
    ([line], [col], [pos], [char]). The buffer is its list of clusters. *)
From Vicut Require Import Base.Prelude Model.Text Model.Global.

(** the cursor after the epilogue of [exec_cmd]: clamped into the text, and in
    normal/visual mode ([excl]) never left on the terminator of a non-empty line *)
Definition epilogue_cursor (cl : list text) (cur : nat) (excl : bool) : nat :=
  let ub := (if excl then length cl - 1 else length cl)%nat in
  let c1 := Nat.min cur ub in
  if excl
     && match nth_error cl c1 with Some c => is_nl c | None => false end
     && match c1 with O => false | S p => match nth_error cl p with Some c => negb (is_nl c) | None => false end end
  then (c1 - 1)%nat else c1.

(** [cursor_line_number]: newline *characters* in the text before the cursor *)
Definition count_nl_chars (t : text) : nat := length (filter (fun c => c =? 10) t).
Definition line_number_chars (cl : list text) (cur : nat) : nat :=
  count_nl_chars (concat (firstn cur cl)).
(** [line_bounds] and therefore [col] count newline *clusters* *)
Definition line_number_clusters (cl : list text) (cur : nat) : nat :=
  length (filter is_nl (firstn cur cl)).

(** [pos]: the byte offset of the cursor; [char]: the cluster under it *)
Definition byte_pos (cl : list text) (cur : nat) : nat := blen (concat (firstn cur cl)).
Definition char_at (cl : list text) (cur : nat) : text :=
  match nth_error cl cur with Some c => c | None => [] end.

(** every newline character is a cluster of its own (false for "\r\n") *)
Definition nl_alone (cl : list text) : Prop :=
  forall c, In c cl -> In 10 c -> c = [10].
