(** Text primitives of [LineBuf] (src/linebuf.rs): the buffer as code points,
    byte offsets as Rust sees them, the cached grapheme offsets, clamped
    indices and the slicing functions. *)
From Vicut Require Import Base.Prelude Model.Keys.

(** ** Bytes *)
Definition u8len (c : N) : nat :=
  if c <? 128 then 1 else if c <? 2048 then 2 else if c <? 65536 then 3 else 4.
Definition blen (t : text) : nat := fold_right (fun c a => u8len c + a)%nat 0%nat t.

(** [str::get(a..)] / [str::get(..n)]: [None] when the offset is not a
    character boundary or out of range *)
Fixpoint drop_bytes (t : text) (a : nat) : option text :=
  match a with
  | O => Some t
  | _ =>
    match t with
    | [] => None
    | c :: t' => if Nat.leb (u8len c) a then drop_bytes t' (a - u8len c) else None
    end
  end.
Fixpoint take_bytes (t : text) (n : nat) : option text :=
  match n with
  | O => Some []
  | _ =>
    match t with
    | [] => None
    | c :: t' =>
      if Nat.leb (u8len c) n then
        match take_bytes t' (n - u8len c) with Some r => Some (c :: r) | None => None end
      else None
    end
  end.
(** [buffer.get(a..b)] *)
Definition get_range (t : text) (a b : nat) : option text :=
  if Nat.leb a b then
    match drop_bytes t a with
    | Some r => take_bytes r (b - a)
    | None => None
    end
  else None.

(** ** Grapheme clusters. A segmentation of a text is the list of its clusters
    (non-empty pieces whose concatenation is the text); the cache holds the byte
    offset of every cluster start. *)
Fixpoint offsets_from (n : nat) (cl : list text) : list nat :=
  match cl with
  | [] => []
  | c :: cl' => n :: offsets_from (n + blen c) cl'
  end.
Definition offsets (cl : list text) : list nat := offsets_from 0 cl.

(** ** [ClampedUsize] *)
Record clamped := mkClamped { cl_val : nat; cl_max : nat; cl_excl : bool }.
Definition upper_bound (c : clamped) : nat :=
  if cl_excl c then cl_max c - 1 else cl_max c.
Definition clamp_new (v max : nat) (excl : bool) : clamped :=
  let c := mkClamped 0 max excl in mkClamped (Nat.min v (upper_bound c)) max excl.
Definition clamp_set (c : clamped) (v : nat) : clamped :=
  mkClamped (Nat.min v (upper_bound c)) (cl_max c) (cl_excl c).
Definition clamp_set_max (c : clamped) (m : nat) : clamped :=
  clamp_set (mkClamped (cl_val c) m (cl_excl c)) (cl_val c).
Definition clamp_add (c : clamped) (n : nat) : clamped := clamp_set c (cl_val c + n).
Definition clamp_sub (c : clamped) (n : nat) : clamped :=
  mkClamped (cl_val c - n) (cl_max c) (cl_excl c).
Definition ret_add (c : clamped) (n : nat) : nat := Nat.min (cl_val c + n) (upper_bound c).
Definition ret_sub (c : clamped) (n : nat) : nat := cl_val c - n.

(** ** Slicing through the cache ([slice], [slice_inclusive] - despite its
    name the end index is exclusive: callers pass end+1). *)
Definition slice_idx (buf : text) (gidx : list nat) (s e : nat) : option text :=
  match nth_error gidx s with
  | None => None
  | Some a =>
    let b := match nth_error gidx e with
             | Some b => Some b
             | None => if Nat.eqb e (length gidx) then Some (blen buf) else None
             end in
    match b with
    | Some b => get_range buf a b
    | None => None
    end
  end.

(** clusters [s, e) of a segmentation *)
Definition sub_clusters (cl : list text) (s e : nat) : list text := firstn (e - s) (skipn s cl).

(** ** [read_field] after the key loop (src/exec.rs:306-344): [c0] is the cursor
    before the command, [c1] after it; [cap] is [cursor.cap()]. *)
Definition field_bounds (c0 c1 cap : nat) : nat * nat :=
  let s := Nat.min c0 c1 in
  let e := (Nat.max c0 c1 + 1)%nat in
  (cl_val (clamp_new s cap true), cl_val (clamp_new e cap false)).

Inductive sel_mode := SelChar | SelLine | SelBlock.
Inductive sel_range := OneDim (s e : nat) | TwoDim (ws : list (nat * nat)).

Fixpoint join_nl (l : list text) : text :=
  match l with
  | [] => []
  | [x] => x
  | x :: l' => x ++ [10] ++ join_nl l'
  end.

(** [selected_content] *)
Definition selected_content (buf : text) (gidx : list nat) (cap : nat)
           (m : sel_mode) (r : sel_range) : option text :=
  match r with
  | OneDim s e =>
    match m with
    | SelChar => slice_idx buf gidx s (Nat.min (e + 1) cap)
    | SelLine => slice_idx buf gidx s e
    | SelBlock => None                       (* unreachable!() in the code *)
    end
  | TwoDim ws =>
    Some (join_nl (flat_map (fun w => match slice_idx buf gidx (fst w) (snd w) with
                                      | Some t => [t] | None => [] end) ws))
  end.

Definition read_field_post (buf : text) (gidx : list nat) (cap : nat) (c0 c1 : nat)
           (sel : option (sel_mode * sel_range)) : option text :=
  match sel with
  | Some (m, r) => selected_content buf gidx cap m r
  | None =>
    match buf with
    | [] => Some []
    | _ => let '(s, e) := field_bounds c0 c1 cap in slice_idx buf gidx s e
    end
  end.
