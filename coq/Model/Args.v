(** Model of [Opts::parse] and [Opts::handle_global_arg] (src/main.rs:161-410):
    the argv list becomes an [opts] record holding a [cmd] tree. *)
From Vicut Require Import Base.Prelude.

Inductive cmd :=
| CNext
| CMove (s : text)
| CCut (s : text)
| CNamed (n s : text)
| CRepeat (body : list cmd) (count : N)
| CGlobal (pol : bool) (pat : text) (th : list cmd) (el : option (list cmd)).

Record opts := mkOpts {
  o_delimiter : option text;
  o_template : option text;
  o_inplace : bool;
  o_json : bool;
  o_trace : bool;
  o_linewise : bool;
  o_trim : bool;
  o_keep_mode : bool;
  o_backup : bool;
  o_serial : bool;
  o_gln : bool;
  o_silent : bool;
  o_cmds : list cmd;
  o_files : list text
}.

Definition opts0 : opts :=
  mkOpts None None false false false false false false false false false false [] [].

Definition set_cmds (o : opts) (c : list cmd) : opts :=
  mkOpts (o_delimiter o) (o_template o) (o_inplace o) (o_json o) (o_trace o)
    (o_linewise o) (o_trim o) (o_keep_mode o) (o_backup o) (o_serial o)
    (o_gln o) (o_silent o) c (o_files o).
Definition push_cmd (o : opts) (c : cmd) : opts := set_cmds o (o_cmds o ++ [c]).

(** [str::parse::<usize>]: optional '+', then one or more ASCII digits, value
    below 2^64. *)
Definition is_digit (c : N) : bool := (48 <=? c) && (c <=? 57).
Fixpoint digits_val (acc : N) (s : text) : option N :=
  match s with
  | [] => Some acc
  | c :: s' => if is_digit c then digits_val (acc * 10 + (c - 48)) s' else None
  end.
Definition parse_usize (s : text) : option N :=
  let body := match s with 43 :: r => r | _ => s end in
  match body with
  | [] => None
  | _ => match digits_val 0 body with
         | Some v => if v <? 18446744073709551616 then Some v else None
         | None => None
         end
  end.

Definition is_flag (a : text) (short long : string) : bool :=
  text_eqb a (T short) || text_eqb a (T long).

(** [args.next().unwrap_or("1").parse::<usize>()] for both operands of [-r]. *)
Definition counts (a b : text) : option (N * N) :=
  match parse_usize a, parse_usize b with
  | Some n, Some r => Some (n, r)
  | _, _ => None
  end.

Definition peek_nondash (args : list text) : bool :=
  match args with a :: _ => negb (starts_dash a) | [] => false end.

(** One activation of [handle_global_arg]: polarity, pattern, [then_cmds],
    [else_cmds]. The Rust recursion (a nested [-g] calls [handle_global_arg]
    again on the same iterator) is modelled with an explicit stack of frames,
    innermost first, which makes the model structurally recursive on the
    argument list. *)
Record frame := mkFrame {
  f_pol : bool; f_pat : text; f_th : list cmd; f_el : option (list cmd) }.

(** The active command list of a scope: [else_cmds] once [--else] was seen. *)
Definition fpush (f : frame) (c : cmd) : frame :=
  match f_el f with
  | Some e => mkFrame (f_pol f) (f_pat f) (f_th f) (Some (e ++ [c]))
  | None => mkFrame (f_pol f) (f_pat f) (f_th f ++ [c]) None
  end.

(** [-r N R]: the last [N] commands of a list (all of them if there are fewer)
    become the body, in order, executed [R+1] times. *)
Definition repeat_last (l : list cmd) (n r : N) : list cmd :=
  let k := N.to_nat n in
  dropn_end k l ++ [CRepeat (lastn k l) (r + 1)].

Definition frepeat (f : frame) (n r : N) : frame :=
  match f_el f with
  | Some e => mkFrame (f_pol f) (f_pat f) (f_th f) (Some (repeat_last e n r))
  | None => mkFrame (f_pol f) (f_pat f) (repeat_last (f_th f) n r) None
  end.

Definition felse (f : frame) : frame :=
  mkFrame (f_pol f) (f_pat f) (f_th f) (Some []).

Definition close1 (f : frame) : cmd :=
  CGlobal (f_pol f) (f_pat f) (f_th f) (f_el f).

(** Returning from nested activations: each finished [Cmd::Global] is pushed on
    the active list of its caller, the outermost one on [Opts.cmds]. *)
Fixpoint emit_close (o : opts) (c : cmd) (stk : list frame) : opts :=
  match stk with
  | [] => push_cmd o c
  | f :: fs => emit_close o (close1 (fpush f c)) fs
  end.
Definition close_all (o : opts) (stk : list frame) : opts :=
  match stk with [] => o | f :: fs => emit_close o (close1 f) fs end.

(** [str::trim] restricted to the ASCII white space the generators can produce
    (the harness never passes other white space in file names). *)
Definition is_ascii_ws (c : N) : bool :=
  (c =? 32) || ((9 <=? c) && (c <=? 13)).
Fixpoint trim_start (s : text) : text :=
  match s with c :: s' => if is_ascii_ws c then trim_start s' else s | [] => [] end.
Definition trim (s : text) : text := rev (trim_start (rev (trim_start s))).

Fixpoint mem_text (a : text) (l : list text) : bool :=
  match l with [] => false | b :: l' => text_eqb a b || mem_text a l' end.

Definition set_files (o : opts) (f : list text) : opts :=
  mkOpts (o_delimiter o) (o_template o) (o_inplace o) (o_json o) (o_trace o)
    (o_linewise o) (o_trim o) (o_keep_mode o) (o_backup o) (o_serial o)
    (o_gln o) (o_silent o) (o_cmds o) f.

Definition with_flag (o : opts) (g : text) : option opts :=
  let '(mkOpts d t i j tr lw tf km bk se gl si c fl) := o in
  let m d t i j tr lw tf km bk se gl si :=
    Some (mkOpts d t i j tr lw tf km bk se gl si c fl) in
  if is_flag g "-j" "--json" then m d t i true tr lw tf km bk se gl si
  else if text_eqb g (T "--trace") then m d t i j true lw tf km bk se gl si
  else if text_eqb g (T "--linewise") then m d t i j tr true tf km bk se gl si
  else if text_eqb g (T "--serial") then m d t i j tr lw tf km bk true gl si
  else if text_eqb g (T "--trim-fields") then m d t i j tr lw true km bk se gl si
  else if text_eqb g (T "--keep-mode") then m d t i j tr lw tf true bk se gl si
  else if text_eqb g (T "--backup") then m d t i j tr lw tf km true se gl si
  else if text_eqb g (T "--global-uses-line-numbers") then m d t i j tr lw tf km bk se true si
  else if text_eqb g (T "--silent") then m d t i j tr lw tf km bk se gl true
  else if text_eqb g (T "-i") then m d t true j tr lw tf km bk se gl si
  else None.

Definition set_template (o : opts) (v : text) : opts :=
  let '(mkOpts d _ i j tr lw tf km bk se gl si c f) := o in
  mkOpts d (Some v) i j tr lw tf km bk se gl si c f.
Definition set_delimiter (o : opts) (v : text) : opts :=
  let '(mkOpts _ t i j tr lw tf km bk se gl si c f) := o in
  mkOpts (Some v) t i j tr lw tf km bk se gl si c f.

Definition top_repeat (o : opts) (n r : N) : opts :=
  set_cmds o (repeat_last (o_cmds o) n r).

Section Parse.
  (** [Opts::validate_filename] on the trimmed name: the file system is an
      oracle of the model. *)
  Variable file_ok : text -> bool.

  Definition handle_filename (o : opts) (a : text) : outcome opts :=
    let p := trim a in
    if file_ok p then
      Ok (if mem_text p (o_files o) then o else set_files o (o_files o ++ [p]))
    else Exit1.

  (** [Opts::parse]'s loop (empty stack) and [handle_global_arg]'s loop
      (non-empty stack) over the remaining arguments. *)
  Fixpoint run (o : opts) (stk : list frame) (args : list text) {struct args}
    : outcome opts :=
    match args with
    | [] => Ok (close_all o stk)
    | g :: rest =>
      match stk with
      | [] =>
        match with_flag o g with
        | Some o' => run o' [] rest
        | None =>
          if is_flag g "-t" "--template" then
            match rest with
            | [] => Exit1
            | a :: rest' => if starts_dash a then Exit1 else run (set_template o a) [] rest'
            end
          else if is_flag g "-d" "--delimiter" then
            match rest with
            | [] => Ok o
            | a :: rest' => if starts_dash a then Exit1 else run (set_delimiter o a) [] rest'
            end
          else if is_flag g "-n" "--next" then run (push_cmd o CNext) [] rest
          else if is_flag g "-r" "--repeat" then
            match rest with
            | [] => match counts (T "1") (T "1") with
                    | Some (n, r) => Ok (top_repeat o n r) | None => Exit1 end
            | a :: [] => match counts a (T "1") with
                         | Some (n, r) => Ok (top_repeat o n r) | None => Exit1 end
            | a :: b :: rest' => match counts a b with
                                 | Some (n, r) => run (top_repeat o n r) [] rest'
                                 | None => Exit1 end
            end
          else if is_flag g "-m" "--move" then
            match rest with
            | [] => Ok o
            | a :: rest' => if starts_dash a then Exit1 else run (push_cmd o (CMove a)) [] rest'
            end
          else if is_flag g "-c" "--cut" then
            match rest with
            | [] => Ok o
            | a :: rest' =>
              match strip_prefix (T "name=") a with
              | Some name =>
                if text_eqb name (T "0") then Exit1
                else match rest' with
                     | [] => Ok o
                     | b :: rest'' =>
                       if starts_dash b then Exit1
                       else run (push_cmd o (CNamed name b)) [] rest''
                     end
              | None =>
                if starts_dash a then Exit1 else run (push_cmd o (CCut a)) [] rest'
              end
            end
          else if is_flag g "-g" "--global" || is_flag g "-v" "--not-global" then
            let pol := is_flag g "-g" "--global" in
            match rest with
            | [] => Ok (push_cmd o (CGlobal pol g [] None))
            | p :: rest' =>
              if starts_dash p then Exit1 else run o [mkFrame pol p [] None] rest'
            end
          else
            match handle_filename o g with
            | Ok o' => run o' [] rest
            | Exit1 => Exit1
            | Panic s => Panic s
            | OutOfFuel => OutOfFuel
            end
        end
      | f :: fs =>
        (** end of one iteration of the scope loop: a following argument that
            does not start with '-' ends this activation and, because the
            callers run the same test, every enclosing one. *)
        let continue (f' : frame) (fs' : list frame) (rest : list text)
                     (k : opts -> list frame -> outcome opts) :=
          if peek_nondash rest then k (close_all o (f' :: fs')) [] else k o (f' :: fs') in
        if is_flag g "-n" "--next" then
          continue (fpush f CNext) fs rest (fun o s => run o s rest)
        else if is_flag g "-r" "--repeat" then
          match rest with
          | [] => match counts (T "1") (T "1") with
                  | Some (n, r) => Ok (close_all o (frepeat f n r :: fs)) | None => Exit1 end
          | a :: [] => match counts a (T "1") with
                       | Some (n, r) => Ok (close_all o (frepeat f n r :: fs)) | None => Exit1 end
          | a :: b :: rest' =>
            match counts a b with
            | Some (n, r) => continue (frepeat f n r) fs rest' (fun o s => run o s rest')
            | None => Exit1
            end
          end
        else if is_flag g "-m" "--move" then
          match rest with
          | [] => Ok (close_all o stk)
          | a :: rest' =>
            if starts_dash a then Exit1
            else continue (fpush f (CMove a)) fs rest' (fun o s => run o s rest')
          end
        else if is_flag g "-c" "--cut" then
          match rest with
          | [] => Ok (close_all o stk)
          | a :: rest' =>
            match strip_prefix (T "name=") a with
            | Some name =>
              match rest' with
              | [] => Ok (close_all o stk)
              | b :: rest'' =>
                if starts_dash b then Exit1
                else continue (fpush f (CNamed name b)) fs rest'' (fun o s => run o s rest'')
              end
            | None =>
              if starts_dash a then Exit1
              else continue (fpush f (CCut a)) fs rest' (fun o s => run o s rest')
            end
          end
        else if is_flag g "-g" "--global" || is_flag g "-v" "--not-global" then
          let pol := is_flag g "-g" "--global" in
          match rest with
          | [] => Ok (close_all o (fpush f (CGlobal pol g [] None) :: fs))
          | p :: rest' =>
            if starts_dash p then Exit1 else run o (mkFrame pol p [] None :: stk) rest'
          end
        else if text_eqb g (T "--else") then
          continue (felse f) fs rest (fun o s => run o s rest)
        else if text_eqb g (T "--end") then
          (** return to the caller, which then runs its own end-of-iteration test *)
          match fs with
          | [] => run (push_cmd o (close1 f)) [] rest
          | f1 :: fs1 => continue (fpush f1 (close1 f)) fs1 rest (fun o s => run o s rest)
          end
        else Exit1
      end
    end.

  Definition parse (args : list text) : outcome opts := run opts0 [] args.
End Parse.
