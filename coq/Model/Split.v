(** Model of how [execute] feeds the [-m]/[-c] arguments to the editor
    (src/main.rs:777-786, src/exec.rs read_field / exec_loop / set_normal_mode):
    every argument is read to key events by the reader model, the keys are fed
    one by one to the current mode, a pending Ex/Search line is submitted when
    the keys run out, and the mode is reset after the argument (unless
    [--keep-mode]). What a key does to the editor is a parameter. *)
From Vicut Require Import Base.Prelude Model.Keys.

Section Split.
  Variable st : Type.
  Variable step_key : key -> st -> st.   (* mode.handle_key + exec_cmd for one key *)
  Variable finish : st -> st.            (* exec_loop's auto-submit of a pending Ex/Search line *)
  Variable snm : st -> st.               (* set_normal_mode *)

  Definition run_keys (ks : list key) (s : st) : st := fold_left (fun s k => step_key k s) ks s.

  (** one argument: [read_field] (the field itself is not part of the state) *)
  Definition feed (keep_mode : bool) (bytes : list N) (s : st) : st :=
    let s1 := finish (run_keys (fst (keys_of bytes)) s) in
    if keep_mode then s1 else snm s1.

  (** all arguments in order *)
  Definition feed_all (keep_mode : bool) (args : list (list N)) (s : st) : st :=
    fold_left (fun s a => feed keep_mode a s) args s.
End Split.
