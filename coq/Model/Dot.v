(** Model of dot-repeat bookkeeping in [ViCut::exec_cmd] / [handle_cmd_repeat] /
    [handle_mode_transition] (src/exec.rs). What a [ViCmd] does to the line
    buffer is a parameter. *)
From Vicut Require Import Base.Prelude.

Section Dot.
  Variable lb : Type.                         (* LineBuf + registers *)
  Variable vicmd : Type.
  Variable lb_exec : vicmd -> lb -> lb.       (* LineBuf::exec_cmd *)
  Variable repeatable : vicmd -> bool.        (* ViCmd::is_repeatable *)
  Variable with_count : nat -> vicmd -> vicmd. (* the count patched in by handle_cmd_repeat *)

  Inductive replay :=
  | RSingle (c : vicmd)
  | RMode (cmds : list vicmd) (times : nat).   (* an insert session: its recorded commands *)

  Record vstate := mkV { v_lb : lb; v_repeat : option replay }.

  (** a normal-mode command that is neither a mode transition nor '.' *)
  Definition do_cmd (c : vicmd) (s : vstate) : vstate :=
    mkV (lb_exec c (v_lb s)) (if repeatable c then Some (RSingle c) else v_repeat s).

  (** leaving an insert session stores its recording *)
  Definition do_session (cmds : list vicmd) (times : nat) (s : vstate) : vstate :=
    mkV (fold_left (fun l c => lb_exec c l) cmds (v_lb s)) (Some (RMode cmds times)).

  Fixpoint iter_cmds (n : nat) (cmds : list vicmd) (l : lb) : lb :=
    match n with O => l | S k => iter_cmds k cmds (fold_left (fun l c => lb_exec c l) cmds l) end.

  (** '.' with count [n] ([n] = 1: no count given) *)
  Definition do_dot (n : nat) (s : vstate) : vstate :=
    match v_repeat s with
    | None => s
    | Some (RSingle c) => mkV (lb_exec (if Nat.ltb 1 n then with_count n c else c) (v_lb s)) (v_repeat s)
    | Some (RMode cmds times) => mkV (iter_cmds (if Nat.ltb 1 n then n else times) cmds (v_lb s)) (v_repeat s)
    end.
End Dot.
