(** Reference model of Vim's operators d, y, c over the core motions (property C02), and of x X D dd yy cc.

    The buffer is a list of code points in which 10 *separates* the lines (Vim's own view: a buffer always has at least
    one line, "ab\n" is the two lines "ab" and ""); a position is an index, and the index of a line's separator (or the
    length of the text, for the last line) is the place "behind the last character" that an operator-pending motion may
    reach.

    The functions follow Vim's sources: [fwd_word] with its [eol] flag (a word motion under an operator stops at the end
    of the line on its last count), [nv_wordcmd] ("cw" on a non-blank is "ce"), and the adjustment of exclusive motions
    that end in column one ([do_pending_operator]: the end moves to the end of the previous line, or the motion becomes
    linewise when it starts at or before the first non-blank). *)
From Vicut Require Import Base.Prelude Model.Motions.

Definition last_line_at (t : text) (p : nat) : bool := Nat.leb (length t) (line_end t p).
Definition on_empty_line (t : text) (p : nat) : bool :=
  Nat.eqb (line_start_from t p) p && Nat.eqb (line_end t p) p.

(** Vim's [inc()]: 0 moved onto a character, 2 moved onto the end of the line, 1 moved to the next line, 3 nowhere to go *)
Definition inc (t : text) (p : nat) : nat * N :=
  let e := line_end t p in
  if Nat.ltb p e then (S p, if Nat.ltb (S p) e then 0 else 2)
  else if last_line_at t p then (p, 3) else (S e, 1).

(** ** [w] under an operator: [fwd_word(count, bigword, eol = TRUE)] *)
Fixpoint fw_skip_word (fuel : nat) (big lastc : bool) (t : text) (cls : N) (p : nat) : nat * bool :=
  match fuel with
  | O => (p, true)
  | S f =>
    if class_at big t p =? cls then
      let '(q, r) := inc t p in
      if (r =? 3) || ((1 <=? r) && lastc) then (q, true) else fw_skip_word f big lastc t cls q
    else (p, false)
  end.
Fixpoint fw_skip_blank (fuel : nat) (big last_line lastc : bool) (t : text) (p : nat) : nat * bool :=
  match fuel with
  | O => (p, true)
  | S f =>
    if class_at big t p =? 0 then
      if on_empty_line t p then (p, false) else
      let '(q, r) := inc t p in
      (* under an operator the last count does not leave its line here either *)
      if (r =? 3) || ((1 <=? r) && (last_line || lastc)) then (q, true) else fw_skip_blank f big last_line lastc t q
    else (p, false)
  end.
(** one count of the loop; the flag says that the function returned (OK or FAIL) and further counts are not run *)
Definition fwd_word_op1 (big lastc : bool) (t : text) (p : nat) : nat * bool :=
  let n := length t in
  let sclass := class_at big t p in
  let last_line := last_line_at t p in
  let '(p1, r) := inc t p in
  if (r =? 3) || ((1 <=? r) && last_line) then (p1, true)
  else if (1 <=? r) && lastc then (p1, true)
  else
    let '(p2, ret) := if sclass =? 0 then (p1, false) else fw_skip_word (S n) big lastc t sclass p1 in
    if ret then (p2, true) else fw_skip_blank (S n) big last_line lastc t p2.
Fixpoint fwd_word_op (count : nat) (big : bool) (t : text) (p : nat) : nat :=
  match count with
  | O => p
  | S k => let '(q, ret) := fwd_word_op1 big (Nat.eqb k 0) t p in if ret then q else fwd_word_op k big t q
  end.

(** ** [e] under an operator: [end_word(count, bigword, stop, empty = FALSE)]. When it fails half way the cursor stays
    where it got to, and the operator still applies. *)
Fixpoint ew_skip_class (fuel : nat) (big : bool) (t : text) (cls : N) (p : nat) : nat * bool :=
  (* [skip_chars]: true = ran into the end of the buffer *)
  match fuel with
  | O => (p, true)
  | S f => if class_at big t p =? cls then
             let '(q, r) := inc t p in if r =? 3 then (q, true) else ew_skip_class f big t cls q
           else (p, false)
  end.
Fixpoint ew_skip_blank (fuel : nat) (big : bool) (t : text) (p : nat) : nat * bool :=
  match fuel with
  | O => (p, true)
  | S f => if class_at big t p =? 0 then
             let '(q, r) := inc t p in if r =? 3 then (q, true) else ew_skip_blank f big t q
           else (p, false)
  end.
(** Vim's [dec()]: one position back; from column one to the end (behind the last character) of the previous line *)
Definition dec (t : text) (p : nat) : nat :=
  match p with O => O | S q => q end.
Definition end_word1 (big stop : bool) (t : text) (p : nat) : nat * bool :=   (* position, failed *)
  let n := length t in
  let sclass := class_at big t p in
  let '(p1, r) := inc t p in
  if r =? 3 then (p1, true) else
  if (class_at big t p1 =? sclass) && negb (sclass =? 0) then
    let '(p2, hit) := ew_skip_class (S n) big t sclass p1 in
    if hit then (p2, true) else (dec t p2, false)
  else if negb stop || (sclass =? 0) then
    let '(p2, hit) := ew_skip_blank (S n) big t p1 in
    if hit then (p2, true) else
    let '(p3, hit3) := ew_skip_class (S n) big t (class_at big t p2) p2 in
    if hit3 then (p3, true) else (dec t p3, false)
  else (dec t p1, false).
Fixpoint end_word_op (count : nat) (big stop : bool) (t : text) (p : nat) : nat :=
  match count with
  | O => p
  | S k => let '(q, failed) := end_word1 big stop t p in if failed then q else end_word_op k big false t q
  end.

(** ** [b] and [ge] under an operator: [bck_word] and [bckend_word]. A count that starts at the very beginning of the
    buffer fails and the whole command is cancelled; running into the beginning half way is a normal end. *)
Inductive bres := BNext (p : nat) | BDone (p : nat) | BFail.

Fixpoint bw_skip_blank (fuel : nat) (big : bool) (t : text) (p : nat) : bres :=
  (* BNext p: stopped on a non-blank p; BDone: an empty line ([finished]) or the start of the buffer *)
  match fuel with
  | O => BDone p
  | S f => if class_at big t p =? 0 then
             if on_empty_line t p then BFail     (* marker for "finished on an empty line", see below *)
             else match p with O => BDone O | S q => bw_skip_blank f big t q end
           else BNext p
  end.
Fixpoint bw_skip_class (fuel : nat) (big : bool) (t : text) (cls : N) (p : nat) : nat * bool :=
  (* [skip_chars] backwards: true = ran into the start of the buffer *)
  match fuel with
  | O => (p, true)
  | S f => if class_at big t p =? cls then match p with O => (O, true) | S q => bw_skip_class f big t cls q end
           else (p, false)
  end.
Definition bck_word1 (big : bool) (t : text) (p : nat) : bres :=
  match p with
  | O => BFail
  | S p1 =>
    match bw_skip_blank (S (length t)) big t p1 with
    | BFail =>                                        (* stopped on an empty line: that line is the target *)
      (* find it again: the first empty line at or before p1 reached over blanks *)
      (fix back (fuel q : nat) : bres :=
         match fuel with
         | O => BNext q
         | S f => if on_empty_line t q then BNext q else match q with O => BNext O | S r => back f r end
         end) (S (length t)) p1
    | BDone q => BDone q
    | BNext q =>
      let '(r, hit) := bw_skip_class (S (length t)) big t (class_at big t q) q in
      if hit then BDone r else BNext (S r)
    end
  end.
Fixpoint bck_word_op (count : nat) (big : bool) (t : text) (p : nat) : option nat :=
  match count with
  | O => Some p
  | S k => match bck_word1 big t p with
           | BFail => None
           | BDone q => Some q
           | BNext q => bck_word_op k big t q
           end
  end.

Fixpoint be_skip_blank (fuel : nat) (big : bool) (t : text) (p : nat) : bres :=
  match fuel with
  | O => BDone p
  | S f => if class_at big t p =? 0 then
             if on_empty_line t p then BNext p
             else match p with O => BDone O | S q => be_skip_blank f big t q end
           else BNext p
  end.
Definition bckend_word1 (big : bool) (t : text) (p : nat) : bres :=
  match p with
  | O => BFail
  | S p1 =>
    let sclass := class_at big t p in
    if sclass =? 0 then be_skip_blank (S (length t)) big t p1
    else
      let '(q, hit) := bw_skip_class (S (length t)) big t sclass p1 in
      if hit then BDone q else be_skip_blank (S (length t)) big t q
  end.
Fixpoint bckend_word_op (count : nat) (big : bool) (t : text) (p : nat) : option nat :=
  match count with
  | O => Some p
  | S k => match bckend_word1 big t p with
           | BFail => None
           | BDone q => Some q
           | BNext q => bckend_word_op k big t q
           end
  end.

(** ** the text an operator works on *)
Inductive orange :=
| RNone                                   (* the motion covers nothing: the command is a no-op *)
| RFail (p : nat)                         (* the motion failed after taking the cursor to [p]: nothing else happens *)
| RChar (lo hi : nat)                     (* the characters [lo, hi) *)
| RLines (a b : nat) (keepcol : bool).    (* the whole lines that positions [a] and [b] are on, a <= b; dd keeps the cursor's column *)

Definition in_indent (t : text) (p : nat) : bool :=
  Nat.leb p (first_nonblank t (line_start_from t p) (line_end t p) (S (length t)))
  || Nat.eqb (line_start_from t p) (line_end t p).

(** an exclusive motion from [lo] to [hi] *)
Definition excl (t : text) (lo hi : nat) : orange :=
  if Nat.leb hi lo then RNone else
  if Nat.eqb (line_start_from t hi) hi && Nat.ltb (line_start_from t lo) hi && negb (Nat.eqb (line_start_from t lo) (line_start_from t hi)) then
    (* ends in column one of a later line *)
    if in_indent t lo then RLines lo (hi - 1) false
    else if Nat.leb (hi - 1) lo then RNone else RChar lo (hi - 1)
  else RChar lo hi.
Definition incl (t : text) (lo hi : nat) : orange :=       (* both ends included; an end behind the last character adds nothing *)
  let hi' := if Nat.eqb hi (line_end t hi) then hi else S hi in
  if Nat.leb hi' lo then RNone else RChar lo hi'.

Inductive opk := OpDelete | OpYank | OpChange.

Definition same_pos (a b : nat) := Nat.eqb a b.

Definition op_range (k : opk) (t : text) (m : motion) (count : nat) (i : nat) : orange :=
  let count := Nat.max count 1 in
  let s := line_start_from t i in
  let e := line_end t i in
  match m with
  | MLeft => if Nat.eqb i s then RNone else excl t (Nat.max s (i - count)) i
  | MRight => if Nat.eqb i e then RNone else excl t i (Nat.min (i + count) e)
  | MLineStart => excl t s i
  | MFirstNonBlank =>
    let f := if Nat.eqb s e then s else first_nonblank t s e (S (length t)) in
    if Nat.ltb f i then excl t f i else excl t i f
  | MLineEnd => if Nat.eqb i e then RNone else RChar i e
  | MWord big =>
    match k with
    | OpChange =>
      if negb (Nat.eqb i e) && negb (class_at big t i =? 0) then
        (* "cw" on a non-blank is "ce", not moving when already at the end of the word *)
        incl t i (end_word_op count big true t i)
      else excl t i (fwd_word_op count big t i)
    | _ => excl t i (fwd_word_op count big t i)
    end
  | MBack big => match bck_word_op count big t i with Some j => excl t j i | None => RFail O end
  | MEnd big => incl t i (end_word_op count big false t i)
  | MBackEnd big => match bckend_word_op count big t i with Some j => incl t j i | None => RFail O end
  | MFind c => match nth_occ_fwd t c e count i with Some j => incl t i j | None => RFail i end
  | MTill c => match nth_occ_fwd t c e count i with Some j => if Nat.leb j (S i) then incl t i i else incl t i (j - 1) | None => RFail i end
  | MFindBack c => match nth_occ_bwd t c s count i with Some j => excl t j i | None => RFail i end
  | MTillBack c => match nth_occ_bwd t c s count i with Some j => excl t (S j) i | None => RFail i end
  end.

(** ** applying an operator *)
Record ostate := mkO { o_text : text; o_cur : nat; o_reg : option (bool * text) }.   (* register: (linewise, text) *)

(** the cursor of normal mode on its line: never behind the last character *)
Definition settle_line (t : text) (p : nat) : nat :=
  let p := Nat.min p (length t) in
  let s := line_start_from t p in
  if Nat.eqb p (line_end t p) && Nat.ltb s p then (p - 1)%nat else p.

Definition first_nb_of_line (t : text) (p : nat) : nat :=
  let s := line_start_from t p in let e := line_end t p in
  if Nat.eqb s e then s else first_nonblank t s e (S (length t)).

Definition slice (t : text) (lo hi : nat) : text := firstn (hi - lo)%nat (skipn lo t).
Definition cut (t : text) (lo hi : nat) : text := firstn lo t ++ skipn hi t.

(** the characters of whole lines, separator included: [lo, hi) of the text, and the text without them *)
Definition lines_span (t : text) (a b : nat) : nat * nat :=
  let lo := line_start_from t a in
  let e := line_end t b in
  if Nat.ltb e (length t) then (lo, S e)           (* the separator after the last of the lines goes with them *)
  else ((lo - 1)%nat, e).                                (* the last lines of the buffer: the separator before them goes *)

Definition apply_op (k : opk) (ins : text) (s0 : ostate) (r : orange) : ostate :=
  let t := o_text s0 in
  match r with
  | RNone =>
    (* nothing to work on: d and y do nothing, c still opens an insert at the cursor *)
    match k with
    | OpChange =>
      let i := Nat.min (o_cur s0) (length t) in
      let t' := firstn i t ++ ins ++ skipn i t in
      let p := (i + length ins)%nat in
      mkO t' (if Nat.ltb (line_start_from t' p) p then (p - 1)%nat else p) (o_reg s0)
    | _ => s0
    end
  | RFail p => mkO t p (o_reg s0)
  | RChar lo0 hi0 =>
    let hi := Nat.min hi0 (length t) in
    let lo := Nat.min lo0 hi in
    let reg := Some (false, slice t lo hi) in
    match k with
    | OpYank => mkO t (settle_line t lo) reg
    | OpDelete => let t' := cut t lo hi in mkO t' (settle_line t' lo) reg
    | OpChange =>
      let t' := firstn lo t ++ ins ++ skipn hi t in
      let p := (lo + length ins)%nat in
      mkO t' (if Nat.ltb (line_start_from t' p) p then (p - 1)%nat else p) reg
    end
  | RLines a b keepcol =>
    let lo := line_start_from t (Nat.min a (length t)) in
    let e := line_end t (Nat.min b (length t)) in
    let reg := Some (true, slice t lo e ++ [nl]) in
    match k with
    | OpYank => mkO t (Nat.min a (o_cur s0)) reg
    | OpDelete =>
      let '(x, y) := lines_span t a b in
      let t' := cut t x y in
      (* the line that took their place, or the new last line *)
      let p := if Nat.ltb e (length t) then lo else x in
      (* the cursor keeps its column ('nostartofline'), as far as the line goes *)
      let col := (Nat.min a (o_cur s0) - line_start_from t (Nat.min a (o_cur s0)))%nat in
      let q := line_start_from t' (Nat.min p (length t')) in
      let e' := line_end t' q in
      mkO t' (if keepcol then Nat.min (q + col) (Nat.max q (e' - 1)) else first_nb_of_line t' q)%nat reg
    | OpChange =>
      (* the lines are replaced by one line holding the typed text *)
      let t' := firstn lo t ++ ins ++ skipn e t in
      let p := (lo + length ins)%nat in
      mkO t' (if Nat.ltb (line_start_from t' p) p then (p - 1)%nat else p) reg
    end
  end.

(** [count][op][motion] from cursor [i]; [ins] is what is typed after a change *)
(** [op_delete]: a characterwise delete over several lines that starts at or before the first non-blank of its line and
    ends where only blanks follow on its line takes the whole lines *)
Fixpoint only_blanks (t : text) (p : nat) (fuel : nat) : bool :=
  match fuel with
  | O => true
  | S f => match nth_error t p with
           | Some c => if c =? nl then true else if (c =? 32) || (c =? 9) then only_blanks t (S p) f else false
           | None => true
           end
  end.
Definition delete_promote (t : text) (r : orange) : orange :=
  match r with
  | RChar lo hi =>
    if negb (Nat.eqb (line_start_from t lo) (line_start_from t hi)) && Nat.ltb lo hi
       && in_indent t lo && only_blanks t hi (S (length t))
    then RLines lo hi true else r
  | _ => r
  end.

Definition run_op (k : opk) (ins : text) (t : text) (m : motion) (count : nat) (i : nat) : ostate :=
  let r := op_range k t m count i in
  apply_op k ins (mkO t i None) (match k with OpDelete => delete_promote t r | _ => r end).

(** dd yy cc with a count: that many lines from the cursor's, as many as there are; on the last line a count fails *)
Fixpoint nth_line_end (t : text) (p : nat) (k : nat) : nat :=
  match k with
  | O => line_end t p
  | S j => let e := line_end t p in if Nat.ltb e (length t) then nth_line_end t (S e) j else e
  end.
Definition run_lines (k : opk) (ins : text) (t : text) (count : nat) (i : nat) : ostate :=
  let count := Nat.max count 1 in
  if Nat.ltb 1 count && last_line_at t i then mkO t i None
  else apply_op k ins (mkO t i None) (RLines i (nth_line_end t i (count - 1)) true).

(** ** operators over the line motions j k G gg: the whole lines between the cursor's line and the target's *)
Inductive vmotion := VDown | VUp | VGoto | VFirst.

(** the start of the [k]-th line above the line of [p], the first line when there are fewer *)
Fixpoint up_lines (t : text) (p : nat) (k : nat) : nat :=
  match k with
  | O => line_start_from t p
  | S j => let s := line_start_from t p in if Nat.eqb s 0 then 0%nat else up_lines t (s - 1) j
  end.
(** the start of line number [n] (from 0), of the last line when there are fewer *)
Definition line_no_start (t : text) (n : nat) : nat := line_start_from t (nth_line_end t 0 n).
(** column [col] of the line starting at [a], as far as a normal-mode cursor goes *)
Definition at_col (t : text) (a col : nat) : nat := Nat.min (a + col) (Nat.max a (line_end t a - 1)).

Definition v_range (t : text) (m : vmotion) (count : option nat) (i : nat) : orange :=
  let n := match count with Some c => Nat.max c 1 | None => 1%nat end in
  let s := line_start_from t i in
  let col := (i - s)%nat in
  let between (a : nat) := if Nat.leb a s then RLines (at_col t a col) i true else RLines i a true in
  match m with
  | VDown => if last_line_at t i then RFail i else RLines i (nth_line_end t i n) true
  | VUp => if Nat.eqb s 0 then RFail i else RLines (at_col t (up_lines t i n) col) i true
  | VGoto => between (match count with Some c => line_no_start t (Nat.max c 1 - 1) | None => line_start_from t (length t) end)
  | VFirst => between (match count with Some c => line_no_start t (Nat.max c 1 - 1) | None => 0%nat end)
  end.

Definition run_op_v (k : opk) (ins : text) (t : text) (m : vmotion) (count : option nat) (i : nat) : ostate :=
  apply_op k ins (mkO t i None) (v_range t m count i).

(** ** the case operators g~ gu gU over a range, and the one-key commands ~ and r: the text keeps its length and its lines *)
Inductive casek := CToggle | CUpper | CLower.
Definition is_upper_c (c : N) : bool := (65 <=? c) && (c <=? 90).
Definition is_lower_c (c : N) : bool := (97 <=? c) && (c <=? 122).
Definition case_c (k : casek) (c : N) : N :=
  match k with
  | CToggle => if is_upper_c c then c + 32 else if is_lower_c c then c - 32 else c
  | CUpper => if is_lower_c c then c - 32 else c
  | CLower => if is_upper_c c then c + 32 else c
  end.
Definition map_range (f : N -> N) (t : text) (lo hi : nat) : text :=
  firstn lo t ++ map f (slice t lo hi) ++ skipn hi t.

(** the operator over what a motion (or a doubled operator: whole lines) covers; the register is not touched *)
Definition apply_case (k : casek) (s0 : ostate) (r : orange) : ostate :=
  let t := o_text s0 in
  match r with
  | RNone => s0
  | RFail p => mkO t p (o_reg s0)
  | RChar lo0 hi0 =>
    let hi := Nat.min hi0 (length t) in
    let lo := Nat.min lo0 hi in
    mkO (map_range (case_c k) t lo hi) (settle_line t lo) (o_reg s0)
  | RLines a b keepcol =>
    let lo := line_start_from t (Nat.min a (length t)) in
    let e := line_end t (Nat.min b (length t)) in
    (* the doubled operator ([keepcol]) first takes the cursor to the first non-blank of the last line, and the cursor
       ends at the start of what lies between: its own place, or that first non-blank when it is on the same line and
       further left.  A promoted motion starts where its range starts. *)
    let cur := Nat.min (o_cur s0) (length t) in
    let c := if keepcol
             then (if Nat.eqb (line_start_from t cur) (line_start_from t (Nat.min b (length t)))
                   then Nat.min cur (first_nb_of_line t cur) else cur)
             else Nat.min a (length t) in
    mkO (map_range (case_c k) t lo e) c (o_reg s0)
  end.
(** an exclusive motion that did not move (h 0 ^ in column one) leaves an empty region; the case operators still run on
    it ('cpoptions' without E), and Vim's [op_tilde] steps its end back: in column one of the first line that is
    impossible and one character is taken, in column one of a later line the end lands on the line before and the rest
    of the cursor's line - all of it - is taken *)
Definition case_empty (k : casek) (t : text) (i : nat) : ostate :=
  let s := line_start_from t i in
  let e := line_end t i in
  if negb (Nat.eqb i s) then mkO t i None
  else if Nat.eqb s 0 then (if Nat.eqb s e then mkO t i None else mkO (map_range (case_c k) t i (S i)) i None)
  else mkO (map_range (case_c k) t s e) i None.
Definition run_case (k : casek) (t : text) (m : motion) (count : nat) (i : nat) : ostate :=
  match op_range OpDelete t m count i with
  | RNone => match m with
             | MLeft | MLineStart | MFirstNonBlank => case_empty k t i
             | _ => mkO t i None
             end
  | r => apply_case k (mkO t i None) r
  end.
Definition run_case_lines (k : casek) (t : text) (count : nat) (i : nat) : ostate :=
  let count := Nat.max count 1 in
  if Nat.ltb 1 count && last_line_at t i then mkO t i None
  else apply_case k (mkO t i None) (RLines i (nth_line_end t i (count - 1)) true).

(** [count]~ : that many characters from the cursor, as many as the line has; the cursor goes behind them, as far as a
    normal-mode cursor goes.  On an empty line nothing happens. *)
Definition run_tilde (t : text) (count : nat) (i : nat) : ostate :=
  let count := Nat.max count 1 in
  let e := line_end t i in
  if Nat.eqb i e then mkO t i None
  else let hi := Nat.min (i + count) e in
       mkO (map_range (case_c CToggle) t i hi) (Nat.min hi (e - 1)) None.

(** [count]r[c] : that many characters from the cursor become [c]; when the line has fewer, nothing happens.  The cursor
    ends on the last one replaced. *)
Definition run_replace (t : text) (c : N) (count : nat) (i : nat) : ostate :=
  let count := Nat.max count 1 in
  let e := line_end t i in
  if Nat.ltb e (i + count) then mkO t i None
  else mkO (map_range (fun _ => c) t i (i + count)) (i + count - 1) None.

(** ** J: joining lines (Vim's [do_join] with 'nojoinspaces') *)
Definition is_white (c : N) : bool := (c =? 32) || (c =? 9).
Fixpoint drop_white (l : text) : text :=
  match l with c :: r => if is_white c then drop_white r else l | [] => [] end.
(** a text as its lines (separated, not terminated, by line breaks), and back *)
Fixpoint lines_of (t : text) : list text :=
  match t with
  | [] => [[]]
  | c :: r => if c =? nl then [] :: lines_of r
              else match lines_of r with l :: ls => (c :: l) :: ls | [] => [[c]] end
  end.
Fixpoint unlines (ls : list text) : text :=
  match ls with [] => [] | [l] => l | l :: r => l ++ nl :: unlines r end.
Definition last_char (l : text) : option N := match rev l with c :: _ => Some c | [] => None end.

(** the lines [ls] joined onto [acc]: each loses its leading blanks and gets one space in front - unless it is then empty,
    starts with ")", nothing has been collected yet, or the line before it ended in a blank.  [col] is where the last of
    them was attached. *)
Fixpoint join_acc (acc : text) (col : nat) (e1 : option N) (ls : list text) : text * nat :=
  match ls with
  | [] => (acc, col)
  | l :: r =>
    let curr := drop_white l in
    let sp := match curr with
              | [] => false
              | c :: _ => negb (c =? 41) && negb (Nat.eqb (length acc) 0)
                          && negb (match e1 with Some 9%N => true | Some 32%N => true | _ => false end)
              end in
    join_acc (acc ++ (if sp then [32%N] else []) ++ curr) (length acc) (last_char curr) r
  end.

(** [count]J from cursor [i]: count (at least 2) lines, as many as there are when the count is 3 or more; on the last
    line it fails *)
Definition run_join (t : text) (count : nat) (i : nat) : ostate :=
  let ls := lines_of t in
  let k := length (filter (fun c => c =? nl) (firstn i t)) in          (* the cursor's line number *)
  let avail := (length ls - k)%nat in
  let n := Nat.max count 2 in
  if Nat.leb avail 1
  then (* on the last line J and 2J fail; a larger count is cut down to the one line there is: nothing to join, but
          the cursor goes where that line "was attached", its start *)
       mkO t (if Nat.leb 3 count then line_start_from t (Nat.min i (length t)) else i) None
  else
    let n := Nat.min n avail in
    match skipn k ls with
    | [] => mkO t i None
    | first :: rest =>
      let '(acc, col) := join_acc first 0 (last_char first) (firstn (n - 1) rest) in
      let t' := unlines (firstn k ls ++ acc :: skipn (n - 1) rest) in
      let s := line_start_from t (Nat.min i (length t)) in
      mkO t' (s + Nat.min col (length acc - 1))%nat None
    end.

(** ** j and k as motions: the line [count] lines down / up (as far as there are lines; on the last / first line they
    fail), at the display column of the cursor - a character that takes two cells (CJK, emoji) counts two, and a column
    that falls on its second cell is that character *)
Definition in_range (c lo hi : N) : bool := (lo <=? c) && (c <=? hi).
Definition wide_c (c : N) : bool :=
  in_range c 4352 4447 || in_range c 11904 42191 || in_range c 44032 55203 || in_range c 63744 64255
  || in_range c 65072 65135 || in_range c 65280 65376 || in_range c 65504 65510
  || in_range c 127744 128591 || in_range c 129280 129535 || in_range c 131072 262141.
Definition cwidth (c : N) : nat := if wide_c c then 2%nat else 1%nat.
(** the display column of position [i] on the line that starts at [s] *)
Definition dcol (t : text) (s i : nat) : nat := fold_right (fun c a => (cwidth c + a)%nat) 0%nat (slice t s i).
(** the position on the line [p, e) whose cells hold display column [target]; the last character when the line is shorter *)
Fixpoint at_dcol (fuel : nat) (t : text) (p e acc target : nat) : nat :=
  match fuel with
  | O => p
  | S f =>
    if Nat.leb e (S p) then p
    else match nth_error t p with
         | Some c => if Nat.ltb target (acc + cwidth c) then p else at_dcol f t (S p) e (acc + cwidth c)%nat target
         | None => p
         end
  end.
Definition move_vert (t : text) (down : bool) (count : nat) (i : nat) : nat :=
  let count := Nat.max count 1 in
  let s := line_start_from t i in
  let col := dcol t s i in
  if down then
    if last_line_at t i then i
    else let e := nth_line_end t i count in
         let s' := line_start_from t e in
         at_dcol (S (length t)) t s' e 0 col
  else
    if Nat.eqb s 0 then i
    else let s' := up_lines t i count in
         at_dcol (S (length t)) t s' (line_end t s') 0 col.

(** [P] of a register at the cursor (characterwise: before the cursor; linewise: above the cursor's line) *)
Definition put_before (s : ostate) : text :=
  match o_reg s with
  | Some (false, r) => firstn (o_cur s) (o_text s) ++ r ++ skipn (o_cur s) (o_text s)
  | _ => o_text s
  end.

(** ** p and P: putting the register back (characterwise text goes behind / before the cursor, whole lines go below / above
    the cursor's line); a count puts that many copies *)
Fixpoint repeat_text (n : nat) (r : text) : text :=
  match n with O => [] | S k => r ++ repeat_text k r end.
Fixpoint has_nl (r : text) : bool :=
  match r with [] => false | c :: r' => (c =? nl) || has_nl r' end.

Definition put (after : bool) (count : nat) (s : ostate) : ostate :=
  let t := o_text s in
  let i := Nat.min (o_cur s) (length t) in
  let count := Nat.max count 1 in
  match o_reg s with
  | None => s
  | Some (false, r) =>
    if Nat.eqb (length r) 0 then s else
    let ins := repeat_text count r in
    (* behind the cursor - but an empty line has nothing to go behind *)
    let at_ := if after && negb (Nat.eqb i (line_end t i)) then S i else i in
    let t' := firstn at_ t ++ ins ++ skipn at_ t in
    (* the cursor ends on the last character that was put; on its first one when the text spans lines *)
    mkO t' (if has_nl ins then settle_line t' at_ else (at_ + length ins - 1)%nat) (o_reg s)
  | Some (true, r) =>
    (* [r] holds whole lines, each with its line break *)
    let ins := repeat_text count r in
    let body := firstn (length ins - 1) ins in          (* without the last line break: lines are separated, not terminated *)
    if after then
      let e := line_end t i in
      let t' := firstn e t ++ [nl] ++ body ++ skipn e t in
      mkO t' (first_nb_of_line t' (S e)) (o_reg s)
    else
      let b := line_start_from t i in
      let t' := firstn b t ++ body ++ [nl] ++ skipn b t in
      mkO t' (first_nb_of_line t' b) (o_reg s)
  end.

(** ** the word text objects iw aw iW aW (count 1): Vim's [current_word] *)
Fixpoint back_in_line (fuel : nat) (big : bool) (t : text) (cls : N) (p : nat) : nat :=
  (* back to the start of the run of characters of class [cls] that [p] is in, on its line *)
  match fuel with
  | O => p
  | S f => if Nat.eqb p (line_start_from t p) then p else
           match p with
           | O => O
           | S q => if class_at big t q =? cls then back_in_line f big t cls q else p
           end
  end.
Fixpoint ewo_skip_blank (fuel : nat) (big : bool) (t : text) (p : nat) : nat * N :=
  (* 0: stopped on a non-blank; 1: stopped on an empty line ([finished]); 2: ran into the end of the buffer *)
  match fuel with
  | O => (p, 2)
  | S f => if class_at big t p =? 0 then
             if on_empty_line t p then (p, 1) else
             let '(q, r) := inc t p in if r =? 3 then (q, 2) else ewo_skip_blank f big t q
           else (p, 0)
  end.
(** [end_word(1, bigword, stop = TRUE, empty = TRUE)]: the position reached, and whether it failed there *)
Definition end_word_obj (big : bool) (t : text) (p : nat) : nat * bool :=
  let n := length t in
  let sclass := class_at big t p in
  let '(p1, r) := inc t p in
  if r =? 3 then (p1, true) else
  if (class_at big t p1 =? sclass) && negb (sclass =? 0) then
    let '(p2, hit) := ew_skip_class (S n) big t sclass p1 in
    if hit then (p2, true) else (dec t p2, false)
  else if sclass =? 0 then
    let '(p2, st) := ewo_skip_blank (S n) big t p1 in
    if st =? 2 then (p2, true) else
    if st =? 1 then (p2, false) else
    let '(p3, hit3) := ew_skip_class (S n) big t (class_at big t p2) p2 in
    if hit3 then (p3, true) else (dec t p3, false)
  else (dec t p1, false).

Definition word_object (big include : bool) (t : text) (i : nat) : orange :=
  let n := length t in
  let start := back_in_line (S n) big t (class_at big t i) i in
  let on_blank := class_at big t start =? 0 in
  if Bool.eqb on_blank include then
    (* "iw" on a word, "aw" on blanks: to the end of the word *)
    let '(e, failed) := end_word_obj big t start in
    if failed then RFail (settle_line t e) else incl t start e
  else
    (* "iw" on blanks, "aw" on a word: to just before the next word *)
    let q := fst (fwd_word_op1 big true t start) in
    let e := if Nat.eqb q (line_start_from t q) && Nat.ltb start q
             then (* first column of a later line: back to the last character of the line before *)
                  (if Nat.ltb (line_start_from t (q - 1)) (q - 1) then q - 2 else q - 1)%nat
             else (q - 1)%nat in
    let e := Nat.max e start in
    if include && (negb (class_at big t e =? 0)) then
      (* no blanks behind the word: take the blanks in front of it instead, unless they are the indent *)
      let start' :=
        if Nat.ltb (line_start_from t start) start then
          let b := back_in_line (S n) big t (class_at big t (start - 1)) (start - 1) in
          if (class_at big t b =? 0) && Nat.ltb (line_start_from t b) b then b else start
        else start in
      incl t start' e
    else incl t start e.
