(** Model of [-g]/[-v] ([Cmd::Global], [eval_motion Global/NotGlobal],
    [line_bounds], [total_lines]). The buffer is its list of clusters; the regex
    engine is an oracle telling which line texts match. *)
From Vicut Require Import Base.Prelude.

Definition is_nl (c : text) : bool := text_eqb c [10].

(** [line_bounds n]: cluster indices [start, end) of line [n]; [end] is just
    after the line's newline cluster (or the end of the buffer) *)
Fixpoint line_start_from (cl : list text) (pos n : nat) : nat :=
  match n with
  | O => pos
  | S n' =>
    match cl with
    | [] => pos
    | c :: cl' => if is_nl c then line_start_from cl' (S pos) n' else line_start_from cl' (S pos) n
    end
  end.
(** start of line [n] (the position after the n-th newline; the end of the
    buffer if there are fewer) *)
Definition line_start (cl : list text) (n : nat) : nat := line_start_from cl 0 n.

Fixpoint line_end_from (cl : list text) (pos : nat) : nat :=
  match cl with
  | [] => pos
  | c :: cl' => if is_nl c then S pos else line_end_from cl' (S pos)
  end.
Definition line_bounds (cl : list text) (n : nat) : nat * nat :=
  let s := line_start cl n in (s, line_end_from (skipn s cl) s).

(** [total_lines]: newline characters + 1 *)
Definition total_lines (cl : list text) : nat := S (length (filter is_nl cl)).

(** the text of line [n] as it is handed to the regex: without its newline *)
Definition strip_nl (t : text) : text :=
  match rev t with 10 :: r => rev r | _ => t end.
Definition line_text (cl : list text) (n : nat) : text :=
  let '(s, e) := line_bounds cl n in strip_nl (concat (firstn (e - s) (skipn s cl))).

Section Global.
  (** the regex oracle: does the pattern match this line text? *)
  Variable matches : text -> bool.

  (** the lines the scan considers: [0 .. total_lines), without the empty
      pseudo-line that starts at the end of the buffer after a final newline *)
  Definition scanned (cl : list text) : list nat :=
    filter (fun n => negb (Nat.ltb 0 n && Nat.eqb (line_start cl n) (length cl)))
           (seq 0 (total_lines cl)).

  (** [MotionKind::Lines]: matching (or non-matching) lines, last line first *)
  Definition global_lines (cl : list text) (polarity : bool) : list nat :=
    rev (filter (fun n => Bool.eqb (matches (line_text cl n)) polarity) (scanned cl)).
End Global.
