(** The command-line language as a tree of items (the reading a user has of it),
    its rendering to an argument list in any spelling, and the textual unrolling
    of [-r N R] that property C12 talks about. *)
From Vicut Require Import Base.Prelude Model.Args.

Inductive gkind := GG | GV.
Inductive optk := OJson | OTrace | OLinewise | OSerial | OTrim | OKeep | OBackup | OGln | OSilent | OInplace.
Inductive optv := ODelim | OTempl.

Definition optk_flag (k : optk) (long : bool) : text :=
  match k with
  | OJson => if long then T "--json" else T "-j"
  | OTrace => T "--trace"
  | OLinewise => T "--linewise"
  | OSerial => T "--serial"
  | OTrim => T "--trim-fields"
  | OKeep => T "--keep-mode"
  | OBackup => T "--backup"
  | OGln => T "--global-uses-line-numbers"
  | OSilent => T "--silent"
  | OInplace => T "-i"
  end.

(** [long] fields choose the spelling (short flag / documented long flag). *)
Inductive item :=
| ICut (long : bool) (s : text)
| INamed (long : bool) (n s : text)
| IMove (long : bool) (s : text)
| INext (long : bool)
| IRep (long : bool) (n r : text)            (* operands as written *)
| IGlob (long : bool) (k : gkind) (pat : text) (th : list item) (el : option (list item))
| IOpt (k : optk) (long : bool)              (* boolean option flag (top level only) *)
| IOptV (k : optv) (long : bool) (v : text). (* -d/--delimiter V, -t/--template V *)

Definition flag (long : bool) (s l : string) : text := if long then T l else T s.

Fixpoint render_item (i : item) : list text :=
  match i with
  | ICut l s => [flag l "-c" "--cut"; s]
  | INamed l n s => [flag l "-c" "--cut"; T "name=" ++ n; s]
  | IMove l s => [flag l "-m" "--move"; s]
  | INext l => [flag l "-n" "--next"]
  | IRep l n r => [flag l "-r" "--repeat"; n; r]
  | IGlob l k pat th el =>
    (match k with GG => flag l "-g" "--global" | GV => flag l "-v" "--not-global" end)
      :: pat :: flat_map render_item th
      ++ match el with
         | Some e => T "--else" :: flat_map render_item e
         | None => []
         end
      ++ [T "--end"]
  | IOpt k l => [optk_flag k l]
  | IOptV ODelim l v => [flag l "-d" "--delimiter"; v]
  | IOptV OTempl l v => [flag l "-t" "--template"; v]
  end.
Definition render (its : list item) : list text := flat_map render_item its.

(** ** What a list of items means: the command list it denotes.
    [-r N R] replaces the last N commands of the list being written by one
    repeat group. *)
Definition rep_of (l : list cmd) (n r : text) : list cmd :=
  match counts n r with
  | Some (n, r) => repeat_last l n r
  | None => l
  end.

Fixpoint denote_step (l : list cmd) (i : item) : list cmd :=
  match i with
  | ICut _ s => l ++ [CCut s]
  | INamed _ n s => l ++ [CNamed n s]
  | IMove _ s => l ++ [CMove s]
  | INext _ => l ++ [CNext]
  | IRep _ n r => rep_of l n r
  | IGlob _ k pat th el =>
    l ++ [CGlobal (match k with GG => true | GV => false end) pat
            (fold_left denote_step th [])
            (match el with Some e => Some (fold_left denote_step e []) | None => None end)]
  | IOpt _ _ | IOptV _ _ _ => l
  end.
Definition denote (its : list item) : list cmd := fold_left denote_step its [].

(** Option items act on the option fields of [Opts] and on nothing else. *)
Definition opt_step (o : opts) (i : item) : opts :=
  let '(mkOpts d t ip j tr lw tf km bk se gl si c fl) := o in
  match i with
  | IOpt OJson _ => mkOpts d t ip true tr lw tf km bk se gl si c fl
  | IOpt OTrace _ => mkOpts d t ip j true lw tf km bk se gl si c fl
  | IOpt OLinewise _ => mkOpts d t ip j tr true tf km bk se gl si c fl
  | IOpt OSerial _ => mkOpts d t ip j tr lw tf km bk true gl si c fl
  | IOpt OTrim _ => mkOpts d t ip j tr lw true km bk se gl si c fl
  | IOpt OKeep _ => mkOpts d t ip j tr lw tf true bk se gl si c fl
  | IOpt OBackup _ => mkOpts d t ip j tr lw tf km true se gl si c fl
  | IOpt OGln _ => mkOpts d t ip j tr lw tf km bk se true si c fl
  | IOpt OSilent _ => mkOpts d t ip j tr lw tf km bk se gl true c fl
  | IOpt OInplace _ => mkOpts d t true j tr lw tf km bk se gl si c fl
  | IOptV ODelim _ v => mkOpts (Some v) t ip j tr lw tf km bk se gl si c fl
  | IOptV OTempl _ v => mkOpts d (Some v) ip j tr lw tf km bk se gl si c fl
  | _ => o
  end.

(** What a whole command line denotes: the options in the order given, and the
    command list of the command items in the order given. *)
Definition denote_opts (its : list item) : opts :=
  set_cmds (fold_left opt_step its opts0) (denote its).

(** ** Textual unrolling. A group is what one already-processed item (or one
    earlier [-r] group) has become; [-r N R] replaces the last N groups by one
    group holding their items written out R+1 times in all. *)
Fixpoint unroll_step (gs : list (list item)) (i : item) : list (list item) :=
  match i with
  | IRep _ n r =>
    match counts n r with
    | Some (n, r) =>
      let k := N.to_nat n in
      dropn_end k gs ++ [repeat_list (concat (lastn k gs)) (N.to_nat (r + 1))]
    | None => gs
    end
  | IGlob l k pat th el =>
    gs ++ [[IGlob l k pat (concat (fold_left unroll_step th []))
              (match el with
               | Some e => Some (concat (fold_left unroll_step e []))
               | None => None
               end)]]
  | IOpt _ _ | IOptV _ _ _ => gs
  | other => gs ++ [[other]]
  end.
Definition is_opt (i : item) : bool :=
  match i with IOpt _ _ | IOptV _ _ _ => true | _ => false end.
(** Option items are kept, in order, in front of the unrolled commands. *)
Definition unroll (its : list item) : list item :=
  filter is_opt its ++ concat (fold_left unroll_step its []).

(** ** Flattening a command tree: a repeat group is its body written out. *)
Fixpoint flatten1 (c : cmd) : list cmd :=
  match c with
  | CRepeat body k => repeat_list (flat_map flatten1 body) (N.to_nat k)
  | CGlobal pol pat th el =>
    [CGlobal pol pat (flat_map flatten1 th)
       (match el with Some e => Some (flat_map flatten1 e) | None => None end)]
  | other => [other]
  end.
Definition flatten (l : list cmd) : list cmd := flat_map flatten1 l.

(** ** Well-formed items: operands are not mistaken for flags. *)
Fixpoint wf_item (top : bool) (i : item) : bool :=
  match i with
  | ICut _ s => negb (starts_dash s) && negb (starts_with (T "name=") s)
  | INamed _ n s => negb (starts_dash s) && negb (top && text_eqb n (T "0"))
  | IMove _ s => negb (starts_dash s)
  | INext _ => true
  | IRep _ n r => match counts n r with Some _ => true | None => false end
  | IGlob _ _ pat th el =>
    negb (starts_dash pat) && forallb (wf_item false) th
    && match el with Some e => forallb (wf_item false) e | None => true end
  | IOpt _ _ => top
  | IOptV _ _ v => top && negb (starts_dash v)
  end.
