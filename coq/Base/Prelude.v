(** Common definitions: texts as lists of code points / bytes, outcomes. *)
From Coq Require Export String Ascii.
From Coq Require Export List NArith Arith Bool Lia.
Export ListNotations.
Open Scope N_scope.

(** A text is a list of numbers: Unicode scalar values for buffers, bytes for
    argv strings (the generators keep argv ASCII so both readings coincide). *)
Definition text := list N.

Definition T (s : string) : text :=
  List.map N_of_ascii (list_ascii_of_string s).

Fixpoint text_eqb (a b : text) : bool :=
  match a, b with
  | [], [] => true
  | x :: a', y :: b' => N.eqb x y && text_eqb a' b'
  | _, _ => false
  end.

Lemma text_eqb_spec a b : reflect (a = b) (text_eqb a b).
Proof.
  revert b; induction a as [|x a IH]; intros [|y b]; cbn [text_eqb];
    try (constructor; congruence).
  destruct (N.eqb_spec x y) as [->|Hne]; cbn [andb].
  - destruct (IH b) as [->|Hne]; constructor; congruence.
  - constructor; congruence.
Qed.

Lemma text_eqb_refl a : text_eqb a a = true.
Proof. destruct (text_eqb_spec a a); congruence. Qed.

Lemma text_eqb_eq a b : text_eqb a b = true <-> a = b.
Proof. destruct (text_eqb_spec a b); split; congruence. Qed.

Fixpoint starts_with (p a : text) : bool :=
  match p, a with
  | [], _ => true
  | x :: p', y :: a' => N.eqb x y && starts_with p' a'
  | _ :: _, [] => false
  end.

Fixpoint strip_prefix (p a : text) : option text :=
  match p, a with
  | [], _ => Some a
  | x :: p', y :: a' => if N.eqb x y then strip_prefix p' a' else None
  | _ :: _, [] => None
  end.

Definition starts_dash (a : text) : bool :=
  match a with 45 :: _ => true | _ => false end.

(** Every Rust panic site that the model carries explicitly. *)
Inductive site :=
| P_parse_r_underflow      (* main.rs: new.cmds.len() - cmd_count *)
| P_undo_replace_range     (* linebuf.rs Verb::Undo replace_range *)
| P_slice_boundary         (* a str slice off a char boundary / out of range *)
| P_unwrap_none            (* Option::unwrap on None *)
| P_other.

(** What a modelled Rust function can do besides returning a value:
    exit(1) with a diagnostic (also: an [Err] propagated to
    [complain_and_exit]), panic, or — model only — run out of fuel. *)
Inductive outcome (A : Type) :=
| Ok (a : A)
| Exit1
| Panic (s : site)
| OutOfFuel.
Arguments Ok {A} a.
Arguments Exit1 {A}.
Arguments Panic {A} s.
Arguments OutOfFuel {A}.

Definition obind {A B} (o : outcome A) (f : A -> outcome B) : outcome B :=
  match o with
  | Ok a => f a
  | Exit1 => Exit1
  | Panic s => Panic s
  | OutOfFuel => OutOfFuel
  end.

Fixpoint repeat_list {A} (l : list A) (k : nat) : list A :=
  match k with O => [] | S k' => l ++ repeat_list l k' end.

Definition lastn {A} (n : nat) (l : list A) : list A := skipn (List.length l - n) l.
Definition dropn_end {A} (n : nat) (l : list A) : list A := firstn (List.length l - n) l.

Lemma dropn_lastn {A} n (l : list A) : dropn_end n l ++ lastn n l = l.
Proof. apply firstn_skipn. Qed.
