#!/usr/bin/env python3
"""deviation census for C02: tools/c02_triage.py [seed] [nA] [filter]"""
import sys, random, json, collections
sys.path.insert(0, "/verif/tools")
from vplib.common import server_map, TARGET
from vplib.props import c02
from vplib import vimref as VR
import os
binary = os.path.join(TARGET, "debug", "vicut")
seed = int(sys.argv[1]) if len(sys.argv) > 1 else 0
nA = int(sys.argv[2]) if len(sys.argv) > 2 else 20000
flt = sys.argv[3] if len(sys.argv) > 3 else ""
rng = random.Random(seed)
cmds = [c for c in c02.commands() if flt in c[0]]
texts = list(c02.small_texts(4))
cases = []
for _ in range(nA):
    t = rng.choice(texts); c = rng.choice(c02.cursors(t)); cls, keys = rng.choice(cmds)
    cases.append({"text": t, "cursor": c, "keys": keys, "cls": cls})
vim = VR.run_vim(cases)
ans = server_map(binary, [{"op": "keys", "text": c["text"], "cursor": c["cursor"], "keys": ["".join(c["keys"])], "last_only": True} for c in cases])
tot = collections.Counter(); bad = collections.Counter(); ex = {}
for c, v, a in zip(cases, vim, ans):
    if v is None or v["err"]: continue
    tot[c["cls"]] += 1
    st = (a.get("steps") or [{}])[-1]
    if "buf" not in st:
        bad[c["cls"]] += 1; ex.setdefault(c["cls"], []).append((c["text"], c["cursor"], c["keys"], "PANIC", str(st)[:100])); continue
    il = VR.text_to_lines(st["buf"]); ip = VR.index_to_pos(st["buf"], st["cursor"]); vp = VR.index_to_pos("\n".join(v["lines"]), v["cursor"])
    ghost = (not c["text"].endswith("\n")) and v["lines"] and v["lines"][-1] == "" and il == v["lines"][:-1]
    if ghost:
        continue
    if il != v["lines"] or ip != vp:
        bad[c["cls"]] += 1
        ex.setdefault(c["cls"], []).append((c["text"], c["cursor"], c["keys"], (v["lines"], vp), (il, ip)))
rows = sorted(tot, key=lambda k: (-bad[k] / tot[k], k))
for k in rows:
    if bad[k]:
        e = min(ex[k], key=lambda x: len(x[0]))
        print(f"{bad[k]:4d}/{tot[k]:4d} {k:22s} e.g. {e[0]!r}@{e[1]} {e[2]} vim={e[3]} impl={e[4]}")
print("classes ok:", sum(1 for k in tot if not bad[k]), "of", len(tot))
