#!/usr/bin/env python3
"""Writes MANIFEST.json from the table below (kept in one place so it stays valid)."""
import json
import os

ROOT = "/verif"
HOOK_COMMITS = ["9464261", "db74668", "82c77a2", "4c6d354", "d980f79", "b9c8edd", "6f90701", "cd8a56a", "63dd92f"]

TB = ("Trusted: Coq 8.16.1 kernel (+vm_compute for evaluating the model on correspondence cases; no native_compute); "
      "the hand-written Gallina model, tied to /repo only by this check's correspondence run against the binary built from /repo's working tree with --cfg vicut_verif; "
      "the Python harness (generators, canonicalisation, Coq term printer/parser) and src/verif.rs. "
      "Every theorem in Props/<id>.v is 'Closed under the global context' (audited each run). ")

CLAIMED = {
    "C12": dict(
        text="Theorems (all argv/item lists, any nesting, any editor core): the model of Opts::parse/handle_global_arg maps a rendered item list to the command tree it denotes; "
             "flattening that tree equals the tree of the textually unrolled list; executing Cmd::Repeat equals executing the written-out body (parametric in the core). "
             "Correspondence: the real Opts::parse (Cmd-tree dump) vs the model on generated and malformed argv; direct oracle: -r form vs Coq-unrolled form executed on sample texts; vic repeat blocks.",
        note=TB + "pest/vic parser not modelled (vic repeat compared at the CLI only); file arguments not generated (file_ok oracle).",
        technique="Coq proof (induction over item trees / stack-machine parser model) + model-vs-binary correspondence",
        design="§5 C12"),
    "C18": dict(
        text="Theorems (all well-formed item lists, any nesting): every re-spelling (short/long) parses to the same Opts; the parsed Opts depends only on the option sequence and the command sequence, not on their interleaving (top level); "
             "option-inside-scope rejection proved as a refutation witness (known finding). Correspondence: real Opts::parse vs model on 7 spelling/position variants of each generated command line; "
             "the mechanical vic translation of the model's tree is parsed by the binary (tree equality) and all forms executed (byte-identical stdout).",
        note=TB + "pest/vic parser not modelled: vic side rests on tree comparison and output equality (partial).",
        technique="Coq proof (parser model = denotation, spelling/position invariance) + model-vs-binary correspondence",
        design="§5 C18"),
    "C14": dict(
        text="Theorems: for every text, the JSON string literal written by the model of serde_json's escaping decodes (RFC 8259) to exactly that text and stops at its closing quote; field keys after -n are 1..k or the given names, values in order; "
             "no -c => the buffer verbatim; template literals are copied, closed placeholders replaced by the field, unknown ones are an error; duplicate names refuted (known finding). "
             "Correspondence: the real format_output_json/_standard/_template called in-process on random records with hostile contents vs the model; whole CLI pipeline: stdout = model format_output(dumped records)+newline; json.loads / join / numbering oracles.",
        note=TB + "The JSON document structure (array/object layout) is validated by json.loads on the real output, not proved; serde_json itself is re-modelled, not verified.",
        technique="Coq proof (escape/unescape round trip by induction, numbering invariant, template scanner lemmas) + model-vs-binary correspondence",
        design="§5 C14"),
    "C03": dict(
        text="Theorems: get_lines loses/duplicates/merges/reorders nothing (concat = input; every piece non-empty with a newline only as terminator); the stdin driver's records are the per-line records concatenated in order; template and delimiter renderings of concatenated records are the concatenation of the renderings; "
             "for every schedule and whatever registers the worker threads hold, the sorted per-line results are the lines' own results (execute resets registers). Correspondence: --linewise runs (stdin/files, serial/parallel, all output modes) vs the Coq driver model fed with the hook's per-unit records; oracles: units = lines exactly once, output = concatenation of one real run per line.",
        note=TB + "JSON layout per driver is modelled, not proved equal across drivers; rayon scheduling trusted (see C04).",
        technique="Coq proof (list induction, permutation/sort argument) + driver-model correspondence + per-line oracle",
        design="§5 C03"),
    "C04": dict(
        text="Theorems: sort_by_key restores input order from any collection order (permutation argument); schedule independence and isolation for every assignment of units to workers and every initial register state, because execute() resets the registers; refutation for the pre-fix code; parallel = serial up to serial's final newline (single file). "
             "Partial: the theorem covers every schedule of the model; real rayon interleavings are sampled: 36/80 scenarios x 5/10 runs with RAYON_NUM_THREADS in {1..32} and seeded jitter (hook), byte-compared with each other and with --serial, worker ids read from the hook trace.",
        note=TB + "Trusted and not modelled: rayon runs a unit entirely on one worker and only produces schedules of the model; thread_local! is per thread; safe Rust has no data race.",
        technique="Coq proof (schedule-independence by permutation + insertion-sort lemma) + sampled real schedules with jitter hook",
        design="§5 C04"),
    "C05": dict(
        text="Theorems (all file systems, file lists, payloads): the write loop of the -i drivers leaves every named file holding exactly its payload, touches no other path and prints nothing; with --backup the sibling holds the original object (under the stated no-collision hypothesis); the default driver with -i is that loop on the formatted outputs; the payload equals what the run without -i prints (single file); the same outcome for the two-pass write phase (every backup first) that the parallel drivers use. "
             "Correspondence: every -i run and its twin executed in a scratch directory (4 modes x --backup, stale backups, extension-less/dot files, unnamed bystander files) vs the Coq driver model; oracles: twin payload, motion-only identity, backups, nothing else touched.",
        note=TB + "OS-level behaviour of fs::write/fs::copy not modelled (atomic in the model).",
        technique="Coq proof (file-system map lemmas, induction over the write loop) + driver-model correspondence",
        design="§5 C05"),
    "C06": dict(
        text="Theorems: for the default/pooled and the parallel --linewise drivers, any unreadable file or aborting unit (any subset, any position), and any formatting error, leaves file system and stdout exactly as before (all reads, executions and formatting precede the first write); --serial refuted with a witness (known finding); the write phase with --backup in two passes (every backup, then every file, as the code does since the repair): a backup that cannot be made leaves every named file as it was. "
             "Fault enumeration at the CLI: 2..4 files x all non-empty fault subsets x {invalid UTF-8, data-dependent abort, missing template field} x 7 modes (incl. pooled via vic opts) x --backup (exhaustive on thorough) vs the Coq driver model; oracle: no named file changed, no stray backup; a directory among the files and a file removed by the run's own commands as further faults (the latter compared with the two-pass model).",
        note=TB + "Write-time faults (disk full, permissions) are not injected; fs::write atomicity not modelled.",
        technique="Coq proof (phase structure of the drivers) + exhaustive fault enumeration against the driver model",
        design="§5 C06"),
    "C15": dict(
        text="Theorems (all token lists of any length): a key string made of the 14 special keys - each independently as alias or as raw control byte / escape sequence - and ordinary characters (any scalar value, multi-byte included) is read one key per token, in order, to its end, so the notation is irrelevant; "
             "'\\<' delivers both characters; '<' that opens no alias is literal; UTF-8 reassembly recovers every scalar value (arithmetic proof). "
             "Correspondence: the real RawReader (in-process) vs the model on alias/modifier/escape-sequence/multi-byte key strings incl. truncated and unknown ones; CLI: 33 scenario templates over normal/insert/replace/visual/search/ex with every alias/raw rendering compared; insert-mode literal texts vs the expand_literal model.",
        note=TB + "Raw ESC followed by '[' or 'O' is an escape sequence by definition and excluded; 'alias' is the code's grammar (so <a> is the key A).",
        technique="Coq proof (byte-level reader model, induction over tokens, lia for UTF-8 arithmetic) + model-vs-binary correspondence",
        design="§5 C15"),
    "C01": dict(
        text="Theorems (every segmentation of every buffer, multi-byte clusters included): slicing through a fresh cache returns whole clusters and a contiguous stretch; what read_field returns after the key loop is the stretch between the cursor before and after the command, both ends included, clamped into the buffer; "
             "charwise/linewise selections yield exactly the selected clusters. The key loop is a parameter. Correspondence: the real read_field (in-process) on 2.5k/20k (text, start cursor, earlier commands, command) cases vs the model evaluated on the dumped buffer/cache/cursors/selection; "
             "oracles on the fresh segmentation: field = clusters between the cursors / the selection (block rows included); non-editing commands leave the buffer unchanged.",
        note=TB + "That motions/selections/yanks never change the text is checked on the implementation (every case) but not yet proved: it needs the editor-core model.",
        technique="Coq proof (byte-offset/cluster lemmas, clamp arithmetic) + model-vs-binary correspondence on dumped states",
        design="§5 C01"),
    "C07": dict(
        text="Theorems (every history of commands, u and <c-r>, every text): the stacks are chains of whole texts ending in the current text (invariant by induction over the history); u after a change returns the text before it; an insert session is one change; length-of-stack u's return the original input; "
             "<c-r> after u restores text and stacks; a change drops the redo history; the text after any history is the input or a text some command produced (no new states); the model has no failing outcome. "
             "Correspondence: every ViCmd executed by LineBuf::exec_cmd is traced by the hook and replayed on the model; final buffer and both stacks must match; oracles: no panic at u/<c-r>, earlier-state membership, 14 trailing u's return the input.",
        note=TB + "What each command does to the text is taken from the trace (parametric).",
        technique="Coq proof (chain invariant by induction over operation lists) + trace replay correspondence",
        design="§5 C07"),
    "C19": dict(
        text="Theorems (every sorted match list, every cursor): /P lands on a match, the first one that starts after the cursor or else the first of the buffer; ?P mirrors it; n/N are the search in the same/opposite direction and always land on a match; a count on n equals that many presses (modular-arithmetic proof over strictly increasing match lists); no match => Null motion; the cursor index is the cluster whose first byte is the match start. "
             "'Match' is the regex engine's find_iter (oracle). Correspondence: every search ViCmd traced by the hook (chains of / ? n N with counts, multi-byte texts, all start cursors) vs the model on (cached offsets, match starts, cursor byte); reference oracle from Python re with wrap-around, direction memory and iterated counts; searches never edit the text; -c fields.",
        note=TB + "regex crate replaced by Python re on the shared subset (no empty matches).",
        technique="Coq proof (first/last-position lemmas, modular iteration) + trace correspondence + reference search",
        design="§5 C19"),
    "C13": dict(
        text="Theorems (every buffer as a cluster list, every match oracle): the scope's line list contains a line iff it is a line of the text and matches (for -v: does not), each once; -g and -v partition the lines; lines are visited last to first and editing at or after a line's start does not move it (so the cursor is on each visited line's first character for line-local scopes); --else runs iff the list is empty. "
             "Correspondence/oracles at the CLI: 0..9-line texts (empty lines, multi-byte, with/without final newline) x 20 patterns x -g/-v x three observation variants (mark visited lines, cut the character under the cursor per visit, --else) vs Python re per line; the model's scan (lines and starts) evaluated on the real segmentation.",
        note=TB + "regex is an oracle; CRLF texts excluded here (a \\r\\n cluster is not a line break for the editor).",
        technique="Coq proof (filter/rev/NoDup reasoning, prefix-stability of line starts) + CLI oracles",
        design="§5 C13"),
    "C11": dict(
        text="Theorems (every editor: what a key does is a parameter; key strings read by the byte-level reader model, aliases or raw, multi-byte): if every command of a key string ends at a command boundary (where the end-of-keys submit and the mode reset are the identity), every grouping of the commands into consecutive -m arguments - all 2^(k-1) splittings - yields the state of the keys fed in one go; "
             "without --keep-mode the next argument always starts from the reset mode, with it nothing is reset. Checks run the real execute() at the CLI: sequences of 2..8 boundary-ending commands (probed on the implementation) under all/sampled splittings, buffer with a cursor marker compared; "
             "first arguments ending in pending counts/registers/operators or open Insert/Replace/Visual modes; --keep-mode carry-over and submitted Ex/Search lines; the boundary contract validated on state dumps.",
        note=TB + "Per-key behaviour of the modes is a parameter (partial); with --keep-mode a pending operator also persists: known finding keep-mode-pending-seq.",
        technique="Coq proof (fold over key events on top of the C15 reader theorem) + CLI differential over splittings",
        design="§5 C11"),
    "C20": dict(
        text="Theorems (every line-buffer semantics): after a repeatable change X and any non-repeatable commands in between, '.' leaves text, cursor and registers exactly as executing X again does; what '.' repeats is untouched by motions/yanks/failed commands; chains X . . . equal X typed k+1 times; a count on '.' executes the stored command with that count. "
             "Correspondence/oracle in-process through the real ViCut: (text, cursor, change X from the repeatable set incl. registers, counts, text objects and insert sessions with <BS>/cursor keys/empty text, earlier changes, 0..4 commands in between, chains up to 5, counts 2/3) with '.' vs X retyped; the editor's repeat register compared across the in-between commands. "
             "Insert sessions entered by a A I o O, c s S C, R, counted sessions and cursor keys inside sessions are known findings (classes by command kind).",
        note=TB + "That retyping X parses to the stored ViCmd, and with_count n X to X typed with count n, is validated by the check, not proved (the normal-mode parser is not modelled).",
        technique="Coq proof (invariant: stored change = last repeatable command) + differential check dot vs retyped",
        design="§5 C20"),
    "C08": dict(
        text="Theorems (the buffer as its list of grapheme clusters, every cluster range [s,e), hence every motion and text object): delete/change put exactly the removed text into the register and preserve pre and post; yank leaves the text and stores the covered span, the same text a delete over that span removes; put inserts exactly the pieces, delete-then-put restores the text; "
             "upper-case registers append, lower-case overwrite; case operators preserve the cluster count and every cluster outside the span and map only one-character clusters; toggling touches only ASCII letters. "
             "Correspondence/oracles in-process with the ViCmd trace: pre+mid+post decomposition against the dumped registers (append included), yank vs delete over the same motion, put, insert sessions, case operators, r; the drain+register primitive replayed on the model with the same cluster range.",
        note=TB + "Which range a motion selects belongs to C02; block registers are exercised by C01/C02 only.",
        technique="Coq proof (list-splitting lemmas over cluster lists) + trace-based oracles and primitive replay",
        design="§5 C08"),
    "C09": dict(
        text="Theorems (every cluster list, every cursor a command may leave): the end of exec_cmd puts the cursor inside the text for its mode and, in normal mode, never on the terminator of a non-empty line, and is idempotent; line numbers by newline characters and by newline clusters agree for all texts without \\r\\n (refuted with a CRLF witness: known finding); the reported byte offset is the start of the cluster under the cursor; slices through a fresh cache are cluster aligned. "
             "That every verb re-establishes the rest of the invariant is checked, not proved: random histories (up to 14/40 keys, all modes, modes left open, undo/redo/dot/ex/search) and a fixed regression corpus, with the full state dumped after every key string and the invariant evaluated (cursor.max, fresh cache, bounds per mode, terminator rule, selection inside text and around the cursor); thorough adds the exhaustive depth-3 histories over 20 commands x 5 buffers; vic built-ins line/col/pos/buf_len/char checked against the printed text.",
        note=TB + "Per-verb preservation of the invariant needs the editor-core model (partial).",
        technique="Coq proof (epilogue clamp lemmas, line-count agreement) + invariant evaluation on dumped states",
        design="§5 C09"),
    "C16": dict(
        text="Theorems (all buffers, ranges, patterns of the fragment): the reference semantics of :[range]d, :[range]y + :[k]pu, :[range]s/pat/rep/[g], :g[!]/pat/d and :g[!]/pat/s changes exactly the addressed lines - the buffer is before ++ within ++ after and only within is removed, copied, rewritten line by line or filtered; the register holds the removed/yanked lines; a backwards range is the same range; a range past the last line or an offset before line 0 addresses nothing and the command is the identity; the first match of the matcher is the leftmost one and a line without a match is unchanged; text and line list carry the same information with and without a final terminator. "
             "Correspondence: chains of 1..4 ex commands (numbers incl. 0 and past the end, . $ % +n -n, reversed ranges; literals, ., classes, \\d, * + ?, ^ $; multi-byte; 0..12 lines; last line with and without terminator) are run through the real CLI and through the reference evaluated in coqc and compared line by line; the reference itself is compared with Vim 9 (vim -es) on every case (0 disagreements), and a corpus of every repaired deviation runs first.",
        note=TB + "The reference is Vim's address rules (validated against /usr/bin/vim each run), not sed's: out-of-range ranges address nothing, backwards ranges are swapped. Where the cursor is after an ex command, the regex crate beyond the modelled fragment, and :normal! keys other than x dd A.. I.. are outside the model (partial).",
        technique="Coq proof (list-surgery lemmas over the line list, leftmost-match lemma for the matcher) + CLI-vs-reference correspondence, reference cross-checked against Vim",
        design="§5 C16"),
    "C17": dict(
        text="Theorems (reference interpreter, all programs, states and fuels): a block is a scope - after a block, however it is left (end, break, continue, return), the variable stack has exactly the frames and names it had before; a name not visible before a block is not visible after it; output only grows; "
             "the result of a run is independent of the fuel of the definition (a run that ends within its fuel gives the same result with any larger fuel) - proved by one mutual induction over the seven functions of the interpreter. "
             "Correspondence: programs generated from the expressible core grammar (let/assign/compound assign, left-to-right arithmetic with parentheses and negative literals, comparisons, && ||, if/elif/else, while/until, for over ranges/arrays/literals/strings, "
             "push/pop/index/index-assign, functions with 0..3 parameters (also named like globals) and return from nested ifs, break/continue from nested ifs, shadowing, interpolation, echo; with and without an input buffer feeding $line $col $lines $char $word) "
             "are run through the CLI and through the reference evaluated in coqc; stdout must be byte-identical; every program ends by echoing all top-level variables; a hand-written corpus (recursion, shadowing, early return, break/continue, arithmetic order, arrays/strings) runs first.",
        note=TB + "The pest grammar and Expr::from_rule are not modelled: the generator writes source text and AST side by side (partial). Only the core named by the property: no regex values, ternaries, registers, buffers, aliases, includes. Functions use dynamic scope in model and implementation alike; generated bodies only use parameters and top-level variables.",
        technique="Coq proof (mutual fuel induction: scope/output invariant, fuel monotonicity) + CLI-vs-reference-interpreter correspondence",
        design="§5 C17"),
    "C02": dict(
        text="The reference of this property is Vim 9 itself, run live in batch mode on every case. Theorems (Coq reference model of the core motions h l 0 ^ $ w b e ge W B E gE f F t T with counts, all texts and cursors): every motion keeps the cursor inside the text; the settled normal-mode cursor is never on the line break of a non-empty line; "
             "w makes progress and stops only at a word start, an empty line or the end of the text; b and ge go strictly backwards; f F t land on (before) the searched character on the cursor's line or do not move. The model is tied to Vim and to vicut on every sampled motion case (Vim = model = vicut, zero tolerance). "
             "Theorems (Coq model of the operators d y c over these motions, of dd yy cc, the word text objects, the line motions j k G gg, the case operators g~ gU gu, ~, r, J, j / k over display columns and p / P, Vim's rules transcribed): d removes one stretch and nothing else, the register holds exactly that stretch and putting it back restores the text; y never changes the text and fills the register as d would; c puts the typed text in place of the range; a failed motion leaves text and register alone; whole-line operations keep what is outside the lines; operator-w only goes forward and its range starts at the cursor; a put inserts count copies of the register in one place and nothing else and gives back what d took; the cursor d leaves is a normal-mode cursor; a word text object starts at or before the cursor; an operator over j k G gg fails without moving or takes whole lines with the cursor's line first or last among them; the case operators, ~ and r keep the text's length and line breaks and change nothing outside their range; J conserves every character that is neither a blank nor a line break, in order; j / k stay in the text; whole lines taken by d go back with P. "
             "The operator model is compared with live Vim on every case of a fixed family (text, cursor, register text and kind; zero tolerance) and vicut with Vim on the same cases. "
             "For the whole command subset (operators with motions and text objects, x X r ~ J p P D C Y dd yy cc, insert sessions with counts, yank-then-put, dot-repeat, v/V + motion + operator, operator+f then ; ,) vicut is compared with Vim on the exhaustive small-scope family (all texts over {a b space . newline} up to length 2 / 3, every cursor, every command), "
             "a fixed sample of texts up to length 5 and a fixed set of realistic records with 1-3 commands; the cases that deviate on the repaired tree are recorded one by one (known/c02_deviations.json) and listed by command class in known_findings.txt: any other deviation is a violation.",
        note=TB + "Vim 9.0 (/usr/bin/vim) must be present: it is the oracle (if it is missing the check reports that it cannot decide). Outside the motion and operator models the decision is a comparison with Vim over a finite corpus - the property's own quantifier - not a theorem (partial). :normal! per command stands for typing; lines and cursor (line, character column) are compared.",
        technique="Coq proof (bounds / progress / landing lemmas for the motion model; locality / register / no-op theorems for the operator model) + three-way correspondence Vim = model = vicut on motions, Vim = model on operators + live Vim oracle over an exhaustive small-scope corpus with recorded deviations",
        design="§5 C02"),
    "C10": dict(
        text="Theorems (all inputs of the modelled components): Opts::parse/handle_global_arg end with an option set or the usage error for every argument vector, scope stack and file-system answer, never a panic (structural recursion: it ends); every key the key reader returns costs at least one byte, so the key loop ends within one iteration per byte and the model's fuel is never what stops it; output formatting ends with text or the error exit; "
             "the five drivers and main's dispatch add no panic to units that end gracefully; undo/redo have no failing outcome. "
             "For the un-modelled rest (editor core, ex, vic) the decision is a test, not a proof: argument vectors from the CLI grammar incl. malformed ones, per-mode key grammar, ex/search lines with bad regexes and ranges, raw control/printable fuzz, vic snippets and token soup on empty, newline-only, long-line, multi-byte, combining, ZWJ-emoji, CRLF and NUL texts, plus a regression corpus of every crash repaired; oracle: exit status 0/1 (1 with a diagnostic), no panic, no signal, 8 s limit, valid UTF-8 on stdout.",
        note=TB + "Panic-freedom of LineBuf verbs/motions, the mode parsers, ex commands and the vic interpreter is covered by the input stream only (partial); hangs there can only be observed by timeout; argument vectors that ask for exponential work (nested -r over line-adding globals) are left out of the stream and counted.",
        technique="Coq proof (totality / progress lemmas for parser, key reader, formatters, drivers, undo) + CLI and in-process crash stream with regression corpus",
        design="§5 C10"),
}

NOT_YET = {}


def main():
    props = [json.loads(l) for l in open(os.path.join(ROOT, "properties.jsonl"))]
    checks = []
    na = []
    for p in props:
        pid = p["id"]
        if pid in CLAIMED:
            c = CLAIMED[pid]
            checks.append({
                "property_id": pid,
                "quick_cmd": f"tools/vp check {pid} --tier quick",
                "thorough_cmd": f"tools/vp check {pid} --tier thorough",
                "evidence_file": f"/verif/evidence/{pid}.json",
                "replay_cmd_template": f"tools/vp check {pid} --replay {{path}}",
                "engine": "vp",
                "level_claimed": {"category": "proof", "text": c["text"], "design_ref": c["design"]},
                "level_note": c["note"],
                "technique": c["technique"],
            })
        else:
            na.append({"property_id": pid, "reason": NOT_YET.get(pid, "check not built yet in this round (planned, see DESIGN.md §9/§10); not claimed until its theorem and correspondence run exist")})
    m = {
        "version": 1,
        "setup_cmd": "tools/vp setup",
        "hooks": {
            "guard": "vicut_verif",
            "enable": "RUSTFLAGS=\"--cfg vicut_verif\" CARGO_TARGET_DIR=/verif/build/target cargo build --offline (run by every check from /repo's working tree)",
            "baseline_off_cmd": "cd /repo && (cargo nextest run --workspace --no-fail-fast --tool-config-file pb:/w/lib/nextest.toml --profile pb --test-threads 8 --offline || cargo test --workspace --no-fail-fast --offline)",
            "source_commits": HOOK_COMMITS,
            "add_only": True,
        },
        "engines": [
            {"name": "coq-model", "path": "coq/", "serves_properties": sorted(CLAIMED), "kind_free_text": "Gallina model, specs and theorems (Coq 8.16.1, stdlib only)"},
            {"name": "vp", "path": "tools/", "serves_properties": sorted(CLAIMED), "kind_free_text": "Python harness: builds, generators, correspondence (model in coqc vs hooked binary), verdicts, evidence"},
            {"name": "vicut-hook", "path": "/repo/src/verif.rs", "serves_properties": sorted(CLAIMED), "kind_free_text": "cfg(vicut_verif) in-process server, Cmd-tree dump, schedule probe"},
        ],
        "checks": checks,
        "not_applicable": na,
        "notes": "See DESIGN.md. known_findings.txt lists repaired defects (fix: commits in /repo) and findings left in place.",
    }
    json.dump(m, open(os.path.join(ROOT, "MANIFEST.json"), "w"), indent=1)
    print(f"claimed {len(checks)}, not claimed {len(na)}")


if __name__ == "__main__":
    main()
