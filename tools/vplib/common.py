"""Shared machinery for the vicut verification checks.

Builds (Coq project, hooked vicut binary), the implementation drivers (CLI and
in-process server), Python<->Coq term exchange for evaluating the model inside
coqc with vm_compute, evidence and verdict plumbing.
"""
import fcntl
import hashlib
import json
import os
import random
import re
import shutil
import subprocess
import sys
import time
from concurrent.futures import ThreadPoolExecutor

ROOT = "/verif"
# The registered commands always check /repo's working tree. The overrides exist for one purpose: trying the checks on a
# scratch worktree with a seeded change (tools/seed_sweep) without touching /repo, /verif/evidence or /verif/replay.
REPO = os.environ.get("VP_SCRATCH_REPO", "/repo")
_OUT = os.environ.get("VP_SCRATCH_OUT")
BUILD = os.path.join(_OUT, "build") if _OUT else os.path.join(ROOT, "build")
COQ = os.path.join(ROOT, "coq")
TARGET = os.path.join(BUILD, "target")
CASES = os.path.join(BUILD, "cases")
TMP = os.path.join(BUILD, "tmp")
REPLAY = os.path.join(_OUT or ROOT, "replay")
EVID = os.path.join(_OUT or ROOT, "evidence")
NPROC = os.cpu_count() or 4

os.makedirs(BUILD, exist_ok=True)


def log(*a):
    print(*a, file=sys.stderr, flush=True)


class Lock:
    def __init__(self, name):
        self.path = os.path.join(BUILD, name + ".lock")

    def __enter__(self):
        self.f = open(self.path, "w")
        fcntl.flock(self.f, fcntl.LOCK_EX)
        return self

    def __exit__(self, *a):
        fcntl.flock(self.f, fcntl.LOCK_UN)
        self.f.close()


# --------------------------------------------------------------------------
# builds

def cargo_env(release=False):
    env = dict(os.environ)
    env["RUSTFLAGS"] = "--cfg vicut_verif"
    env["CARGO_TARGET_DIR"] = TARGET
    env["CARGO_NET_OFFLINE"] = "true"
    return env


def build_impl(release=False):
    """Build the hooked binary from /repo's current working tree."""
    with Lock("cargo"):
        cmd = ["cargo", "build", "--offline", "--quiet"]
        if release:
            cmd.append("--release")
        t = time.time()
        p = subprocess.run(cmd, cwd=REPO, env=cargo_env(), stdout=subprocess.PIPE,
                           stderr=subprocess.STDOUT, text=True)
        if p.returncode != 0:
            log(p.stdout[-4000:])
            raise BuildError("cargo build failed")
        log(f"[build] cargo {'release' if release else 'debug'} {time.time()-t:.1f}s")
    return os.path.join(TARGET, "release" if release else "debug", "vicut")


class BuildError(Exception):
    pass


def coq_makefile():
    mk = os.path.join(COQ, "Makefile")
    cp = os.path.join(COQ, "_CoqProject")
    if not os.path.exists(mk) or os.path.getmtime(mk) < os.path.getmtime(cp):
        subprocess.run(["coq_makefile", "-f", "_CoqProject", "-o", "Makefile"], cwd=COQ,
                       check=True, stdout=subprocess.DEVNULL)


def build_coq(targets=None, timeout=1500):
    """make the given .vo targets (default: everything). Returns (ok, log)."""
    with Lock("coq"):
        coq_makefile()
        cmd = ["timeout", str(timeout), "make", "-j", str(NPROC)]
        if targets:
            cmd += targets
        t = time.time()
        p = subprocess.run(cmd, cwd=COQ, stdout=subprocess.PIPE, stderr=subprocess.STDOUT, text=True)
        log(f"[build] coq {' '.join(targets or ['all'])} {time.time()-t:.1f}s rc={p.returncode}")
        return p.returncode == 0, p.stdout


FORBIDDEN = re.compile(r"\b(Admitted|admit|Axiom|Axioms|Parameter|Parameters|Conjecture|Conjectures)\b|Unset\s+Guard|bypass_check|type-in-type|impredicative-set|Admit\s+Obligations")


def strip_coq_comments(src):
    out = []
    depth = 0
    i = 0
    while i < len(src):
        if src.startswith("(*", i):
            depth += 1
            i += 2
        elif src.startswith("*)", i) and depth > 0:
            depth -= 1
            i += 2
        else:
            if depth == 0:
                out.append(src[i])
            i += 1
    return "".join(out)


def forbidden_scan():
    """grep the whole development (comments stripped) for forbidden constructs."""
    hits = []
    for d, _, fs in os.walk(COQ):
        for f in fs:
            if f.endswith(".v"):
                p = os.path.join(d, f)
                src = strip_coq_comments(open(p).read())
                # section-less Variable/Hypothesis are caught by Print Assumptions;
                # here: the textual constructs.
                for m in FORBIDDEN.finditer(src):
                    hits.append(f"{os.path.relpath(p, COQ)}: {m.group(0)}")
    return hits


ALLOWED_AXIOMS = set()  # the development is axiom-free; anything listed is an alarm


def audit_props(pid):
    """Recompile Props/<pid>.v, return dict with theorem names, assumption report."""
    src_path = os.path.join(COQ, "Props", pid + ".v")
    res = {"file": src_path, "theorems": [], "ok": False, "assumptions": [], "log": ""}
    if not os.path.exists(src_path):
        res["log"] = "missing Props file"
        return res
    src = strip_coq_comments(open(src_path).read())
    res["theorems"] = re.findall(r"\b(?:Theorem|Corollary)\s+([A-Za-z0-9_']+)", src)
    checks = re.findall(r"\bCheck\s+([A-Za-z0-9_']+)\s*:", src)
    prints = re.findall(r"\bPrint\s+Assumptions\s+([A-Za-z0-9_']+)", src)
    res["pinned"] = checks
    ok, out = build_coq([f"Props/{pid}.vo", "Model/Obs.vo"])     # Obs.vo: the observation functions the correspondence evaluates
    if not ok:
        res["log"] = out[-3000:]
        return res
    with Lock("coq"):
        p = subprocess.run(["timeout", "600", "coqc", "-Q", ".", "Vicut", f"Props/{pid}.v"], cwd=COQ,
                           stdout=subprocess.PIPE, stderr=subprocess.STDOUT, text=True)
    res["log"] = p.stdout[-6000:]
    if p.returncode != 0:
        return res
    closed = p.stdout.count("Closed under the global context")
    axioms = re.findall(r"^Axioms:\n((?:.+\n)+?)(?=\n|\Z)", p.stdout, re.M)
    res["assumptions"] = [f"{closed} x Closed under the global context"] + axioms
    missing = [t for t in res["theorems"] if t not in prints]
    res["ok"] = (closed == len(prints) and not axioms and not missing and len(res["theorems"]) > 0)
    if missing:
        res["log"] += f"\nno Print Assumptions for: {missing}"
    return res


# --------------------------------------------------------------------------
# implementation drivers

class Server:
    """The hooked binary as an in-process line-protocol server."""

    def __init__(self, binary):
        self.binary = binary
        self.start()

    def start(self):
        cwd = os.path.join(TMP, "server_cwd")       # ex commands such as :w create files: keep them out of /verif
        os.makedirs(cwd, exist_ok=True)
        self.p = subprocess.Popen([self.binary, "--verif-serve"], stdin=subprocess.PIPE,
                                  stdout=subprocess.PIPE, stderr=subprocess.DEVNULL, text=True,
                                  encoding="utf-8", bufsize=1, cwd=cwd,
                                  env=dict(os.environ, SHELL=os.environ.get("VERIF_SERVER_SHELL", "/bin/true")))   # :! and :r ! run nothing

    def ask(self, req):
        try:
            self.p.stdin.write(json.dumps(req) + "\n")
            self.p.stdin.flush()
            line = self.p.stdout.readline()
        except (BrokenPipeError, OSError):
            line = ""
        if not line:
            try:
                rc = self.p.wait(timeout=5)      # the pipe closes a moment before the exit status is there
            except Exception:
                rc = self.p.poll()
            self.close()
            self.start()
            return {"died": rc}
        return json.loads(line)

    def close(self):
        try:
            self.p.stdin.close()
            self.p.wait(timeout=5)
        except Exception:
            self.p.kill()


def server_map(binary, reqs, nworkers=NPROC):
    """Answer all requests using a pool of servers; order preserved."""
    n = min(nworkers, max(1, len(reqs) // 50 + 1))
    chunks = [reqs[i::n] for i in range(n)]

    def work(chunk):
        s = Server(binary)
        try:
            return [s.ask(r) for r in chunk]
        finally:
            s.close()

    with ThreadPoolExecutor(n) as ex:
        results = list(ex.map(work, chunks))
    out = [None] * len(reqs)
    for k, res in enumerate(results):
        out[k::n] = res
    return out


def run_cli(binary, args, stdin="", env=None, cwd=None, timeout=20):
    """Run the binary as a subprocess; bytes in, bytes out."""
    e = dict(os.environ)
    e.pop("VICUT_VERIF_DUMP", None)
    if env:
        e.update(env)
    if isinstance(stdin, str):
        stdin = stdin.encode("utf-8")
    try:
        p = subprocess.run([binary] + list(args), input=stdin, stdout=subprocess.PIPE,
                           stderr=subprocess.PIPE, env=e, cwd=cwd, timeout=timeout)
        return p.returncode, p.stdout, p.stderr
    except subprocess.TimeoutExpired:
        return "timeout", b"", b""


def cli_map(binary, jobs, nworkers=NPROC):
    """jobs: list of dict(args=, stdin=, env=, cwd=). Returns list of (rc,out,err)."""
    def work(j):
        return run_cli(binary, j["args"], j.get("stdin", ""), j.get("env"), j.get("cwd"), j.get("timeout", 20))
    with ThreadPoolExecutor(nworkers) as ex:
        return list(ex.map(work, jobs))


# --------------------------------------------------------------------------
# Python <-> Coq terms

class C:
    """A Coq constructor application."""

    def __init__(self, name, *args):
        self.name = name
        self.args = args

    def __repr__(self):
        return f"C({self.name!r}, {', '.join(map(repr, self.args))})"

    def __eq__(self, o):
        return isinstance(o, C) and self.name == o.name and tuple(self.args) == tuple(o.args)

    def __hash__(self):
        return hash((self.name, tuple(map(repr, self.args))))


def txt(s):
    """str -> list of code points (model `text`)."""
    return [ord(c) for c in s]


def btxt(s):
    """str -> list of UTF-8 bytes."""
    return list(s.encode("utf-8"))


def untxt(l):
    return "".join(chr(c) for c in l)


class Nat(int):
    """An int to be written as a Coq nat."""


class ZInt(int):
    """An int to be written as a Coq Z."""


def coq(x):
    if isinstance(x, bool):
        return "true" if x else "false"
    if isinstance(x, Nat):
        return f"{int(x)}%nat"
    if isinstance(x, ZInt):
        return f"({int(x)})%Z"
    if isinstance(x, int):
        return str(x) if x >= 0 else f"({x})%Z"
    if isinstance(x, str):
        return coq(txt(x))
    if x is None:
        return "None"
    if isinstance(x, list):
        return "[" + "; ".join(coq(e) for e in x) + "]"
    if isinstance(x, tuple):
        return "(" + ", ".join(coq(e) for e in x) + ")"
    if isinstance(x, C):
        if not x.args:
            return x.name
        return "(" + x.name + " " + " ".join(coq(a) for a in x.args) + ")"
    raise TypeError(type(x))


def some(x):
    return C("Some", x)


_tok = re.compile(r"\s*(\{\||\|\}|:=|[\[\]();,]|[A-Za-z_][A-Za-z0-9_'.]*|-?[0-9]+)(%[a-zA-Z]+)?")


def parse_coq(s):
    """Parse a printed Coq value: numbers, lists, tuples, constructor applications."""
    toks = []
    pos = 0
    s = s.strip()
    while pos < len(s):
        m = _tok.match(s, pos)
        if not m:
            raise ValueError(f"cannot tokenise at {s[pos:pos+40]!r}")
        toks.append(m.group(1))
        pos = m.end()
    i = 0

    def atom():
        nonlocal i
        t = toks[i]
        if t == "[":
            i += 1
            items = []
            if toks[i] == "]":
                i += 1
                return items
            while True:
                items.append(app())
                if toks[i] == ";":
                    i += 1
                    continue
                assert toks[i] == "]", toks[i:i + 5]
                i += 1
                return items
        if t == "(":
            i += 1
            items = [app()]
            while toks[i] == ",":
                i += 1
                items.append(app())
            assert toks[i] == ")", toks[i:i + 5]
            i += 1
            if len(items) == 1:
                return items[0]
            return tuple(items)
        if re.fullmatch(r"-?[0-9]+", t):
            i += 1
            return int(t)
        if t == "true":
            i += 1
            return True
        if t == "false":
            i += 1
            return False
        if t == "None":
            i += 1
            return None
        if re.fullmatch(r"[A-Za-z_][A-Za-z0-9_'.]*", t):
            i += 1
            return C(t)
        raise ValueError(f"unexpected token {t}")

    def app():
        nonlocal i
        head = atom()
        if isinstance(head, C) and not head.args:
            args = []
            while i < len(toks) and toks[i] not in ("]", ")", ";", ","):
                args.append(atom())
            if args:
                return C(head.name, *args)
        return head

    v = app()
    if i != len(toks):
        raise ValueError(f"trailing tokens {toks[i:i+5]}")
    return v


COQ_HEADER = """From Vicut Require Import {imports}.
Set Printing Width 1000000000.
Set Printing Depth 1000000000.
Open Scope N_scope.
"""


def run_coq_eval(name, imports, func, cases, shard=400, pre="", timeout=900):
    """Evaluate `func case` for every case inside coqc (vm_compute).

    cases are Python values serialised with coq(); returns the parsed results.
    """
    os.makedirs(CASES, exist_ok=True)
    shards = [cases[i:i + shard] for i in range(0, len(cases), shard)]
    files = []
    for k, sh in enumerate(shards):
        fn = os.path.join(CASES, f"{name}_{os.getpid()}_{k}.v")
        with open(fn, "w") as f:
            f.write(COQ_HEADER.format(imports=" ".join(imports)))
            f.write(pre + "\n")
            f.write(f"Eval vm_compute in (List.map ({func}) " + coq(list(sh)) + ").\n")
        files.append(fn)

    def work(fn):
        # vm_compute on deeply recursive model runs (the vic interpreter) needs more than the default 8 MB stack
        p = subprocess.run(["bash", "-c", 'ulimit -s unlimited 2>/dev/null || ulimit -s 1000000 2>/dev/null; exec timeout "$@"', "coqc-run",
                            str(timeout), "coqc", "-noglob", "-Q", COQ, "Vicut", fn],
                           stdout=subprocess.PIPE, stderr=subprocess.STDOUT, text=True, cwd=CASES)
        if p.returncode != 0:
            raise RuntimeError(f"coqc failed on {fn}:\n{p.stdout[-1500:]}")
        m = re.search(r"^\s*= (.*?)\n\s*: ", p.stdout, re.S | re.M)
        if not m:
            raise RuntimeError(f"no result in coqc output of {fn}:\n{p.stdout[-2000:]}")
        return parse_coq(m.group(1))

    t = time.time()
    with ThreadPoolExecutor(NPROC) as ex:
        parts = list(ex.map(work, files))
    for fn in files:
        for ext in ("", "o", "ok", "os"):
            try:
                os.remove(fn + ext if ext else fn)
            except OSError:
                pass
        base = fn[:-2]
        for ext in (".vo", ".vok", ".vos", ".glob"):
            try:
                os.remove(base + ext)
            except OSError:
                pass
    out = []
    for p in parts:
        out.extend(p)
    log(f"[coq-eval] {name}: {len(cases)} cases in {len(shards)} shard(s), {time.time()-t:.1f}s")
    return out


# --------------------------------------------------------------------------
# verdicts and evidence

TRUSTED_BASE = [
    "Coq 8.16.1 kernel and coqc; vm_compute used to evaluate the model on the correspondence cases (no native_compute)",
    "Print Assumptions for every theorem in Props/: 'Closed under the global context' (no axioms); no Admitted/Axiom/Parameter anywhere (scanned on every run)",
    "hand-written Gallina model tied to /repo only by the correspondence run of this check (model evaluated in coqc vs the binary built from /repo's working tree with --cfg vicut_verif)",
    "the Python harness: generators, canonicalisation, Coq term printer/parser (tools/vplib)",
    "the vicut_verif hook code in src/verif.rs (observes private state)",
    "not modelled: unicode-segmentation, unicode-width, regex, pest, rayon, serde_json internals, the OS file system",
]


class Check:
    """Accumulates the result of one check run and writes evidence/verdict."""

    def __init__(self, pid, tier, seed):
        self.pid = pid
        self.tier = tier
        self.seed = seed
        self.t0 = time.time()
        self.violations = []     # (kind, payload, concrete: bool)
        self.known_hits = {}
        self.cov = {"evaluations": 0, "distinct_nontrivial": 0, "samples": [], "rule": "",
                    "obligations": 0, "discharged": 0, "checker_cmd": "", "trusted_base": list(TRUSTED_BASE),
                    "traces_validated_against_impl": 0}
        self.assumptions = []
        self.rng = random.Random(seed)
        self._distinct = set()

    # proof side ----------------------------------------------------------
    def proof_obligations(self, extra_targets=()):
        a = audit_props(self.pid)
        hits = forbidden_scan()
        n = len(a["theorems"])
        self.cov["obligations"] = n + 2
        d = 0
        if a["ok"]:
            d += n + 1
        if not hits:
            d += 1
        self.cov["discharged"] = d
        self.cov["checker_cmd"] = f"make -C {COQ} Props/{self.pid}.vo && coqc -Q {COQ} Vicut Props/{self.pid}.v (Print Assumptions) && forbidden-token scan"
        self.cov["theorems"] = a["theorems"]
        self.cov["print_assumptions"] = a["assumptions"]
        if not a["ok"]:
            self.violation("proof-obligation", {"what": f"Props/{self.pid}.v does not check or is not closed", "log": a["log"][-2000:]}, concrete=False)
        if hits:
            self.violation("forbidden-construct", {"hits": hits}, concrete=False)
        return a["ok"] and not hits

    # accounting ----------------------------------------------------------
    def count(self, key, nontrivial=True):
        self.cov["evaluations"] += 1
        if nontrivial:
            h = hashlib.sha1(repr(key).encode()).digest()[:8]
            if h not in self._distinct:
                self._distinct.add(h)
                self.cov["distinct_nontrivial"] += 1

    def sample(self, s, cap=6):
        if len(self.cov["samples"]) < cap:
            self.cov["samples"].append(s)

    def violation(self, kind, payload, concrete=True):
        self.violations.append((kind, payload, concrete))

    def known(self, cls, what):
        self.known_hits.setdefault(cls, what)

    # finishing -----------------------------------------------------------
    def finish(self, known_lines=()):
        os.makedirs(EVID, exist_ok=True)
        os.makedirs(REPLAY, exist_ok=True)
        rc = 0
        for line in known_lines:
            print(line)
        if self.violations:
            rc = 1
            concrete = [v for v in self.violations if v[2]]
            chosen = concrete[0] if concrete else self.violations[0]
            payload = {"property": self.pid, "kind": chosen[0], "case": chosen[1],
                       "all": [{"kind": k, "case": p} for k, p, _ in self.violations[:20]],
                       "seed": self.seed, "tier": self.tier}
            h = hashlib.sha1(json.dumps(payload, sort_keys=True, default=str).encode()).hexdigest()[:10]
            path = os.path.join(REPLAY, f"{self.pid}-{h}.json")
            with open(path, "w") as f:
                json.dump(payload, f, indent=1, default=str, ensure_ascii=False)
            tail = "" if concrete else " no-failing-input-found"
            print(f"VIOLATION property={self.pid} replay={path}{tail}")
        self.cov["known_classes_hit"] = sorted(self.known_hits)
        ev = {
            "property_id": self.pid, "tier": self.tier, "seed": self.seed, "level": "proof",
            "coverage": self.cov, "assumptions": self.assumptions,
            "wall_s": round(time.time() - self.t0, 2), "violations": len(self.violations),
        }
        with open(os.path.join(EVID, self.pid + ".json"), "w") as f:
            json.dump(ev, f, indent=1, default=str, ensure_ascii=False)
        log(f"[{self.pid}] tier={self.tier} seed={self.seed} evaluations={self.cov['evaluations']} "
            f"distinct={self.cov['distinct_nontrivial']} obligations={self.cov['discharged']}/{self.cov['obligations']} "
            f"violations={len(self.violations)} wall={ev['wall_s']}s")
        return rc


def known_findings():
    """Parse known_findings.txt -> list of dicts (finding lines only)."""
    out = []
    p = os.path.join(ROOT, "known_findings.txt")
    if not os.path.exists(p):
        return out
    for line in open(p):
        line = line.strip()
        if line.startswith("finding:"):
            d = dict(re.findall(r"(\w+)=((?:\"[^\"]*\")|\S+)", line))
            d["_line"] = line
            out.append(d)
    return out


# --------------------------------------------------------------------------
# per-unit records (hook H2)

_rec_counter = [0]


def run_with_records(binary, args, stdin="", env=None, cwd=None, timeout=20):
    """Run the CLI with VICUT_VERIF_RECORDS; returns (rc, out, err, units)."""
    os.makedirs(TMP, exist_ok=True)
    _rec_counter[0] += 1
    import threading
    path = os.path.join(TMP, f"rec_{os.getpid()}_{threading.get_ident()}_{_rec_counter[0]}.jsonl")
    e = {"VICUT_VERIF_RECORDS": path}
    if env:
        e.update(env)
    rc, out, err = run_cli(binary, args, stdin, e, cwd, timeout)
    units = []
    try:
        with open(path, encoding="utf-8") as f:
            for line in f:
                units.append(json.loads(line))
        os.remove(path)
    except FileNotFoundError:
        pass
    return rc, out, err, units


def records_map(binary, jobs, nworkers=NPROC):
    def work(j):
        return run_with_records(binary, j["args"], j.get("stdin", ""), j.get("env"), j.get("cwd"), j.get("timeout", 20))
    with ThreadPoolExecutor(nworkers) as ex:
        return list(ex.map(work, jobs))


def recs_coq(recs):
    """[[ [k,v], ...], ...] -> list record for the model"""
    return [[(txt(k), txt(v)) for k, v in r] for r in recs]
