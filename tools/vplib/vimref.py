"""Real Vim as the reference for C02: one headless batch process answers many cases."""
import json
import os
import re
import shutil
import subprocess
from concurrent.futures import ThreadPoolExecutor

from .common import NPROC, TMP

REC_VIM = r'''
set nocompatible
set encoding=utf-8
set noswapfile
set nofixeol
set nostartofline
set nojoinspaces
set cpoptions-=_
set noautoindent
set textwidth=0
set shiftwidth=8
set tabstop=8
set noexpandtab
let s:cases = json_decode(join(readfile('cases.json'), "\n"))
let s:out = []
new
for s:c in s:cases
  silent! %delete _
  call setline(1, s:c.lines)
  " an empty insert: '.' must not repeat a change of the previous case
  execute "normal! i\<Esc>"
  call setreg('"', '')
  call setreg('0', '')
  call setreg('-', '')
  call setreg('a', '')
  call setcursorcharpos(s:c.lnum, s:c.col)
  let s:err = ''
  try
    " one :normal! per command: a command that fails (a motion that cannot move) ends only itself, as it would
    " when typed; an open visual mode carries over to the next piece
    for s:k in s:c.keys
      try
        execute "normal! " . s:k
      catch
        let s:err = v:exception
      endtry
    endfor
    " what an unfinished command or an open mode leaves behind is not compared
    execute "normal! \<Esc>"
  catch
    let s:err = v:exception
  endtry
  call add(s:out, {'lines': getline(1, '$'), 'lnum': line('.'), 'col': charcol('.'), 'err': s:err, 'reg': getreg('"'), 'regtype': getregtype('"')})
endfor
call writefile([json_encode(s:out)], 'out.json')
qa!
'''

ALIASES = {"<esc>": "\x1b", "<cr>": "\r", "<bs>": "\x08", "<c-v>": "\x16", "<c-r>": "\x12", "<c-w>": "\x17", "<tab>": "\t", "<del>": "\x7f"}


def vim_keys(keys):
    """vicut key notation -> the raw characters Vim's :normal! takes"""
    return re.sub(r"<[^<>\s]{1,8}>", lambda m: ALIASES.get(m.group(0).lower(), m.group(0)), keys)


def text_to_lines(text):
    if text == "":
        return [""]
    ls = text.split("\n")
    if ls[-1] == "":
        ls.pop()
    return ls


def index_to_pos(text, idx):
    """grapheme (= code point, the corpus has no clusters) index -> (lnum, col), 1-based"""
    before = text[:idx]
    lnum = before.count("\n") + 1
    col = len(before) - (before.rfind("\n") + 1) + 1
    return lnum, col


def pos_to_index(lines, lnum, col):
    return sum(len(l) + 1 for l in lines[:lnum - 1]) + col - 1


def have_vim():
    return shutil.which("vim") is not None


def run_vim(cases, chunk=4000):
    """cases: [{text, cursor, keys:[..]}] -> [{lines, cursor, reg, regtype, err}] (None where Vim failed)"""
    root = os.path.join(TMP, f"vim_{os.getpid()}")
    shutil.rmtree(root, ignore_errors=True)
    os.makedirs(root)
    chunks = [cases[i:i + chunk] for i in range(0, len(cases), chunk)]

    def one(k):
        d = os.path.join(root, str(k))
        os.makedirs(d)
        payload = []
        for c in chunks[k]:
            lnum, col = index_to_pos(c["text"], c["cursor"])
            payload.append({"lines": text_to_lines(c["text"]), "lnum": lnum, "col": col, "keys": [vim_keys(x) for x in c["keys"]]})
        json.dump(payload, open(os.path.join(d, "cases.json"), "w", encoding="utf-8"), ensure_ascii=False)
        open(os.path.join(d, "rec.vim"), "w").write(REC_VIM)
        try:
            subprocess.run(["vim", "-N", "-u", "NONE", "-i", "NONE", "-n", "-es", "-S", "rec.vim"], cwd=d, stdin=subprocess.DEVNULL,
                           stdout=subprocess.DEVNULL, stderr=subprocess.DEVNULL, timeout=300,
                           env={"LANG": "C.UTF-8", "LC_ALL": "C.UTF-8", "HOME": d, "PATH": "/usr/bin:/bin", "TERM": "dumb"})
            out = json.load(open(os.path.join(d, "out.json"), encoding="utf-8"))
        except Exception:
            return [None] * len(chunks[k])
        res = []
        for o in out:
            res.append({"lines": o["lines"], "cursor": pos_to_index(o["lines"], o["lnum"], o["col"]), "reg": o["reg"],
                        "regtype": o["regtype"], "err": o["err"]})
        return res
    with ThreadPoolExecutor(NPROC) as ex:
        parts = list(ex.map(one, range(len(chunks))))
    shutil.rmtree(root, ignore_errors=True)
    return [r for p in parts for r in p]
