"""Generators for Vim key strings (the per-mode command grammar) and test texts."""

ASCII_TEXTS = [
    "foo bar baz\nalpha beta gamma\nfoo2 bar2\n",
    "a b c d e f\ng h i j k l\n",
    "one two three four five six seven",
    "x1 y2 z3\n\nfoo (bar baz) [qux]\nlast line no newline",
    "",
    "\n",
    "\n\n",
    "foo\nbar\nfoo2\n",
    "aXbXc foo,bar;baz\n  indented line\n",
    "fn main() { let x = (1 + 2) * 3; }\n\tif (a[i] == \"str\") { return 'c'; }\n",
    "The quick brown fox. Jumps over! The lazy dog? Yes.\n\nSecond paragraph here.\nMore text.\n\nThird.",
    "key=value; other=\"quoted text\" <tag attr='x'>\n",
    "word",
    " ",
    "a",
    "ab\ncd",
    "    leading and trailing    \n",
    "path/to/file.txt:42:7: error: something_bad happened\n",
    "abcd\nef\nijkl\n",
    "long line here\nx\n\nanother long one\nab\n",
]
UNI_TEXTS = [
    "héllo wörld ñandú\nfoo bär\n",
    "日本語 テキスト here\n混ぜる mixed 文字\n",
    "étude café naïve\n",          # combining marks
    "smile 🙂 and 👍🏽 thumbs\nflag 🇩🇪 end\n",
    "ünï cödé wörd\nzweite Zeile hier\n\ndritte",
    "αβγ δεζ ηθι\nкириллица текст\n",
    "a‍b zero‍width\n",
    "x\r\ny\r\n",
]
TEXTS = ASCII_TEXTS + UNI_TEXTS

CHARS = list("abfoxe .,(;1") + ["é", "ö"]
MOTIONS0 = ["h", "l", "j", "k", "w", "b", "e", "W", "B", "E", "ge", "gE", "0", "^", "$", "gg", "G", "%", "(", ")", "{", "}", ";", ",", "|"]
TEXTOBJS = ["iw", "aw", "iW", "aW", "is", "as", "ip", "ap", "i(", "a(", "i)", "a)", "ib", "i[", "a[", "i]", "i{", "a{", "iB", "i<", "a<", "i>",
            'i"', 'a"', "i'", "a'", "i`", "a`"]
OPERATORS = ["d", "c", "y", "g~", "gu", "gU", "g?", ">", "<"]


def count(rng, p=0.3, hi=12):
    if rng.random() < p:
        return str(rng.choice([2, 2, 3, 3, 4, 5, 7, hi]))
    return ""


def motion(rng, with_count=True):
    r = rng.random()
    c = count(rng) if with_count else ""
    if r < 0.2:
        return c + rng.choice("ftFT") + rng.choice(CHARS)
    m = rng.choice(MOTIONS0)
    return m if m == "0" else c + m      # a count before 0 would be a bigger count


def textobj(rng):
    return count(rng, 0.1, 3) + rng.choice(TEXTOBJS)


def selection(rng):
    r = rng.random()
    if r < 0.35:
        return "v" + motion(rng) + (motion(rng) if rng.random() < 0.3 else "")
    if r < 0.55:
        return "v" + textobj(rng)
    if r < 0.75:
        return "V" + (rng.choice(["", "j", "k", "2j", "G", "gg"]))
    if r < 0.9:
        return "<c-v>" + rng.choice([motion(rng), "l", "ll", "jj", "2j", "jl", "jjl", "kl"]) + (rng.choice(["j", "k", "l", "2j", "$"]) if rng.random() < 0.7 else "")
    return "v" + motion(rng) + "o" + motion(rng)


def yank(rng):
    r = rng.random()
    reg = rng.choice(["", "", '"a', '"B', '"z']) if rng.random() < 0.4 else ""
    if r < 0.4:
        return reg + "y" + motion(rng)
    if r < 0.6:
        return reg + "y" + textobj(rng)
    if r < 0.75:
        return reg + count(rng, 0.2, 3) + "yy"
    return selection(rng) + reg + "y"


def nonedit(rng):
    """a command made only of motions, selections and yanks"""
    r = rng.random()
    if r < 0.45:
        return motion(rng)
    if r < 0.7:
        return selection(rng)
    if r < 0.9:
        return yank(rng)
    return motion(rng) + motion(rng)


TYPED = ["X", "ab", "new text", "é", " ", "x y", "(", "日本", "a😀b", "𠀀", "a\rb", "foo<BS>", "w1 w2<c-w>"]


def edit(rng):
    r = rng.random()
    reg = rng.choice(['"a', '"b', '"A']) if rng.random() < 0.15 else ""
    if r < 0.12:
        return reg + count(rng, 0.2, 4) + rng.choice(["x", "X"])
    if r < 0.3:
        return reg + count(rng, 0.15, 3) + "d" + (motion(rng) if rng.random() < 0.7 else textobj(rng))
    if r < 0.36:
        return reg + count(rng, 0.2, 3) + "dd"
    if r < 0.44:
        return reg + "c" + (motion(rng) if rng.random() < 0.7 else textobj(rng)) + rng.choice(TYPED) + "<esc>"
    if r < 0.5:
        return "r" + rng.choice(CHARS)
    if r < 0.55:
        return count(rng, 0.2, 4) + "~"
    if r < 0.6:
        return count(rng, 0.2, 3) + "J"
    if r < 0.68:
        return reg + count(rng, 0.1, 3) + rng.choice(["p", "P"])
    if r < 0.78:
        return rng.choice(["i", "a", "I", "A", "o", "O"]) + rng.choice(TYPED) + "<esc>"
    if r < 0.84:
        return rng.choice(["g~", "gu", "gU", "g?"]) + (motion(rng) if rng.random() < 0.7 else textobj(rng))
    if r < 0.88:
        return rng.choice(["D", "C" + rng.choice(TYPED) + "<esc>", "s" + rng.choice(TYPED) + "<esc>", "S" + rng.choice(TYPED) + "<esc>", "Y"])
    if r < 0.93:
        return selection(rng) + rng.choice(["d", "x", "c" + rng.choice(TYPED) + "<esc>", "~", "u", "U", "J", "p"])
    if r < 0.96:
        return rng.choice([">>", "<<"])
    return "R" + rng.choice(TYPED) + "<esc>"


def any_cmd(rng):
    r = rng.random()
    if r < 0.45:
        return nonedit(rng)
    return edit(rng)
