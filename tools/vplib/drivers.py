"""Shared harness for the driver properties (C03 C04 C05 C06): run the real CLI on
files/stdin in a scratch directory, collect stdout, exit status, final file
bytes and the per-unit records dumped by the hook, and evaluate the Coq driver
model on the same scenario."""
import itertools
import json
import os
import shutil
import threading

from . import cli_lang as L
from .common import C, TMP, NPROC, recs_coq, run_coq_eval, run_with_records, txt, untxt
from concurrent.futures import ThreadPoolExecutor

IMPORTS = ["Base.Prelude", "Model.Format", "Model.Drivers", "Model.Obs"]
_ctr = itertools.count()

FILE_NAMES = ["a.txt", "b", "c.d.e", "z.txt", "y", "m.log", ".hid", "n1", "data.csv", "q."]
CONTENTS = L.TEXTS + ["one\n", "x y z", "l1\nl2\nl3\n", "tab\there\n\n\nend", "ünï cödé\nzweite Zeile", "a\r\nb\r\n", "  lead\ntrail  \n"]
BAD_UTF8 = b"ok line\n\xff\xfe broken\n"


def scratch():
    d = os.path.join(TMP, f"d_{os.getpid()}_{threading.get_ident()}_{next(_ctr)}")
    os.makedirs(d)
    return d


def fmt_of_opts(opts):
    """(kind, arg) as the model's fmt_of reads them"""
    if "--json" in opts or "-j" in opts:
        return 0, ""
    for f in ("-t", "--template"):
        if f in opts:
            return 1, opts[opts.index(f) + 1]
    for f in ("-d", "--delimiter"):
        if f in opts:
            return 2, opts[opts.index(f) + 1]
    return 2, " "


def run_scenario(binary, sc, keep=False):
    """sc: {files: [(name, bytes)], opts: [..], cmds: [..argv], stdin: str|None, env: {}}"""
    d = scratch()
    try:
        for name, data in sc["files"]:
            with open(os.path.join(d, name), "wb") as f:
                f.write(data)
        for name in sc.get("dirs", []):
            os.makedirs(os.path.join(d, name))
        argv = list(sc["opts"]) + list(sc["cmds"]) + [n for n, _ in sc["files"] if n not in sc.get("unnamed", [])] + list(sc.get("extra_args", []))
        rc, out, err, units = run_with_records(binary, argv, sc.get("stdin") or "", sc.get("env"), cwd=d,
                                               timeout=sc.get("timeout", 30))
        final = {}
        for name in sorted(os.listdir(d)):
            p = os.path.join(d, name)
            if os.path.isfile(p):
                final[name] = open(p, "rb").read()
        return {"rc": rc, "out": out, "err": err, "units": units, "final": final, "argv": argv}
    finally:
        if not keep:
            shutil.rmtree(d, ignore_errors=True)


def scenarios_map(binary, scs, nworkers=NPROC):
    with ThreadPoolExecutor(nworkers) as ex:
        return list(ex.map(lambda s: run_scenario(binary, s), scs))


def decode(b):
    try:
        return b.decode("utf-8")
    except UnicodeDecodeError:
        return None


def model_case(sc, obs):
    opts = sc.get("model_opts", sc["opts"])
    fk, farg = fmt_of_opts(opts)
    named = [n for n, _ in sc["files"] if n not in sc.get("unnamed", [])]
    fs = [(txt(n), (C("Some", txt(decode(b))) if decode(b) is not None else None)) for n, b in sc["files"]]
    tbl = []
    for u in obs["units"]:
        tbl.append((None if u["file"] is None else C("Some", txt(u["file"])), txt(u["text"]), recs_coq(u["records"])))
    panic = obs["rc"] not in (0, 1)
    return ((fk, txt(farg), fk == 0, "-i" in opts, "--backup" in opts, [txt(n) for n in named]),
            ("--linewise" in opts, "--serial" in opts, panic), txt(sc.get("stdin") or ""), fs, tbl)


def eval_model(name, cases):
    return run_coq_eval(name, IMPORTS, "driver_obs", cases, shard=250)


def compare(sc, obs, m):
    """returns None when model and implementation agree, else a description"""
    mfs, mout, mst = m
    st = 0 if obs["rc"] == 0 else (1 if obs["rc"] == 1 else 2)
    if (mst == 0) != (st == 0):
        return f"status: model {mst} impl {st}"
    mfiles = {}
    for name, content in mfs:
        mfiles[untxt(name)] = None if content is None else untxt(content.args[0] if isinstance(content, C) else content)
    init = dict(sc["files"])
    for name, data in obs["final"].items():
        if name not in mfiles:
            return f"file {name} exists but not in the model"
        exp = mfiles[name]
        if exp is None:
            if data != init.get(name):
                return f"unreadable file {name} changed"
        elif data != exp.encode("utf-8"):
            return f"file {name}: impl {data[:80]!r} model {exp[:80]!r}"
    for name in mfiles:
        if name not in obs["final"]:
            return f"file {name} in the model but not on disk"
    if st == 0 and obs["out"] != untxt(mout).encode("utf-8"):
        return f"stdout: impl {obs['out'][:200]!r} model {untxt(mout)[:200]!r}"
    return None


def gen_files(rng, n, bad=0.0):
    names = rng.sample(FILE_NAMES, n)
    out = []
    for nm in names:
        if rng.random() < bad:
            out.append((nm, BAD_UTF8))
        else:
            out.append((nm, rng.choice(CONTENTS).encode("utf-8")))
    return out


def gen_cmds(rng, edit_only=False, nmax=4, allow_glob=True):
    """a short command list as argv"""
    items = []
    for _ in range(rng.randint(1, nmax)):
        r = rng.random()
        if r < 0.35 and not edit_only:
            items.append(("cut", False, rng.choice(L.CUTS)))
        elif r < 0.45 and not edit_only:
            items.append(("ncut", False, rng.choice(["a", "key"]), rng.choice(L.CUTS)))
        elif r < 0.55 and (not edit_only or rng.random() < 0.4):
            # (-n also in lists that cut nothing: it must not close a record that is not there)
            items.append(("next", False))
        elif r < 0.65 and allow_glob:
            th = [("move", False, rng.choice(L.EDITS))] if (edit_only or rng.random() < 0.5) else [("cut", False, rng.choice(L.CUTS))]
            items.append(("glob", False, rng.choice("gv"), rng.choice(L.PATS), th, None))
        else:
            items.append(("move", False, rng.choice(L.MOVES + L.EDITS + L.EDITS)))
    return L.render(items)


def py_backup(name):
    """Path::with_extension("{ext}.bak") for a plain file name (direct oracle copy of the spec)"""
    if "." in name[1:]:
        return name + ".bak"
    return name + "..bak"
