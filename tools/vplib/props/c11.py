"""C11: splitting keys at command boundaries changes nothing; flags start in Normal mode."""
import json
import re

from .. import vim_lang as V
from ..common import C, cli_map, server_map

TEXTS = [t for t in V.TEXTS if t and "\r" not in t]
PENDING = ["3", "12", '"a', '"', "d", "c", "y", "2d", '"ad', "g", "f", "dt", "di", "dv", "z", "r", "g~", ">", "r\\", "f\\", "d\\", "\\"]
OPEN_MODES = [("ihello", "ihello<esc>"), ("Aend", "Aend<esc>"), ("oline", "oline<esc>"), ("Rxy", "Rxy<esc>"), ("vl", "vl<esc>"), ("Vj", "Vj<esc>"),
              ("<c-v>jl", "<c-v>jl<esc>"), ("cwnew", "cwnew<esc>"), ("a", "a<esc>"),
              ("o", "o<esc>"), ("A<CR>", "A<CR><esc>"), ("O", "O<esc>"), ("Go", "Go<esc>"), ("GA<CR>", "GA<CR><esc>"), ("$vl", "$vl<esc>"), ("G$v", "G$v<esc>")]
COMPLETE_EXTRA = ["dvw", "dVj", '"ayw', '"Ayw', '"ap', "fa;", "tb,", "fa2;", "x.", "dw.", "/o<CR>n", "/a<CR>N", "?o<CR>n", "3x", "2dw", "yyp", "ddP", "xu",
                  "ixy<esc>.", ":s/a/b/<CR>", "vey", "viwd", "guiw", "~", "J", "rZ",
                  # undo and redo with nothing to take back or re-apply: a no-op, not an error that drops the rest of the argument
                  "u", "<c-r>", "xuu", "uu", "x<c-r>", "xu<c-r><c-r>",
                  # :normal! runs its keys once per line and is over at its <CR>: what follows it in the argument comes after all of that
                  ":1,2normal! x<CR>", ":%normal! Ax<CR>", ":1,3normal! dw<CR>", ":normal! d<CR>", ":1,2normal! 2<CR>", ":%normal! ~<CR>",
                  # an operator on a selection ends Visual mode: what is typed next in the same argument is a Normal-mode command
                  "veg?", "Vjg?", "vlg~", "vegU", "viwgu", "Vj>", "Vj<", "vj=", "Vd", "Vy", "vlc!<esc>", "vjJ", "<c-v>jld", "vlr.", "ve~", "veu", "VU", "vly", "Vjy", "<c-v>jly", "v$d", "Vjc-<esc>",
                  # cancelled or rejected commands: what they had collected (count, register, operator, v/V modifier) must be gone
                  "dv<esc>", "dV<esc>", "d<esc>", "c<esc>", '"a<esc>', "3<esc>", "2d<esc>", "g<esc>", "dvb", "dvq", "yV<esc>", "dv<esc>", "f<esc>", "dt<esc>", "di<esc>",
                  # a register name the parser rejects: the prefix is dropped on the spot, the next command is not swallowed
                  '"1', '"_', '"+', '"0', '"1x', '"_dw']


def complete_cmd(rng):
    r = rng.random()
    if r < 0.3:
        return rng.choice(COMPLETE_EXTRA)
    if r < 0.65:
        c = V.nonedit(rng) if rng.random() < 0.5 else V.motion(rng)
        if re.match(r"(v|V|<c-v>)", c) and not c.endswith("<esc>"):
            c += "<esc>"        # a selection made for a field: closed here, so that every generated command is complete
        return c
    return V.edit(rng)


def is_complete(st):
    return st.get("mode") == "Normal" and (st.get("pending") in ("", None)) and st.get("select_mode") is None and not st.get("queue")


def obs(st):
    """what must be equal across splittings: text, cursor, registers, undo depth, mode"""
    return (st["buf"], st["cursor"], json.dumps(st["regs"], sort_keys=True), st["mode"], st.get("pending"), st.get("select_range"))


def splittings(rng, k, limit):
    masks = list(range(2 ** (k - 1)))
    if len(masks) > limit:
        masks = [0, len(masks) - 1] + rng.sample(masks[1:-1], limit - 2)
    return masks


def group(cmds, mask):
    args, cur = [], cmds[0]
    for i in range(1, len(cmds)):
        if (mask >> (i - 1)) & 1:
            args.append(cur)
            cur = cmds[i]
        else:
            cur += cmds[i]
    args.append(cur)
    return args


def run(chk, binary):
    rng = chk.rng
    thorough = chk.tier == "thorough"
    chk.proof_obligations()
    n = 2500 if thorough else 350
    # ---- A. every splitting of a sequence of complete commands ----
    # first find out which generated commands end at a boundary (probe run, one command per argument with --keep-mode semantics off)
    seqs = []
    for _ in range(n):
        text = rng.choice(TEXTS)
        k = rng.randint(2, 8)
        cmds = [complete_cmd(rng) for _ in range(k)]
        if rng.random() < 0.15:
            # what a finished insert session may leave behind (an open undo record, the place where it began) is cleaned up
            # at the end of an argument: it has to be gone inside an argument as well
            cmds = ([complete_cmd(rng)] if rng.random() < 0.4 else []) + [rng.choice(["iab<esc>", "Axy<esc>", "3liXY<esc>", "A_suffix<esc>", "oab<esc>", "cwnew<esc>"])]
            cmds += [rng.choice(["w", "b", "0", "$", "j", "k", "l"]) for _ in range(rng.randint(0, 2))]
            cmds += [rng.choice([".", "iZ<esc>", "b", "db", "B", "cbQ<esc>", "x", "dB"])]
            cmds += [rng.choice(["u", "x", "u", "."])] + (["u"] if rng.random() < 0.3 else [])
        start = rng.randint(0, max(0, len(text) - 1)) if rng.random() < 0.5 else 0
        seqs.append((text, cmds, start))
    probe = server_map(binary, [{"op": "keys", "text": t, "cursor": s, "keys": ["".join(c)], "pre_snm": True, "keep_mode": True} for t, c, s in seqs])
    # commands must each end in Normal mode: check by feeding cumulative prefixes in one argument with keep_mode (no reset)
    reqs = []
    rmeta = []
    for (text, cmds, start) in seqs:
        # prefixes as separate keep-mode arguments expose the state after each command without any reset
        reqs.append({"op": "keys", "text": text, "cursor": start, "keys": cmds, "keep_mode": True})
        rmeta.append((text, cmds, start))
    pref = server_map(binary, reqs)
    good = []
    dist = {"sequences": 0, "rejected_not_at_boundary": 0, "splittings": 0, "pending_tails": 0, "open_modes": 0, "keep_mode": 0, "panic": 0}
    for (text, cmds, start), a in zip(rmeta, pref):
        steps = a.get("steps", [])
        if len(steps) != len(cmds) or any("panic" in s for s in steps):
            dist["panic"] += 1
            continue
        if not all(is_complete(s) for s in steps):
            dist["rejected_not_at_boundary"] += 1
            # every generated command is complete by construction: one that leaves a mode, a selection or pending keys
            # behind is itself a violation (and hides the sequence from the splitting comparison)
            i = next(j for j, s_ in enumerate(steps) if not is_complete(s_))
            if not re.match(r"(v|V|<c-v>)", cmds[i]) or cmds[i].endswith("<esc>") or i > 0:
                s_ = steps[i]
                chk.violation("spec:a complete command did not end at a command boundary",
                              {"text": text, "cursor": start, "commands": cmds[:i + 1], "mode": s_.get("mode"), "pending": s_.get("pending"),
                               "select_mode": str(s_.get("select_mode")), "queue": s_.get("queue")})
            continue
        good.append((text, cmds, start, steps[-1]))
    jobs = []
    rmeta = []
    MARK = "i\u2038<esc>"          # shows the cursor in the printed buffer
    for (text, cmds, start, final1) in good:
        dist["sequences"] += 1
        pre = ["-m", "%dl" % start] if 0 < start < 60 and "\n" not in text[:start + 1] else []
        for mask in splittings(rng, len(cmds), 64 if thorough else 10):
            args = group(cmds, mask)
            argv = list(pre)
            for a_ in args:
                argv += ["-m", a_]
            argv += ["-m", MARK]
            if any(a_.startswith("-") for a_ in args):
                continue
            jobs.append({"args": argv, "stdin": text})
            rmeta.append((text, cmds, start, mask, args))
    res = cli_map(binary, jobs)
    by_seq = {}
    for (text, cmds, start, mask, args), r in zip(rmeta, res):
        dist["splittings"] += 1
        chk.count(("split", text, tuple(cmds), start, mask), nontrivial=mask != 0)
        if r[0] != 0:
            continue
        by_seq.setdefault((text, tuple(cmds), start), []).append((mask, args, r[1]))
    for (text, cmds, start), lst in by_seq.items():
        ref = lst[0]
        for mask, args, o in lst[1:]:
            if o != ref[2]:
                chk.violation("spec:splitting at command boundaries changed the result",
                              {"text": text, "cursor": start, "commands": list(cmds), "args_a": ref[1], "args_b": args,
                               "stdout_a": ref[2].decode(errors="replace"), "stdout_b": o.decode(errors="replace")})
                break
    chk.cov["traces_validated_against_impl"] = len(rmeta)
    # ---- the boundary contract of the theorem: at a boundary set_normal_mode changes nothing ----
    reqs = [{"op": "keys", "text": t, "cursor": s, "keys": ["".join(c)], "pre_snm": True} for t, c, s, _ in good[:400]]
    for (t, c, s, _), a in zip(good[:400], server_map(binary, reqs)):
        st = a["steps"][-1] if a.get("steps") else None
        if not st or "pre_snm" not in st:
            continue
        pre = st["pre_snm"]
        if is_complete(pre) and obs(pre) != obs(st):
            chk.violation("correspondence:set_normal_mode is not the identity at a command boundary", {"text": t, "keys": "".join(c), "before": [str(x)[:200] for x in obs(pre)], "after": [str(x)[:200] for x in obs(st)]}, concrete=False)
    # ---- B. an unfinished command / open mode at the end of an argument does not affect the next one ----
    reqs = []
    rmeta = []
    # prefixes that really end at a boundary (probed on the implementation without any reset)
    cand = []
    for _ in range(1800 if thorough else 320):
        text = rng.choice(TEXTS)
        pre = "".join(complete_cmd(rng) for _ in range(rng.randint(0, 2)))
        cand.append((text, pre))
    pr = server_map(binary, [{"op": "keys", "text": t, "cursor": 0, "keys": [p] if p else [], "keep_mode": True} for t, p in cand])
    for (text, pre), a in zip(cand, pr):
        st = a["steps"][-1] if a.get("steps") else a.get("init")
        if not st or "panic" in st or not is_complete(st):
            continue
        nxt = complete_cmd(rng)
        if rng.random() < 0.6:
            tail = rng.choice(PENDING)
            if tail.endswith("\\"):
                # a lone backslash at the end of an argument escapes nothing in the next one
                nxt = rng.choice(["<CR>x", "<esc>x", "<BS>x", "<down>x", "<right>x"])
            a_args, b_args = [pre + tail, nxt], ([pre, nxt] if pre else [nxt])
            kind = "pending_tails"
        else:
            op, closed = rng.choice(OPEN_MODES)
            if rng.random() < 0.5:
                # what a closed session could still reach into: backward word motions (the ctrl-w bound), dot, undo, put
                nxt = rng.choice(["b", "B", "db", "dB", "cBé<esc>", "ge", ".", "2.", "j.", "u", "p", "i<c-w>x<esc>", "x", "P", ".u", "xu", "rZu"])
            a_args, b_args = [pre + op, nxt], [pre + closed, nxt]
            kind = "open_modes"
        reqs.append({"op": "keys", "text": text, "cursor": 0, "keys": b_args[:1], "keep_mode": False})
        rmeta.append((text, a_args, b_args, kind, pre))
    refstates = server_map(binary, reqs)
    jobs = []
    for (text, a_args, b_args, kind, pre) in rmeta:
        for args in (a_args, b_args):
            argv = []
            for a_ in args:
                argv += ["-m", a_]
            jobs.append({"args": argv + ["-m", "i\u2038<esc>"], "stdin": text})
    res = cli_map(binary, jobs)
    for i, (text, a_args, b_args, kind, pre) in enumerate(rmeta):
        ra, rb = res[2 * i], res[2 * i + 1]
        dist[kind] += 1
        chk.count((kind, text, tuple(a_args)))
        if any(x.startswith("-") for x in a_args + b_args) or ra[0] != 0 or rb[0] != 0:
            continue
        # the reference (mode closed with <esc>) must itself rest on a valid normal-mode position, else C09 decides
        st0 = refstates[i].get("steps", [{}])
        r0 = st0[0] if st0 else {}
        if r0.get("buf") and r0.get("cursor", 0) > max(0, r0.get("cmax", 1) - 1):
            continue
        if ra[1] != rb[1]:
            chk.violation("spec:an unfinished command / open mode at the end of an argument affected the next argument",
                          {"text": text, "args_with_tail": a_args, "args_reference": b_args,
                           "stdout_with_tail": ra[1].decode(errors="replace"), "stdout_reference": rb[1].decode(errors="replace")})
    # ---- C. --keep-mode: the open mode persists (and a submitted Ex/Search line leaves its mode) ----
    jobs = []
    rmeta = []
    for _ in range(300 if thorough else 80):
        text = rng.choice(TEXTS)
        r = rng.random()
        if r < 0.7:
            op = rng.choice(["i", "A", "o", "R", "v", "V"])
            t1 = rng.choice(["ab", "x y", "é", "w1"]) if op in "iAoR" else rng.choice(["l", "e", "j"])
            t2 = rng.choice(["cd", "zz", "q"]) if op in "iAoR" else rng.choice(["l", "w", "d"])
            split, joined = [op + t1, t2], [op + t1 + t2]
        else:
            # a pending Ex/Search line is submitted at the end of the argument: the next argument is a normal-mode command
            ex = rng.choice([":s/a/b/", ":s/o/0/g", "/o", "/a", ":2"])
            nxt = rng.choice(["x", "dw", "rZ", "~"])
            split, joined = [ex, nxt], [ex + "<CR>" + nxt]
        for args in (split, joined):
            argv = ["--keep-mode"]
            for a_ in args:
                argv += ["-m", a_]
            jobs.append({"args": argv + ["-m", "<esc>i\u2038<esc>"], "stdin": text})
        rmeta.append((text, split, joined))
    res = cli_map(binary, jobs)
    for i, (text, split, joined) in enumerate(rmeta):
        ra, rb = res[2 * i], res[2 * i + 1]
        dist["keep_mode"] += 1
        chk.count(("keep", text, tuple(split)))
        if ra[0] != 0 or rb[0] != 0:
            continue
        if ra[1] != rb[1]:
            chk.violation("spec:--keep-mode: splitting changed the result (open mode not carried over, or a submitted line left its mode open)",
                          {"text": text, "args_split": split, "args_joined": joined, "stdout_split": ra[1].decode(errors="replace"), "stdout_joined": rb[1].decode(errors="replace")})
    known_lines = []
    from ..common import Server
    s = Server(binary)
    a = s.ask({"op": "keys", "text": "one two three", "cursor": 0, "keys": ["d", "w"], "keep_mode": True})
    s.close()
    if a.get("steps") and a["steps"][-1].get("buf") == "two three":
        known_lines.append("KNOWN-FINDING: property=C11 class=keep-mode-pending-seq with --keep-mode a pending operator (not only the mode) persists: --keep-mode -m d -m w deletes a word")
    chk.cov["input_distribution"] = dist
    if good:
        chk.sample({"text": good[0][0], "commands": good[0][1], "cursor": good[0][2]})
    chk.cov["rule"] = ("A: sequences of 2..8 commands (motions, operators with dv/dV, registers, counts, f/t with ; and ,, dot, searches with n, edits, visual and ex commands) that each end at a command boundary "
                       "(checked on the implementation: Normal mode, nothing pending, no selection), every splitting (all on thorough, 10 sampled on quick) over several arguments in-process through the real read_field/set_normal_mode; "
                       "text, cursor, all registers, mode and a later field must agree; B: first arguments ending in a pending count/register/operator or an open Insert/Replace/Visual mode vs the same without the tail / with the mode closed; "
                       "C: --keep-mode carries an open mode over. non-trivial = a genuine split")
    chk.assumptions += ["what a key does is a parameter of the theorem; the boundary contract (set_normal_mode is the identity at a boundary) is validated on the dumps"]
    return chk.finish(known_lines)


def replay(path):
    d = json.load(open(path))
    print(json.dumps(d["case"], indent=1, ensure_ascii=False)[:4000])
    return 0
