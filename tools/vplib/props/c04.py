"""C04: parallel execution never changes the result."""
import json
import os
import subprocess
import sys

from .. import cli_lang as L
from .. import drivers as D
from ..common import C, NPROC, TMP

THREADS = [1, 2, 3, 4, 8, 16, 32]

PROGRAMS = [
    ["-m", "P", "-m", "yiw"],                      # paste before yank: reads another unit's register if it leaks
    ["-m", "p", "-c", "e", "-m", ":y<CR>"],        # linewise register kind
    ["-m", '"ap', "-m", '"ayiw', "-c", "$"],
    ["-m", ".", "-m", "x"],                        # dot before any change
    ["-m", "n", "-c", "e", "-m", "/a<CR>"],        # search repeat before any search
    ["-c", "e", "-m", "w", "-c", "e"],
    ["-m", "dw", "-m", "P", "-c", "$"],
    ["-g", "7", "-m", "yiw", "--else", "-m", "P", "-c", "e", "--end"],
    ["-m", "yiw", "-g", "a", "-m", "P", "--end"],
    ["-m", ";", "-m", "fa", "-c", "e"],
    ["-m", "vey", "-m", "gv", "-m", "d"],
    ["-c", "name=k", "e", "-m", "w", "-c", "name=v", "$"],
    # the kind of a register (linewise / characterwise) and appended text are state too
    ["-m", "wP", "-c", "e", "-m", "yy"],
    ["-m", '"Ayiw', "-m", '$"ap'],                  # only ever appended to
    ["-m", '"Ayiw', "-m", '$"ap', "-m", '"ayy'],
    ["-m", "p", "-c", "$", "-m", "dd"],
    ["-m", '"bP', "-m", '"Byiw', "-m", '"bp', "-c", "$"],
    ["-v", "a", "-m", "yiw", "--else", "-m", "P", "-c", "$", "--end"],      # lines without an 'a' only yank, the others put first
    ["-g", "7", "-m", "yy", "--else", "-m", "p", "-c", "e", "--end"],
    # a list that is nothing but one scope: both of its branches cut
    ["-g", "7", "-c", "e", "--else", "-c", "$", "--end"],
    ["-g", "a", "-c", "w", "--end"],
    ["-v", "x", "-c", "e", "--else", "-c", "name=other", "w", "--end"],
    ["-g", "^$", "-c", "l", "--else", "-c", "e", "-n", "-c", "w", "--end"],
]


def big_text(rng, nlines):
    out = []
    for i in range(nlines):
        words = [rng.choice(["alpha", "beta", "gamma", "w%d" % i, "x7", "foo", "bar", "a", "7up", "zeta"]) for _ in range(rng.randint(1, 5))]
        out.append(" ".join(words))
    t = "\n".join(out)
    if rng.random() < 0.8:
        t += "\n"
    return t


def rel_serial(par, ser):
    return ser == par or ser == par + b"\n"


def run(chk, binary):
    rng = chk.rng
    thorough = chk.tier == "thorough"
    chk.proof_obligations()
    nsc = 80 if thorough else 36
    nruns = 10 if thorough else 5
    hogs = []
    if thorough:
        for _ in range(max(2, NPROC // 2)):
            hogs.append(subprocess.Popen([sys.executable, "-c", "while True: pass"]))
    try:
        return _run(chk, binary, rng, thorough, nsc, nruns)
    finally:
        for h in hogs:
            h.kill()


def _run(chk, binary, rng, thorough, nsc, nruns):
    scs = []
    # every program once per driver family, on inputs large enough to be spread over the workers
    for prog in PROGRAMS:
        fo = []
        scs.append(("stdin-lw", {"files": [], "opts": fo + ["--linewise"], "cmds": prog, "stdin": big_text(rng, 300)}))
        names = ["f%02d.txt" % i for i in rng.sample(range(100), 8)]
        files = [(nm, big_text(rng, rng.choice([3, 40, 150, 150])).encode()) for nm in names]
        scs.append(("files", {"files": files, "opts": fo, "cmds": prog, "stdin": None}))
        if thorough:
            scs.append(("files-lw", {"files": files, "opts": fo + ["--linewise"], "cmds": prog, "stdin": None}))
        if "--else" in prog:
            # --silent: units without a field print nothing and may leave early; what they yanked must be gone all the same
            scs.append(("stdin-lw", {"files": [], "opts": ["--silent", "--linewise"], "cmds": prog, "stdin": big_text(rng, 200)}))
    # a register written before a -g/-v scan and read inside it, with enough matching work per file that a worker
    # waiting inside the scan could pick up another file's unit (nested parallelism would leak the register)
    for rep in range(3 if thorough else 1):
        files = []
        for k in range(28):
            nl = rng.choice([2, 4, 8, 12, 3, 6])
            ll = rng.choice([3000, 8000, 20000, 5000, 12000])
            body = ("ab cdefg hij abcde fgh ij bcd efghija " * (ll // 38 + 1))[:ll]
            lines = ["w%02d first" % k] + [("MARK " if i % 4 == 0 else "nope ") + body for i in range(nl)]
            files.append(("f%02d.txt" % k, ("\n".join(lines) + "\n").encode()))
        scs.append(("files", {"files": files, "opts": [], "cmds": ["-m", "yiw", "-g", "^MARK|(\\w{2,9} ){3}ZZZ", "-m", "P", "--end"], "stdin": None,
                              "threads": [16, 12, 8, 16, 12]}))
    # one file, one worker against four: the same bytes (which driver does the work must not show)
    scs.append(("files", {"files": [("only.txt", big_text(rng, 12).encode())], "opts": [], "cmds": ["-c", "e", "-m", "w", "-c", "e"], "stdin": None, "threads": [1, 4, 1, 8, 2]}))
    scs.append(("files", {"files": [("only.txt", big_text(rng, 5).encode())], "opts": ["--json"], "cmds": ["-c", "e"], "stdin": None, "threads": [1, 4, 1, 8, 2]}))
    # several files, the biggest in the middle, one JSON document: the files come in the order they were given
    scs.append(("files", {"files": [("a1.txt", b"ab cd\n"), ("b2.txt", big_text(rng, 40).encode()), ("c3.txt", b"zz yy\n")], "opts": ["--json"], "cmds": ["-c", "e", "-m", "w", "-c", "name=w2", "e"], "stdin": None}))
    # the same with many small files: little work per unit, so workers are forever looking for something to steal
    for rep in range(3 if thorough else 1):
        files = []
        for k in range(400):
            nl = rng.choice([2, 3, 4, 6])
            lines = ["HEAD-%03d" % k] + [rng.choice(["abxx", "nope", "cdx", "plain text", "yyx"]) for _ in range(nl)]
            files.append(("s%03d.txt" % k, ("\n".join(lines) + "\n").encode()))
        scs.append(("files", {"files": files, "opts": [], "cmds": ["-m", "yy", "-g", "x+$", "-m", "~", "--end", "-m", "Gp"], "stdin": None,
                              "threads": [8, 16, 32, 4, 16]}))
    for i in range(nsc):
        from_grammar = rng.random() >= 0.8
        prog = L.render(L.gen_items(rng, maxdepth=2, maxlen=4)) if from_grammar else rng.choice(PROGRAMS)     # now and then a list from the whole grammar
        r = rng.random()
        fopts = [] if r < 0.5 else (["-d", ","] if r < 0.7 else (["--json"] if r < 0.85 else ["-t", "{{1}}"] if any(x == "-c" for x in prog) and not any(x.startswith("name=") for x in prog) else []))
        kind = rng.choice(["stdin-lw", "stdin-lw", "files-lw", "files", "files", "files-inplace", "files-lw-inplace"])
        if rng.random() < 0.25 and "--else" in prog:
            fopts = fopts + ["--silent"]
        nlines = rng.choice([1, 2, 7, 40, 200, 2000 if thorough else 300])
        if from_grammar:
            nlines = min(nlines, 40)           # (repeats and scopes of a random list multiply the work per line)
        if kind == "stdin-lw":
            sc = {"files": [], "opts": fopts + ["--linewise"], "cmds": prog, "stdin": big_text(rng, nlines)}
        else:
            # (several files, --linewise, --json: the parallel driver nests each line's document, the serial one does not;
            # those runs are compared with each other and not with --serial)
            nf = rng.choice([1, 2, 3, 5, 8, 8, 8])
            names = [rng.choice(["f%02d.txt", "f%02d.txt", "n%02d", ".h%02d"]) % (rng.randint(0, 99)) for _ in range(nf)]      # (with and without an extension)
            names = list(dict.fromkeys(names))
            rng.shuffle(names)
            files = [(nm, big_text(rng, rng.choice([0, 1, 3, 20, 20, 20, 11] if from_grammar else [0, 1, 3, 20, 150, 600, nlines // 4 + 1])).encode()) for nm in names]
            opts = list(fopts)
            if "lw" in kind:
                opts.append("--linewise")
            if "inplace" in kind:
                opts.append("-i")
                if rng.random() < 0.4:
                    opts.append("--backup")        # the backups are files the run leaves behind, like the others
            sc = {"files": files, "opts": opts, "cmds": prog, "stdin": None}
        scs.append((kind, sc))
    dist = {}
    nthreads_seen = set()
    total_units = 0
    from concurrent.futures import ThreadPoolExecutor
    plan = []
    for si, (kind, sc) in enumerate(scs):
        plan.append((si, -1, None, None))
        for k in range(nruns):
            th = sc["threads"][k % len(sc["threads"])] if "threads" in sc else rng.choice(THREADS + [8, 16, 16])
            if "threads" not in sc and si % 3 == 0 and k < 2:
                th = 1 if k == 0 else rng.choice([2, 4, 8, 16])      # one worker against several, for every third scenario
            plan.append((si, k, th, rng.randint(1, 10**6)))

    def one(job):
        si, k, th, jit = job
        kind, sc = scs[si]
        if k < 0:
            return D.run_scenario(binary, dict(sc, opts=sc["opts"] + ["--serial"]))
        tracef = os.path.join(TMP, f"trace_{os.getpid()}_{si}_{k}.jsonl")
        env = {"RAYON_NUM_THREADS": str(th), "VICUT_VERIF_JITTER": str(jit), "VICUT_VERIF_TRACE": tracef}
        ob = D.run_scenario(binary, dict(sc, env=env, timeout=180))
        tids = set()
        nun = 0
        try:
            for line in open(tracef, encoding="utf-8"):
                tids.add(json.loads(line)["tid"])
                nun += 1
            os.remove(tracef)
        except FileNotFoundError:
            pass
        return (th, jit, ob, len(tids), nun)
    with ThreadPoolExecutor(4) as ex:          # a few runs at a time: they compete for the cores, which varies the schedules
        done = list(ex.map(one, plan))
    by_sc = {}
    for job, r in zip(plan, done):
        by_sc.setdefault(job[0], []).append((job[1], r))
    for si, (kind, sc) in enumerate(scs):
        dist[kind] = dist.get(kind, 0) + 1
        ref = [r for k, r in by_sc[si] if k < 0][0]
        runs = [r for k, r in by_sc[si] if k >= 0]
        for th, jit, ob, ntid, nun in runs:
            nthreads_seen.add(ntid)
            total_units += nun
        chk.count(("c04", kind, tuple(sc["opts"] + sc["cmds"]), sc.get("stdin"), tuple(sc["files"])), nontrivial=True)
        chk.cov["traces_validated_against_impl"] += len(runs)
        base = runs[0][2]
        for th, jit, ob, ntid, nun in runs:
            if ob["rc"] != base["rc"] or ob["out"] != base["out"] or ob["final"] != base["final"]:
                chk.violation("spec:result depends on thread count / schedule",
                              {"kind": kind, "argv": ob["argv"], "threads": [runs[0][0], th], "jitter": [runs[0][1], jit],
                               "stdout_a": base["out"].decode(errors="replace")[:600], "stdout_b": ob["out"].decode(errors="replace")[:600],
                               "files_differ": [n for n in ob["final"] if ob["final"][n] != base["final"].get(n)],
                               "stdin": (sc.get("stdin") or "")[:400], "files": [(a, b.decode(errors="replace")[:3000]) for a, b in sc["files"]]})
                break
        # against --serial (up to serial's extra final newline on stdout)
        shape_differs = "--json" in sc["opts"] and "--linewise" in sc["opts"] and sc["files"]
        if ref["rc"] == 0 and base["rc"] == 0 and not shape_differs:
            if not rel_serial(base["out"], ref["out"]) or base["final"] != ref["final"]:
                chk.violation("spec:parallel result differs from --serial",
                              {"kind": kind, "argv": base["argv"], "stdout_parallel": base["out"].decode(errors="replace")[:600],
                               "stdout_serial": ref["out"].decode(errors="replace")[:600],
                               "files_differ": [n for n in ref["final"] if ref["final"][n] != base["final"].get(n)],
                               "stdin": (sc.get("stdin") or "")[:400], "files": [(a, b.decode(errors="replace")[:3000]) for a, b in sc["files"]]})
    # model correspondence on the small scenarios
    small = [(kind, sc) for kind, sc in scs if len(sc.get("stdin") or "") < 600 and sum(len(b) for _, b in sc["files"]) < 600]
    sobs = [D.run_scenario(binary, sc) for _, sc in small]
    if small:
        model = D.eval_model("c04", [D.model_case(sc, ob) for (_, sc), ob in zip(small, sobs)])
        for (kind, sc), ob, m in zip(small, sobs, model):
            d = D.compare(sc, ob, m)
            if d:
                chk.violation("correspondence:driver model", {"argv": ob["argv"], "diff": d, "stdin": sc.get("stdin"),
                              "files": [(a, b.decode(errors="replace")) for a, b in sc["files"]]}, concrete=False)
    chk.cov["input_distribution"] = dist
    chk.cov["worker_threads_observed"] = sorted(nthreads_seen)
    chk.cov["units_traced"] = total_units
    chk.sample({"kind": scs[0][0], "argv": scs[0][1]["opts"] + scs[0][1]["cmds"], "threads_tried": THREADS})
    chk.cov["rule"] = ("scenarios = (driver kind in {stdin --linewise, files --linewise, files, -i variants}, 1..2000 lines / 1..8 files, a command list that reads register/dot/search state before writing it); "
                       "each executed --serial once and then with RAYON_NUM_THREADS drawn from {1,2,3,4,8,16,32} and a seeded jitter at the start of every unit (CPU contention on thorough); "
                       "all runs must be byte-identical in stdout and files, and equal to --serial up to its extra final newline; worker-thread ids per run are read from the hook trace. "
                       "evaluations = scenarios; each has several schedules (traces_validated_against_impl = runs)")
    chk.assumptions += ["real interleavings are sampled, not enumerated: that rayon only produces schedules of the model (units run whole on one worker, results tagged), that thread_local! is per thread and that safe Rust has no data race are trusted",
                        "--linewise --json over files has a different shape per driver by design: those runs are compared across thread counts and schedules, not with --serial"]
    return chk.finish()


def replay(path):
    d = json.load(open(path))
    print(json.dumps(d["case"], indent=1, ensure_ascii=False)[:4000])
    return 0
