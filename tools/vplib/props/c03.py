"""C03: --linewise equals running every line alone, in input order."""
import json

from .. import cli_lang as L
from .. import drivers as D
from ..common import C, cli_map, untxt

INPUTS = L.TEXTS + ["l1\nl2\nl3\nl4\n", "a b\r\nc d\r\n", "x\n\n\ny", "ünï cödé wörd\nzweite Zeile hier\n\ndritte", "one\n", "solo",
                    "k1 v1\nk2 v2\nk3 v3\nk4 v4\nk5 v5\nk6 v6\nk7 v7\nk8 v8\n", "foo bar\nfoo\nbar foo baz\n\nfoo"]


def split_lines(t):
    out, cur = [], ""
    for ch in t:
        cur += ch
        if ch == "\n":
            out.append(cur)
            cur = ""
    if cur:
        out.append(cur)
    return out


STATE_PROGRAMS = [["-m", "wP", "-c", "e", "-m", "yy"], ["-m", '"Ayiw', "-m", '$"ap'], ["-m", '"Ayiw', "-m", '$"ap', "-m", '"ayy'], ["-m", "pyy"],
                  ["-m", "p", "-c", "$", "-m", "dd"], ["-m", '"bP', "-m", '"Byiw', "-m", '"bp', "-c", "$"], ["-m", "P", "-m", "yiw"], ["-m", ".", "-m", "x"],
                  ["-m", "n", "-c", "e", "-m", "/a<CR>"], ["-m", ";", "-m", "fa", "-c", "e"], ["-m", "gv", "-m", "d", "-m", "vey"]]


# some lines give fields, others (emptied, or without a terminator) only their buffer: each line is still formatted alone
MIX_PROGRAMS = [["-g", "foo", "-m", "dd", "--else", "-c", "e", "--end"], ["-v", "a", "-m", "0D", "--else", "-c", "$", "--end"],
                ["-g", "1", "-m", "0D", "--else", "-c", "e", "-c", "$", "--end"], ["-g", "^l", "-c", "e", "--else", "-m", "dd", "--end"],
                ["-v", "o", "-c", "w", "--else", "-m", "x", "--end"]]


def gen_program(rng):
    r = rng.random()
    if r < 0.06:
        return list(rng.choice(MIX_PROGRAMS))
    if r < 0.2:
        # a line reads some editor state (register text or kind, dot, search, f/t, last selection) before it writes it
        return list(rng.choice(STATE_PROGRAMS))
    if r < 0.4:
        # register flow between lines: some lines only write a register, others read it first
        pat = rng.choice(["^f", "^k", "^a", "^x", "^l1", "^o", "^[a-z]+ [a-z]+$", "1", "^$"])
        w = rng.choice(["yiw", "yy", "dw", "x", "yw", "yiw"])
        rd = rng.choice(["P", "p", "P", "p", '"ap', "."])
        cut = rng.choice(["$", "e", "$"])
        flag = rng.choice(["-g", "-g", "-v"])
        return [flag, pat, "-m", w, "--else", "-m", rd, "-m", "0", "-c", cut, "--end"]
    if r < 0.5:
        return D.gen_cmds(rng, edit_only=True)
    cmds = D.gen_cmds(rng)
    if rng.random() < 0.25:
        cmds += ["-r", str(rng.randint(1, 2)), str(rng.randint(1, 2))]
    if rng.random() < 0.3:
        # a line that reads a register before writing it
        cmds = ["-m", rng.choice(["P", "p", ".", "n"])] + cmds + ["-m", rng.choice(["yiw", "dw", "x", "/o<CR>"])]
    return cmds


def run(chk, binary):
    rng = chk.rng
    thorough = chk.tier == "thorough"
    chk.proof_obligations()
    n = 2000 if thorough else 400
    scs = []
    meta = []
    for _ in range(n):
        cmds = gen_program(rng)
        k = rng.choice([0, 1, 2, 2, 3])
        fopts = [["--json"], ["-t", rng.choice(["{{1}}", "<{{1}}>", "{{1}};"])], [], ["-d", rng.choice([",", " | "])]][k]
        if k == 1 and not any(c in ("-c", "--cut") for c in cmds):
            fopts = []
        text = rng.choice(INPUTS)
        if rng.random() < 0.03:
            # a long input: more lines than any batch, chunk or pool size a driver may hand out at once
            nl = rng.choice([65, 97, 100, 130, 200, 257, rng.randint(66, 300)])
            text = "".join(f"{'w' * (i % 7)} n{i} {rng.choice(['foo', 'bar', 'é', ''])}\n" for i in range(nl))
            if rng.random() < 0.3:
                text = text[:-1]
        via_file = rng.random() < 0.4
        serial = rng.random() < 0.4
        regflow = "--else" in cmds and cmds[0] in ("-g", "-v") and len(cmds) == 12
        if regflow:
            via_file = False
            serial = rng.random() < 0.6
        opts = fopts + ["--linewise"] + (["--serial"] if serial else []) + (["--silent"] if rng.random() < (0.7 if regflow else 0.1) else [])
        if via_file:
            nfiles = rng.choice([1, 1, 2])
            files = [(nm, (text if i == 0 else rng.choice(INPUTS)).encode()) for i, nm in enumerate(rng.sample(D.FILE_NAMES, nfiles))]
            sc = {"files": files, "opts": opts, "cmds": cmds, "stdin": None}
            if nfiles == 2 and rng.random() < 0.3:
                sc["extra_args"] = [files[0][0]]        # the same path given twice, another one in between: it is one file
        else:
            sc = {"files": [], "opts": opts, "cmds": cmds, "stdin": text}
        if len(sc["opts"]) + len(sc["cmds"]) + len(sc["files"]) < 2:
            continue
        scs.append(sc)
        meta.append((fopts, k, via_file, serial))
    # written back with -i: a file is the concatenation of what its lines give, also when that is nothing at all
    for _ in range(60 if thorough else 12):
        allc = "".join(rng.choice(["# note\n", "#\n", "# x y\n"]) for _ in range(rng.randint(1, 3)))
        mixed = "".join(rng.choice(["# note\n", "keep me\n", "x\n", "\n"]) for _ in range(rng.randint(2, 4))) + "tail\n"
        files = [("notes.txt", allc.encode()), ("mixed.txt", mixed.encode())]
        rng.shuffle(files)
        cmds = rng.choice([["-g", "^#", "-m", "dd", "--end"], ["-v", "^#", "-c", "e", "--end"], ["-g", "^#", "-m", "dd", "--else", "-m", "x", "--end"], ["-m", "dd"]])
        opts = ["--linewise", "-i"] + (["--serial"] if rng.random() < 0.3 else [])
        scs.append({"files": files, "opts": opts, "cmds": cmds, "stdin": None})
        meta.append(([], 2, True, "--serial" in opts))
    obs = D.scenarios_map(binary, scs)
    model = D.eval_model("c03", [D.model_case(sc, ob) for sc, ob in zip(scs, obs)])
    # per-line single runs (direct oracle)
    jobs = []
    jidx = []
    for si, (sc, ob, (fopts, k, via_file, serial)) in enumerate(zip(scs, obs, meta)):
        sources = [(nm, data.decode()) for nm, data in sc["files"]] if via_file else [(None, sc["stdin"])]
        for nm, text in sources:
            for li, line in enumerate(split_lines(text)):
                if nm is None:
                    jobs.append({"args": fopts + (["--silent"] if "--silent" in sc["opts"] else []) + sc["cmds"], "stdin": line})
                else:
                    jobs.append(None)
                jidx.append((si, nm, li))
    real = [j for j in jobs if j is not None]
    res = iter(cli_map(binary, real))
    single = {}
    for j, key in zip(jobs, jidx):
        if j is not None:
            single[key] = next(res)
    dist = {}
    for si, (sc, ob, m, (fopts, k, via_file, serial)) in enumerate(zip(scs, obs, model, meta)):
        key = f"{'file' if via_file else 'stdin'}/{'serial' if serial else 'parallel'}/{['json','template','plain','delimiter'][k]}"
        dist[key] = dist.get(key, 0) + 1
        text0 = sc["stdin"] if not via_file else sc["files"][0][1].decode()
        chk.count(("c03", tuple(ob["argv"]), text0), nontrivial=len(split_lines(text0)) >= 2)
        d = D.compare(sc, ob, m)
        if d:
            chk.violation("correspondence:driver model", {"argv": ob["argv"], "stdin": sc.get("stdin"), "files": [(a, b.decode(errors='replace')) for a, b in sc["files"]],
                          "diff": d, "rc": ob["rc"], "stderr": ob["err"].decode(errors="replace")[-300:]}, concrete=ob["rc"] not in (0, 1))
        # units: exactly the lines, each once (no line dropped, duplicated or merged)
        sources = [(nm, data.decode()) for nm, data in sc["files"]] if via_file else [(None, sc["stdin"])]
        expected_units = sorted((nm, l) for nm, t in sources for l in split_lines(t))
        got_units = sorted((u["file"], u["text"]) for u in ob["units"])
        if ob["rc"] == 0 and expected_units != got_units:
            chk.violation("spec:units of work are not exactly the lines", {"argv": ob["argv"], "stdin": sc.get("stdin"), "expected": expected_units[:10], "got": got_units[:10]})
        # stdin: the linewise output is the in-order concatenation of the single-line outputs
        if not via_file and ob["rc"] == 0:
            lines = split_lines(sc["stdin"])
            rs = [single[(si, None, li)] for li in range(len(lines))]
            if any(r[0] != 0 for r in rs):
                continue
            outs = [r[1] for r in rs]
            if k == 0:
                try:
                    exp = []
                    for o_ in outs:
                        s_ = o_.decode().strip()
                        exp += json.loads(s_) if s_ else []
                    got = json.loads(ob["out"].decode()) if ob["out"].strip() else []
                except Exception as e:
                    chk.violation("spec:json output not decodable", {"argv": ob["argv"], "stdin": sc["stdin"], "stdout": ob["out"].decode(errors="replace"), "error": str(e)})
                    continue
                if got != exp:
                    chk.violation("spec:--linewise differs from the lines run alone (json elements)", {"argv": ob["argv"], "stdin": sc["stdin"], "linewise": got, "alone": exp})
            else:
                # every run ends with one framing newline
                pieces = [o_[:-1] if o_.endswith(b"\n") else o_ for o_ in outs]
                exp = b"".join(pieces) + b"\n"
                if ob["out"] != exp:
                    # (the deviation 'whole-buffer line among field records gets a newline' was repaired: format_linewise)
                    chk.violation("spec:--linewise differs from the concatenation of the lines run alone",
                                  {"argv": ob["argv"], "stdin": sc["stdin"], "linewise_stdout": ob["out"].decode(errors="replace"),
                                   "concatenation": exp.decode(errors="replace")})
    # ---- --linewise asked for by a vic script: in its opts block, with the files as arguments or named in the block too ----
    vjobs, vmeta = [], []
    for _ in range(80 if thorough else 16):
        nf = rng.choice([1, 2])
        files = [(nm, rng.choice([t for t in INPUTS if len(split_lines(t)) >= 2 and "\\" not in t and "\r" not in t]).encode()) for nm in rng.sample(["in1.txt", "in2.txt", "data.csv"], nf)]
        fl = rng.sample(["--serial", "--json"], rng.choice([0, 0, 1, 2]))
        body_items = [rng.choice([("cut", "e"), ("cut", "$"), ("move", "w"), ("cut", "iw"), ("move", "x")]) for _ in range(rng.randint(1, 3))]
        flags = ["--linewise"] + fl + [x for k_, a in body_items for x in (("-c" if k_ == "cut" else "-m"), a)]
        body = "".join('%s "%s"\n' % (k_, a) for k_, a in body_items)
        on = ["linewise"] + [{"--serial": "serial", "--json": "json"}[x] for x in fl]
        names = [nm for nm, _ in files]
        fopt = ('file = "%s"' % names[0]) if nf == 1 and rng.random() < 0.5 else ("files = [" + ", ".join('"%s"' % n_ for n_ in names) + "]")
        forms = [("flags", flags, True), ("script + file arguments", ["opts { " + ", ".join(on) + " }\n" + body], True),
                 ("files named in the opts block", ["opts { " + ", ".join(on + [fopt]) + " }\n" + body], False)]
        for name, cmds, named in forms:
            vjobs.append({"files": files, "opts": [], "cmds": cmds, "stdin": None, "unnamed": [] if named else names})
        vmeta.append((forms, files))
    vobs = D.scenarios_map(binary, vjobs)
    for k_, (forms, files) in enumerate(vmeta):
        obs3 = vobs[3 * k_: 3 * k_ + 3]
        dist["vic-script/linewise"] = dist.get("vic-script/linewise", 0) + 1
        chk.count(("c03-vic", tuple(forms[0][1]), tuple(files)), nontrivial=True)
        expected_units = sorted((nm, l) for nm, t in files for l in split_lines(t.decode()))
        for (name, cmds, _), ob in zip(forms, obs3):
            got_units = sorted((u["file"], u["text"]) for u in ob["units"])
            case = {"form": name, "argv": ob["argv"], "files": [(a, b.decode(errors="replace")) for a, b in files]}
            if ob["rc"] == 0 and expected_units != got_units:
                chk.violation("spec:units of work are not exactly the lines", dict(case, expected=expected_units[:10], got=got_units[:10]))
                break
            if (ob["rc"], ob["out"]) != (obs3[0]["rc"], obs3[0]["out"]):
                chk.violation("spec:--linewise given in a script differs from --linewise given as a flag",
                              dict(case, rc=[obs3[0]["rc"], ob["rc"]], stdout_flags=obs3[0]["out"].decode(errors="replace")[:400], stdout_form=ob["out"].decode(errors="replace")[:400],
                                   stderr_form=ob["err"].decode(errors="replace")[-300:]))
                break
    chk.cov["traces_validated_against_impl"] = len(scs) + len(vjobs)
    chk.cov["input_distribution"] = dist
    chk.sample({"argv": obs[0]["argv"], "stdin": scs[0].get("stdin"), "stdout": obs[0]["out"].decode(errors="replace")[:300]})
    chk.cov["rule"] = ("--linewise runs (stdin and 1-2 file arguments, serial and parallel, plain/delimiter/template/JSON, 0..9 lines incl. empty lines, CRLF, missing final newline, multi-byte) with cut/edit/-g/-r command lists "
                       "incl. lines that read a register/search/dot state before writing it; each compared with the Coq driver model fed with the hook's per-unit records, "
                       "with the multiset of units (= the lines, once each) and with one run of the binary per line alone. non-trivial = at least two lines; distinct = distinct (argv,input)")
    known_lines = [f"KNOWN-FINDING: property=C03 class={k} {v}" for k, v in sorted(chk.known_hits.items())]
    return chk.finish(known_lines)


def replay(path):
    d = json.load(open(path))
    print(json.dumps(d["case"], indent=1, ensure_ascii=False)[:4000])
    return 0
