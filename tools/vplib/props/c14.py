"""C14: all output formats carry the same records."""
import json

from .. import cli_lang as L
from ..common import (C, Server, cli_map, records_map, recs_coq, run_cli, run_coq_eval, server_map, txt, untxt)

IMPORTS = ["Base.Prelude", "Model.Format", "Model.Obs"]

NASTY = ["\n\n", "x\n", '"', "\\", "\n", "\t", "\r", "\x00", "\x01", "\x1f", "\x7f", "{", "}", "{{", "}}", "é", "日本", "🙂", "é",
         " ", "  ", "a", "b c", "x=y", ",", " ", " ", "\x0c", "\x08", "/", "<", "'"]
NAMES = ["1", "2", "3", "10", "a", "b", "key", "x y", "k\"q", "ünï", "0", "name", "{{1}}", ""]
TEMPLATES = ["{{1}}", "<{{1}}> ({{2}})", "{{a}}-{{b}}", "no holes", "", "\\{{1}}", "{{1", "{{1}} {{zz}}", "a\\\\b{{2}}",
             "{{k\\\"q}}", "{{ 1 }}", "}}{{1}}{{", "{{1}}{{1}}", "x\\", "{{x y}}", "{{key}}\n{{1}}"]
DELIMS = [" ", ",", " | ", "", "\t", "\n", "--", "é"]


def gen_value(rng):
    n = rng.choice([0, 1, 1, 2, 3, 5])
    return "".join(rng.choice(NASTY) for _ in range(n))


def gen_recs(rng):
    recs = []
    for _ in range(rng.choice([0, 1, 1, 2, 3])):
        r = []
        for j in range(rng.choice([0, 1, 2, 2, 3, 4])):
            name = str(j + 1) if rng.random() < 0.6 else rng.choice(NAMES)
            r.append([name, gen_value(rng)])
        recs.append(r)
    if rng.random() < 0.05:
        recs = [[["0", gen_value(rng)]]]
    return recs


def outcome_of(ans):
    if "out" in ans:
        return C("Ok", txt(ans["out"]))
    if "err" in ans:
        return C("Exit1")
    return C("Panic", txt(str(ans)[:200]))


def has_dup(recs):
    return any(len({k for k, _ in r}) != len(r) for r in recs)


def run(chk, binary):
    rng = chk.rng
    thorough = chk.tier == "thorough"
    chk.proof_obligations()
    # ---- A. formatter functions directly (hook op `format`) ----
    nA = 12000 if thorough else 1500
    cases = []
    for _ in range(nA):
        recs = gen_recs(rng)
        k = rng.choice([0, 0, 1, 2, 2])
        arg = "" if k == 0 else (rng.choice(TEMPLATES) if k == 1 else rng.choice(DELIMS))
        cases.append((k, arg, recs))
    reqs = [{"op": "format", "fmt": ["json", "template", "standard"][k], "arg": arg, "recs": recs} for k, arg, recs in cases]
    impl = [outcome_of(a) for a in server_map(binary, reqs)]
    model = run_coq_eval("c14_fmt", IMPORTS, "fmt_obs", [(k, txt(arg), recs_coq(recs)) for k, arg, recs in cases])
    dist = {"json": 0, "template": 0, "standard": 0, "dup_names": 0, "template_error": 0}
    for (k, arg, recs), m, o in zip(cases, model, impl):
        dist[["json", "template", "standard"][k]] += 1
        nontriv = any(r for r in recs)
        chk.count(("fmt", k, arg, json.dumps(recs)), nontrivial=nontriv)
        if m != o:
            chk.violation("correspondence:format_output", {"fmt": k, "arg": arg, "recs": recs, "model": repr(m)[:600], "impl": repr(o)[:600]},
                          concrete=isinstance(o, C) and o.name == "Panic")
        if not (isinstance(o, C) and o.name == "Ok"):
            dist["template_error"] += 1
            continue
        out = untxt(o.args[0])
        # direct oracle on the implementation's own output
        if k == 0 and out:
            try:
                dec = json.loads(out)
            except Exception as e:
                chk.violation("spec:--json output is not valid JSON", {"recs": recs, "stdout": out, "error": str(e)})
                continue
            exp = [dict(r) for r in recs]          # later duplicate wins
            if has_dup(recs):
                dist["dup_names"] += 1
                chk.known("duplicate-name", recs)
            if dec != exp or [list(d.keys()) for d in dec] != [sorted(d.keys()) for d in exp]:
                chk.violation("spec:--json does not carry the records", {"recs": recs, "decoded": dec})
        if k == 2 and not (recs and all(len(r) == 1 and r[0][0] == "0" for r in recs)):
            exp = ""
            for r in recs:
                line = arg.join(v for _, v in r)
                exp += line if line.endswith("\n") else line + "\n"
            if out != exp:
                chk.violation("spec:delimiter rendering is not the records joined", {"delim": arg, "recs": recs, "stdout": out, "expected": exp})
    chk.sample({"fmt": "json", "recs": cases[0][2], "out": repr(model[0])[:200]})
    chk.cov["traces_validated_against_impl"] = len(cases)

    # ---- B. whole pipeline at the CLI ----
    nB = 2500 if thorough else 300
    jobs = []
    meta = []
    for _ in range(nB):
        items = []
        for _ in range(rng.randint(0, 6)):
            r = rng.random()
            if r < 0.45:
                items.append(("cut", False, rng.choice(L.CUTS + ["zz", "fq"])))   # some fail
            elif r < 0.6:
                items.append(("ncut", False, rng.choice(["a", "b", "key", "2", "x y", "k=v", "a=1", "a=2", "="]), rng.choice(L.CUTS)))     # a name is everything behind the first '=
            elif r < 0.85:
                items.append(("move", False, rng.choice(L.MOVES + L.EDITS)))
            else:
                items.append(("next", False))
        k = rng.choice([0, 1, 2, 2])
        arg = None
        opts = []
        if k == 0:
            opts = ["--json"]
        elif k == 1:
            arg = rng.choice(["{{1}}", "{{1}}:{{2}}", "<{{a}}>", "{{key}} {{1}}", "lit"])
            opts = ["-t", arg]
        elif rng.random() < 0.5:
            arg = rng.choice([",", " | ", ":", ";"])
            opts = ["-d", arg]
        if rng.random() < 0.25:
            opts.append("--trim-fields")
        argv = opts + L.render(items)
        if len(argv) < 2 or not any(a.startswith("-") for a in argv):
            continue
        text = rng.choice(L.TEXTS)
        jobs.append({"args": argv, "stdin": text})
        meta.append((items, k, arg, argv, text))
    res = records_map(binary, jobs)
    fmtcases = []
    fmeta = []
    for (items, k, arg, argv, text), (rc, out, err, units) in zip(meta, res):
        chk.count(("cli", tuple(argv), text), nontrivial=any(i[0] in ("cut", "ncut") for i in items))
        if rc not in (0, 1):
            continue   # crashes are C10's business
        if rc == 1:
            if k != 1:
                chk.violation("spec:unexpected failure", {"argv": argv, "stdin": text, "stderr": err.decode(errors="replace")[-300:]}, concrete=True)
            continue
        if len(units) != 1:
            chk.violation("correspondence:execute() unit count", {"argv": argv, "units": len(units)}, concrete=False)
            continue
        recs = units[0]["records"]
        fmtcases.append((k, txt(arg if arg is not None else " "), recs_coq(recs)))
        fmeta.append((argv, text, recs, out, items, k))
        # direct oracles
        sout = out.decode("utf-8", errors="replace")
        ncuts = sum(1 for i in items if i[0] in ("cut", "ncut"))
        if ncuts == 0 and k == 2:
            # nothing cut: the final buffer verbatim (+ the framing newline of exec_stdin)
            if not (len(recs) == 1 and recs[0][0][0] == "0" and sout == recs[0][0][1].strip() + "\n" if "--trim-fields" in argv else sout == recs[0][0][1] + "\n"):
                chk.violation("spec:no -c but output is not the buffer", {"argv": argv, "stdin": text, "stdout": sout, "records": recs})
        # numbering: keys are names or the position index since the last -n
        if not err:
            exp_keys = []
            cur = []
            n = 0
            for i in items:
                if i[0] == "cut":
                    n += 1
                    cur.append(str(n))
                elif i[0] == "ncut":
                    n += 1
                    cur.append(i[2])
                elif i[0] == "next":
                    n = 0
                    if cur:
                        exp_keys.append(cur)
                    cur = []
            if cur:
                exp_keys.append(cur)
            if ncuts and [[kk for kk, _ in r] for r in recs] != exp_keys:
                chk.violation("spec:field keys are not 1..k / the given names", {"argv": argv, "stdin": text, "keys": [[kk for kk, _ in r] for r in recs], "expected": exp_keys})
    model = run_coq_eval("c14_cli", IMPORTS, "fmt_obs", fmtcases)
    for (argv, text, recs, out, items, k), m in zip(fmeta, model):
        exp = None
        if isinstance(m, C) and m.name == "Ok":
            exp = (untxt(m.args[0]) + "\n").encode("utf-8")
        if exp != out:
            chk.violation("correspondence:stdout = format_output(records) + newline",
                          {"argv": argv, "stdin": text, "records": recs, "stdout": out.decode(errors="replace"), "model": repr(m)[:500]}, concrete=False)
    # ---- C. names survive where a cut stands (then branch, --else branch, repeat), and --json is one document whatever the driver ----
    import re as _re
    from .. import drivers as D
    cjobs, cmeta = [], []
    for _ in range(300 if thorough else 60):
        text = rng.choice([t for t in L.TEXTS if t.strip()])
        pat = rng.choice(["foo", "a", "qqq", "o", "^$", "z", "\\d"])
        cut1, cut2 = rng.choice(["e", "w", "$", "iw"]), rng.choice(["e", "$", "w"])
        rep = ["-r", "1", "1"] if rng.random() < 0.3 else []
        argv = ["--json", "-g", pat, "-c", "name=hit", cut1] + rep + ["--else", "-c", "name=miss", cut2] + rep + ["--end"]
        noelse = rng.random() < 0.35
        if noelse:
            # no --else branch: when no line matches nothing is cut - and a scope that asks for fields never falls back to
            # printing the buffer, wherever in it (inside a repeat too) the cuts stand
            argv = ["--json", "-g", pat, "-c", "name=hit", cut1, "-m", "w"] + (["-r", "2", "1"] if rep else []) + ["--end"]
        if not noelse and rng.random() < 0.3:
            # numbered cuts in a scope, no -n: one record, its keys 1..m for the m lines the scope visits
            pat = rng.choice(["o", "a", "e", "[a-z]"])
            argv = ["--json", "-g", pat, "-c", rng.choice(["e", "$", "w"]), "--end"]
        cjobs.append({"args": argv, "stdin": text})
        cmeta.append((argv, text, pat, bool(rep)))
    for (argv, text, pat, rep), (rc, out, err) in zip(cmeta, cli_map(binary, cjobs)):
        chk.count(("names", tuple(argv), text), nontrivial=True)
        if rc != 0:
            continue
        try:
            recs = json.loads(out.decode("utf-8")) if out.strip() else []      # (no record at all: vicut prints nothing but the closing newline)
        except Exception as e:
            chk.violation("spec:--json output is not one JSON document", {"argv": argv, "stdin": text, "stdout": out.decode(errors="replace")[:400], "error": str(e)})
            continue
        lines = text.split("\n")
        if lines and lines[-1] == "":
            lines.pop()
        hit = any(_re.search(pat, l) for l in lines)
        want = "hit" if hit else "miss"
        if "name=hit" not in argv:
            m_ = sum(1 for l in lines if _re.search(pat, l))
            if m_ >= 1 and (len(recs) != 1 or not isinstance(recs[0], dict) or sorted(recs[0], key=int) != [str(i_ + 1) for i_ in range(m_)]):
                chk.violation("spec:field keys are not 1..k / the given names", {"argv": argv, "stdin": text, "matching_lines": m_, "records": recs})
            continue
        if "--else" not in argv and not hit:
            if recs:
                chk.violation("spec:a scope that cuts fields matched no line, yet records were printed", {"argv": argv, "stdin": text, "stdout": out.decode(errors="replace")[:300]})
            continue
        keys = {k for r in recs if isinstance(r, dict) for k in r}
        if keys and keys != {want}:
            chk.violation("spec:a named field does not carry its name", {"argv": argv, "stdin": text, "expected_key": want, "keys": sorted(keys), "stdout": out.decode(errors="replace")[:300]})
    djobs = []
    for _ in range(60 if thorough else 16):
        files = [(nm, rng.choice([t for t in L.TEXTS if t.strip()]).encode()) for nm in rng.sample(D.FILE_NAMES, rng.choice([2, 3]))]
        mode = rng.choice([["--linewise", "--serial"], ["--linewise"], ["--serial"], []])
        djobs.append({"files": files, "opts": ["--json"] + mode, "cmds": ["-c", "e", "-m", "w", "-c", "name=second", "e"], "stdin": None})
    # several files in the default rendering: every file has its section, also one whose output is only blanks
    ljobs = []
    for _ in range(60 if thorough else 16):
        names = rng.sample(D.FILE_NAMES, 3)
        files = [(names[0], b"alpha beta\n"), (names[1], rng.choice([b"\n\n", b"  \n", b" "])), (names[2], b"  indented\nx\n")]
        rng.shuffle(files)
        ljobs.append({"files": files, "opts": rng.choice([[], ["-d", ","], ["--serial"], ["--linewise"], ["--linewise", "--serial"], ["--linewise", "-d", "|"]]),
                      "cmds": rng.choice([["-c", "l"], ["-m", "l"], ["-c", "l", "-c", "l"]]), "stdin": None})
    for sc, ob in zip(ljobs, D.scenarios_map(binary, ljobs)):
        chk.count(("listing", tuple(ob["argv"])), nontrivial=True)
        if ob["rc"] != 0:
            continue
        so = ob["out"].decode("utf-8", errors="replace")
        missing = [nm for nm, _ in sc["files"] if ("--- " + nm) not in so]
        order = sorted((so.find("--- " + nm + "\n"), nm) for nm, _ in sc["files"] if ("--- " + nm + "\n") in so)
        if [nm for _, nm in order] != [nm for nm, _ in sc["files"] if ("--- " + nm + "\n") in so]:
            chk.violation("spec:the sections of a multi-file run are not in the order the files were given", {"argv": ob["argv"], "order": [nm for _, nm in order],
                          "files": [(a, b.decode(errors="replace")) for a, b in sc["files"]], "stdout": so[:400]})
        if missing and "--linewise" in sc["opts"]:
            missing = []            # (line by line, a file whose lines print nothing has no section: that is C03's business)
        if missing:
            chk.violation("spec:a file has no section in the listing of a multi-file run", {"argv": ob["argv"], "missing": missing,
                          "files": [(a, b.decode(errors="replace")) for a, b in sc["files"]], "stdout": so[:400]})
    # a field name used twice in a record: the listing of several files says what each file's own document says
    pjobs = []
    for _ in range(24 if thorough else 6):
        files = [(nm, rng.choice(["alpha beta\n", "gamma delta x\n", "one two\nthree four\n"]).encode()) for nm in rng.sample(D.FILE_NAMES, 2)]
        cmds = ["-c", "name=w", "e", "-m", "w", "-c", "name=w", "e"]
        pjobs.append({"files": files, "opts": ["--json"], "cmds": cmds, "stdin": None})
        for nm, data in files:
            pjobs.append({"files": [(nm, data)], "opts": ["--json"], "cmds": cmds, "stdin": None})
    pobs = D.scenarios_map(binary, pjobs)
    for k_ in range(0, len(pjobs), 3):
        lst, one_a, one_b = pobs[k_], pobs[k_ + 1], pobs[k_ + 2]
        chk.count(("json-listing-vs-documents", tuple(lst["argv"])), nontrivial=True)
        try:
            L_ = json.loads(lst["out"].decode("utf-8"))
            docs = [json.loads(o_["out"].decode("utf-8")) for o_ in (one_a, one_b)]
        except Exception:
            continue
        got = [e_.get("__content__") for e_ in L_] if isinstance(L_, list) else None
        if got != docs:
            chk.violation("spec:the JSON listing of several files differs from the files' own documents", {"argv": lst["argv"], "listing": got, "documents": docs})
    for sc, ob in zip(djobs, D.scenarios_map(binary, djobs)):
        chk.count(("json-files", tuple(ob["argv"])), nontrivial=True)
        if ob["rc"] != 0:
            continue
        try:
            json.loads(ob["out"].decode("utf-8"))
        except Exception as e:
            chk.violation("spec:--json output is not one JSON document", {"argv": ob["argv"], "files": [(a, b.decode(errors="replace")) for a, b in sc["files"]],
                          "stdout": ob["out"].decode(errors="replace")[:500], "error": str(e)})
    # ---- D. --linewise --json: one document holding every line's records, in the order of the lines ----
    wjobs, wmeta = [], []
    WORDS = ["foo", "bar x", "baz  qux", "alpha beta gamma", "é ü", "one", "two 2", " lead", "a.b c", "x"]
    for _ in range(400 if thorough else 60):
        lines = rng.sample(WORDS, rng.randint(2, 5))
        text = "\n".join(lines) + ("\n" if rng.random() < 0.7 else "")
        items = []
        for _ in range(rng.randint(1, 5)):
            r = rng.random()
            if r < 0.5:
                items.append(("cut", False, rng.choice(["e", "w", "$", "iw", "l"])))
            elif r < 0.62:
                items.append(("ncut", False, rng.choice(["a", "key"]), rng.choice(["e", "$"])))
            elif r < 0.8:
                items.append(("move", False, rng.choice(["w", "l", "0", "$", "x"])))
            else:
                items.append(("next", False))
        if rng.random() < 0.25:
            items = [("glob", False, rng.choice("gv"), rng.choice(["o", "a", "x"]), [("cut", False, "e")], None)] + items
        if not any(i[0] in ("cut", "ncut") for i in items):
            items.append(("cut", False, "e"))
        argv = ["--json", "--linewise"] + (["--serial"] if rng.random() < 0.4 else []) + L.render(items)
        wjobs.append({"args": argv, "stdin": text})
        wmeta.append((argv, text, lines))
    for (argv, text, lines), (rc, out, err, units) in zip(wmeta, records_map(binary, wjobs)):
        chk.count(("linewise-json", tuple(argv), text), nontrivial=True)
        if rc != 0 or len(units) != len(lines):
            continue
        by_text = {u["text"].rstrip("\n"): u["records"] for u in units}
        if set(by_text) != set(lines):
            continue
        recs = [r for ln in lines for r in by_text[ln]]
        if any(has_dup([r]) for r in recs):
            continue
        # (a line none of whose cuts ran prints its text as field "0": that sentinel is a record like any other here)
        exp = [dict(r) for r in recs]
        try:
            got = json.loads(out.decode("utf-8")) if out.strip() else []
        except Exception as e:
            chk.violation("spec:--json output is not one JSON document", {"argv": argv, "stdin": text, "stdout": out.decode(errors="replace")[:400], "error": str(e)})
            continue
        dist["linewise_json"] = dist.get("linewise_json", 0) + 1
        if got != exp:
            chk.violation("spec:--linewise --json does not hold every line's records in order", {"argv": argv, "stdin": text, "json": got, "records": exp})
    if fmeta:
        chk.sample({"argv": fmeta[0][0], "stdin": fmeta[0][1], "records": fmeta[0][2]})
    chk.cov["input_distribution"] = dist
    chk.cov["rule"] = ("A: random record lists (numbered/named/duplicate/reserved names, values from a nasty alphabet: quotes, backslashes, controls, newlines, braces, multi-byte, combining) x json/template/delimiter, "
                       "the real format_output_* called in-process vs the model, plus json.loads / join oracles; B: random -c/-c name=/-m/-n programs x output modes at the CLI, per-unit records dumped by the hook, "
                       "stdout compared with model format_output(records)+newline, keys compared with the numbering rule. non-trivial = at least one non-empty record / at least one cut; distinct by (format,arg,records) or (argv,text)")
    known_lines = []
    # known finding: duplicate names collapse in JSON
    ans = Server(binary)
    a = ans.ask({"op": "format", "fmt": "json", "arg": "", "recs": [[["k", "first"], ["k", "second"]]]})
    ans.close()
    if "out" in a and "first" not in a["out"]:
        known_lines.append("KNOWN-FINDING: property=C14 class=duplicate-name two fields with the same name in one record: --json keeps only the last (-c name=k e -c name=k w)")
    return chk.finish(known_lines)


def replay(path):
    d = json.load(open(path))
    print(json.dumps(d["case"], indent=1, ensure_ascii=False)[:4000])
    return 0
