"""C18: short flags, long flags and vic scripts are the same language."""
import json

from .. import cli_lang as L
from ..common import C, cli_map, log, run_cli, run_coq_eval, txt, untxt
from .c12 import IMPORTS, impl_parse

BOOL_OPTS = [("OJson", "--json", "-j", "json"), ("OLinewise", "--linewise", None, "linewise"),
             ("OSerial", "--serial", None, "serial"), ("OTrim", "--trim-fields", None, "trim_fields"),
             ("OKeep", "--keep-mode", None, "keep_mode")]
KNOWN = {"option-inside-global-scope": {
    "a1": ["-g", "foo", "-c", "e", "--end", "--json"],
    "a2": ["-g", "foo", "--json", "-c", "e", "--end"],
    "stdin": "foo bar\nbaz\n"}}


def gen_opt(rng):
    r = rng.random()
    if r < 0.7:
        o = rng.choice(BOOL_OPTS)
        return ("opt", o[0], rng.random() < 0.5)
    if r < 0.85:
        return ("optv", "ODelim", rng.random() < 0.5, rng.choice([",", " | ", ":", "\t", "--"[0:0] + ";", "", ""]))       # the empty delimiter is a value like any other
    return ("optv", "OTempl", rng.random() < 0.5, rng.choice(["{{1}}", "<{{1}}>", "{{1}} and {{1}}", "x"]))


def render_any(items):
    out = []
    for it in items:
        if it[0] == "opt":
            o = [x for x in BOOL_OPTS if x[0] == it[1]][0]
            out.append(o[1] if (it[2] or o[2] is None) else o[2])
        elif it[0] == "optv":
            if it[1] == "ODelim":
                out += ["--delimiter" if it[2] else "-d", it[3]]
            else:
                out += ["--template" if it[2] else "-t", it[3]]
        else:
            out += L.render([it])
    return out


def respell(items, f):
    out = []
    for it in items:
        k = it[0]
        if k in ("cut", "move", "next", "rep"):
            out.append((k, f(it[1])) + tuple(it[2:]))
        elif k == "ncut":
            out.append((k, f(it[1]), it[2], it[3]))
        elif k == "glob":
            out.append((k, f(it[1]), it[2], it[3], respell(it[4], f), None if it[5] is None else respell(it[5], f)))
        elif k == "opt":
            out.append((k, it[1], f(it[2])))
        elif k == "optv":
            out.append((k, it[1], f(it[2]), it[3]))
    return out


def vic_escape_ok(s):
    """expressible as a vic literal with the same raw text: no quote, backslashes only as escaped pairs"""
    rest = s.replace("\\\\", "").replace('\\"', "").replace("\\$", "")          # escaped backslashes, quotes and dollars are fine in both spellings
    return '"' not in rest and "\\" not in rest


def vic_of_tree(cmds, indent=""):
    """Pretty-print a model command tree (C objects) as a vic script; None if not expressible."""
    out = []
    for c in cmds:
        n = c.name
        if n == "CNext":
            out.append(indent + "next")
        elif n in ("CMove", "CCut"):
            s = untxt(c.args[0])
            if not vic_escape_ok(s):
                return None
            out.append(indent + ("move" if n == "CMove" else "cut") + ' "%s"' % s)
        elif n == "CNamed":
            nm, s = untxt(c.args[0]), untxt(c.args[1])
            if not vic_escape_ok(s) or not vic_escape_ok(nm):
                return None
            out.append(indent + 'cut name="%s" "%s"' % (nm, s))
        elif n == "CRepeat":
            body = vic_of_tree(c.args[0], indent + "  ")
            if body is None:
                return None
            out.append(indent + "repeat %d {\n%s\n%s}" % (c.args[1], body, indent))
        elif n == "CGlobal":
            pol, pat, th, el = c.args
            p = untxt(pat)
            if not vic_escape_ok(p):
                return None
            tb = vic_of_tree(th, indent + "  ")
            if tb is None:
                return None
            # not_global is compound-atomic in the grammar: no blank between pattern and block
            # (every spelling of the keywords takes its turn: which one depends on the pattern's length)
            if pol:
                s = indent + '%s "%s" {\n%s\n%s}' % (["global", "g"][len(p) % 2], p, tb, indent)
            else:
                s = indent + '%s "%s"{\n%s\n%s}' % (["v", "not_global", "!global"][len(p) % 3], p, tb, indent)
            if isinstance(el, C) and el.name == "Some":
                eb = vic_of_tree(el.args[0], indent + "  ")
                if eb is None:
                    return None
                s += (" else {\n%s\n%s}" if pol else "else{\n%s\n%s}") % (eb, indent)
            elif pol:
                s += " "
            out.append(s)
        else:
            return None
    return "\n".join(out)


def vic_opts(obs):
    delim, templ, flags = obs[0], obs[1], obs[2]
    names = ["edit_inplace", "json", "trace", "linewise", "trim_fields", "keep_mode", "backup", "serial",
             "global_uses_line_numbers", "silent"]
    parts = [n for n, b in zip(names, flags) if b]
    if isinstance(delim, C):
        d = untxt(delim.args[0])
        if not vic_escape_ok(d):
            return None
        parts.append('delimiter = "%s"' % d)
    if isinstance(templ, C):
        t = untxt(templ.args[0])
        if not vic_escape_ok(t):
            return None
        parts.append('template = "%s"' % t)
    if not parts:
        return ""
    return "opts { " + ", ".join(parts) + " }\n"


def norm_tree(o):
    """erase the Literal/Expr-literal distinction of dumped arguments"""
    return o


def impl_parse_vic(binary, scripts):
    jobs = [{"args": [s], "stdin": "", "env": {"VICUT_VERIF_DUMP": "cmds"}} for s in scripts]
    res = cli_map(binary, jobs)
    out = []
    for rc, so, se in res:
        if rc == 0:
            try:
                d = json.loads(so.decode())

                def fix(c):
                    if isinstance(c, list):
                        if len(c) == 2 and c[0] == "elit":
                            return ["lit", c[1]]
                        return [fix(x) for x in c]
                    return c
                d["cmds"] = fix(d["cmds"])
                out.append(L.opts_of_dump(d))
            except Exception as e:
                out.append(C("NoDump", txt(repr(e)[:80])))
        elif rc == 1:
            out.append(C("Exit1", txt(se.decode(errors="replace")[-200:])))
        else:
            out.append(C("Panic", txt(se.decode(errors="replace")[-300:])))
    return out


def run(chk, binary):
    rng = chk.rng
    thorough = chk.tier == "thorough"
    chk.proof_obligations()
    n = 2500 if thorough else 300
    bases = []
    while len(bases) < n:
        its = L.gen_items(rng, maxlen=5)
        if len(L.render(its)) < 1:
            continue
        # insert options at arbitrary top-level positions
        for _ in range(rng.randint(0, 3)):
            its.insert(rng.randint(0, len(its)), gen_opt(rng))
        if len(render_any(its)) >= 2:
            bases.append(its)
    variants = []   # (base index, kind, argv)
    for bi, its in enumerate(bases):
        variants.append((bi, "as-generated", render_any(its)))
        variants.append((bi, "all-short", render_any(respell(its, lambda l: False))))
        variants.append((bi, "all-long", render_any(respell(its, lambda l: True))))
        variants.append((bi, "flipped", render_any(respell(its, lambda l: not l))))
        opts = [i for i in its if i[0] in ("opt", "optv")]
        cmds = [i for i in its if i[0] not in ("opt", "optv")]
        variants.append((bi, "options-first", render_any(opts + cmds)))
        variants.append((bi, "options-last", render_any(cmds + opts)))
        mixed = list(cmds)
        for o in opts:   # keeps the relative order of options
            pass
        pos = sorted(rng.randint(0, len(cmds)) for _ in opts)
        for off, (p, o) in enumerate(zip(pos, opts)):
            mixed.insert(p + off, o)
        variants.append((bi, "options-moved", render_any(mixed)))
    argvs = [v[2] for v in variants]
    # ---- correspondence on every variant ----
    impl = impl_parse(binary, argvs)
    model = run_coq_eval("c18_parse", IMPORTS, "parse_obs []", [[txt(a) for a in av] for av in argvs])
    dist = {}
    for (bi, kind, av), m, o in zip(variants, model, impl):
        dist[kind] = dist.get(kind, 0) + 1
        chk.count(("parse", tuple(av)), nontrivial=(kind != "as-generated"))
        if m != o:
            chk.violation("correspondence:Opts::parse", {"argv": av, "variant": kind, "model": repr(m), "impl": repr(o)},
                          concrete=isinstance(o, C) and o.name in ("Panic", "Rc"))
    # ---- the model says all variants of a base are the same Opts; so must the implementation ----
    by_base = {}
    for (bi, kind, av), o in zip(variants, impl):
        by_base.setdefault(bi, []).append((kind, av, o))
    for bi, lst in by_base.items():
        ref = lst[0]
        for kind, av, o in lst[1:]:
            if o != ref[2]:
                chk.violation("spec:spelling/position changes the parsed Opts",
                              {"argv_ref": ref[1], "argv_variant": av, "variant": kind, "impl_ref": repr(ref[2]), "impl_variant": repr(o)})
    chk.cov["traces_validated_against_impl"] = len(argvs)
    chk.cov["input_distribution"] = dist
    chk.sample({"base": variants[0][2], "all-long": variants[2][2], "options-moved": variants[6][2]})

    # ---- vic translation: tree dump and output ----
    scripts = []
    smeta = []
    for bi, its in enumerate(bases):
        m = model[bi * 7]
        if not (isinstance(m, C) and m.name == "Ok"):
            continue
        obs = m.args[0]
        body = vic_of_tree(obs[3])
        pre = vic_opts(obs)
        if body is None or pre is None or not (pre + body).strip():
            continue
        scripts.append(pre + body + "\n")
        smeta.append((bi, m))
    vimpl = impl_parse_vic(binary, scripts)
    for (bi, m), s, o in zip(smeta, scripts, vimpl):
        chk.count(("vic-parse", s))
        if o != m:
            chk.violation("correspondence:vic translation parses to a different tree",
                          {"script": s, "argv": variants[bi * 7][2], "model(denote)": repr(m), "impl(vic)": repr(o)},
                          concrete=isinstance(o, C) and o.name == "Panic")
    # ---- direct oracle: byte-identical output of all forms ----
    jobs = []
    jmeta = []
    nexec = 1500 if thorough else 200
    for (bi, m), s in list(zip(smeta, scripts))[:nexec]:
        text = rng.choice(L.TEXTS)
        forms = [("short", variants[bi * 7 + 1][2]), ("long", variants[bi * 7 + 2][2]),
                 ("moved", variants[bi * 7 + 6][2]), ("vic", [s])]
        for name, av in forms:
            jobs.append({"args": av, "stdin": text})
        jmeta.append((forms, text))
    res = cli_map(binary, jobs)
    for k, (forms, text) in enumerate(jmeta):
        rs = res[4 * k: 4 * k + 4]
        chk.count(("exec", tuple(forms[0][1]), text))
        for (name, av), r in zip(forms[1:], rs[1:]):
            if (r[0], r[1]) != (rs[0][0], rs[0][1]):
                chk.violation("spec:forms differ in output",
                              {"argv_short": forms[0][1], "form": name, "argv_form": av, "stdin": text,
                               "rc": [rs[0][0], r[0]], "stdout_short": rs[0][1].decode(errors="replace"),
                               "stdout_form": r[1].decode(errors="replace"), "stderr_form": r[2].decode(errors="replace")[-300:]})
                break
    # ---- key strings that read a built-in (${{line}}, ${{word}} ...) and are run more than once: expanded afresh every time, in both spellings ----
    bjobs, bmeta = [], []
    for var in ["line", "col", "word", "char", "lines"]:
        key = "A ${{%s}}<esc>j" % var
        text = "alpha x\nbeta yy\ngamma\ndelta zzz\n"
        pairs = [(["-m", key, "-r", "1", "3"], 'repeat 4 {\n  move "%s"\n}\n' % key),
                 (["-m", key, "-m", key, "-m", key], 'move "%s"\nmove "%s"\nmove "%s"\n' % (key, key, key)),
                 (["-g", "a", "-m", "A ${{%s}}<esc>" % var, "--end"], 'global "a" {\n  move "A ${{%s}}<esc>"\n} \n' % var)]
        for flags_, script in pairs:
            bjobs += [{"args": flags_, "stdin": text}, {"args": [script], "stdin": text}]
            bmeta.append((flags_, script, text))
    bres = cli_map(binary, bjobs)
    for k_, (flags_, script, text) in enumerate(bmeta):
        r1, r2 = bres[2 * k_], bres[2 * k_ + 1]
        chk.count(("builtin-in-key-string", tuple(flags_)), nontrivial=True)
        if (r1[0], r1[1]) != (r2[0], r2[1]):
            chk.violation("spec:forms differ in output", {"argv_short": flags_, "form": "vic", "argv_form": [script], "stdin": text, "rc": [r1[0], r2[0]],
                          "stdout_short": r1[1].decode(errors="replace"), "stdout_form": r2[1].decode(errors="replace"), "stderr_form": r2[2].decode(errors="replace")[-300:]})
    # ---- file arguments: as arguments of the flags, as arguments behind a script, and named in the script's opts block ----
    from .. import drivers as D
    fjobs, fmeta = [], []
    for _ in range(60 if thorough else 14):
        nf = rng.choice([1, 2])
        files = [(nm, rng.choice([t for t in L.TEXTS if t.strip() and "\\" not in t]).encode()) for nm in rng.sample(["in1.txt", "in2.txt", "data.csv"], nf)]
        fl = rng.sample(["--linewise", "--serial", "--json"], rng.choice([0, 1, 2]))
        body_items = [rng.choice([("cut", "e"), ("cut", "$"), ("move", "w"), ("cut", "iw"), ("move", "x")]) for _ in range(rng.randint(1, 3))]
        if not any(k == "cut" for k, _ in body_items):
            body_items.append(("cut", "e"))
        flags = fl + [x for k, a in body_items for x in (("-c" if k == "cut" else "-m"), a)]
        body = "".join('%s "%s"\n' % (k, a) for k, a in body_items)
        on = [{"--linewise": "linewise", "--serial": "serial", "--json": "json"}[x] for x in fl]
        names = [nm for nm, _ in files]
        fopt = ('file = "%s"' % names[0]) if nf == 1 and rng.random() < 0.5 else ("files = [" + ", ".join('"%s"' % n for n in names) + "]")
        forms = [("flags", flags, True), ("script + file arguments", [("opts { " + ", ".join(on) + " }\n" if on else "") + body], True),
                 ("files named in the opts block", ["opts { " + ", ".join(on + [fopt]) + " }\n" + body], False)]
        for name, cmds, named in forms:
            fjobs.append({"files": files, "opts": [], "cmds": cmds, "stdin": None, "unnamed": [] if named else names})
        fmeta.append((forms, files))
    fobs = D.scenarios_map(binary, fjobs)
    for k, (forms, files) in enumerate(fmeta):
        obs3 = fobs[3 * k: 3 * k + 3]
        chk.count(("files", tuple(forms[0][1]), tuple(n for n, _ in files)))
        for (name, cmds, _), ob in zip(forms[1:], obs3[1:]):
            if (ob["rc"], ob["out"]) != (obs3[0]["rc"], obs3[0]["out"]):
                chk.violation("spec:forms differ in output", {"argv_short": obs3[0]["argv"], "form": name, "argv_form": ob["argv"], "files": [(a, b.decode(errors="replace")) for a, b in files],
                              "rc": [obs3[0]["rc"], ob["rc"]], "stdout_short": obs3[0]["out"].decode(errors="replace")[:400], "stdout_form": ob["out"].decode(errors="replace")[:400],
                              "stderr_form": ob["err"].decode(errors="replace")[-300:]})
                break
    if scripts:
        chk.sample({"vic": scripts[0]})
    # ---- known finding: option flag inside a -g scope ----
    known_lines = []
    kf = KNOWN["option-inside-global-scope"]
    r1 = run_cli(binary, kf["a1"], kf["stdin"])
    r2 = run_cli(binary, kf["a2"], kf["stdin"])
    if r1[0] == 0 and r2[0] == 1:
        known_lines.append("KNOWN-FINDING: property=C18 class=option-inside-global-scope an option flag inside a -g ... --end scope is rejected (exit 1): vicut -g foo --json -c e --end")
    chk.cov["rule"] = ("item lists (-c/-c name=/-m/-n/-r/-g/-v/--else/--end, nesting<=3) with option flags (-j/--json, -d, -t, --linewise, --serial, --trim-fields, --keep-mode) inserted at random top-level positions; "
                       "7 variants each (as generated, all short, all long, flipped, options first/last/moved); every variant parsed by binary and model; all variants of a base must give equal Opts; "
                       "mechanical vic translation of the model's tree parsed by the binary (tree equality) and executed (byte-identical stdout with short/long/moved forms). distinct = distinct argv/script(+text)")
    chk.assumptions += ["vic (pest) parser not modelled: tied by tree comparison of the dumped Cmd tree with the model's denotation",
                        "options -i/--backup are exercised by C05/C06, not here; option flags inside a -g scope are the known finding class option-inside-global-scope"]
    return chk.finish(known_lines)


def replay(path):
    from ..common import build_impl
    d = json.load(open(path))
    print(json.dumps(d["case"], indent=1, ensure_ascii=False)[:4000])
    binary = build_impl()
    case = d["case"]
    for k in ("argv", "argv_ref", "argv_variant", "argv_short", "argv_form"):
        if k in case:
            print(k, "->", impl_parse(binary, [case[k]])[0] if len(case[k]) > 1 else impl_parse_vic(binary, case[k])[0])
    return 0
