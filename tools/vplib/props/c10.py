"""C10: no input makes vicut crash or hang."""
import json
import os
import re
import shutil

from .. import cli_lang as L
from .. import vim_lang as V
from ..common import C, TMP, cli_map, server_map
from .c12 import malform

TEXTS = V.TEXTS + ["", "\n", "\n\n\n", "x" * 1200 + "\n", "a b " * 400, "nul\x00byte\n\x00", "tab\t\ttab\n", "é́́́ combining\n",
                   "👨‍👩‍👧‍👦 family\n🏳️‍🌈\n", "\r\n\r\n", "\r", " ", "​‍﻿", "ß" * 300, "a\nb\nc\nd\ne\nf\ng\nh\ni\nj\nk\nl\nm\n"]
RAW = [chr(c) for c in list(range(1, 32)) + [127]] + list("abcdefgGhijklmnopqrstuvwxyzABCDEFHIJKLMNOPQRSTUVWXYZ0123456789 \"'`~!@#$%^&*()_+-=[]{}|;:,.<>/?\\") + ["é", "日", "🙂", "́"]
VIC_SNIPPETS = ['move "w"', 'cut "e"', 'cut name="k" "e"', "next", 'echo $line $col', 'let x = 3', 'x += 1', 'let s = "ab"', 'push $s "c"', 'pop $s', 'if $x > 1 { move "l" }',
                'if $x == 0 { cut "w" } else { move "h" }', 'for i in 1..3 { move "l" }', 'for c in "ab" { echo $c }', 'let a = [1, 2, 3]', 'echo $a[1]', 'while $x < 5 { x += 1 }',
                'until $x > 7 { x += 2 }', 'repeat 2 { move "w" }', 'global "o" { cut "e" }', 'v "z"{ move "x" }', 'def f(n) { return $n }', 'f(2)', 'let y = f(3)', 'echo $word $char $pos',
                'yank @a "txt"', 'move "\\"ap"', 'buf id', 'echo $lines $is_eof', 'let z = $x * 2 + 1', 'let q = 7 / 2', 'let m = 7 % 3', 'echo ($x > 1 && $x < 9)', 'break', 'continue',
                'push $buffers "second\\nbuffer"', 'push $buffers ""', 'buf switch 1', 'buf switch 0', 'buf switch 7', 'pop $buffers', 'let old = pop $buffers', 'echo $buffers', 'buf switch $x',
                'let n = -3', 'echo $undefined', 'pop $nothing', 'let big = 99999999999', 'let d = 1 / 0', 'move "${{x}}l"', 'echo "a${{s}}b"', 'return 1', 'include "nonexistent.vic"']


# inputs that crashed or hung the pinned tree (each repaired by a fix: commit), plus the CRLF probe of the known finding
CORPUS = [
    (["echo \"hi\"\ncut \"e\"", "in1.txt", "in2.txt"], ""), (["include \"nonexistent.vic\""], ""), (["let n = -3\necho $n"], "a\n"), (["push $buffers \"b\"\nbuf switch 1\npop $buffers\necho $line\nmove \"w\""], "a b\n"), (["let d = 1 / 0"], ""), (["let d = 7 % 0"], ""),
    (["let x = 9223372036854775807\nx += 1"], ""), (["let x = 2 ** 70"], ""), (["opts { linewise }\necho $line $col"], "\nc"),
    (["opts { linewise }\necho \"x\""], "a\nc\nd\n"), (["-c", "<c-v>$"], "日本語 テキスト here\n混ぜる mixed 文字\n"), (["-c", "gg<c-v>iw"], ""),
    (["-c", "<c-v>jiw"], "foo bar\nbaz qux\n"), (["--cut", ":5,2"], "\nb\nc\nd"), (["-m", ":5,2d<CR>"], "a\nb\nc\nd\n"), (["-m", "rè"], "é\n"),
    (["-m", "<c-v>jly", "-m", "j0rop"], "ñb\néxx"), (["-m", "<c-v>jly", "-m", "jp"], "ab\ncd"),
    (["-c", "lX"], "\u200b\u200d"), (["-c", "x"], "\u200b\u200d"), (["--cut", ">>"], "\u200d👦 family\n🏳"), (["-m", "V>"], "\u0301\u0301 c"),
    (["-m", ">j"], "ééé\nèèè\nz\n"), (["-m", ":s/foo/bar/<CR>"], "foo"), (["-m", ":s/a//<CR>"], "a"), (["--move", ":s///<CR>"], ""),
    (["--cut", ":g!/x/s/a//g<CR>"], "a"), (["-m", ":%s/^/x/<CR>"], "a\na\n"), (["-m", ":%s/a/ü/g<CR>"], "éa éa\nzéa\n"), (["-m", "$", "-c", "%"], "<tag attr='x'>"),
    (["-m", "f)", "-m", "%"], "((a) b)\n"), (["-m", "g\r"], "\nc"), (["-m", "gj", "-c", "gk"], "ab\ncd\nef\n"), (["-c", "$", "-c", "\x16X."], "er"),
    (["-c", "$", "-c", "\x16X."], "ab\ncd\nef\n"), (["-m", ":5r nonexistent-file<CR>"], "a\nb\n"), (["-m", "A<del><del><esc>"], "ab\n"), (["-m", "dwdwdwdwdw"], "a b\n"),
    (["-m", "x"], ""), (["-m", "xxxx"], "ab"), (["-r", "9", "9"], "a\n"), (["-m", "w", "-r", "5", "2"], "a b c\n"), (["-g", "a", "-m", "x", "-r", "7", "3", "--end"], "a\nb\n"),
    (["-m", "o2<c-w><esc>j"], "\r\n\r\n"),
    # crashes of the unchanged tree found by a round-8 agent while it was looking for places to seed one (all repaired)
    (['opts { silent }\nlet s = "éa"\ns[0] = "x"\necho $s\n'], "ab\n"), (["-m", "9999999999d9999999999w"], "ab cd\n"), (["-m", "yl99999999999999999p"], "ab cd\n"),
    (['opts { keep_mode }\npush $buffers "x"\nm "v"\nbuf switch 1\nm "d"\n'], "ab cd\n"), (["-m", "9999999999w", "-c", "9999999999b"], "ab cd ef\nx y\n"), (["-m", "99999999999999999999x"], "ab\n"),
    # a block insert of multi-byte text, then a command that looks at lines
    (["-m", "<c-v>jjcé<esc>", "-m", "j"], "ab\ncd\nef\n"), (["-m", "<c-v>jIü<esc>", "-m", "dd"], "éa\nüb\nc\n"), (["-m", "<c-v>j$A日<esc>", "-c", "$"], "ab\ncd\nef\n"),
]


def gen_block(rng):
    """block yank / delete, then a put somewhere else: rows of the block may land on or behind the last line"""
    sel = "<c-v>" + "".join(rng.choice(["j", "j", "jj", "l", "l", "$", "k", "w", "G"]) for _ in range(rng.randint(1, 3)))
    op = rng.choice(["y", "y", "d", "x"])
    move = "".join(rng.choice(["j", "G", "gg", "$", "k", "w", "0", "jj", ""]) for _ in range(rng.randint(0, 2)))
    return sel + op + move + rng.choice(["p", "P", "2p", "p.", "pu", 'p"0P'])


def gen_keys(rng):
    r = rng.random()
    if r < 0.06:
        return gen_block(rng)
    if r < 0.55:
        return "".join(V.any_cmd(rng) for _ in range(rng.randint(1, 6)))
    if r < 0.7:
        return "".join(rng.choice(RAW) for _ in range(rng.randint(1, 12)))
    if r < 0.85:
        return rng.choice([":s/a/b/<CR>", ":%s/(/x/<CR>", ":s/[/x/", ":g/o/d<CR>", ":g/a/normal! x<CR>", ":1,99d<CR>", ":$<CR>", ":0<CR>", ":%y<CR>:2pu<CR>", ":s/\\(/x/<CR>", ":5,2d<CR>", ":w<CR>", ":r !echo hi<CR>",
                           ":!true<CR>", ":normal! dd<CR>", ":g!/x/s/a/b/g<CR>", ":&&<CR>", ":s//x/<CR>", ":s/a/\\0\\1/<CR>", "/(<CR>", "?[<CR>", "/\\<CR>", "/a\\|b<CR>"]) + rng.choice(["", "n", "x", "u"])
    return rng.choice(["i" + "".join(rng.choice(RAW) for _ in range(rng.randint(0, 8))), "R<BS><BS><BS><esc>", "A<del><del><esc>", "o<esc>u<c-r><c-r>", "vGd", "ggVGd" + rng.choice(["", "p", "P", "u", "x", "i<BS><esc>"]),
                       "<c-v>GI#<esc>", "<c-v>jj$Ax<esc>", "999x", "999dd", "9999l", "100000j", "dG", "dgg", "yyP" * 5, "J" * 6, ">>" * 3 + "<<" * 4, "gUU", "g??", "~" * 10, "qq", "@@", "zz", "ZZ", "<f5>", "<c-a>"])


def gen_search(rng, text):
    """a search, then n / N: the pattern is a piece of the text - a code point out of the middle of a character
    included (a combining accent, the line feed of a CRLF pair, a joiner) - or a pattern that matches nothing's width"""
    cps = list(text) or ["a"]
    r = rng.random()
    if r < 0.5:
        i = rng.randrange(len(cps))
        pat = "".join(cps[i:i + rng.choice([1, 1, 2])])
        pat = re.sub(r"([\\.*+?()\[\]{}|^$/<])", r"\\\1", pat).replace("\n", "\\n").replace("\r", "\\r").replace("\t", "\\t").replace("\x00", "")
    else:
        pat = rng.choice(["$", "^", "\\n", "\\r", "\\b", "x*", "\u0301", "\u200d", "\ufe0f", ".", "\\s*$", "[^a]", "\\W", "a|"])
    if not pat:
        pat = "a"
    first = rng.choice(["/", "/", "?"]) + pat + "<CR>"
    nxt = lambda: rng.choice(["n", "n", "N", "2n", "3N", "dn", "cNx<esc>", "yn", "vn<esc>", "nn", "Nn", "nx", "n."])
    k = rng.random()
    if k < 0.4:
        return [rng.choice(["-m", "-c"]), first, rng.choice(["-m", "-c"]), nxt()]
    if k < 0.8:
        return [rng.choice(["-m", "-c"]), first + nxt() + rng.choice(["", nxt()])]
    return ["-m", first, "-r", "1", str(rng.randint(1, 3)), "-c", nxt()]


def gen_argv(rng):
    r = rng.random()
    if r < 0.5:
        n = rng.randint(1, 5)
        argv = []
        for _ in range(n):
            argv += [rng.choice(["-m", "-c", "-m", "-c", "--move", "--cut"]), gen_keys(rng)]
        if rng.random() < 0.3:
            argv = rng.choice([["--json"], ["--linewise"], ["-d", ","], ["-t", "{{1}}"], ["--trim-fields"], ["--keep-mode"], ["--linewise", "--serial"]]) + argv
        return argv
    if r < 0.75:
        argv = L.render(L.gen_items(rng))
        return malform(rng, argv) if rng.random() < 0.6 and len(argv) >= 2 else argv
    return None    # vic script


BUF_OPS = ['push $buffers "two\\nlines"', 'push $buffers ""', 'push $buffers "é日"', 'buf switch 0', 'buf switch 1', 'buf switch 1', 'buf switch 2', 'buf switch 9', 'pop $buffers', 'pop $buffers',
           'let old = pop $buffers', 'echo $buffers', 'move "w"', 'cut "e"', 'move "dd"', 'echo $line $col $word', 'move "G"', 'next', 'buf id', 'move "ix<esc>"']


def gen_vic_buffers(rng):
    """a script that works the buffer stack: push / switch / pop in any order, with editing and reading in between"""
    body = "\n".join(rng.choice(BUF_OPS) for _ in range(rng.randint(3, 9)))
    if rng.random() < 0.3:
        body = "opts { " + rng.choice(["silent", "no_input", "json", "linewise"]) + " }\n" + body
    return body


def gen_vic(rng):
    if rng.random() < 0.3:
        return gen_vic_buffers(rng)
    n = rng.randint(1, 6)
    body = "\n".join(rng.choice(VIC_SNIPPETS) for _ in range(n))
    if rng.random() < 0.3:
        body = "opts { " + rng.choice(["json", "linewise", "trim_fields", "delimiter = \",\"", "silent", "no_input", "json, linewise"]) + " }\n" + body
    if rng.random() < 0.1:
        body = "".join(rng.choice(list("{}()[]\"$ =+-*/<>!&|.,;\n") + ["let ", "if ", "for ", "move ", "cut "]) for _ in range(rng.randint(1, 25)))
    return body


ADDS_LINE = re.compile(r"[oOpP]|<CR>|<cr>|<enter>|\r|:pu|:r |:t|:co|:g|:norm|yy|\\.|@")


def work_of(cmds, lines):
    """rough number of editor commands the parsed command list asks for: repeat counts multiply, a -g/-v scope runs per
    line, and a scope whose commands may add lines feeds itself and every scope around it"""
    return _work(cmds, float(lines))[0]


def _work(cmds, lines):
    w = 0.0
    cap = 1e9
    for c in cmds:
        if c[0] == "repeat":
            times = (c[1][1] + 1) if isinstance(c[1], list) and isinstance(c[1][1], int) else 1000
            for _ in range(min(times, 64)):
                bw, lines = _work(c[2], lines)
                w += bw
                if w > cap or lines > cap:
                    return cap, cap
            if times > 64:
                w *= times / 64
        elif c[0] == "global":
            visits = lines
            bw, after = _work(c[3], lines)
            ew, after_e = _work(c[4] or [], lines)
            growth = max(after, after_e) / max(lines, 1.0)
            if growth > 1.0:
                # every visit sees the lines the earlier visits added (an inner scope scans the whole buffer)
                try:
                    lines = min(cap, lines * growth ** min(visits, 400))
                except OverflowError:
                    lines = cap
                w += min(cap, visits * (bw + ew) * max(1.0, lines / max(visits, 1.0)))
            else:
                w += visits * (bw + ew) + 1
        else:
            keys = c[-1][1] if isinstance(c[-1], list) and len(c[-1]) > 1 and isinstance(c[-1][1], str) else ""
            if ADDS_LINE.search(keys):
                lines += 1
            w += 1
        if w > cap or lines > cap:
            return cap, cap
    return w, lines


def site_of(err):
    m = re.search(r"panicked at ([^:\n]+:\d+)", err)
    return m.group(1) if m else "?"


def run(chk, binary):
    rng = chk.rng
    thorough = chk.tier == "thorough"
    chk.proof_obligations()
    n = 30000 if thorough else 2500
    jobs = []
    meta = []
    cwd = os.path.join(TMP, f"c10_{os.getpid()}")     # commands such as :w may create files: keep them in a scratch directory
    shutil.rmtree(cwd, ignore_errors=True)
    os.makedirs(cwd)
    # a few files for scripts and flags that name files (several files = the threaded file drivers)
    for nm, content in (("in1.txt", "alpha beta\ngamma\n"), ("in2.txt", "héllo wörld\n"), ("in3.txt", "x\n\ny")):
        with open(os.path.join(cwd, nm), "w", encoding="utf-8") as f:
            f.write(content)
    for i in range(n + len(CORPUS)):
        if i < len(CORPUS):
            argv, text = CORPUS[i]
            argv = list(argv)
            kind = "vic" if len(argv) == 1 else "flags"
        else:
            text = rng.choice(TEXTS)
            argv = gen_argv(rng) if rng.random() >= 0.08 else gen_search(rng, text)
            kind = "flags"
            if argv is None:
                argv = [gen_vic(rng)]
                kind = "vic"
                if rng.random() < 0.2:
                    argv += rng.sample(["in1.txt", "in2.txt", "in3.txt"], rng.choice([1, 2, 3]))      # the script runs over files
            elif rng.random() < 0.06:
                argv += rng.sample(["in1.txt", "in2.txt", "in3.txt"], rng.choice([2, 3]))
        if any(a in ("-h", "--help", "--version") for a in argv) or not argv:
            continue
        if any("\x00" in a for a in argv):
            argv = [a.replace("\x00", "") for a in argv]
        jobs.append({"args": argv, "stdin": text, "timeout": 8, "cwd": cwd, "env": {"RUST_BACKTRACE": "0", "EQUALPRG": "cat", "SHELL": "/bin/true"}})
        meta.append((kind, argv, text))
    # requested work: nested -r counts multiply and a global body that adds lines feeds the next pass, so some
    # argument vectors legitimately ask for an exponential amount of editing; those are left out (counted below)
    fl = [i for i, m in enumerate(meta) if m[0] == "flags"]
    dres_l = cli_map(binary, [dict(jobs[i], env=dict(jobs[i]["env"], VICUT_VERIF_DUMP="cmds")) for i in fl])
    dumps = [None] * len(jobs)
    for i, r in zip(fl, dres_l):
        dumps[i] = r
    keep = []
    skipped = 0
    for j, m, dres in zip(jobs, meta, dumps):
        if dres is not None and dres[0] == 0:
            try:
                w = work_of(json.loads(dres[1].decode())["cmds"], m[2].count("\n") + 1)
            except Exception:
                w = 0
            if w > 150:
                skipped += 1
                continue
        keep.append((j, m))
    jobs = [j for j, _ in keep]
    meta = [m for _, m in keep]
    res = cli_map(binary, jobs)
    # 8 s is a proxy for "does not terminate": what ran out of it is run again, alone, with two minutes. Slow is not hung
    # (the unoptimised build is quadratic in the line length for some commands), so only what still does not end counts.
    slow = [i for i, r in enumerate(res) if r[0] == "timeout"]
    slow_done = 0
    if slow:
        os.makedirs(cwd, exist_ok=True)
        again = cli_map(binary, [dict(jobs[i], timeout=120) for i in slow[:12]], nworkers=4)
        for i, r in zip(slow[:12], again):
            if r[0] != "timeout":
                res[i] = r
                slow_done += 1
    shutil.rmtree(cwd, ignore_errors=True)
    dist = {"slow_but_terminated": slow_done, "skipped_exponential_work": skipped, "flags": 0, "vic": 0, "rc0": 0, "rc1": 0, "panic": 0, "timeout": 0, "signal": 0, "bad_utf8": 0}
    sites = {}
    crlf_examples = []
    known = {k["site"]: k for k in KNOWN_SITES}
    for (kind, argv, text), (rc, out, err) in zip(meta, res):
        dist[kind] += 1
        chk.count(("c10", tuple(argv), text), nontrivial=True)
        case = {"argv": argv, "stdin": text[:300] + ("..." if len(text) > 300 else ""), "stdin_len": len(text), "rc": rc}
        e = err.decode("utf-8", errors="replace")
        if rc == "timeout":
            dist["timeout"] += 1
            chk.violation("spec:did not terminate (8 s, then 120 s alone)", case)
            continue
        if rc == 0:
            dist["rc0"] += 1
        elif rc == 1:
            dist["rc1"] += 1
            if not e.strip():
                chk.violation("spec:exit status 1 without a diagnostic on stderr", case)
        elif rc == 101 or "panicked at" in e:
            dist["panic"] += 1
            site = site_of(e)
            sites[site] = sites.get(site, 0) + 1
            if "\r\n" in text:
                chk.known("crlf-text", CRLF_WHAT)
                crlf_examples.append({"argv": argv, "stdin": text[:80], "site": site})
            elif site in known:
                chk.known(known[site]["class"], f"{known[site]['what']} (panic at {site}), e.g. argv {argv!r} on {text[:40]!r}")
            else:
                chk.violation("spec:vicut panicked", dict(case, panic_site=site, stderr=e[-400:]))
            continue
        else:
            dist["signal"] += 1
            chk.violation("spec:abnormal exit status", dict(case, stderr=e[-300:]))
            continue
        try:
            out.decode("utf-8")
        except UnicodeDecodeError:
            dist["bad_utf8"] += 1
            chk.violation("spec:stdout is not valid UTF-8", case)
    # ---- key strings in-process (every panic is caught per key string) ----
    reqs = []
    kmeta = []
    for _ in range(20000 if thorough else 3000):
        text = rng.choice(TEXTS[:-6])
        keys = [gen_keys(rng) for _ in range(rng.randint(1, 4))]
        reqs.append({"op": "keys", "text": text, "cursor": 0, "keys": keys, "last_only": True, "keep_mode": rng.random() < 0.3})
        kmeta.append((text, keys))
    ans = server_map(binary, reqs)
    for (text, keys), a in zip(kmeta, ans):
        chk.count(("keys", text, tuple(keys)), nontrivial=True)
        if a.get("died") == 1:
            dist["rc1"] += 1        # process::exit(1) after a diagnostic (bad regex): the server exits as the CLI would
            continue
        pan = [s for s in a.get("steps", []) if "panic" in s] or ([a] if "panic" in a or "died" in a else [])
        if pan:
            dist["panic"] += 1
            msg = str(pan[0].get("panic", pan[0]))
            site = msg.split(": ")[0]
            sites[site] = sites.get(site, 0) + 1
            if "\r\n" in text:
                chk.known("crlf-text", CRLF_WHAT)
                crlf_examples.append({"keys": keys, "text": text[:80], "site": site})
            elif site in known:
                chk.known(known[site]["class"], f"{known[site]['what']} (panic at {site}), e.g. keys {keys!r} on {text[:40]!r}")
            else:
                chk.violation("spec:vicut panicked", {"keys": keys, "text": text[:300], "panic": msg[:300], "panic_site": site})
    chk.cov["traces_validated_against_impl"] = len(meta) + len(kmeta)
    chk.cov["input_distribution"] = dist
    chk.cov["known_finding_examples"] = crlf_examples[:5]
    chk.cov["panic_sites"] = dict(sorted(sites.items(), key=lambda kv: -kv[1]))
    chk.sample({"argv": meta[0][1], "stdin": meta[0][2][:100]})
    # ---- the output cannot be written (a full device; a reader that has gone away): still no panic, no signal ----
    import subprocess
    ofaults = []
    cwd = os.path.join(TMP, f"c10o_{os.getpid()}")
    shutil.rmtree(cwd, ignore_errors=True)
    os.makedirs(cwd)
    for nm, content in (("in1.txt", "alpha beta\ngamma\n"), ("in2.txt", "héllo wörld\n"), ("in3.txt", "x\n\ny")):
        with open(os.path.join(cwd, nm), "w", encoding="utf-8") as f:
            f.write(content)
    OUT_ARGS = [["-c", "e"], ["--linewise", "-c", "e"], ["--linewise", "--serial", "-c", "e"], ["--json", "-c", "e"], ["--serial", "-m", "x"], ["-t", "{{1}}", "-c", "w"],
                ['echo "hi"\ncut "e"\necho\n'], ['opts { linewise }\ncut "e"\necho $line\n'], ["-c", "e", "in1.txt", "in2.txt"], ["--linewise", "-c", "e", "in1.txt", "in2.txt"],
                ["--serial", "-c", "e", "in1.txt", "in2.txt"], ["--json", "-c", "e", "in1.txt", "in2.txt"], ["--linewise", "--json", "-c", "e", "in1.txt", "in3.txt"], ["--linewise", "--serial", "-c", "e", "in1.txt"]]
    for av in OUT_ARGS:
        for sink in ("full", "closed"):
            text = "alpha beta\ngamma delta\n" * (1 if sink == "full" else 4000)       # enough to overrun a pipe nobody reads
            try:
                if sink == "full":
                    with open("/dev/full", "wb") as fo:
                        pr = subprocess.run([binary] + av, input=text.encode(), stdout=fo, stderr=subprocess.PIPE, cwd=cwd, timeout=20, env=dict(os.environ, RUST_BACKTRACE="0"))
                    rc, err = pr.returncode, pr.stderr
                else:
                    pp = subprocess.Popen([binary] + av, stdin=subprocess.PIPE, stdout=subprocess.PIPE, stderr=subprocess.PIPE, cwd=cwd, env=dict(os.environ, RUST_BACKTRACE="0"))
                    pp.stdout.close()                                                        # the reader goes away at once
                    try:
                        pp.stdin.write(text.encode())
                        pp.stdin.close()
                    except BrokenPipeError:
                        pass
                    err = pp.stderr.read()
                    rc = pp.wait(timeout=20)
            except subprocess.TimeoutExpired:
                rc, err = "timeout", b""
            chk.count(("output-fault", tuple(av), sink))
            ofaults.append((av, sink, rc))
            if rc not in (0, 1) or b"panicked" in err:
                chk.violation("spec:crash or hang when the output cannot be written", {"argv": av, "stdout": "/dev/full" if sink == "full" else "a pipe closed by its reader",
                              "rc": rc, "stderr": err.decode(errors="replace")[-400:]})
    shutil.rmtree(cwd, ignore_errors=True)
    dist["output_fault_runs"] = len(ofaults)
    chk.cov["rule"] = ("argument vectors from the CLI grammar (incl. malformed: missing operands, -r counts beyond the list, unclosed -g), key strings from the per-mode grammar, ex/search lines with bad regexes and ranges, "
                       "raw printable/control fuzz, vic scripts from snippets and token soup, against empty, newline-only, huge-line, multi-byte, combining, emoji-ZWJ, CRLF and NUL texts; at the CLI: exit status 0 or 1 (with a diagnostic), "
                       "no panic, no signal, 8 s limit, stdout valid UTF-8; in-process: panics per key string caught by the hook. This stream supports the totality theorems of the modelled components, it does not replace them.")
    chk.assumptions += ["panic-freedom is a theorem only for the modelled components (argument parser, key reader, formatters, line splitter, undo stacks, drivers' plumbing); the rest of the binary is covered by this stream only",
                        "hangs in un-modelled code can only be observed by timeout"]
    known_lines = [f"KNOWN-FINDING: property=C10 class={k} {v}" for k, v in sorted(chk.known_hits.items())]
    return chk.finish(known_lines)


CRLF_WHAT = "text with CRLF line ends: '\\r\\n' is one grapheme cluster, never recognised as a line end, and line arithmetic on it can panic"

# panic sites left in place (see known_findings.txt); anything else is a violation
KNOWN_SITES = []


def replay(path):
    d = json.load(open(path))
    print(json.dumps(d["case"], indent=1, ensure_ascii=False)[:4000])
    return 0
