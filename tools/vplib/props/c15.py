"""C15: key notations are interchangeable and every key string is consumed."""
import json

from ..common import C, cli_map, run_coq_eval, server_map, txt, untxt

IMPORTS = ["Base.Prelude", "Model.Keys", "Model.Obs"]

SKEYS = {
    "esc": ("<esc>", "\x1b"), "CR": ("<CR>", "\r"), "enter": ("<enter>", "\r"), "BS": ("<BS>", "\x7f"),
    "del": ("<del>", "\x1b[3~"), "c-w": ("<c-w>", "\x17"), "c-v": ("<c-v>", "\x16"), "c-r": ("<c-r>", "\x12"),
    "left": ("<left>", "\x1b[D"), "right": ("<right>", "\x1b[C"), "up": ("<up>", "\x1b[A"), "down": ("<down>", "\x1b[B"),
    "home": ("<home>", "\x1b[1~"), "end": ("<end>", "\x1b[4~"),
    "BS8": ("<BS>", "\x08"), "home7": ("<home>", "\x1b[7~"), "end8": ("<end>", "\x1b[8~"),
}
KEYNAMES = {"Char": "KChar", "Backspace": "KBackspace", "BackTab": "KBackTab", "Delete": "KDelete", "Down": "KDown", "End": "KEnd",
            "Enter": "KEnter", "Esc": "KEsc", "F": "KF", "Home": "KHome", "Insert": "KInsert", "Left": "KLeft", "Null": "KNull",
            "PageDown": "KPageDown", "PageUp": "KPageUp", "Right": "KRight", "Tab": "KTab", "Up": "KUp"}
ALIAS_POOL = ["<esc>", "<CR>", "<enter>", "<return>", "<tab>", "<BS>", "<del>", "<ins>", "<home>", "<end>", "<left>", "<right>", "<up>", "<down>",
              "<pgup>", "<pgdown>", "<c-w>", "<c-v>", "<c-r>", "<s-tab>", "<a-x>", "<c-s-a>", "<f1>", "<f12>", "<f255>", "<f256>", "<f>", "<a>", "<9>",
              "<c-esc>", "<foo>", "<>", "<", "<es", "<esc", "<c->", "<c-c-w>", "<ESC>", "<cr>", "<x y>", "<é>", "<c-é>", "\\<esc>", "\\\\<esc>",
              "\\\\\\<CR>", "<<esc>", "<esc>>", "a<b>c", "<1>2"]
RAW_POOL = ["\x1b", "\r", "\n", "\t", "\x7f", "\x08", "\x17", "\x16", "\x12", "\x1b[A", "\x1b[B", "\x1b[C", "\x1b[D", "\x1b[1~", "\x1b[3~", "\x1b[4~",
            "\x1b[5~", "\x1b[15~", "\x1b[24~", "\x1b[99~", "\x1b[1;5D", "\x1bOP", "\x1bOS", "\x1bOx", "\x1b[", "\x1bO", "\x1b[1", "\x1b[Z", "\x1bx",
            "\x00", "\x01", "\x1f", "\x9b", "\x85"]
CHARS = ["a", "b", "x", "w", "d", " ", "0", "$", ".", ">", "<", "\\", "é", "ß", "日", "🙂", "é", "/", ":", "i", "R", "v",
         # every length and the edges of the lead-byte ranges: U+07FF, U+0800, U+FFFD / fullwidth / variation selector (lead EF), U+10000, U+10FFFF
         "\u07ff", "\u0800", "\ufffd", "Ａ", "，", "❤\ufe0f", "\U00010000", "\U0010ffff", "\ud7ff", "\ue000"]


def model_keys(m):
    ks, rest, esc = m
    out = []
    for kc, mods in ks:
        out.append((kc.name, (kc.args[0] if kc.args else 0), mods))
    return out, rest, esc


def impl_keys(a):
    out = []
    for name, arg, bits in a["keys"]:
        out.append((KEYNAMES.get(name, name), arg, bits))
    return out, a["rest"], a["escaped"]


# scenario templates for the CLI comparison: lists of literal key strings and special-key names
SCENARIOS = [
    ("normal", "alpha beta\n  gamma delta\nlast", [["CR"], "x"]),
    ("normal", "alpha beta\n  gamma delta\nlast", [["enter"], ["CR"], "x"]),
    ("normal", "alpha beta gamma", ["$", ["BS"], ["BS"], "x"]),
    ("normal", "alpha beta gamma", ["w", ["left"], ["left"], "x", ["right"], ["right"], "x", ["end"], "x", ["home"], "x"]),
    ("normal", "l1\nl2\nl3\n", [["down"], "x", ["down"], ["up"], "x"]),
    ("normal", "alpha beta gamma", ["w", ["del"], ["del"]]),
    ("normal", "alpha beta gamma", ["x", "x", "u", ["c-r"]]),
    ("insert", "hello world", ["i", "ab", ["BS"], "c", ["esc"], "x"]),
    ("insert", "hello world", ["A", " foo bar", ["c-w"], "baz", ["esc"]]),
    ("insert", "hello world", ["i", "one", ["CR"], "two", ["enter"], ["esc"]]),
    ("insert", "hello world", ["a", "X", ["left"], ["left"], "Y", ["right"], "Z", ["home"], "H", ["end"], "E", ["esc"]]),
    ("insert", "l1\nl2\nl3\n", ["i", "a", ["down"], "b", ["up"], "c", ["del"], ["esc"]]),
    ("replace", "hello world", ["R", "abc", ["BS"], ["esc"], "x"]),
    ("replace", "hello world", ["R", "ab", ["left"], "Z", ["esc"]]),
    ("visual", "alpha beta gamma", ["v", ["right"], ["right"], "d"]),
    ("visual", "alpha beta gamma", ["v", "e", ["esc"], "x"]),
    ("visual", "abcd\nefgh\nijkl\n", [["c-v"], ["down"], ["right"], "d"]),
    ("visual", "abcd\nefgh\nijkl\n", ["V", ["down"], ["esc"], "x"]),
    ("search", "foo bar foo baz", ["/ba", ["CR"], "x"]),
    ("search", "foo bar foo baz", ["/baq", ["BS"], "z", ["enter"], "x"]),
    ("search", "foo bar foo baz", ["/foo", ["esc"], "x"]),
    ("ex", "foo bar\nfoo baz\n", [":s/foo/X/", ["CR"], "x"]),
    ("ex", "foo bar\nfoo baz\n", [":%s/o/0/g", ["enter"]]),
    ("ex", "foo bar\nfoo baz\n", [":2d", ["CR"], "x"]),
    ("normal", "hello world", ["$", ["BS8"], ["BS8"], "x"]),
    ("visual", "hello world", ["$v", ["BS8"], ["BS8"], "d"]),
    ("insert", "hello world", ["A", "xy", ["BS8"], ["esc"]]),
    ("replace", "hello world", ["R", "xy", ["BS8"], ["esc"]]),
    ("insert", "hello world", ["a", "X", ["home7"], "H", ["end8"], "E", ["esc"]]),
    ("insert", "hello world", ["i", "\\\\", ["esc"], "ix", ["esc"]]),
    ("insert", "hello world", ["i", "a\\\\\\\\", ["CR"], "b", ["esc"], "x"]),
    ("insert", "hello world", ["i", "\\\\\\\\", ["BS"], ["BS"], ["esc"], "x"]),
    ("search", "a\\b a\\b", ["/a\\\\", ["CR"], "x"]),
    # keys run by :normal! have a reader of their own: a backslash at their end does not escape the key that follows the command
    ("ex", "foo bar\nbaz\n", [":1normal! A\\\r", ["down"], "ix", ["esc"]]),
    ("ex", "foo bar\nbaz\n", [":normal! A\\\r", ["esc"], "x", ["down"], "x"]),
    ("ex", "foo bar\nbaz\n", [":g/a/normal! A\\\r", ["BS"], "x"]),
]


PREFIX_CMDS = ["f<", "<<", "i<<esc>", "A a<b<esc>", "i\\\\<esc>", "F<", "i<<<<esc>0", "t<", "A<<esc>", "i\\<<esc>", "rx", "i<=<esc>", ">>", "i\\<esc",
               # a key string that ends in a backslash (one, or an odd run): the escape ends with the string
               "A\\", "ix\\", "A\\\\\\", "f\\", "A\\", "ix\\"]


def has_alias(t):
    """does the text contain '<...>' that the code's alias grammar accepts (not preceded by an odd run of backslashes)?"""
    import re
    names = {"esc", "CR", "return", "enter", "tab", "BS", "del", "ins", "home", "end", "left", "right", "up", "down", "pgup", "pgdown"}
    for i, ch in enumerate(t):
        if ch != "<":
            continue
        j = t.find(">", i)
        body = t[i + 1:j] if j >= 0 else t[i + 1:]
        while body[:2] in ("c-", "s-", "a-"):
            body = body[2:]
        if body in names or re.fullmatch(r"[0-9A-Za-z]", body) or re.fullmatch(r"f[0-9]+", body):
            return True
    return False


def render(parts, choice):
    out = ""
    i = 0
    for p in parts:
        if isinstance(p, list):
            out += SKEYS[p[0]][0 if choice[i] else 1]
            i += 1
        else:
            out += p
    return out


def run(chk, binary):
    rng = chk.rng
    thorough = chk.tier == "thorough"
    chk.proof_obligations()
    # ---- A. RawReader vs model on key strings ----
    cases = set()
    for a in ALIAS_POOL + RAW_POOL:
        cases.add(a)
    for mods in ["", "c-", "s-", "a-", "c-s-", "a-c-", "s-a-c-"]:
        for name in ["esc", "CR", "enter", "return", "tab", "BS", "del", "ins", "home", "end", "left", "right", "up", "down", "pgup", "pgdown", "w", "W", "5", "f3", "f13", "f0"]:
            cases.add("<%s%s>" % (mods, name))
    nA = 6000 if thorough else 1200
    while len(cases) < nA:
        n = rng.randint(1, 8)
        s = ""
        for _ in range(n):
            r = rng.random()
            if r < 0.3:
                s += rng.choice(ALIAS_POOL)
            elif r < 0.5:
                s += rng.choice(RAW_POOL)
            else:
                s += rng.choice(CHARS)
        cases.add(s)
    cases = sorted(cases)
    reqs = [{"op": "readkeys", "bytes": list(s.encode("utf-8"))} for s in cases]
    impl = server_map(binary, reqs)
    model = run_coq_eval("c15_keys", IMPORTS, "keys_obs", [list(s.encode("utf-8")) for s in cases])
    dist = {"with_alias": 0, "with_raw_escape": 0, "multibyte": 0}
    for s, a, m in zip(cases, impl, model):
        if "<" in s:
            dist["with_alias"] += 1
        if "\x1b" in s:
            dist["with_raw_escape"] += 1
        if any(ord(c) > 127 for c in s):
            dist["multibyte"] += 1
        chk.count(("keys", s))
        if "keys" not in a:
            chk.violation("crash:read_key", {"keys": s, "answer": a})
            continue
        ik, mk = impl_keys(a), model_keys(m)
        if ik != mk:
            chk.violation("correspondence:RawReader::read_key", {"keys": s, "bytes": list(s.encode()), "impl": repr(ik)[:500], "model": repr(mk)[:500]}, concrete=False)
        # spec oracle: a key string without alias, backslash and escape sequence is one key per character, all consumed
        if "<" not in s and "\\" not in s and "\x1b" not in s:
            if len(ik[0]) != len(s) or ik[1]:
                chk.violation("spec:plain key string not read one key per character to its end", {"keys": s, "got": repr(ik)[:400]})
    chk.cov["traces_validated_against_impl"] = len(cases)
    chk.sample({"keys": cases[len(cases) // 2], "model": repr(model[len(cases) // 2])[:200]})

    # ---- B. alias vs raw at the CLI, in every mode ----
    jobs = []
    meta = []
    for mode, text, parts in SCENARIOS:
        nsp = sum(1 for p in parts if isinstance(p, list))
        choices = [[bool((mask >> i) & 1) for i in range(nsp)] for mask in range(2 ** nsp)]
        if not thorough and len(choices) > 8:
            choices = [choices[0], choices[-1]] + rng.sample(choices[1:-1], 6)
        for ch in choices:
            keys = render(parts, ch)
            jobs.append({"args": ["--json", "-m", keys, "-c", "name=cur", "v", "-m", "gg0", "-c", "name=buf", "vG$"], "stdin": text})
            meta.append((mode, text, parts, ch, keys))
        # the same renderings after an earlier command whose key string holds '<', '>' or backslashes that are not aliases:
        # what the reader learnt from one key string must not reach the next
        # the same key string as a cut command, and with --keep-mode and one more command behind it: whether its last key
        # is spelled as an alias or as the raw byte makes no difference there either
        for ch in choices[:4]:
            keys = render(parts, ch)
            jobs.append({"args": ["--json", "-c", "name=f", keys, "-m", "gg0", "-c", "name=buf", "vG$"], "stdin": text})
            meta.append((mode + "+cut", text, ["-c"] + parts, ch, "-c " + keys))
            jobs.append({"args": ["--json", "--keep-mode", "-m", keys, "-m", "x", "-m", "<esc>gg0", "-c", "name=buf", "vG$"], "stdin": text})
            meta.append((mode + "+keep", text, ["keep"] + parts, ch, "--keep-mode " + keys))
        # a key string that is given up half way (an unknown ex command): the keys behind it are dropped for good, the
        # next command starts with its own keys only - the result is that of the scenario alone
        ch0 = choices[0]
        fail = ":bogus<CR>" + rng.choice(["$", "dd", "x", "ihello<esc>", "G", "rZ", "<esc>dd"])
        jobs.append({"args": ["--json", "-m", fail, "-m", render(parts, ch0), "-c", "name=cur", "v", "-m", "gg0", "-c", "name=buf", "vG$"], "stdin": text})
        meta.append((mode, text, parts, ch0, fail + " | " + render(parts, ch0)))
        pre = rng.choice(PREFIX_CMDS)
        for ch in choices:
            keys = render(parts, ch)
            jobs.append({"args": ["--json", "-m", pre, "-m", keys, "-c", "name=cur", "v", "-m", "gg0", "-c", "name=buf", "vG$"], "stdin": text})
            meta.append((mode + "+prefix", text, [pre] + parts, ch, pre + " | " + keys))
    res = cli_map(binary, jobs)
    groups = {}
    for (mode, text, parts, ch, keys), r in zip(meta, res):
        chk.count(("cli", keys, text), nontrivial=any(ch) and not all(ch))
        groups.setdefault((mode, text, json.dumps(parts)), []).append((ch, keys, r))
    for (mode, text, parts), lst in groups.items():
        ref = lst[0]
        dist[mode] = dist.get(mode, 0) + len(lst)
        for ch, keys, r in lst[1:]:
            if (r[0], r[1]) != (ref[2][0], ref[2][1]):
                chk.violation("spec:alias and raw notation behave differently",
                              {"mode": mode, "stdin": text, "keys_a": ref[1], "keys_b": keys, "stdout_a": ref[2][1].decode(errors="replace"),
                               "stdout_b": r[1].decode(errors="replace"), "rc": [ref[2][0], r[0]]})
                break
    # ---- B2. a whole argument that is one special key: alias and raw byte are the same command ----
    WHOLE = [("<CR>", "\r"), ("<enter>", "\r"), ("<tab>", "\t"), ("<esc>", "\x1b"), ("<BS>", "\x7f"), ("<space>", " ")]
    wjobs, wmeta = [], []
    for alias, raw in WHOLE:
        for pre_args in ([], ["-m", "w"], ["--keep-mode", "-m", "A"], ["--keep-mode", "-m", "ix"], ["-m", "jl"]):
            for sp in (alias, raw):
                if alias == "<space>" and sp == alias:
                    continue
                wjobs.append({"args": ["--json"] + pre_args + ["-m", sp, "-m", "<esc>", "-c", "name=cur", "v", "-m", "gg0", "-c", "name=buf", "vG$"], "stdin": "one two\nthree four\nfive\n"})
                wmeta.append((alias, tuple(pre_args), sp))
    wres = cli_map(binary, wjobs)
    wgroups = {}
    for (alias, pre_args, sp), r in zip(wmeta, wres):
        chk.count(("whole", alias, pre_args, sp), nontrivial=True)
        wgroups.setdefault((alias, pre_args), []).append((sp, r))
    for (alias, pre_args), lst in wgroups.items():
        if len(lst) == 2 and (lst[0][1][0], lst[0][1][1]) != (lst[1][1][0], lst[1][1][1]):
            chk.violation("spec:alias and raw notation behave differently", {"mode": "whole argument", "before": list(pre_args), "keys_a": lst[0][0], "keys_b": repr(lst[1][0]),
                          "stdout_a": lst[0][1][1].decode(errors="replace"), "stdout_b": lst[1][1][1].decode(errors="replace")})
    # ---- B3. a vic script read from a file: a raw special byte inside a key string is the key, as its alias is ----
    import os
    from ..common import TMP
    sdir = os.path.join(TMP, f"c15s_{os.getpid()}")
    os.makedirs(sdir, exist_ok=True)
    sjobs, smeta = [], []
    for n_, (alias_keys, raw_keys) in enumerate([("Aone<CR>two<esc>", "Aone\rtwo\x1b"), ("A<tab>x<esc>", "A\tx\x1b"), ("ix<BS>y<esc>", "ix\x7fy\x1b"), ("A1<CR><CR>2<esc>gg", "A1\r\r2\x1bgg"), ("o<esc>ix<CR>y<esc>", "o\x1bix\ry\x1b")]):
        for kind, keys in (("alias", alias_keys), ("raw", raw_keys)):
            path = os.path.join(sdir, f"s{n_}_{kind}.vic")
            with open(path, "wb") as f_:
                f_.write(('move "%s"\n' % keys).encode("utf-8"))          # (no cut: the text is printed as it stands)
            sjobs.append({"args": ["--json", "--script", path] if False else [path], "stdin": "hello world\nsecond\n"})
            smeta.append((n_, kind, keys))
    sres = cli_map(binary, sjobs)
    for k_ in range(0, len(smeta), 2):
        chk.count(("script-file", smeta[k_][2]), nontrivial=True)
        ra, rr = sres[k_], sres[k_ + 1]
        if ra[0] != 0:
            chk.violation("harness:the alias form of a script file does not run", {"keys": smeta[k_][2], "stderr": ra[2].decode(errors="replace")[-300:]}, concrete=False)
        if (ra[0], ra[1]) != (rr[0], rr[1]):
            chk.violation("spec:alias and raw notation behave differently", {"mode": "vic script read from a file", "keys_a": smeta[k_][2], "keys_b": repr(smeta[k_ + 1][2]),
                          "stdout_a": ra[1].decode(errors="replace"), "stdout_b": rr[1].decode(errors="replace"), "rc": [ra[0], rr[0]], "stderr_b": rr[2].decode(errors="replace")[-200:]})
    import shutil
    shutil.rmtree(sdir, ignore_errors=True)
    # ---- C. insert-mode texts with '<', '>', '\\' and multi-byte are taken literally ----
    jobs = []
    meta = []
    # "<b>" (one alphanumeric) is an alias by the code grammar, so it is not in this pool
    pool = ["<", ">", "<bc>", "a<b", "<foo>", "x<yy>z", "\\<", "\\<esc>", "é", "日本", "🙂", "é", " ", "<<", ">>", "<=>", "\\\\", "a\\b", "<1 2>", "<-->", "Ａ", "❤\ufe0f", "，x", "\ufffd", "\U00010000"]
    for _ in range(600 if thorough else 120):
        t = "".join(rng.choice(pool) for _ in range(rng.randint(1, 5)))
        jobs.append({"args": ["-m", "i" + t + "\x1b"], "stdin": ""})
        meta.append(t)
    res = cli_map(binary, jobs)
    exp_in = run_coq_eval("c15_expand", IMPORTS, "expand_obs", [txt(t) for t in meta])
    for t, r, e in zip(meta, res, exp_in):
        chk.count(("insert", t))
        # the argument first goes through expand_literal (model), then every character is typed
        exp = untxt(e.args[0]) if isinstance(e, C) and e.name == "Some" else None
        if exp is None or has_alias(exp):
            continue
        if r[0] == 0 and r[1].decode("utf-8", errors="replace") != exp + "\n":
            chk.violation("spec:insert-mode text not taken literally", {"typed": t, "after_expand_literal": exp, "buffer": r[1].decode(errors="replace")})
    chk.cov["input_distribution"] = dist
    chk.cov["rule"] = ("A: key strings built from the alias table x modifier prefixes, raw control bytes and escape sequences (also truncated/unknown), plain and multi-byte characters, '<' '>' '\\' - "
                       "the real RawReader (hook op readkeys) vs the model keys_of, key by key, rest of queue and escape flag; B: 24 scenario templates over normal/insert/replace/visual/search/ex, every special key "
                       "independently as alias or raw (all 2^k renderings on thorough), final buffer and cursor character compared across renderings at the CLI; C: insert-mode texts with '<', '>', '\\', multi-byte vs expand_literal model. distinct = distinct key string")
    return chk.finish()


def replay(path):
    d = json.load(open(path))
    print(json.dumps(d["case"], indent=1, ensure_ascii=False)[:4000])
    return 0
