"""C20: dot repeats the last change exactly."""
import json

from .. import vim_lang as V
from ..common import C, server_map

TEXTS = [t for t in V.TEXTS if len(t) > 8 and "\r" not in t]
TYPED = ["ab", "X", "new ", "é", "x y", "q<BS>r", "k<left>j", "a<right>b", "", "<BS>", "<BS><BS>Z",
         # <c-w> over what the session typed, and at the very place the session began (where it reaches back into the old text)
         "foo <c-w>x", "<c-w>y", "ab<c-w><c-w>z", "<c-w>", "xy<c-h>z", "q<c-h><c-h>r"]      # (<c-h> is backspace too)


def xmotion(rng, counts):
    """a motion for an operator: never ; or , (an operator with a repeated f/t is not stored for '.': class below)"""
    for _ in range(20):
        m = V.motion(rng, with_count=counts)
        if m[-1] not in ";,":
            return m
    return "w"


def change(rng, counts=True):
    """a repeatable change X with its class; counts=False: X carries no count at all"""
    r = rng.random()
    reg = rng.choice(['"a', '"b']) if rng.random() < 0.15 else ""
    cnt = rng.choice(["", "", "2", "3"]) if counts else ""
    if r < 0.10:
        return "x", reg + cnt + rng.choice(["x", "X"])
    if r < 0.32:
        m = xmotion(rng, counts) if rng.random() < 0.7 else (V.textobj(rng) if counts else rng.choice(V.TEXTOBJS))
        return "d", reg + cnt + "d" + m
    if r < 0.37:
        return "dd", reg + cnt + "dd"
    if r < 0.40:
        return "D", reg + "D"
    if r < 0.46:
        return "r", cnt + "r" + rng.choice("Zq9")
    if r < 0.51:
        return "~", cnt + "~"
    if r < 0.55:
        return "J", cnt + "J"
    if r < 0.60:
        return "shift", rng.choice([">>", "<<"])
    if r < 0.66:
        return "put", reg + cnt + rng.choice(["p", "P"])
    if r < 0.76:
        return "case", rng.choice(["g~", "gu", "gU", "g?"]) + (xmotion(rng, counts) if rng.random() < 0.7 else (V.textobj(rng) if counts else rng.choice(V.TEXTOBJS)))
    if r < 0.84:
        # one in four is left open: the end of the key string closes it, and '.' has to repeat it all the same
        return "i-session", "i" + rng.choice(TYPED) + ("<esc>" if rng.random() < 0.75 else "")
    if r < 0.90:
        return "aAIoO-session", rng.choice(["a", "A", "I", "o", "O"]) + rng.choice(TYPED) + "<esc>"
    if r < 0.96:
        k = rng.choice(["c", "s", "S", "C"])
        body = {"c": "c" + xmotion(rng, counts), "s": cnt + "s", "S": "S", "C": "C"}[k]
        return "change-session", reg + body + rng.choice(TYPED) + "<esc>"
    return "R-session", "R" + rng.choice(TYPED) + "<esc>"


def between(rng):
    out = []
    for _ in range(rng.randint(0, 4)):
        r = rng.random()
        if r < 0.55:
            out.append(V.motion(rng))
        elif r < 0.75:
            out.append(V.yank(rng))
        elif r < 0.9:
            out.append(rng.choice(["/o<CR>", "/a<CR>", "?e<CR>", "n", "N"]))
        else:
            out.append(rng.choice(["fQ", "tQ", "99l", "gg", "2k"]))   # likely to fail
    return out


def obs(st):
    return (st["buf"], st["cursor"], json.dumps(st["regs"], sort_keys=True))


KNOWN_CLASSES = {
    "aAIoO-session": "insert sessions entered by a A I o O: the entering command is not part of the replay (. inserts at the cursor)",
    "change-session": "c s S C sessions: only the typed text is replayed, not the deletion",
    "R-session": "R sessions are not replayed by .",
    "count-on-session": "a count given to . after an insert session",
    "session-with-cursor-keys": "cursor keys typed inside an insert session are not recorded, so . types the text without them",
}


def run(chk, binary):
    rng = chk.rng
    thorough = chk.tier == "thorough"
    chk.proof_obligations()
    n = 8000 if thorough else 1200
    reqs = []
    meta = []
    for _ in range(n):
        text = rng.choice(TEXTS)
        chain = rng.choice([1, 1, 1, 2, 3, 4])
        cnt = rng.choice(["", "", "", "2", "3"]) if chain == 1 else ""
        cls, X = change(rng, counts=not cnt)
        if cls == "J" and rng.random() < 0.6:
            # joins want lines below the cursor, and counts above two to show how many a counted repeat takes
            text = "a\nb\nc d\ne\nf\ng\nh\ni\nj\nk\n"
            if chain == 1:
                cnt = rng.choice(["3", "4", "2", ""])
                cls, X = "J", "J"
        start = rng.randint(0, max(0, len(text) - 2))
        if rng.random() < 0.2 and cls == "put":
            pre = [rng.choice(["yiw", "yy", '"ayiw', '"byy'])]
        elif rng.random() < 0.3:
            pre = [change(rng)[1]]        # an earlier, different change: '.' must repeat the latest one
        else:
            pre = []
        btw = between(rng)
        # with a count on '.', X (which carries no count of its own here) is retyped with that count
        Xc = X
        if cnt:
            Xc = X[:2] + cnt + X[2:] if X.startswith('"') else cnt + X
            if cls in ("x", "d", "dd", "r", "~", "put", "case") and rng.random() < 0.5:
                # the change has a count of its own: the count given to '.' replaces it
                own = rng.choice(["2", "3", "4"])
                X = X[:2] + own + X[2:] if X.startswith('"') else own + X
                cls = cls + "+own-count"
        X1 = X
        if cls in ("x", "d", "dd", "r", "~", "case") and '"' not in X and not X.endswith(" ") and "|" not in X and rng.random() < 0.12:      # (an ex line loses trailing blanks; | ends it)
            # the change is typed through :normal! - it is the last change all the same
            X1 = ":normal! " + X + "<CR>"
            cls = cls + "+via-normal"
        dot_keys = pre + [X1] + btw + [cnt + "."] * chain
        typed_keys = pre + [X1] + btw + [Xc] * chain
        reqs.append({"op": "keys", "text": text, "cursor": start, "keys": dot_keys})
        reqs.append({"op": "keys", "text": text, "cursor": start, "keys": typed_keys})
        meta.append((text, start, cls, X, btw, chain, cnt, dot_keys, typed_keys))
    ans = server_map(binary, reqs)
    dist = {}
    mism = {}
    for i, (text, start, cls, X, btw, chain, cnt, dot_keys, typed_keys) in enumerate(meta):
        a, b = ans[2 * i], ans[2 * i + 1]
        key = cls + ("+count" if cnt else "")
        dist[key] = dist.get(key, 0) + 1
        chk.count(("c20", text, start, tuple(dot_keys)), nontrivial=True)
        sa, sb = a.get("steps", []), b.get("steps", [])
        if len(sa) != len(dot_keys) or len(sb) != len(typed_keys) or any("panic" in s for s in sa + sb):
            continue
        # X itself must have changed something for the comparison to mean anything
        if obs(sa[-1]) != obs(sb[-1]):
            kcls = None
            if cls in KNOWN_CLASSES:
                kcls = cls
            if cnt and cls.endswith("session"):
                kcls = "count-on-session"
            if cls == "i-session" and any(k in X for k in ("<left>", "<right>")):
                kcls = "session-with-cursor-keys"
            if kcls:
                chk.known(kcls, KNOWN_CLASSES[kcls] + ": e.g. keys " + " ".join(dot_keys))
                mism[kcls] = mism.get(kcls, 0) + 1
                continue
            mism[key] = mism.get(key, 0) + 1
            chk.violation("spec:dot did not have the effect of typing the change again",
                          {"text": text, "cursor": start, "class": cls, "with_dot": dot_keys, "retyped": typed_keys,
                           "state_dot": [str(x)[:300] for x in obs(sa[-1])], "state_retyped": [str(x)[:300] for x in obs(sb[-1])]})
        # what '.' repeats is not changed by motions, yanks and failed commands in between: the repeat register of the editor
        rep_after_X = sa[len(dot_keys) - chain - len(btw) - 1].get("repeat")
        rep_before_dot = sa[len(dot_keys) - chain - 1].get("repeat")
        if rep_after_X != rep_before_dot:
            chk.violation("spec:a motion/yank/failed command in between changed what dot repeats",
                          {"text": text, "cursor": start, "keys": dot_keys, "repeat_after_X": str(rep_after_X)[:300], "repeat_before_dot": str(rep_before_dot)[:300]})
    chk.cov["traces_validated_against_impl"] = len(meta)
    chk.cov["input_distribution"] = dist
    chk.cov["mismatches_by_class"] = mism
    chk.sample({"text": meta[0][0], "cursor": meta[0][1], "with_dot": meta[0][7], "retyped": meta[0][8]})
    chk.cov["rule"] = ("(text, start cursor, change X from the repeatable set: x X d/c with motions and text objects, dd D r ~ J >> << p P g~ gu gU g?, s S C, i a I A o O R sessions with typed text, <BS>, <c-w>, cursor keys; "
                       "0..4 motions/yanks/searches/failing commands in between; chains X . . . up to length 5, counts 2/3 on a single dot) - the history with '.' and the history with X retyped are both run in-process through the real ViCut; "
                       "text, cursor and all registers after the last key must agree; the editor's repeat register must not change in between. distinct = distinct (text, cursor, keys)")
    known_lines = [f"KNOWN-FINDING: property=C20 class={k} {v}" for k, v in sorted(chk.known_hits.items())]
    return chk.finish(known_lines)


def replay(path):
    d = json.load(open(path))
    print(json.dumps(d["case"], indent=1, ensure_ascii=False)[:4000])
    return 0
