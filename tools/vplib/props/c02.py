"""C02: supported Vim commands do what Vim does (reference: real Vim 9 + the Coq model of the core motions)."""
import itertools
import json
import os

from ..common import C, Nat, run_coq_eval, server_map, txt, untxt, known_findings
from .. import vimref as VR

ALPHA = ["a", "b", " ", ".", "\n"]
REAL_TEXTS = [
    "2024-01-15 12:03:44 ERROR [db] connection lost (retry=3)\n2024-01-15 12:03:45 INFO  [db] reconnected\n",
    "name,age,city\nalice,30,paris\nbob,25,berlin\n",
    "fn main() {\n    let x = foo(1, \"two\");\n    println!(\"{}\", x);\n}\n",
    "The quick brown fox. Jumps over! The lazy dog? Yes.\n\nSecond paragraph here.\nMore text.\n",
    "étude café naïve\nünï cödé wörd\n",
    "日本語 テキスト here\n混ぜる mixed 文字\n",
    "key: value\n  indented: (a b) [c d] {e f}\nlast line no newline",
    "a.b.c d-e-f g_h_i\nx1 y2 z3\n",
    "one\n\n\ntwo\n",
    "    leading and trailing    \n\tTab\tseparated\n",
    "m = f(\"\\\\(x\\\\)\", s)\nq \\( r \\\\( t ) u )\n",
]

MOTIONS = ["h", "l", "0", "^", "$", "w", "b", "e", "W", "B", "E", "ge", "gE", "j", "k", "gg", "G", "fa", "Fa", "ta", "Ta", "fb", "t.", "f ", "|"]
COUNTABLE = {"h", "l", "w", "b", "e", "W", "B", "E", "ge", "gE", "j", "k", "fa", "Fa", "ta", "Ta", "fb", "t.", "f ", "$", "|", "G"}
OPERATORS = ["d", "c", "y", "g~", "gu", "gU", "g?"]
TEXTOBJS = ["iw", "aw", "iW", "aW", "i(", "a(", "i\"", "a\"", "ip", "ap", "is", "as", "i[", "a{"]
SIMPLE = ["x", "X", "ra", "r.", "~", "J", "D", "Y", "dd", "yy", "cc", "p", "P", "g~~", "guu", "gUU"]
SESSIONS = ["i", "a", "I", "A", "o", "O"]
TYPED = ["X", "ab", "a b", ""]


def commands():
    """(class, [key strings]) for the small-scope family; classes are what known findings are keyed by"""
    out = []
    for m in MOTIONS:
        out.append(("motion " + m, [m]))
        if m in COUNTABLE:
            for n in (2, 3):
                out.append(("motion N" + m, [f"{n}{m}"]))
    out.append(("motion ;", ["fa", ";"]))
    out.append(("motion ,", ["fa", ";", ","]))
    for op in OPERATORS:
        for m in ["w", "b", "e", "W", "E", "$", "0", "^", "h", "l", "fa", "ta", "Fa", "j", "k", "G", "gg"]:
            tail = "Z<esc>" if op == "c" else ""
            out.append((f"{op} + {m}", [op + m + tail]))
        for n in (2, 3):
            tail = "Z<esc>" if op == "c" else ""
            out.append((f"{op} + Nw", [f"{op}{n}w{tail}"]))
            out.append((f"N{op} + w", [f"{n}{op}w{tail}"]))
        for t in TEXTOBJS:
            tail = "Z<esc>" if op == "c" else ""
            out.append((f"{op} + {t}", [op + t + tail]))
    for s in SIMPLE:
        tail = "Z<esc>" if s == "cc" else ""
        out.append((s, [s + tail]))
        for n in (2, 3):
            out.append(("N" + s, [f"{n}{s}{tail}"]))
    out.append(("C", ["CZ<esc>"]))
    for s in SESSIONS:
        for t in TYPED:
            out.append((f"{s} session", [s + t + "<esc>"]))
        out.append((f"N{s} session", ["2" + s + "ab<esc>"]))
    # a finished insert session leaves nothing behind that a later motion or operator could feel
    for sk in ["A", "i", "a"]:
        for m in ["b", "B", "db", "2b", "ge", "dB"]:
            out.append((f"{sk} session then {m}", [sk + "ab<esc>", m]))
    # yank then put
    for y in ["yw", "yy", "y$", "yiw", "2yy"]:
        for p in ["p", "P", "2p"]:
            out.append((f"{y} then {p}", [y, p]))
    out.append(("dd then p", ["dd", "p"]))
    out.append(("dw then P", ["dw", "P"]))
    # dot repeat
    for c in ["x", "dw", "dd", "ra", "~", "iab<esc>", "cwZ<esc>", "A!<esc>", "J"]:
        out.append(("dot after " + c.split("<")[0], [c, "."]))
        out.append(("N dot after " + c.split("<")[0], [c, "2."]))
    # a character search used as the motion of an operator is the search that ; and , repeat
    for op in ["d", "y", "gU"]:
        out.append((f"{op}fa then ;", [op + "fa", ";"]))
        out.append((f"{op}ta then ;", [op + "ta", ";"]))
        out.append((f"fb {op}fa then ;", ["fb", op + "fa", ";"]))
        out.append((f"{op}Fa then ,", [op + "Fa", ","]))
    # visual + operator
    for v in ["v", "V"]:
        for m in ["l", "w", "e", "$", "j", "iw"]:
            for op in ["d", "y", "cZ<esc>", "~", "U", "u", "J"]:
                out.append((f"{v}{m} {op[0]}", [v, m, op]))
    # every operator ends visual mode: the command typed next is a normal-mode command
    for v in ["v", "V"]:
        for m in ["l", "e"]:
            for op in ["d", "y", "~", "U", "u", "g?", "J", ">"]:
                out.append((f"{v}{m} {op} then x", [v, m, op, "x"]))
    # counts of two digits, with a zero in them
    for c in ["10l", "20l", "10h", "d10l", "10x", "20|", "10w", "d10w", "10rZ", "10~", "100l", "c10lZ<esc>", "y10l"]:
        out.append(("count " + c, [c]))
    return out


def cursors(text):
    if text == "":
        return [0]
    out = []
    for i, ch in enumerate(text):
        if ch != "\n":
            out.append(i)
        elif i == 0 or text[i - 1] == "\n":
            out.append(i)           # an empty line: the cursor sits on its terminator
    return out or [0]


def small_texts(maxlen):
    for n in range(0, maxlen + 1):
        for tup in itertools.product(ALPHA, repeat=n):
            yield "".join(tup)


MODEL_MOTIONS = {"h": C("MLeft"), "l": C("MRight"), "0": C("MLineStart"), "^": C("MFirstNonBlank"), "$": C("MLineEnd"),
                 "w": C("MWord", False), "W": C("MWord", True), "b": C("MBack", False), "B": C("MBack", True),
                 "e": C("MEnd", False), "E": C("MEnd", True), "ge": C("MBackEnd", False), "gE": C("MBackEnd", True),
                 "fa": C("MFind", 97), "Fa": C("MFindBack", 97), "ta": C("MTill", 97), "Ta": C("MTillBack", 97),
                 "f.": C("MFind", 46), "t ": C("MTill", 32), "Fb": C("MFindBack", 98), "T ": C("MTillBack", 32)}
DEV_FILE = "/verif/known/c02_deviations.json"


def case_key(c):
    return f"{c['text']!r}@{c['cursor']} {' '.join(c['keys'])}"


def compare(c, v, a):
    """None if vicut and Vim agree; else a description. 'ghost' marks the unrepresentable empty last line."""
    steps = a.get("steps", [])
    if not steps or "panic" in steps[-1] or "died" in a:
        return {"what": "panic", "panic": str(steps[-1].get("panic") if steps else a)[:200]}
    st = steps[-1]
    ilines = VR.text_to_lines(st["buf"])
    ipos = VR.index_to_pos(st["buf"], st["cursor"])
    vpos = VR.index_to_pos("\n".join(v["lines"]), v["cursor"])
    if ilines == v["lines"] and ipos == vpos:
        return None
    ghost = (not c["text"].endswith("\n")) and v["lines"] and v["lines"][-1] == "" and ilines == v["lines"][:-1]
    return {"what": "ghost" if ghost else ("text" if ilines != v["lines"] else "cursor"), "vim_lines": v["lines"], "vim_cursor": vpos,
            "impl_lines": ilines, "impl_cursor": ipos}


def run(chk, binary):
    rng = chk.rng
    thorough = chk.tier == "thorough"
    chk.proof_obligations()
    cmds = commands()
    if not VR.have_vim():
        chk.violation("oracle:Vim is not available", {"what": "/usr/bin/vim not found: the reference of this property cannot be consulted"}, concrete=False)
        return chk.finish()
    try:
        store = json.load(open(DEV_FILE, encoding="utf-8"))
    except FileNotFoundError:
        store = {"deviations": {}, "classes": {}}
    known_cases = store["deviations"]          # class -> list of case keys that deviate on the repaired tree
    known_classes = {k["class"].strip('"'): k["_line"].split(k["class"], 1)[1].strip() for k in known_findings() if k.get("property") == "C02"}
    dist = {"exhaustive_small_scope": 0, "sampled_small_scope": 0, "realistic": 0, "operators_vs_vim": 0, "motion_model_cases": 0, "agree": 0, "known_case": 0, "known_class": 0,
            "ghost_line": 0, "vim_error": 0, "fixed_since_recorded": 0, "vertical_column_sequences": 0}
    # ---- family A0: exhaustive over texts up to length 2 (3 on thorough) x every cursor x every command ----
    cases = []
    for t in small_texts(3 if thorough else 2):
        for cur in cursors(t):
            for cls, keys in cmds:
                cases.append({"text": t, "cursor": cur, "keys": keys, "cls": cls, "family": "A0", "classes": [cls]})
    nA0 = len(cases)
    # ---- family A: sample of the larger small-scope family ----
    # (A and B are fixed sequences, independent of the seed: their deviating cases are recorded one by one; the quick
    # tier takes a prefix of what the thorough tier runs. The seed drives the motion family further down.)
    import random
    texts = list(small_texts(5))
    rng_a = random.Random(1001)
    for _ in range(60000 if thorough else 9000):
        t = rng_a.choice(texts)
        cls, keys = rng_a.choice(cmds)
        cases.append({"text": t, "cursor": rng_a.choice(cursors(t)), "keys": keys, "cls": cls, "family": "A", "classes": [cls]})
    # ---- family B: realistic records with 1-3 commands ----
    rng_b = random.Random(1002)
    for _ in range(20000 if thorough else 3000):
        t = rng_b.choice(REAL_TEXTS)
        picked = [rng_b.choice(cmds) for _ in range(rng_b.choice([1, 1, 2, 3]))]
        cases.append({"text": t, "cursor": rng_b.choice(cursors(t)), "keys": [x for _, ks in picked for x in ks], "cls": " ; ".join(p[0] for p in picked),
                      "family": "B", "classes": [p[0] for p in picked]})
    # ---- family OP: d / y / c over the modelled motions (and dd yy cc) with counts: Vim = Coq operator model, vicut vs Vim ----
    rng_o = random.Random(1003)
    for _ in range(40000 if thorough else 6000):
        flat = "\n".join(VR.text_to_lines(rng_o.choice(texts)))       # lines separated by the line break, as the model sees a buffer
        op = rng_o.choice(["d", "d", "y", "c"])
        mk = rng_o.choice(sorted(MODEL_MOTIONS) + [None, None])
        n = 1 if mk in ("0", "^", "$") else rng_o.choice([1, 1, 2, 3])
        k = (str(n) if n > 1 else "") + op + (mk if mk else op) + ("Z<esc>" if op == "c" else "")
        cls = f"op {op} + {'N' if n > 1 else ''}{mk if mk else op}"
        if rng_o.random() < 0.15:
            # the one-key forms: x = dl, X = dh, D = d$, C = c$, s = cl, S = cc, Y = yy
            alias, (op, mk) = rng_o.choice([("x", ("d", "l")), ("X", ("d", "h")), ("D", ("d", "$")), ("C", ("c", "$")), ("s", ("c", "l")), ("S", ("c", None)), ("Y", ("y", None))])
            if alias in ("D", "C"):
                n = 1
            k = (str(n) if n > 1 else "") + alias + ("Z<esc>" if op == "c" else "")
            cls = f"op {'N' if n > 1 else ''}{alias}"
        obj = None
        if rng_o.random() < 0.15:
            # a word text object instead of a motion
            obj = (rng_o.random() < 0.4, rng_o.random() < 0.5)           # (WORD?, "a" rather than "i"?)
            mk, n = None, 1
            k = op + ("a" if obj[1] else "i") + ("W" if obj[0] else "w") + ("Z<esc>" if op == "c" else "")
            cls = f"op {op} + {'a' if obj[1] else 'i'}{'W' if obj[0] else 'w'}"
        cs = None
        if obj is None and rng_o.random() < 0.12:
            # a case operator over a motion (or doubled), or one of the one-key commands ~ and r
            if rng_o.random() < 0.65:
                cop = rng_o.choice(["g~", "gU", "gu"])
                cmk = rng_o.choice(sorted(MODEL_MOTIONS) + [None, None])
                n = 1 if cmk in ("0", "^", "$") else rng_o.choice([1, 1, 2, 3])
                k = (str(n) if n > 1 else "") + cop + (cmk if cmk else (cop if rng_o.random() < 0.5 else cop[1]))
                cs = ("case", cop, cmk, n)
                cls = f"op {cop} + {'N' if n > 1 else ''}{cmk if cmk else 'doubled'}"
            elif rng_o.random() < 0.3:
                n = rng_o.choice([1, 1, 2, 3, 4])
                k = (str(n) if n > 1 else "") + "J"
                cs = ("join", n)
                cls = f"op {'N' if n > 1 else ''}J"
            else:
                n = rng_o.choice([1, 1, 2, 3, 4])
                rch = rng_o.choice([None, "x", "b"])
                k = (str(n) if n > 1 else "") + ("r" + rch if rch else "~")
                cs = ("tilde", rch, n)
                cls = f"op {'N' if n > 1 else ''}{'r' if rch else '~'}"
            mk, op = None, "y"
        vm = None
        if obj is None and cs is None and rng_o.random() < 0.15:
            # a line motion: j k G gg, with or without a count
            vm = (rng_o.choice(["j", "k", "G", "gg"]), rng_o.choice([None, None, 1, 2, 3, 4]))
            mk, n = None, 1
            k = (str(vm[1]) if vm[1] else "") + op + vm[0] + ("Z<esc>" if op == "c" else "")
            cls = f"op {op} + {'N' if vm[1] else ''}{vm[0]}"
        put = None
        keys_ = [k]
        if cs is None and op != "c" and rng_o.random() < 0.25:
            # followed by a put of what the operator left in the register
            put = (rng_o.random() < 0.5, rng_o.choice([1, 1, 2, 3]))
            keys_.append((str(put[1]) if put[1] > 1 else "") + ("p" if put[0] else "P"))
            cls += " then " + ("N" if put[1] > 1 else "") + ("p" if put[0] else "P")
            if put[1] > 1 and vm is None and obj is None and rng_o.random() < 0.5:
                # ... and the same put once more without a count: the count was the first one's own
                put = (put[0], put[1], True)
                keys_.append("p" if put[0] else "P")
                cls += " then " + ("p" if put[0] else "P")
        cases.append({"text": flat + "\n", "cursor": rng_o.choice(cursors(flat)), "keys": keys_, "cls": cls, "family": "OP", "classes": [cls], "opcase": (op, mk, n, flat), "put": put, "obj": obj, "vm": vm, "cs": cs})
    # ---- family V: the column j / k aim for: set by a vertical move that was clipped on a shorter line, then a linewise
    # or in-place command, then another vertical move (a fixed sequence, like A and B) ----
    rng_v = random.Random(1004)
    RAGGED = ["abcdef\nab\nxy\nabcdefgh\n", "one two three\nx\n\nfour five six\nz\n", "  indented\nab\n    more indented\nq\n", "abcdefgh\nabcd\nab\nabcdefgh"]
    for _ in range(2400 if thorough else 400):
        t = rng_v.choice(RAGGED)
        mid = rng_v.choice(["yy", "dd", "Y", "yj", ">>", "x", "rZ", "~", "yiw", "J", "2yy", "p", "ddP"])
        ks = [rng_v.choice(["4l", "6l", "$", "2l", "w"]), rng_v.choice(["j", "k", "2j", "j"]), mid, rng_v.choice(["j", "k", "j", "2k"])]
        cases.append({"text": t, "cursor": rng_v.choice([0, 0, t.index("\n") + 1]), "keys": ks, "cls": f"vertical move, {mid}, vertical move", "family": "V", "classes": [f"vertical move, {mid}, vertical move"]})
    vim = VR.run_vim(cases)
    ans = server_map(binary, [{"op": "keys", "text": c["text"], "cursor": c["cursor"], "keys": ["".join(c["keys"])], "last_only": True} for c in cases])
    # the operator model against Vim: no tolerance
    opn = {"d": 0, "y": 1, "c": 2}
    opidx = [i for i, c in enumerate(cases) if c["family"] == "OP"]
    def opterm(i):
        return (opn[cases[i]["opcase"][0]], "Z" if cases[i]["opcase"][0] == "c" else "", txt(cases[i]["opcase"][3]),
                (C("Some", MODEL_MOTIONS[cases[i]["opcase"][1]]) if cases[i]["opcase"][1] else None), Nat(cases[i]["opcase"][2]), Nat(cases[i]["cursor"]))
    objs = [i for i in opidx if cases[i].get("obj") and not cases[i].get("put")]
    vms = [i for i in opidx if cases[i].get("vm") and not cases[i].get("put")]
    vmputs = [i for i in opidx if cases[i].get("vm") and cases[i].get("put")]
    css = [i for i in opidx if cases[i].get("cs")]
    plain = [i for i in opidx if not cases[i].get("put") and not cases[i].get("obj") and not cases[i].get("vm") and not cases[i].get("cs")]
    withput = [i for i in opidx if cases[i].get("put") and len(cases[i]["put"]) == 2 and not cases[i].get("obj") and not cases[i].get("vm")]
    withput2 = [i for i in opidx if cases[i].get("put") and len(cases[i]["put"]) == 3]
    skipped_objput = [i for i in opidx if cases[i].get("obj") and cases[i].get("put")]        # compared with Vim only
    res_obj = run_coq_eval("c02_obj", ["Base.Prelude", "Model.Motions", "Model.Ops", "Model.Obs"], "obj_obs",
                           [(opn[cases[i]["opcase"][0]], "Z" if cases[i]["opcase"][0] == "c" else "", txt(cases[i]["opcase"][3]), cases[i]["obj"][0], cases[i]["obj"][1], Nat(cases[i]["cursor"])) for i in objs], shard=800)
    res_plain = run_coq_eval("c02_ops", ["Base.Prelude", "Model.Motions", "Model.Ops", "Model.Obs"], "op_obs", [opterm(i) for i in plain], shard=800)
    res_put = run_coq_eval("c02_opput", ["Base.Prelude", "Model.Motions", "Model.Ops", "Model.Obs"], "op_put_obs",
                           [(opterm(i), cases[i]["put"][0], Nat(cases[i]["put"][1])) for i in withput], shard=800)
    vmn = {"j": 0, "k": 1, "G": 2, "gg": 3}
    res_vm = run_coq_eval("c02_opv", ["Base.Prelude", "Model.Motions", "Model.Ops", "Model.Obs"], "opv_obs",
                          [(opn[cases[i]["opcase"][0]], "Z" if cases[i]["opcase"][0] == "c" else "", txt(cases[i]["opcase"][3]), vmn[cases[i]["vm"][0]],
                            (C("Some", Nat(cases[i]["vm"][1])) if cases[i]["vm"][1] else None), Nat(cases[i]["cursor"])) for i in vms], shard=800)
    cidx = [i for i in css if cases[i]["cs"][0] == "case"]
    tidx = [i for i in css if cases[i]["cs"][0] == "tilde"]
    copn = {"g~": 0, "gU": 1, "gu": 2}
    res_case = run_coq_eval("c02_case", ["Base.Prelude", "Model.Motions", "Model.Ops", "Model.Obs"], "case_obs",
                            [(copn[cases[i]["cs"][1]], txt(cases[i]["opcase"][3]), (C("Some", MODEL_MOTIONS[cases[i]["cs"][2]]) if cases[i]["cs"][2] else None),
                              Nat(cases[i]["cs"][3]), Nat(cases[i]["cursor"])) for i in cidx], shard=800)
    res_tilde = run_coq_eval("c02_tilde", ["Base.Prelude", "Model.Motions", "Model.Ops", "Model.Obs"], "tilde_obs",
                             [((C("Some", ord(cases[i]["cs"][1])) if cases[i]["cs"][1] else None), txt(cases[i]["opcase"][3]), Nat(cases[i]["cs"][2]), Nat(cases[i]["cursor"])) for i in tidx], shard=800)
    by_idx = dict(zip(plain, res_plain))
    by_idx.update(zip(cidx, [(a_, b_, None) for a_, b_ in res_case]))
    by_idx.update(zip(tidx, [(a_, b_, None) for a_, b_ in res_tilde]))
    by_idx.update(zip(vms, res_vm))
    res_vmput = run_coq_eval("c02_opvput", ["Base.Prelude", "Model.Motions", "Model.Ops", "Model.Obs"], "opv_put_obs",
                             [((opn[cases[i]["opcase"][0]], "", txt(cases[i]["opcase"][3]), vmn[cases[i]["vm"][0]],
                                (C("Some", Nat(cases[i]["vm"][1])) if cases[i]["vm"][1] else None), Nat(cases[i]["cursor"])), cases[i]["put"][0], Nat(cases[i]["put"][1])) for i in vmputs], shard=800)
    by_idx.update(zip(vmputs, res_vmput))
    res_put2 = run_coq_eval("c02_opput2", ["Base.Prelude", "Model.Motions", "Model.Ops", "Model.Obs"], "op_put_put_obs",
                            [(opterm(i), cases[i]["put"][0], Nat(cases[i]["put"][1])) for i in withput2], shard=800)
    by_idx.update(zip(withput2, res_put2))
    jidx = [i for i in css if cases[i]["cs"][0] == "join"]
    res_join = run_coq_eval("c02_join", ["Base.Prelude", "Model.Motions", "Model.Ops", "Model.Obs"], "join_obs",
                            [(txt(cases[i]["opcase"][3]), Nat(cases[i]["cs"][1]), Nat(cases[i]["cursor"])) for i in jidx], shard=800)
    by_idx.update(zip(jidx, [(a_, b_, None) for a_, b_ in res_join]))
    by_idx.update(zip(withput, res_put))
    by_idx.update(zip(objs, res_obj))
    opidx = [i for i in opidx if i in by_idx]
    opmodel = [by_idx[i] for i in opidx]
    op_diff = []
    for i, m in zip(opidx, opmodel):
        v = vim[i]
        if v is None or v["err"]:
            continue
        mt, mc, mr = m
        mt = untxt(mt)
        mreg = None
        if isinstance(mr, C) and mr.name == "Some":
            lw, rt = mr.args[0]
            mreg = (untxt(rt), "V" if lw else "v")
        vreg = (v["reg"], v["regtype"]) if v["reg"] != "" else None
        if mt.split("\n") != v["lines"] or VR.index_to_pos(mt, mc) != VR.index_to_pos("\n".join(v["lines"]), v["cursor"]) or mreg != vreg:
            op_diff.append({"text": cases[i]["text"], "cursor": cases[i]["cursor"], "keys": cases[i]["keys"], "model": [mt.split("\n"), VR.index_to_pos(mt, mc), mreg],
                            "vim": [v["lines"], VR.index_to_pos("\n".join(v["lines"]), v["cursor"]), vreg]})
    dist["operator_model_cases"] = len(opidx)
    dist["operator_model_vs_vim_differ"] = len(op_diff)
    if op_diff:
        chk.violation("correspondence:the reference model of the operators differs from Vim", {"cases": len(op_diff), "examples": op_diff[:5]}, concrete=False)
    new_store = {}
    seen_known = {}
    unknown = {}
    for idx, (c, v, a) in enumerate(zip(cases, vim, ans)):
        fam = c["family"]
        dist["exhaustive_small_scope" if fam == "A0" else ("sampled_small_scope" if fam == "A" else "operators_vs_vim" if fam == "OP" else "vertical_column_sequences" if fam == "V" else "realistic")] += 1
        chk.count(("c02", c["text"], c["cursor"], tuple(c["keys"])), nontrivial=True)
        if v is None or v["err"]:
            dist["vim_error"] += 1
            continue
        d = compare(c, v, a)
        key = case_key(c)
        if d is None:
            dist["agree"] += 1
            if key in known_cases.get(fam, {}).get(c["cls"], ()):
                dist["fixed_since_recorded"] += 1
            continue
        case = dict({"text": c["text"], "cursor": c["cursor"], "keys": c["keys"], "class": c["cls"]}, **d)
        if d["what"] == "panic":
            chk.violation("spec:vicut panicked on a supported command", case)
            continue
        if d["what"] == "ghost":
            dist["ghost_line"] += 1
            chk.known("empty-unterminated-last-line", "a last line without terminator that becomes empty leaves no text behind in the buffer (see C16)")
            continue
        new_store.setdefault(fam, {}).setdefault(c["cls"], []).append(key)
        if key in known_cases.get(fam, {}).get(c["cls"], ()):
            dist["known_case"] += 1
            ks = [k.replace('"', "'") for k in c["classes"]]
            for k in ([k for k in ks if k in known_classes] or ["realistic-sequence"]):
                seen_known[k] = seen_known.get(k, 0) + 1
            continue
        for k in c["classes"]:
            unknown.setdefault(k, []).append(case)
        chk.violation("oracle:differs from Vim on a case that is not a recorded deviation", case)
    for k in sorted(seen_known):
        kk = k.replace('"', "'")
        if kk in known_classes:
            chk.known(kk, known_classes[kk])
        elif not os.environ.get("C02_RECORD"):
            chk.violation("bookkeeping:a recorded deviation belongs to a class that known_findings.txt does not list", {"class": k}, concrete=False)
    # ---- the motion model: Vim = model = vicut on motions with counts ----
    mcases = []
    for _ in range(40000 if thorough else 5000):
        t = rng.choice(texts) if rng.random() < 0.8 else rng.choice([x for x in REAL_TEXTS if not any(0x3040 <= ord(ch) <= 0x9fff for ch in x)])
        k = rng.choice(sorted(MODEL_MOTIONS))
        n = 1 if k in ("0", "^", "$") else rng.choice([1, 1, 2, 3])
        mcases.append((t, k, n, rng.choice(cursors(t))))
    mkeys = [[(str(n) if n > 1 else "") + k] for _, k, n, _ in mcases]
    mvim = VR.run_vim([{"text": t, "cursor": i, "keys": ks} for (t, _, _, i), ks in zip(mcases, mkeys)])
    mans = server_map(binary, [{"op": "keys", "text": t, "cursor": i, "keys": ks, "last_only": True} for (t, _, _, i), ks in zip(mcases, mkeys)])
    model = run_coq_eval("c02", ["Base.Prelude", "Model.Motions", "Model.Obs"], "motion_obs", [(txt(t), MODEL_MOTIONS[k], Nat(n), Nat(i)) for t, k, n, i in mcases], shard=400)
    mv_diff = 0
    for (t, k, n, i), ks, v, a, m in zip(mcases, mkeys, mvim, mans, model):
        dist["motion_model_cases"] += 1
        mp = VR.index_to_pos(t, m)
        st = (a.get("steps") or [{}])[-1]
        case = {"text": t, "cursor": i, "keys": ks, "model_cursor": mp}
        if "buf" not in st:
            chk.violation("spec:vicut panicked on a motion", dict(case, answer=str(st)[:200]))
            continue
        ip = VR.index_to_pos(st["buf"], st["cursor"])
        if st["buf"] != t or ip != mp:
            chk.violation("correspondence:motion differs from the reference model", dict(case, impl_cursor=ip, impl_text=st["buf"]))
        if v is not None and not v["err"]:
            vp = VR.index_to_pos("\n".join(v["lines"]), v["cursor"])
            if vp != mp:
                mv_diff += 1
                if mv_diff <= 5:
                    chk.cov.setdefault("model_vs_vim_examples", []).append(dict(case, vim_cursor=vp))
    dist["motion_model_vs_vim_differ"] = mv_diff
    if mv_diff:
        chk.violation("correspondence:the reference model of the motions differs from Vim", {"cases": mv_diff, "examples": chk.cov.get("model_vs_vim_examples")}, concrete=False)
    # ---- j and k with counts, also over characters that take two cells: Vim = model = vicut ----
    JK_ALPHA = ["a", "b", " ", "日", "本", "é", "\n", "\n", "🙂", "."]
    jcases = []
    for _ in range(12000 if thorough else 1500):
        raw = "".join(rng.choice(JK_ALPHA) for _ in range(rng.randint(1, 14)))
        flat = "\n".join(VR.text_to_lines(raw))
        n = rng.choice([1, 1, 1, 2, 3])
        down = rng.random() < 0.5
        jcases.append({"text": flat + "\n", "flat": flat, "cursor": rng.choice(cursors(flat)), "keys": [(str(n) if n > 1 else "") + ("j" if down else "k")], "n": n, "down": down})
    jvim = VR.run_vim(jcases)
    jans = server_map(binary, [{"op": "keys", "text": c["text"], "cursor": c["cursor"], "keys": c["keys"], "last_only": True} for c in jcases])
    jmodel = run_coq_eval("c02_jk", ["Base.Prelude", "Model.Motions", "Model.Ops", "Model.Obs"], "vert_obs", [(txt(c["flat"]), c["down"], Nat(c["n"]), Nat(c["cursor"])) for c in jcases], shard=800)
    jk_mv = 0
    for c, v, a, m in zip(jcases, jvim, jans, jmodel):
        dist["vertical_motion_cases"] = dist.get("vertical_motion_cases", 0) + 1
        chk.count(("c02-jk", c["text"], c["cursor"], tuple(c["keys"])), nontrivial=True)
        mp = VR.index_to_pos(c["flat"], m)
        st = (a.get("steps") or [{}])[-1]
        case = {"text": c["text"], "cursor": c["cursor"], "keys": c["keys"], "model_cursor": mp}
        if "buf" not in st:
            chk.violation("spec:vicut panicked on a motion", dict(case, answer=str(st)[:200]))
            continue
        ip = VR.index_to_pos(st["buf"], st["cursor"])
        if st["buf"] != c["text"] or ip != mp:
            chk.violation("correspondence:motion differs from the reference model", dict(case, impl_cursor=ip, impl_text=st["buf"]))
        if v is not None and not v["err"] and VR.index_to_pos("\n".join(v["lines"]), v["cursor"]) != mp:
            jk_mv += 1
            if jk_mv <= 5:
                chk.cov.setdefault("model_vs_vim_examples", []).append(dict(case, vim_cursor=VR.index_to_pos("\n".join(v["lines"]), v["cursor"])))
    dist["vertical_motion_model_vs_vim_differ"] = jk_mv
    if jk_mv:
        chk.violation("correspondence:the reference model of the motions differs from Vim", {"cases": jk_mv, "examples": chk.cov.get("model_vs_vim_examples")}, concrete=False)
    chk.cov["traces_validated_against_impl"] = len(cases) + len(mcases) + len(jcases)
    chk.cov["input_distribution"] = dist
    chk.cov["exhaustive_family_cases"] = nA0
    chk.cov["recorded_deviating_cases"] = sum(len(v) for f in known_cases.values() for v in f.values())
    chk.cov["known_classes_seen"] = seen_known
    chk.cov["unrecorded_deviating_classes"] = {k: {"cases": len(v), "witness": min(v, key=lambda x: len(x["text"]) + len("".join(x["keys"])))} for k, v in sorted(unknown.items())}
    chk.sample({"text": cases[0]["text"], "cursor": cases[0]["cursor"], "keys": cases[0]["keys"]})
    chk.cov["rule"] = ("A0: every text over {a b space . newline} up to length 2 (3 on thorough) x every cursor x every command of the subset (motions with counts, d c y g~ gu gU g? with motions and text objects, "
                       "x X r ~ J p P D C Y dd yy cc, i a I A o O sessions with counts, yank-then-put, dot-repeat, v/V + motion + operator): compared with Vim 9 run live (one :normal! per command); a deviation must be one of the "
                       "recorded cases (known/c02_deviations.json, written once on the repaired tree); A: sampled texts up to length 5, B: realistic records with 1-3 commands: a deviation must belong to a recorded class. "
                       "Motions h l 0 ^ $ w b e ge W B E gE f F t T with counts: Vim = Coq reference model = vicut on every sampled case.")
    chk.assumptions += ["Vim 9.0 at /usr/bin/vim is the reference; :normal! per command stands for typing (a failing command ends only itself)",
                        "line and character-column of the cursor and the buffer lines are compared; registers, marks, the mode left open are not",
                        "word classes of non-ASCII scripts (Vim separates e.g. Han from Kana) are outside the model"]
    if os.environ.get("C02_RECORD"):
        os.makedirs(os.path.dirname(DEV_FILE), exist_ok=True)
        json.dump({"deviations": new_store}, open(DEV_FILE, "w", encoding="utf-8"), ensure_ascii=False, indent=0, sort_keys=True)
    return chk.finish([f"KNOWN-FINDING: property=C02 class={json.dumps(k)} {v}" for k, v in sorted(chk.known_hits.items())])


def replay(path):
    d = json.load(open(path))
    print(json.dumps(d["case"], indent=1, ensure_ascii=False)[:4000])
    return 0
