"""C19: a search lands on the next match and nowhere else."""
import json
import re

from .. import vim_lang as V
from ..common import C, Nat, cli_map, run_coq_eval, server_map, txt, untxt

IMPORTS = ["Base.Prelude", "Model.Search", "Model.Obs"]

TEXTS = [
    "foo bar foo baz foo\n",
    "alpha beta gamma\nfoo bar\nbeta again foo\n\nlast foo line",
    "héé bar foo wörld foo\nzweite Zeile foo\n",
    "日本語 foo テキスト foo\n混ぜる bar foo\n",
    "étude foo café foo naïve\n",
    "x1 y22 z333\na1b2c3 99 bottles\n",
    "aaa aa a aaaa\n",
    "one two\nthree four\nfive six\n",
    "no match here",
    "smile 🙂 foo 👍🏽 foo\n",
    "tab\there\tfoo\n  indented foo\n",
    # clusters of many bytes before the matches (flags and skin tones, 8 bytes each; no ZWJ or combining marks, which Rust's \\w takes and the reference's does not)
    "🇩🇪🇫🇷🇮🇹 foo bar\nplain foo line\n",
    "C:\\dir\\file x\\y foo\n",
    "👍🏽👍🏽👍🏽 foo 🇯🇵🇯🇵 bar foo\n🇺🇸 foo\n",
    # quotes with and without a backslash in front of them
    'say \\"hi\\" and "plain" x\\"y "z"\n',
]
# the regex subset shared with the reference: literals, ., classes, \d \w \s, + ?, alternation; none can match the empty string
PATTERNS = ["foo", "bar", "a", "o", "ba.", "f.o", "[0-9]+", "\\d+", "\\w+", "[a-z]+", "b[ae]", "foo|bar", "two|four|six", "a+", "fo+", "Zeile",
            "é", "日本", "テ", "\\s", "x?y", "zzz", "[A-Z]", "o o", "\\d\\d", "naï", "\\\\", "r\\\\", '\\\\"', '"', 'y\\\\"h']


def gen_chain(rng, text=""):
    pat = rng.choice(PATTERNS)
    for _ in range(4):      # prefer patterns that match somewhere
        if starts_of(pat, text):
            break
        pat = rng.choice(PATTERNS)
    keys = []
    first = rng.choice(["/", "/", "?"])
    # one in seven starts with a selection open: the search is the same search
    # (the end of an argument submits a search that is still being typed: one in five leaves the <CR> out)
    keys.append((rng.choice(["v", "V"]) if rng.random() < 0.15 else "") + first + pat + ("<CR>" if rng.random() < 0.8 else ""))
    for _ in range(rng.randint(0, 5)):
        r = rng.random()
        cnt = rng.choice(["", "", "", "2", "3"])
        if r < 0.4:
            keys.append(cnt + "n")
        elif r < 0.7:
            keys.append(cnt + "N")
        elif r < 0.85:
            p2 = rng.choice(PATTERNS)
            keys.append((rng.choice(["v", "V"]) if rng.random() < 0.15 else "") + rng.choice(["/", "?"]) + p2 + ("<CR>" if rng.random() < 0.8 else ""))
        else:
            keys.append(rng.choice(["w", "b", "$", "0", "j", "k", "l", "h", "G", "gg"]))
    return keys


def byte_off(text, i):
    return len(text[:i].encode("utf-8"))


def starts_of(pat, text):
    try:
        return [byte_off(text, m.start()) for m in re.finditer(pat, text) if m.end() > m.start()]
    except re.error:
        return None


def expected(starts, cur, forward):
    """reference: the first match that starts after the cursor (wrapping), mirrored for backward"""
    if not starts:
        return None
    if forward:
        after = [s for s in starts if s > cur]
        return after[0] if after else starts[0]
    before = [s for s in starts if s < cur]
    return before[-1] if before else starts[-1]


def cluster_index(st, b):
    idx = st["fresh"]
    return idx.index(b) if b in idx else None


def run(chk, binary):
    rng = chk.rng
    thorough = chk.tier == "thorough"
    chk.proof_obligations()
    n = 8000 if thorough else 1200
    reqs = []
    meta = []
    for _ in range(n):
        text = rng.choice(TEXTS)
        chain = gen_chain(rng, text)
        start = rng.randint(0, max(0, len(text) - 1))
        if rng.random() < 0.12:
            # an edit first, one that moves character boundaries but keeps the length in bytes: the search works on the text as it then is
            text = rng.choice(["é foo\nxb ab\n", "ü1 é2 ab foo\n", "日本 ab 語 foo\nbar 日\n"])
            chain = [rng.choice([":s/é/ab/<CR>", ":s/ü/xy/<CR>", ":s/日/abc/<CR>", ":%s/é/ab/g<CR>", "rx", "~"])] + gen_chain(rng, text)
            start = 0
        reqs.append({"op": "keys", "text": text, "cursor": start, "keys": chain})
        meta.append((text, chain, start))
    ans = server_map(binary, reqs)
    cases = []
    cmeta = []
    dist = {"/": 0, "?": 0, "n": 0, "N": 0, "with_count": 0, "multibyte_before_match": 0, "no_match": 0, "wrapped": 0}
    for (text, chain, start), a in zip(meta, ans):
        steps = a.get("steps", [])
        chk.count(("c19", text, tuple(chain), start), nontrivial=len(chain) > 1)
        case0 = {"text": text, "cursor": start, "keys": chain}
        if len(steps) != len(chain) or any("panic" in s for s in steps):
            chk.violation("spec:search panicked or aborted", dict(case0, answer=str(a)[:300]))
            continue
        last_pat, last_dir = None, True
        prev = a["init"]
        text0 = text
        for k, st in zip(chain, steps):
            cmds = [c for c in st["cmds"] if c.get("motion") and any(c["motion"].startswith(x) for x in ("PatternSearch", "NextMatch", "PrevMatch"))]
            text = prev["buf"] if "buf" in prev else text0          # the text the command works on
            is_search_key = bool(re.match(r"^[vV]?[/?]", k)) or k.lstrip("0123456789") in ("n", "N")
            if is_search_key and st["buf"] != text:
                chk.violation("spec:a search edited the text", dict(case0, at=k, buffer=st["buf"]))
                break
            typed = re.match(r"^[vV]?([/?])(.*?)(?:<CR>)?$", k, re.S)
            if not cmds:
                if typed and starts_of(typed.group(2), text) is not None:
                    chk.violation("spec:a search that was typed did not run", dict(case0, at=k))
                    break
                prev = st
                continue
            c = cmds[-1]
            mot = c["motion"]
            cnt = c.get("mcount") or 1
            ms = typed
            if ms:
                # the direction is the one that was typed, whatever the command says it did
                back = ms.group(1) == "?"
                kind, last_dir = (1, False) if back else (0, True)
                last_pat = ms.group(2)
                dist["?" if back else "/"] += 1
            elif mot.startswith("PatternSearch"):
                prev = st
                continue
            else:
                same = mot.startswith("NextMatch")
                fwd = (same == last_dir)
                kind = 2 if fwd else 3
                dist["n" if same else "N"] += 1
                if cnt > 1:
                    dist["with_count"] += 1
            if last_pat is None:
                prev = st
                continue
            starts = starts_of(last_pat, text)
            if starts is None:
                prev = st
                continue
            c0 = c["c0"]
            cur_byte = prev["fresh"][c0] if c0 < len(prev["fresh"]) else len(text.encode())
            # reference result (single steps iterated for counts)
            if kind in (0, 1):
                tgt = expected(starts, cur_byte, kind == 0)
            else:
                tgt, cb = None, cur_byte
                for _ in range(cnt):
                    tgt = expected(starts, cb, kind == 2)
                    if tgt is None:
                        break
                    cb = tgt
            if not starts:
                dist["no_match"] += 1
            exp_cursor = c0 if tgt is None else cluster_index(prev, tgt)
            if tgt is not None and ((kind in (0, 2) and tgt <= cur_byte) or (kind in (1, 3) and tgt >= cur_byte)):
                dist["wrapped"] += 1
            if tgt is not None and any(ord(ch) > 127 for ch in text.encode()[:tgt].decode("utf-8", errors="ignore")):
                dist["multibyte_before_match"] += 1
            if exp_cursor is not None:
                # exec_cmd's epilogue: a cursor on the terminator of a non-empty line is pushed back
                cl = text.encode()
                def clus(i):
                    f = prev["fresh"] + [len(cl)]
                    return cl[f[i]:f[i + 1]].decode() if i < len(prev["fresh"]) else None
                adj = exp_cursor
                if clus(adj) == "\n" and adj > 0 and clus(adj - 1) != "\n":
                    adj -= 1
                if st["cursor"] != adj and c["c1"] != adj:
                    chk.violation("spec:search did not land on the expected match",
                                  dict(case0, at=k, pattern=last_pat, match_starts_bytes=starts, cursor_before=c0, cursor_after=st["cursor"], expected_cursor=adj))
            cases.append(([Nat(x) for x in (prev["cached"] or prev["fresh"])], [Nat(x) for x in starts], Nat(cur_byte), kind, Nat(cnt)))
            cmeta.append((case0, k, c, st, c0))
            prev = st
    model = run_coq_eval("c19", IMPORTS, "search_obs", cases, shard=600)
    for (case0, k, c, st, c0), m in zip(cmeta, model):
        mc = c0 if m is None else int(m.args[0])
        # model vs the cursor LineBuf::exec_cmd left (before/after the newline adjustment)
        if c["c1"] != mc and c["c1"] + 1 != mc:
            chk.violation("correspondence:search motion", dict(case0, at=k, model_cursor=mc, impl_cursor=c["c1"]), concrete=False)
    chk.cov["traces_validated_against_impl"] = len(cases)
    # ---- through -c at the CLI: the field runs from the old cursor to the match ----
    jobs = []
    jm = []
    for _ in range(600 if thorough else 150):
        text = rng.choice(TEXTS[:3]) if rng.random() < 0.5 else rng.choice([t for t in TEXTS if "\r" not in t])
        pat = rng.choice(["foo", "bar", "ba.", "o"]) if rng.random() < 0.5 else rng.choice([p_ for p_ in PATTERNS if "|" not in p_])
        # (the key string as a user types it on the command line: it goes through the key-string expansion first)
        jobs.append({"args": ["--json", "-c", "/" + pat + ("<CR>" if rng.random() < 0.8 else "")], "stdin": text})
        jm.append((text, pat))
    # patterns with backslashes, typed on the command line, on the text that has quotes with and without one
    for text in [t for t in TEXTS if '\\"' in t or "\\" in t]:
        for pat in [p_ for p_ in PATTERNS if "\\" in p_ or '"' in p_]:
            jobs.append({"args": ["--json", "-c", "/" + pat + "<CR>"], "stdin": text})
            jm.append((text, pat))
    # a field that reaches the very last character of a text without a final newline, multi-byte characters before it
    for text in ["äb cd\nöx yb", "日本 foo", "é x é", "ab\nüb"]:
        for pat in ["b", "foo", "é", "o", "yb"]:
            jobs.append({"args": ["--json", "-c", "/" + pat + "<CR>"], "stdin": text})
            jm.append((text, pat))
    for (text, pat), r in zip(jm, cli_map(binary, jobs)):
        chk.count(("cli", text, pat))
        st = starts_of(pat, text)
        tgt = expected(st, 0, True)
        if r[0] == 0 and tgt is not None:
            exp = text.encode()[:tgt].decode() + text.encode()[tgt:].decode()[0]
            try:
                got = json.loads(r[1].decode())[0]["1"]
            except Exception:
                got = None
            if got != exp:
                chk.violation("spec:field cut by a search is not the stretch up to the match", {"text": text, "pattern": pat, "field": got, "expected": exp})
    chk.cov["input_distribution"] = dist
    if cmeta:
        chk.sample({"case": cmeta[0][0], "at": cmeta[0][1]})
    chk.cov["rule"] = ("texts (multi-line, multi-byte, combining, emoji) x every start cursor x chains of up to 6 of / ? n N (counts 1..3) with patterns from the shared regex subset (no empty matches), interleaved with motions; "
                       "each search ViCmd is traced (cursor before/after); Python's re gives the match list; reference = first match after the cursor with wrap-around, mirrored for ?, iterated for counts, direction memory for n/N; "
                       "the Coq model is evaluated on (cached offsets, match starts, cursor byte, kind, count) and compared with the cursor exec_cmd left. distinct = distinct (text, chain, start)")
    chk.assumptions += ["the regex crate's match list is replaced by Python's re on a subset where both agree (leftmost-first, non-empty matches)"]
    return chk.finish()


def replay(path):
    d = json.load(open(path))
    print(json.dumps(d["case"], indent=1, ensure_ascii=False)[:4000])
    return 0
