"""C06: in-place editing is all-or-nothing across files."""
import itertools
import json

from .. import drivers as D
from ..common import C

MODES = [[], ["--serial"], ["--linewise"], ["--linewise", "--serial"], ["pooled:1"], ["pooled:3"], ["--linewise", "pooled:1"]]
GOOD = ["alpha beta\ngamma delta\n", "one two three\n", "x y\nz w", "héllo wörld\nzwei\n"]
FAULT_CMDS = ["-g", "FAULT", "-m", "/(<CR>", "--end"]     # exits 1 only in units that contain FAULT


def run(chk, binary):
    rng = chk.rng
    thorough = chk.tier == "thorough"
    chk.proof_obligations()
    scs = []
    meta = []
    combos = []
    for nfiles in (2, 3, 4):
        for k in range(1, nfiles + 1):
            for faulty in itertools.combinations(range(nfiles), k):
                for kind in ("utf8", "abort", "template"):
                    for mode in MODES:
                        for backup in (False, True):
                            combos.append((nfiles, faulty, kind, mode, backup))
    if not thorough:
        rng.shuffle(combos)
        combos = combos[:260]
    for nfiles, faulty, kind, mode, backup in combos:
        names = rng.sample(D.FILE_NAMES, nfiles)
        files = []
        for i, nm in enumerate(names):
            good = rng.choice(GOOD)
            if i in faulty:
                if kind == "utf8":
                    files.append((nm, D.BAD_UTF8))
                elif kind == "abort":
                    files.append((nm, (good + "has FAULT here\nmore\n").encode()))
                else:
                    files.append((nm, b"single\n"))          # no second word: field 2 is missing
            else:
                files.append((nm, good.encode()))
        opts = ["-i"] + mode + (["--backup"] if backup else [])
        if kind == "abort":
            cmds = ["-m", "x"] + FAULT_CMDS
        elif kind == "template":
            opts += ["-t", "{{1}}+{{2}}"]
            cmds = ["-c", "e", "-m", "w", "-c", "fz" if False else "e"]
            cmds = ["-c", "e", "-g", "banana", "-c", "e", "--end"]   # field 2 exists only where the pattern matches
            # make the good files contain an 'a' after the first word, the faulty ones not
            files = [(nm, (b"bbb ccc\n" if i in faulty else b"word banana\n")) for i, (nm, _) in enumerate(files)]
        else:
            cmds = ["-m", "x"]
        sc = {"files": files, "opts": opts, "cmds": cmds, "stdin": None}
        pooled = [x for x in mode if x.startswith("pooled")]
        if pooled:
            # the pooled drivers are reachable only through a vic opts block
            if kind == "template":
                continue_ = True
            vopts = ["edit_inplace", 'max_jobs="%s"' % pooled[0].split(":")[1]]
            if "--linewise" in mode:
                vopts.append("linewise")
            if backup:
                vopts.append("backup")
            if kind == "template":
                vopts.append('template="{{1}}+{{2}}"')
                body = 'cut "e"\nglobal "banana" { cut "e" } '
            elif kind == "abort":
                body = 'move "x"\nglobal "FAULT" { move "/(<CR>" } '
            else:
                body = 'move "x"'
            script = "opts { " + ", ".join(vopts) + " }\n" + body + "\n"
            sc = {"files": files, "opts": [], "cmds": [script], "stdin": None,
                  "model_opts": [x for x in opts if not x.startswith("pooled")]}
        scs.append(sc)
        meta.append((faulty, kind, mode, backup))
    # ---- a directory among the files (only a glob in a vic opts block lets one through): direct oracle only ----
    dscs = []
    for mode in MODES:
        if any(x.startswith("pooled") for x in mode) and not thorough:
            continue
        for backup in (False, True):
            for where in (1, 2):
                names = ["a1.txt", "b2.txt", "c3.txt"]
                vopts = ["edit_inplace", 'files = ["*.txt"]'] + (["linewise"] if "--linewise" in mode else []) + (["serial"] if "--serial" in mode else []) + (["backup"] if backup else [])
                vopts += ['max_jobs="%s"' % x.split(":")[1] for x in mode if x.startswith("pooled")]
                files = [(nm, rng.choice(GOOD).encode()) for i, nm in enumerate(names) if i != where]
                dscs.append(({"files": files, "dirs": [names[where]], "opts": [], "cmds": ["opts { " + ", ".join(vopts) + " }\nmove \"x\"\n"], "stdin": None, "unnamed": [nm for nm, _ in files]}, mode, backup, where))
    dobs = D.scenarios_map(binary, [x[0] for x in dscs])
    for (sc, mode, backup, where), ob in zip(dscs, dobs):
        chk.count(("c06-dir", tuple(mode), backup, where))
        init = dict(sc["files"])
        changed = [nm for nm, data in sc["files"] if ob["final"].get(nm) != data]
        extra = [nm for nm in ob["final"] if nm not in init]
        if ob["rc"] == 0:
            chk.violation("spec:a run with a directory among its files exited successfully", {"script": sc["cmds"][0], "files": sorted(init), "dir": sc["dirs"]})
        elif changed or extra:
            if "--serial" in mode and all(nm < sc["dirs"][0] for nm in changed + [e.replace(".bak", "") for e in extra]):
                chk.known("serial-driver", f"--serial rewrites the files before the first faulty one: vic opts serial, directory {sc['dirs'][0]}")
            else:
                chk.violation("spec:files changed although the run failed", {"script": sc["cmds"][0], "dir": sc["dirs"], "changed": changed, "half_backups": extra,
                              "after": {k: v.decode(errors="replace") for k, v in ob["final"].items()}})
    # ---- a file that vanishes while the run is under way (the commands remove it): whatever the run then does with that
    # file, if it fails, the others are as they were ----
    vscs = []
    for mode in MODES:
        if any(x.startswith("pooled") for x in mode):
            continue
        for backup in (False, True):
            for victim in (1, 2):
                names = ["a1.txt", "b2.txt", "c3.txt"]
                files = [(nm, rng.choice(GOOD).encode()) for nm in names]
                vscs.append(({"files": files, "opts": ["-i"] + mode + (["--backup"] if backup else []), "cmds": ["-m", ":!rm -f %s<CR>" % names[victim], "-m", "x"], "stdin": None},
                             mode, backup, names[victim]))
    # ---- a file argument that does not exist or is a directory, and a command that fails in some of the files only:
    # whatever status the run ends with, if it is not 0 the files are as they were ----
    xscs = []
    for mode in MODES:
        if any(x.startswith("pooled") for x in mode):
            continue
        for backup in (False, True):
            files = [(nm, rng.choice(GOOD).encode()) for nm in ["a1.txt", "b2.txt", "c3.txt"]]
            base = {"files": files, "opts": ["-i"] + mode + (["--backup"] if backup else []), "stdin": None}
            xscs.append(dict(base, cmds=["-m", "x"], extra_args=["nosuch.txt"]))
            xscs.append(dict(base, cmds=["-m", "x"], dirs=["sub.d"], extra_args=["sub.d"]))
            xscs.append(dict(base, cmds=["-g", "a", "-m", ":r nosuch.inc<CR>", "--end", "-m", "x"]))
            xscs.append(dict(base, cmds=["-m", ":nosuchcommand<CR>", "-m", "x"]))
    for sc, ob in zip(xscs, D.scenarios_map(binary, xscs)):
        chk.count(("c06-late-failure", tuple(ob["argv"])))
        if ob["rc"] == 0:
            continue
        init = dict(sc["files"])
        changed = [nm for nm, data in sc["files"] if ob["final"].get(nm) != data]
        halfbak = [nm for nm in ob["final"] if nm not in init and ob["final"][nm] not in init.values()]
        if changed or halfbak:
            if "--serial" in sc["opts"] and not halfbak and "extra_args" in sc:
                chk.known("serial-driver", f"--serial rewrites the files before the first faulty one: {' '.join(ob['argv'])}")
            else:
                chk.violation("spec:files changed although the run failed", {"argv": ob["argv"], "kind": "a file argument that cannot be read, or a command that fails in some files", "changed": changed,
                              "half_backups": halfbak, "rc": ob["rc"], "stderr": ob["err"].decode(errors="replace")[-300:]})
    vobs = D.scenarios_map(binary, [x[0] for x in vscs])
    # correspondence for the two-pass write phase (every backup, then every file): parallel drivers with --backup
    tp = [(sc, ob, victim) for (sc, mode, backup, victim), ob in zip(vscs, vobs) if backup and "--serial" not in mode]
    from ..common import run_coq_eval, txt, untxt
    tpm = run_coq_eval("c06_twophase", ["Base.Prelude", "Model.Format", "Model.Drivers", "Model.Obs"], "two_phase_obs",
                       [([(txt(nm), C("Some", txt(data.decode()))) for nm, data in sc["files"] if nm != victim], [(txt(nm), txt("-")) for nm, _ in sc["files"]]) for sc, ob, victim in tp])
    for (sc, ob, victim), m in zip(tp, tpm):
        mfs, mrc = m
        mfinal = {untxt(nm): (untxt(c_.args[0]).encode() if isinstance(c_, C) and c_.name == "Some" else None) for nm, c_ in mfs}
        if int(mrc) != (0 if ob["rc"] == 0 else 1) or mfinal != dict(ob["final"]):
            chk.violation("correspondence:two-pass write phase (backups first)", {"argv": ob["argv"], "vanished": victim, "model_rc": int(mrc), "rc": ob["rc"],
                          "model_files": {k_: repr(v_)[:80] for k_, v_ in mfinal.items()}, "files": {k_: repr(v_)[:80] for k_, v_ in ob["final"].items()}}, concrete=False)
    for (sc, mode, backup, victim), ob in zip(vscs, vobs):
        chk.count(("c06-vanish", tuple(mode), backup, victim))
        if ob["rc"] == 0:
            continue
        init = dict(sc["files"])
        changed = [nm for nm, data in sc["files"] if nm != victim and ob["final"].get(nm) != data]
        halfbak = [nm for nm in ob["final"] if nm not in init and ob["final"][nm] not in init.values()]
        if changed or halfbak:
            names = [nm for nm, _ in sc["files"]]
            if "--serial" in mode and all(names.index(nm) < names.index(victim) for nm in changed) and not halfbak:
                chk.known("serial-driver", f"--serial rewrites the files before the first faulty one: {' '.join(ob['argv'])}")
            else:
                chk.violation("spec:files changed although the run failed", {"argv": ob["argv"], "kind": "a file removed while the run was under way", "vanished": victim, "changed": changed,
                              "half_backups": halfbak, "files": [(a, b.decode(errors='replace')) for a, b in sc["files"]],
                              "after": {k: v.decode(errors="replace") for k, v in ob["final"].items()}, "stderr": ob["err"].decode(errors="replace")[-300:]})
    obs = D.scenarios_map(binary, scs)
    model = D.eval_model("c06", [D.model_case(sc, ob) for sc, ob in zip(scs, obs)])
    dist = {}
    for sc, ob, m, (faulty, kind, mode, backup) in zip(scs, obs, model, meta):
        key = f"{kind}/{' '.join(mode) or 'default'}"
        dist[key] = dist.get(key, 0) + 1
        chk.count(("c06", tuple(ob["argv"]), tuple(sc["files"])))
        d = D.compare(sc, ob, m)
        if d:
            chk.violation("correspondence:driver model", {"argv": ob["argv"], "files": [(a, b.decode(errors='replace')) for a, b in sc["files"]],
                          "diff": d, "rc": ob["rc"], "stderr": ob["err"].decode(errors="replace")[-300:]}, concrete=False)
        if ob["rc"] == 0:
            chk.violation("spec:a run with a faulty file exited successfully", {"argv": ob["argv"], "faulty": faulty, "kind": kind,
                          "files": [(a, b.decode(errors='replace')) for a, b in sc["files"]]})
            continue
        init = dict(sc["files"])
        changed = [nm for nm, data in sc["files"] if ob["final"].get(nm) != data]
        halfbak = [nm for nm in ob["final"] if nm not in init and ob["final"][nm] not in init.values()]
        if changed or halfbak:
            serial = "--serial" in mode
            first_fault = min(faulty)
            names = [nm for nm, _ in sc["files"]]
            if serial and first_fault > 0 and all(names.index(nm) < first_fault for nm in changed) and not halfbak:
                chk.known("serial-driver", f"--serial rewrites the files before the first faulty one: {' '.join(ob['argv'])}")
            else:
                chk.violation("spec:files changed although the run failed", {"argv": ob["argv"], "faulty": faulty, "kind": kind, "changed": changed,
                              "half_backups": halfbak, "files": [(a, b.decode(errors='replace')) for a, b in sc["files"]],
                              "after": {k: v.decode(errors="replace") for k, v in ob["final"].items()}})
    chk.cov["traces_validated_against_impl"] = len(scs)
    chk.cov["input_distribution"] = dist
    chk.cov["exhaustive"] = thorough
    chk.sample({"argv": obs[0]["argv"], "faulty": meta[0][0], "kind": meta[0][1], "rc": obs[0]["rc"],
                "after": {k: v.decode(errors="replace") for k, v in obs[0]["final"].items()}})
    chk.cov["rule"] = ("fault enumeration: 2..4 files x every non-empty subset/position of faulty files x fault kind {invalid UTF-8, data-dependent abort (bad regex reached only in marked files), missing template field} "
                       "x {default, --serial, --linewise, --linewise --serial} x --backup (all combinations on thorough, a seeded sample on quick); each run executed in a scratch directory; "
                       "final bytes/listing/status compared with the Coq driver model; oracle: no named file changed, no partial backup. distinct = distinct (argv, files)")
    chk.assumptions += ["write-time faults (disk full, permissions) are not injected; a file vanishing mid-run is injected by letting the commands remove it; OS-level atomicity of fs::write is not modelled",
                        "pooled mode (max_jobs) shares the parallel driver code; it is reachable only through a vic opts block and is not run here"]
    known_lines = [f"KNOWN-FINDING: property=C06 class={k} {v}" for k, v in sorted(chk.known_hits.items())]
    return chk.finish(known_lines)


def replay(path):
    d = json.load(open(path))
    print(json.dumps(d["case"], indent=1, ensure_ascii=False)[:4000])
    return 0
