"""C05: -i writes back exactly the edited buffer."""
import json

from .. import drivers as D
from ..common import C, untxt

MODES = [[], ["--serial"], ["--linewise"], ["--linewise", "--serial"]]


def run(chk, binary):
    rng = chk.rng
    thorough = chk.tier == "thorough"
    chk.proof_obligations()
    n = 1500 if thorough else 220
    scs = []
    for _ in range(n):
        files = D.gen_files(rng, rng.randint(1, 5), bad=0.03)      # now and then a file that is not UTF-8: the run must refuse it
        r = rng.random()
        if r < 0.25:
            cmds = D.gen_cmds(rng, edit_only=True)
            # motions only: make it a pure-motion list sometimes
            if rng.random() < 0.5:
                cmds = []
                for _ in range(rng.randint(1, 3)):
                    cmds += ["-m", rng.choice(D.L.MOVES)]
                    if rng.random() < 0.3:
                        cmds += [rng.choice(["-n", "--next"])]        # closes a record - there is none: still nothing but motions
        elif r < 0.7:
            cmds = D.gen_cmds(rng, edit_only=True)
        else:
            cmds = D.gen_cmds(rng)
        mode = rng.choice(MODES)
        opts = ["-i"] + mode + (["--backup"] if rng.random() < 0.4 else [])
        if rng.random() < 0.15:
            opts += ["-d", ","]
        # extra, unnamed files in the directory must stay untouched
        extra = [("other.dat", b"do not touch\n")] if rng.random() < 0.5 else []
        if extra and any(nm == "other.dat" for nm, _ in files):
            extra = []
        if rng.random() < 0.35 and "--backup" in opts:
            # a stale backup sibling of one of the files, left by an earlier run
            nm = rng.choice(files)[0]
            bk = D.py_backup(nm)
            if all(x != bk for x, _ in files + extra):
                extra.append((bk, b"stale backup from an earlier run\n"))
        # the options in any order (the model sees them in the canonical one): --backup before -i is the same request
        units = [[x] for x in opts if x not in ("-d", ",")] + ([["-d", ","]] if "-d" in opts else [])
        rng.shuffle(units)
        shuffled = [x for u in units for x in u]
        # the same path named twice, another file in between, is one file
        dup = [files[0][0]] if len(files) >= 2 and rng.random() < 0.2 else []
        sc = {"files": files + extra, "unnamed": [e[0] for e in extra], "opts": shuffled, "model_opts": opts, "cmds": cmds, "stdin": None, "extra_args": dup}
        scs.append(sc)
        # the twin without -i
        tw_opts = [x for x in opts if x not in ("-i", "--backup")]
        scs.append({"files": files + extra, "unnamed": [e[0] for e in extra], "opts": [x for x in shuffled if x not in ("-i", "--backup")], "model_opts": tw_opts,
                    "cmds": cmds, "stdin": None, "extra_args": dup})
    obs = D.scenarios_map(binary, scs)
    cases = [D.model_case(sc, ob) for sc, ob in zip(scs, obs)]
    model = D.eval_model("c05", cases)
    dist = {}
    for k in range(0, len(scs), 2):
        sc, ob, m = scs[k], obs[k], model[k]
        tw, tob, tm = scs[k + 1], obs[k + 1], model[k + 1]
        mode = " ".join(x for x in sc["model_opts"] if x.startswith("--")) or "default"
        dist[mode] = dist.get(mode, 0) + 1
        edited = any(ob["final"].get(nm) != data for nm, data in sc["files"])
        chk.count(("c05", tuple(ob["argv"]), tuple(sc["files"])), nontrivial=edited)
        for s_, o_, m_, what in ((sc, ob, m, "-i run"), (tw, tob, tm, "twin run")):
            d = D.compare(s_, o_, m_)
            if d:
                chk.violation(f"correspondence:driver model ({what})", {"argv": o_["argv"], "files": [(a, b.decode(errors='replace')) for a, b in s_["files"]],
                              "diff": d, "rc": o_["rc"], "stderr": o_["err"].decode(errors="replace")[-300:]}, concrete=o_["rc"] not in (0, 1))
        badfiles = [nm for nm, data in sc["files"] if nm not in sc["unnamed"] and data == D.BAD_UTF8]
        if badfiles:
            dist["with a file that is not UTF-8"] = dist.get("with a file that is not UTF-8", 0) + 1
            changed = [nm for nm, data in sc["files"] if ob["final"].get(nm) != data]
            names_ = [nm for nm, _ in sc["files"]]
            if "--serial" in sc["opts"] and ob["rc"] != 0 and all(names_.index(nm) < min(names_.index(b_) for b_ in badfiles) for nm in changed):
                changed = []        # --serial works file by file: what it rewrote before the faulty file is C06's known finding
            elif "--serial" in sc["opts"] and ob["rc"] != 0:
                first_bad = min(names_.index(b_) for b_ in badfiles)
                early = {nm for nm in names_[:first_bad]} | {D.py_backup(nm) for nm in names_[:first_bad]}
                changed = [nm for nm in changed if nm not in early]
            if ob["rc"] == 0 or changed:
                chk.violation("spec:a file that is not UTF-8 was accepted or files were rewritten", {"argv": ob["argv"], "rc": ob["rc"], "not_utf8": badfiles, "changed": changed,
                              "after": {k_: repr(v_)[:120] for k_, v_ in ob["final"].items()}})
        if ob["rc"] != 0 or tob["rc"] != 0:
            continue
        # ---- direct oracles on the implementation ----
        named = [nm for nm, _ in sc["files"] if nm not in sc["unnamed"]]
        init = dict(sc["files"])
        # (a) nothing but the named files and their backups is created or modified
        allowed = set(named)
        if "--backup" in sc["opts"]:
            allowed |= {D.py_backup(nm) for nm in named}
        for nm, data in ob["final"].items():
            if nm not in allowed and init.get(nm) != data:
                chk.violation("spec:a file that was not named was created or modified", {"argv": ob["argv"], "file": nm})
        # (b) backups hold the original bytes
        if "--backup" in sc["opts"]:
            for nm in named:
                b = ob["final"].get(D.py_backup(nm))
                if b != init[nm]:
                    chk.violation("spec:backup does not hold the original bytes", {"argv": ob["argv"], "file": nm, "backup": repr(b), "original": repr(init[nm])})
        # (c) motion-only commands leave every file byte-identical
        if all(a in ("-m", "-n", "--next") or a in D.L.MOVES for a in sc["cmds"]):
            for nm in named:
                if ob["final"].get(nm) != init[nm]:
                    chk.violation("spec:motion-only commands changed a file", {"argv": ob["argv"], "file": nm, "before": init[nm].decode(errors="replace"), "after": ob["final"].get(nm, b"").decode(errors="replace")})
        # (d) content = what the twin prints for that file
        exp = twin_payloads(tw, tob, named)
        if exp is not None:
            for nm in named:
                if ob["final"].get(nm) != exp[nm]:
                    chk.violation("spec:file content differs from what the run without -i prints for it",
                                  {"argv": ob["argv"], "file": nm, "content": ob["final"].get(nm, b"").decode(errors="replace"),
                                   "twin_prints": exp[nm].decode(errors="replace"), "twin_stdout": tob["out"].decode(errors="replace")})
    chk.cov["traces_validated_against_impl"] = len(scs)
    chk.cov["input_distribution"] = dist
    chk.sample({"argv": obs[0]["argv"], "files": [(a, b.decode(errors="replace")) for a, b in scs[0]["files"]],
                "after": {k: v.decode(errors="replace") for k, v in obs[0]["final"].items()}})
    chk.cov["rule"] = ("1..5 files (with/without extension, dot files, empty, no final newline, CRLF, multi-byte) x {default, --serial, --linewise, --linewise --serial} x --backup, "
                       "editing/motion/cut command lists; every -i run and its twin without -i are executed in a scratch directory and compared with the Coq driver model "
                       "(final file bytes, directory listing, stdout, status), then the spec oracles: twin payload, motion-only identity, backups, no other file touched. "
                       "non-trivial = the run changed at least one file; distinct = distinct (argv, files)")
    known_lines = [f"KNOWN-FINDING: property=C05 class={k} {v}" for k, v in sorted(chk.known_hits.items())]
    return chk.finish(known_lines)


def twin_payloads(tw, tob, named):
    """What the run without -i prints for each file, cut out of its stdout."""
    out = tob["out"]
    serial = "--serial" in tw["opts"]
    if len(named) == 1:
        p = out
        if serial and p.endswith(b"\n"):
            p = p[:-1]                      # the framing newline of the serial branches
        return {named[0]: p}
    res = {nm: b"" for nm in named}
    # multi-file output: "--- name\n<payload>\n" blocks
    pos = 0
    order = []
    idx = []
    for nm in named:
        pass
    marks = []
    for nm in named:
        m = b"--- " + nm.encode() + b"\n"
        i = out.find(m)
        if i >= 0:
            marks.append((i, nm, len(m)))
    marks.sort()
    # ambiguous when a payload itself contains a marker line: give up on those
    for nm in named:
        if out.count(b"--- " + nm.encode() + b"\n") > 1:
            return None
    for k, (i, nm, ln) in enumerate(marks):
        end = marks[k + 1][0] if k + 1 < len(marks) else len(out)
        p = out[i + ln:end]
        if p.endswith(b"\n"):
            p = p[:-1]
        res[nm] = p
    return res


def replay(path):
    d = json.load(open(path))
    print(json.dumps(d["case"], indent=1, ensure_ascii=False)[:4000])
    return 0
