"""C17: vic programs compute what their source says (reference interpreter: Model/Vic.v)."""
import json

from ..common import C, ZInt, cli_map, run_coq_eval, txt, untxt
from ..vic_lang import Gen, dec

IMPORTS = ["Base.Prelude", "Model.Vic", "Model.Obs"]

INPUTS = ["alpha beta\ngamma\n", "x\n", "foo_bar baz\nl2\nl3\nl4", "7up here\n\nend\n", "z"]
BUILTINS = {"line": "num", "col": "num", "lines": "num", "char": "str", "word": "str"}


def builtin_values(text):
    import re
    nl = text.count("\n") + (0 if text.endswith("\n") or not text else 1)
    word = re.match(r"\w+", text).group(0)
    return [("line", C("VNum", ZInt(1))), ("col", C("VNum", ZInt(1))), ("lines", C("VNum", ZInt(max(nl, 1)))), ("char", C("VStr", text[0])), ("word", C("VStr", word))]


def V(x):
    return C("EVar", x)


def I(n):
    return C("EInt", ZInt(n))


def L(t):
    return C("ELit", [C("PText", t)])


# hand-written programs of the core: (source, AST). Recursion, shadowing, scope ends, early return from a loop in a
# function, break/continue from nested ifs, left-to-right arithmetic, string building
CORPUS = [
    ("def fact(n) {\n  if $n <= 1 {\n    return 1\n  }\n  let m = $n - 1\n  let r = fact($m)\n  let p = $n * $r\n  return $p\n}\nlet f5 = fact(5)\necho $f5\n",
     [C("SDef", "fact", ["n"], [C("SIf", [(C("ECmp", C("CLe"), V("n"), I(1)), [C("SReturn", I(1))])], None), C("SLet", "m", C("EBin", C("OSub"), V("n"), I(1))),
                                 C("SLet", "r", C("ECall", "fact", [V("m")])), C("SLet", "p", C("EBin", C("OMul"), V("n"), V("r"))), C("SReturn", V("p"))]),
      C("SLet", "f5", C("ECall", "fact", [I(5)])), C("SEcho", [V("f5")])]),
    ("let x = 1\nif $x == 1 {\n  let x = 2\n  echo $x\n  if $x == 2 {\n    let x = 3\n    echo $x\n  }\n  echo $x\n}\necho $x\n",
     [C("SLet", "x", I(1)), C("SIf", [(C("ECmp", C("CEq"), V("x"), I(1)), [C("SLet", "x", I(2)), C("SEcho", [V("x")]),
                                        C("SIf", [(C("ECmp", C("CEq"), V("x"), I(2)), [C("SLet", "x", I(3)), C("SEcho", [V("x")])])], None), C("SEcho", [V("x")])])], None), C("SEcho", [V("x")])]),
    ("let x = 1\nfor i in 0..3 {\n  let x = 10\n  x += $i\n}\necho $x\nlet j = 0\nwhile $j < 2 {\n  j += 1\n  let x = 7\n}\necho $x $j\n",
     [C("SLet", "x", I(1)), C("SFor", "i", C("ERange", False, I(0), I(3)), [C("SLet", "x", I(10)), C("SSet", "x", C("Some", C("OAdd")), V("i"))]), C("SEcho", [V("x")]),
      C("SLet", "j", I(0)), C("SLoop", False, C("ECmp", C("CLt"), V("j"), I(2)), [C("SSet", "j", C("Some", C("OAdd")), I(1)), C("SLet", "x", I(7))]), C("SEcho", [V("x"), V("j")])]),
    ("def find(t) {\n  for i in 0..10 {\n    if $i == $t {\n      return $i\n    }\n  }\n  return -1\n}\nlet a = find(4)\nlet b = find(40)\necho $a $b\n",
     [C("SDef", "find", ["t"], [C("SFor", "i", C("ERange", False, I(0), I(10)), [C("SIf", [(C("ECmp", C("CEq"), V("i"), V("t")), [C("SReturn", V("i"))])], None)]), C("SReturn", I(-1))]),
      C("SLet", "a", C("ECall", "find", [I(4)])), C("SLet", "b", C("ECall", "find", [I(40)])), C("SEcho", [V("a"), V("b")])]),
    ("let s = \"\"\nfor i in 0..6 {\n  if $i == 1 {\n    continue\n  }\n  if $i == 4 {\n    break\n  }\n  push $s $i\n}\necho $s\n",
     [C("SLet", "s", C("ELit", [])), C("SFor", "i", C("ERange", False, I(0), I(6)), [C("SIf", [(C("ECmp", C("CEq"), V("i"), I(1)), [C("SContinue")])], None),
                                                                                      C("SIf", [(C("ECmp", C("CEq"), V("i"), I(4)), [C("SBreak")])], None), C("SPush", "s", V("i"))]), C("SEcho", [V("s")])]),
    ("let a = 2 + 3 * 4\nlet b = 2 + (3 * 4)\nlet c = 20 / 3 % 4\nlet d = 0 - 7 / 2\nlet e = -7 % 3\necho $a $b $c $d $e\n",
     [C("SLet", "a", C("EBin", C("OMul"), C("EBin", C("OAdd"), I(2), I(3)), I(4))), C("SLet", "b", C("EBin", C("OAdd"), I(2), C("EBin", C("OMul"), I(3), I(4)))),
      C("SLet", "c", C("EBin", C("OMod"), C("EBin", C("ODiv"), I(20), I(3)), I(4))), C("SLet", "d", C("EBin", C("ODiv"), C("EBin", C("OSub"), I(0), I(7)), I(2))),
      C("SLet", "e", C("EBin", C("OMod"), I(-7), I(3))), C("SEcho", [V("a"), V("b"), V("c"), V("d"), V("e")])]),
    ("let a = [1, 2]\npush $a 3\na[0] = 9\nlet n = 0\nfor v in $a {\n  n += $v\n}\npop $a\necho $a $n\nlet w = \"ab\"\nfor ch in $w {\n  echo $ch\n}\n",
     [C("SLet", "a", C("EArr", [I(1), I(2)])), C("SPush", "a", I(3)), C("SSetIdx", "a", I(0), I(9)), C("SLet", "n", I(0)), C("SFor", "v", V("a"), [C("SSet", "n", C("Some", C("OAdd")), V("v"))]),
      C("SPop", "a"), C("SEcho", [V("a"), V("n")]), C("SLet", "w", L("ab")), C("SFor", "ch", V("w"), [C("SEcho", [V("ch")])])]),
    # a name whose block has ended expands to nothing and does not disturb the other interpolations of the literal
    ("let a = 1\nlet b = 2\nif $a == 1 {\n  let tmp = 9\n  echo \"in ${{tmp}} ${{a}}\"\n}\necho \"out ${{tmp}} a=${{a}} b=${{b}}\"\nlet s = \"x${{tmp}}y${{b}}z\"\necho $s\n",
     [C("SLet", "a", I(1)), C("SLet", "b", I(2)),
      C("SIf", [(C("ECmp", C("CEq"), V("a"), I(1)), [C("SLet", "tmp", I(9)), C("SEcho", [C("ELit", [C("PText", "in "), C("PVar", "tmp"), C("PText", " "), C("PVar", "a")])])])], None),
      C("SEcho", [C("ELit", [C("PText", "out "), C("PVar", "tmp"), C("PText", " a="), C("PVar", "a"), C("PText", " b="), C("PVar", "b")])]),
      C("SLet", "s", C("ELit", [C("PText", "x"), C("PVar", "tmp"), C("PText", "y"), C("PVar", "b"), C("PText", "z")])), C("SEcho", [V("s")])]),
    # pop as an expression inside blocks: the value goes into a variable of the block, the stack - declared outside - shrinks
    ("let stack = [1, 2, 3]\nif 1 == 1 {\n  let top = pop $stack\n  echo $top\n  if $top == 3 {\n    let nxt = pop $stack\n    echo $nxt\n  }\n}\necho $stack\nlet last = pop $stack\necho $last $stack\n",
     [C("SLet", "stack", C("EArr", [I(1), I(2), I(3)])),
      C("SIf", [(C("ECmp", C("CEq"), I(1), I(1)), [C("SLet", "top", C("EIdx", "stack", I(2))), C("SPop", "stack"), C("SEcho", [V("top")]),
                                                    C("SIf", [(C("ECmp", C("CEq"), V("top"), I(3)), [C("SLet", "nxt", C("EIdx", "stack", I(1))), C("SPop", "stack"), C("SEcho", [V("nxt")])])], None)])], None),
      C("SEcho", [V("stack")]), C("SLet", "last", C("EIdx", "stack", I(0))), C("SPop", "stack"), C("SEcho", [V("last"), V("stack")])]),
    # a number on its own as a condition: everything but 0 is true
    ("let x = 0 - 2\nwhile $x {\n  echo $x\n  x += 1\n}\nlet d = 3 - 5\nif $d {\n  echo \"differ\"\n} else {\n  echo \"same\"\n}\nif !$d {\n  echo \"zero\"\n}\n",
     [C("SLet", "x", C("EBin", C("OSub"), I(0), I(2))), C("SLoop", False, V("x"), [C("SEcho", [V("x")]), C("SSet", "x", C("Some", C("OAdd")), I(1))]),
      C("SLet", "d", C("EBin", C("OSub"), I(3), I(5))), C("SIf", [(V("d"), [C("SEcho", [L("differ")])])], C("Some", [C("SEcho", [L("same")])])),
      C("SIf", [(C("ENot", V("d")), [C("SEcho", [L("zero")])])], None)]),
]


def run(chk, binary):
    rng = chk.rng
    thorough = chk.tier == "thorough"
    chk.proof_obligations()
    n = 5000 if thorough else 700
    progs = [{"terms": t, "src": "opts { no_input }\n" + src, "features": ["corpus"], "stdin": "", "globals": []} for src, t in CORPUS]
    for k in range(n):
        if k % 4 == 3:
            # a program over an input buffer: the built-ins of the start position feed its conditions;
            # silent keeps the buffer out of stdout
            text = rng.choice(INPUTS)
            g = Gen(rng, BUILTINS)
            terms, lines = g.program()
            progs.append({"terms": terms, "src": "opts { silent }\n" + "\n".join(lines) + "\n", "features": sorted(g.features | {"builtins"}), "stdin": text, "globals": builtin_values(text)})
        else:
            g = Gen(rng)
            terms, lines = g.program()
            progs.append({"terms": terms, "src": "opts { no_input }\n" + "\n".join(lines) + "\n", "features": sorted(g.features), "stdin": "", "globals": []})
    n = len(progs)
    res = cli_map(binary, [{"args": [p["src"]], "stdin": p["stdin"], "timeout": 10} for p in progs])
    model = run_coq_eval("c17", IMPORTS, "vic_obs", [(p["globals"], p["terms"]) for p in progs], shard=60)
    dist = {"features": {}, "reference_error": 0, "reference_out_of_fuel": 0, "impl_parse_error": 0, "impl_runtime_error": 0, "statements": 0}
    for p, (rc, out, err), m in zip(progs, res, model):
        for f in p["features"]:
            dist["features"][f] = dist["features"].get(f, 0) + 1
        dist["statements"] += p["src"].count("\n")
        chk.count(("c17", p["src"]), nontrivial=True)
        kind, mout = m
        case = {"program": p["src"], "features": p["features"]}
        e = err.decode("utf-8", "replace")
        if kind == 2:
            dist["reference_out_of_fuel"] += 1
            continue
        if kind == 1:
            dist["reference_error"] += 1      # the generator slipped outside the well-defined core: not compared
            continue
        exp = dec(untxt(mout))
        if rc == "timeout":
            chk.violation("spec:program did not terminate", dict(case, reference_output=exp))
            continue
        if "panicked at" in e or rc not in (0, 1):
            chk.violation("spec:vic program panicked", dict(case, stderr=e[-400:], reference_output=exp))
            continue
        o = out.decode("utf-8", "replace")
        if rc == 1:
            if "failed to parse" in e or "error parsing" in e:
                dist["impl_parse_error"] += 1
                chk.violation("spec:a program of the core grammar is rejected by the parser", dict(case, stderr=e[-500:]))
            else:
                dist["impl_runtime_error"] += 1
                chk.violation("spec:a well-defined program ends with a run-time error", dict(case, stderr=e[-300:], stdout=o, reference_output=exp))
            continue
        if p["stdin"] and o == exp + "\n":
            o = exp           # with opts { silent } the (suppressed) buffer still costs one newline at the end
        if o != exp:
            chk.violation("correspondence:printed text differs from the reference interpreter", dict(case, stdout=o, reference_output=exp))
    chk.cov["traces_validated_against_impl"] = n
    chk.cov["input_distribution"] = dist
    chk.sample({"program": progs[0]["src"]})
    chk.cov["rule"] = ("programs generated from the expressible core grammar (3..14 top-level statements, nesting to depth 4, up to ~40 statements): let / assignment / compound assignment, left-to-right arithmetic with "
                       "parentheses and negative literals, comparisons over values, && ||, if/elif/else, while/until with a counter, for over ranges, arrays, array literals and strings, push/pop/index, "
                       "functions with 0..3 parameters and return (also from inside if), break/continue (also from inside if), shadowing lets in nested blocks, string interpolation, echo; every program ends "
                       "by echoing all top-level variables; run with opts { no_input }; stdout compared byte for byte with the reference interpreter evaluated in coqc")
    chk.assumptions += ["well-defined core only: integers stay small, divisors are non-zero literals, indices are in bounds, loops terminate; functions use only parameters and top-level variables",
                        "the pest grammar is not modelled: the generator writes the source text and the AST side by side"]
    return chk.finish()


def replay(path):
    d = json.load(open(path))
    print(json.dumps(d["case"], indent=1, ensure_ascii=False)[:4000])
    return 0
