"""C13: -g runs on exactly the matching lines, -v on exactly the others."""
import json
import re

from ..common import C, Nat, cli_map, run_coq_eval, server_map, txt, untxt

IMPORTS = ["Base.Prelude", "Model.Global", "Model.Obs"]
BODIES = ["foo bar", "alpha beta", "", "foo", "  indented foo", "héé wörld", "xx foo yy", "123 456", "日本語 テキスト", "bar baz qux", "a", "étude café",
          "key=value", "FOO upper", "foo.bar(baz)", "tab\there", "9 lives", "zz top"]
PATTERNS = ["foo", "bar", "a", "^f", "o$", "\\d", "\\d+", "\\w+ \\w+", "[A-Z]", "ba.", "foo|bar", "^$", "é", "日本", "x+", "^\\s", "z", "=", "^[a-z]+$", "o o"]


def gen_text(rng):
    n = rng.randint(0, 9)
    lines = [rng.choice(BODIES) for _ in range(n)]
    text = "\n".join(lines)
    if n and rng.random() < 0.7:
        text += "\n"
    return text


def ref_lines(text):
    """elements of the text split on newlines; a final newline does not start another line"""
    if text == "":
        return [""]
    ls = text.split("\n")
    if text.endswith("\n"):
        ls = ls[:-1]
    return ls


def first_cluster(l):
    import unicodedata
    out = l[0]
    for ch in l[1:]:
        if unicodedata.combining(ch):
            out += ch
        else:
            break
    return out


def clusters_of(binary_state):
    b = binary_state["buf"].encode("utf-8")
    idx = binary_state["fresh"] + [len(b)]
    return [b[idx[i]:idx[i + 1]].decode("utf-8") for i in range(len(idx) - 1)]


def run(chk, binary):
    rng = chk.rng
    thorough = chk.tier == "thorough"
    chk.proof_obligations()
    n = 5000 if thorough else 700
    jobs = []
    meta = []
    for _ in range(n):
        text = gen_text(rng)
        pat = rng.choice(PATTERNS)
        flag = rng.choice(["-g", "-g", "-v"])
        variant = rng.choice(["mark", "cut", "else", "tally", "top", "nested", "elsecut", "open", "open2", "dangling", "dot", "exbody", "failbody"])
        pat2 = rng.choice(PATTERNS)
        if variant == "tally":
            # the scope also edits the first line each time: the lines still to be visited move
            argv = [flag, pat, "-m", "I#<esc>", "-m", "ggA|<esc>", "--end"]
        elif variant == "top":
            argv = [flag, pat, "-m", "I#<esc>", "-m", "ggOnew<esc>", "--end"]
        elif variant == "elsecut":
            # the scope only edits, its --else branch cuts: when lines are selected the edited text is what is printed
            argv = [flag, pat, "-m", "I#<esc>", "--else", "-c", "e", "--end"]
        elif variant == "open":
            # two key commands in the scope, the first leaves insert mode open: each starts in normal mode all the same
            argv = [flag, pat, "-m", "I#", "-m", "A$", "--end"]
        elif variant == "open2":
            # a command that leaves a selection open on the visited line (an empty one, often), then the mark
            argv = [flag, pat, "-m", rng.choice(["v", "V", "i", "R"]), "-m", "I#<esc>", "--end"]
        elif variant == "dangling":
            # the scope ends in an unfinished command: it is forgotten before the next line is visited
            argv = [flag, pat, "-m", "I#<esc>", "-m", rng.choice(["d", "f", "g", "2", '"a', "c"]), "--end"]
        elif variant == "nested":
            # a scope of its own in the --else branch: it runs (once) only when the outer set is empty
            argv = [flag, pat, "-m", "I#<esc>", "--else", "-g", pat2, "-m", "I%<esc>", "--end", "--end"]
        elif variant == "dot":
            # the scope repeats, on every line it visits, a change made before it (a session typed at the very start of the text)
            argv = ["-m", "ggi#<esc>", flag, pat, "-m", ".", "--end"]
        elif variant == "failbody":
            # a body command that fails half-way (an unknown ex command with keys behind it): the keys it did not get to are
            # gone, they do not run on the next line that is visited
            argv = [flag, pat, "-m", "I#<esc>", "-m", rng.choice([":nosuch<CR>x", ":nosuch<CR>dd", ":nosuch<CR>A!<esc>", ":99,1d<CR>"]), "--end"]
        elif variant == "exbody":
            # an ex command without an address in the scope works on the visited line - also when a selection was made and closed earlier
            argv = ["-m", rng.choice(["vly", "Vy", "vjy", "viwy"]), flag, pat, "-m", ":s/^/#/<CR>", "--end"]
        elif variant == "mark":
            argv = [flag, pat, "-m", "I#<esc>", "--end"]
        elif variant == "cut":
            argv = ["--json", flag, pat, "-c", "v", "-n", "--end"]      # the character under the cursor
        else:
            argv = [flag, pat, "-m", "I#<esc>", "--else", "-m", "ggI!<esc>", "--end"]
        jobs.append({"args": argv, "stdin": text})
        meta.append((text, pat, flag, variant, argv, pat2))
    res = cli_map(binary, jobs)
    dist = {"mark": 0, "cut": 0, "else": 0, "tally": 0, "top": 0, "nested": 0, "elsecut": 0, "open": 0, "open2": 0, "dangling": 0, "dot": 0, "exbody": 0, "failbody": 0, "final_newline": 0, "empty_lines": 0, "multibyte": 0, "else_taken": 0}
    mcases = []
    mmeta = []
    for (text, pat, flag, variant, argv, pat2), (rc, out, err) in zip(meta, res):
        chk.count(("c13", text, pat, flag, variant), nontrivial=len(ref_lines(text)) >= 2)
        dist[variant] += 1
        if text.endswith("\n"):
            dist["final_newline"] += 1
        if any(l == "" for l in ref_lines(text)[:-1]) or "\n\n" in text:
            dist["empty_lines"] += 1
        if any(ord(c) > 127 for c in text):
            dist["multibyte"] += 1
        lines = ref_lines(text)
        if variant == "dot" and lines and text:
            lines = ["#" + lines[0]] + lines[1:]          # the change made before the scope; the pattern sees the text as it then is
        try:
            hit = [bool(re.search(pat, l)) for l in lines]
        except re.error:
            continue
        want = [i for i, h in enumerate(hit) if h == (flag == "-g")]
        case = {"argv": argv, "stdin": text, "pattern": pat, "expected_lines": want, "stdout": out.decode(errors="replace"), "rc": rc}
        if rc != 0:
            chk.violation("spec:run failed", dict(case, stderr=err.decode(errors="replace")[-300:]))
            continue
        sout = out.decode("utf-8", errors="replace")
        if variant == "elsecut" and not want:
            continue            # the else branch cut a field: not the subject here
        if variant in ("dot", "exbody"):
            if text == "":
                continue
            exp = "\n".join(("#" + l if i in want else l) for i, l in enumerate(lines)) + ("\n" if text.endswith("\n") else "")
            if sout != exp + "\n":
                chk.violation("spec:-g/-v did not run on exactly the expected lines", dict(case, expected_stdout=exp + "\n"))
            continue
        if variant in ("mark", "else", "tally", "top", "nested", "elsecut", "open", "open2", "dangling", "failbody"):
            # every visited line gets '#' before its first non-blank character, no other line changes
            exp_lines = []
            for i, l in enumerate(lines):
                if i in want:
                    k = len(l) - len(l.lstrip(" \t"))
                    exp_lines.append(l[:k] + "#" + l[k:] + ("$" if variant == "open" else ""))
                else:
                    exp_lines.append(l)
            if variant == "nested" and not want:
                try:
                    want2 = [i for i, l in enumerate(lines) if re.search(pat2, l)]
                except re.error:
                    continue
                exp_lines = []
                for i, l in enumerate(lines):
                    k = len(l) - len(l.lstrip(" \t"))
                    exp_lines.append(l[:k] + "%" + l[k:] if i in want2 else l)
            if variant == "tally" and want:
                exp_lines[0] += "|" * len(want)
            if variant == "top":
                exp_lines = ["new"] * len(want) + exp_lines
            exp = "\n".join(exp_lines) + ("\n" if text.endswith("\n") else "")
            if variant == "else" and not want:
                dist["else_taken"] += 1
                exp = "!" + text if text else "!"
                k = len(lines[0]) - len(lines[0].lstrip(" \t"))
                exp = lines[0][:k] + "!" + lines[0][k:] + text[len(lines[0]):]
            if text == "":
                continue        # an empty buffer has no line to mark; left to C10
            if sout != exp + "\n" and variant == "top" and len(want) >= 2:
                # lines are visited by number, last first: a scope that adds or removes lines above the visited one
                # renumbers the lines still to be visited (Vim's :g marks the lines instead)
                chk.known("scope-changes-line-count-above", "a -g/-v scope whose commands insert or delete lines above the visited line makes later visits land on the wrong lines: "
                          "-g foo -m 'I#<esc>' -m 'ggOnew<esc>' --end on 'foo\\nbar\\nfoo\\n' marks 'new' instead of the first foo")
            elif sout != exp + "\n":
                chk.violation("spec:-g/-v did not run on exactly the expected lines" if not (variant == "else" and not want) else "spec:--else branch did not run exactly once on an empty set",
                              dict(case, expected_stdout=exp + "\n"))
        else:
            try:
                recs = json.loads(sout) if sout.strip() else []
            except Exception as e:
                chk.violation("spec:json not decodable", dict(case, error=str(e)))
                continue
            got = [r.get("1") for r in recs]
            # the cut starts at the cursor (first character of the line) and runs to the end of the line
            exp = []
            for i in reversed(want):
                l = lines[i]
                exp.append(first_cluster(l) if l != "" else ("\n" if (i < len(lines) - 1 or text.endswith("\n")) else ""))
            if text == "":
                continue
            if got != exp:
                chk.violation("spec:the cursor is not on the first character of each visited line (cut of the character under the cursor)", dict(case, got=got, expected=exp))
        # model case: clusters = characters here is not right for combining text; ask the binary for the segmentation
        mcases.append((text, pat, flag, lines, hit))
    # ---- correspondence: the model's visited lines and line starts vs the implementation's scan (hook: keys op with :g) ----
    reqs = [{"op": "keys", "text": t, "cursor": 0, "keys": []} for t, _, _, _, _ in mcases]
    inits = server_map(binary, reqs)
    cases = []
    cm = []
    for (text, pat, flag, lines, hit), a in zip(mcases, inits):
        cl = clusters_of(a["init"])
        tbl = []
        for l, h in zip(lines, hit):
            tbl.append((txt(l), h))
        cases.append(([txt(c) for c in cl], tbl, flag == "-g"))
        cm.append((text, pat, flag, lines, hit, cl))
    model = run_coq_eval("c13", IMPORTS, "global_obs", cases, shard=400)
    for (text, pat, flag, lines, hit, cl), m in zip(cm, model):
        want = [i for i, h in enumerate(hit) if h == (flag == "-g")]
        got = [int(n) for n, _ in m]
        if text != "" and got != list(reversed(want)):
            chk.violation("correspondence:model scan vs reference lines", {"stdin": text, "pattern": pat, "flag": flag, "model": got, "reference": want}, concrete=False)
        # line starts: the model's start of a visited line is the cluster index where that line begins
        starts = {}
        pos = 0
        li = 0
        starts[0] = 0
        for i, c in enumerate(cl):
            if c == "\n":
                li += 1
                starts[li] = i + 1
        for n_, s_ in m:
            if starts.get(int(n_)) != int(s_):
                chk.violation("correspondence:line start", {"stdin": text, "line": int(n_), "model_start": int(s_), "expected": starts.get(int(n_))}, concrete=False)
    chk.cov["traces_validated_against_impl"] = len(cases)
    # ---- the text comes from a file (empty files too): the scope and its --else branch run as they do on the same text from stdin ----
    from .. import drivers as D
    fjobs, fmeta = [], []
    for content in ["", "foo\n", "bar\n", "\n", "foo\nbar", "x\nfoo\n"]:
        for argv in (["-g", "foo", "-m", "I><esc>", "--else", "-m", "iNONE<esc>", "--end"], ["-v", "foo", "-m", "iX<esc>", "--end"], ["-g", "foo", "-c", "e", "--else", "-c", "$", "--end"]):
            for mode in ([], ["--serial"]):
                fjobs.append({"files": [("only.txt", content.encode())], "opts": mode, "cmds": argv, "stdin": None})
                fmeta.append((content, argv, mode))
    fobs = D.scenarios_map(binary, fjobs)
    sres = cli_map(binary, [{"args": argv, "stdin": content} for content, argv, mode in fmeta])
    for (content, argv, mode), ob, sr in zip(fmeta, fobs, sres):
        chk.count(("c13-file", content, tuple(argv), tuple(mode)), nontrivial=True)
        dist["from_a_file"] = dist.get("from_a_file", 0) + 1
        # (the stdin driver and the serial file driver end their output with one framing newline, the parallel one does not)
        if ob["rc"] != sr[0] or sr[1] not in (ob["out"], ob["out"] + b"\n"):
            chk.violation("spec:-g/-v on a text from a file differs from the same text on stdin", {"argv": ob["argv"], "file_content": content, "stdout_file": ob["out"].decode(errors="replace"),
                          "stdout_stdin": sr[1].decode(errors="replace"), "rc": [ob["rc"], sr[0]]})
    chk.cov["input_distribution"] = dist
    chk.sample({"argv": meta[0][4], "stdin": meta[0][0], "stdout": res[0][1].decode(errors="replace")})
    chk.cov["rule"] = ("texts of 0..9 lines from 18 bodies (empty lines, indented, multi-byte, combining) with and without final newline x 20 patterns of the shared regex subset x -g/-v x three observation variants "
                       "(mark every visited line with I#<esc>; cut '$' per visited line with --json; --else marking); reference = Python re.search per line of the text split on newlines; "
                       "the Coq model's scan (visited lines, last first, and their starts) is evaluated on the real segmentation and compared. non-trivial = at least two lines")
    chk.assumptions += ["regex matching is an oracle (Python re on the shared subset); CRLF texts are not generated here (a \\r\\n cluster is not a line break for the editor: class CRLF of C09)"]
    known_lines = [f"KNOWN-FINDING: property=C13 class={k} {v}" for k, v in sorted(chk.known_hits.items())]
    return chk.finish(known_lines)


def replay(path):
    d = json.load(open(path))
    print(json.dumps(d["case"], indent=1, ensure_ascii=False)[:4000])
    return 0
