"""C01: a cut field is exactly the text spanned by the cursor's movement."""
import json
import re

from .. import vim_lang as V
from ..common import C, Nat, run_coq_eval, server_map, txt, untxt

IMPORTS = ["Base.Prelude", "Model.Text", "Model.Obs"]


BLOCK_TEXTS = ["abc\nabd\n", "ab cd ef\nab cd\n", "one two three\nfour five six\nseven eight nine\n", "a\nbcd\nef\nghij\n", "long line here\nx\nlong again ok\n",
               "ab\n\ncd ef\n", "foo bar\nbaz qux\nquux\n", "x y z\n", "1234567\n12345\n123\n1\n",
               # characters of several code points in front of the block: rows and columns count characters
               "a\u0301b\u0301c\nhello\nworld\n", "e\u0301\u0301x\nabc\nabd\n", "\U0001F468\u200D\U0001F469 ab\ncd ef gh\nij kl\n", "héllo wörld\nabc def\n"]


def parse_sel(st):
    """select_mode/select_range debug strings -> (mode index, model range) or None"""
    m, r = st.get("select_mode"), st.get("select_range")
    if m is None or r is None:
        return None
    mode = 0 if m.startswith("Char") else (1 if m.startswith("Line") else 2)
    nums = [int(x) for x in re.findall(r"\d+", r)]
    if r.startswith("OneDim"):
        return (mode, C("OneDim", Nat(nums[0]), Nat(nums[1])))
    return (mode, C("TwoDim", [(Nat(nums[i]), Nat(nums[i + 1])) for i in range(0, len(nums), 2)]))


def clusters(st):
    b = st["buf"].encode("utf-8")
    idx = st["fresh"] + [len(b)]
    return [b[idx[i]:idx[i + 1]].decode("utf-8") for i in range(len(idx) - 1)]


def run(chk, binary):
    rng = chk.rng
    thorough = chk.tier == "thorough"
    chk.proof_obligations()
    n = 20000 if thorough else 2500
    reqs = []
    meta = []
    for _ in range(n):
        text = rng.choice(V.TEXTS)
        prefix = [V.any_cmd(rng) for _ in range(rng.choice([0, 0, 1, 1, 2, 3]))]   # reach a cursor by earlier commands
        if rng.random() < 0.06:
            prefix = prefix + [rng.choice(["d", "c", "y", '"a', "2", "g", "2d", "f"])]      # an unfinished command: forgotten at the end of its argument
        if rng.random() < 0.15:
            # an edit taken back (and perhaps redone) just before: the text is an earlier one again, the tables must be too
            prefix = prefix + [V.edit(rng), "u"] + (["<c-r>"] if rng.random() < 0.4 else [])
        r = rng.random()
        cmd = V.nonedit(rng) if r < 0.8 else V.edit(rng)
        if r < 0.04:
            # whole lines: V alone, or extended upwards or downwards - the field is those lines, line breaks included
            cmd = "V" + "".join(rng.choice(["", "k", "j", "kk", "gg", "G"]) for _ in range(rng.randint(0, 2)))
            if rng.random() < 0.6:
                prefix = prefix + ["G"]
        elif r < 0.08:
            # a selection that goes back and forth over the place where v was pressed
            cmd = "v" + "".join(rng.choice(["b", "h", "k", "w", "l", "j", "e", "ge", "0", "$", "B", "W", "2h", "2l"]) for _ in range(rng.randint(2, 4)))
        keys = prefix + [cmd]
        # any index is reachable (by l/j); start there, then the optional earlier commands
        start = rng.randint(0, max(0, len(text) - 1)) if rng.random() < 0.7 else 0
        reqs.append({"op": "keys", "text": text, "cursor": start, "keys": keys, "pre_snm": True})
        meta.append((text, prefix, cmd, r < 0.8))
    ans = server_map(binary, reqs)
    cases = []
    cmeta = []
    steps_of = {}
    dist = {"with_selection": 0, "backward": 0, "multibyte": 0, "edit": 0, "failed_cmd": 0, "panic": 0}
    for (text, prefix, cmd, is_nonedit), a in zip(meta, ans):
        steps = a.get("steps", [])
        if len(steps) != len(prefix) + 1 or "panic" in steps[-1] or "pre_snm" not in steps[-1]:
            dist["panic"] += 1
            chk.count(("c01", text, tuple(prefix), cmd), nontrivial=False)
            continue
        before = steps[-2] if len(steps) >= 2 else a["init"]
        st = steps[-1]["pre_snm"]
        field = steps[-1]["field"]
        c0, c1 = before["cursor"], st["cursor"]
        sel = parse_sel(st)
        if sel:
            dist["with_selection"] += 1
        if c1 < c0:
            dist["backward"] += 1
        if any(ord(ch) > 127 for ch in st["buf"]):
            dist["multibyte"] += 1
        if not is_nonedit:
            dist["edit"] += 1
        chk.count(("c01", text, tuple(prefix), cmd), nontrivial=(c0 != c1 or sel is not None))
        if "err" in field and "ok" not in field:
            dist["failed_cmd"] += 1
        cached = st["cached"] if st["cached"] is not None else st["fresh"]
        cases.append((txt(st["buf"]), [Nat(x) for x in cached], Nat(st["cmax"]), Nat(c0), Nat(c1), None if sel is None else C("Some", sel)))
        cmeta.append((text, prefix, cmd, is_nonedit, before, st, field, c0, c1, sel))
        steps_of[id(st)] = steps[-1].get("cmds", [])
    model = run_coq_eval("c01", IMPORTS, "field_obs", cases, shard=500)
    for (text, prefix, cmd, is_nonedit, before, st, field, c0, c1, sel), m in zip(cmeta, model):
        case = {"text": text, "prefix": prefix, "cmd": cmd, "cursor_before": c0, "cursor_after": c1, "buffer_after": st["buf"],
                "selection": [st.get("select_mode"), st.get("select_range")], "field": field}
        mfield = untxt(m.args[0]) if isinstance(m, C) and m.name == "Some" else None
        ifield = field.get("ok")
        # the loop may fail (Err) before the slice: then no field at all; compare only when the loop succeeded
        loop_failed = "err" in field and field["err"] != "Failed to slice buffer"
        if not loop_failed and mfield != ifield:
            chk.violation("correspondence:read_field", dict(case, model=mfield), concrete=False)
        # ---- spec oracle on the implementation's own observations ----
        cl = clusters(st)
        if ifield is not None:
            if sel is None:
                if st["buf"] == "":
                    exp = ""
                else:
                    s_ = min(min(c0, c1), len(cl) - 1)
                    e_ = min(max(c0, c1) + 1, len(cl))
                    exp = "".join(cl[s_:e_])
                if ifield != exp:
                    chk.violation("spec:field is not the stretch between the two cursor positions", dict(case, expected=exp))
            else:
                mode, rg = sel
                if rg.name == "OneDim":
                    s_, e_ = int(rg.args[0]), int(rg.args[1])
                    exp = "".join(cl[s_:min(e_ + 1, len(cl))]) if mode == 0 else "".join(cl[s_:e_])
                else:
                    exp = "\n".join("".join(cl[int(a):int(b)]) for a, b in rg.args[0] if int(a) <= int(b) <= len(cl) and int(a) < len(cl))
                if ifield != exp:
                    chk.violation("spec:field is not the selected text", dict(case, expected=exp))
                # a characterwise selection made by v and plain motions only: it runs from where v was pressed to the cursor
                tr = steps_of[id(st)]
                if (mode == 0 and rg.name == "OneDim" and tr and tr[0].get("verb") == "VisualMode" and len(tr) >= 2
                        and all(c.get("verb") is None and c.get("motion") and not c["motion"].startswith(("TextObj", "Null")) and c.get("done") for c in tr[1:])):
                    dist["v_plus_motions"] = dist.get("v_plus_motions", 0) + 1
                    if (int(rg.args[0]), int(rg.args[1])) != (min(c0, c1), max(c0, c1)):
                        chk.violation("spec:a selection made by v and motions does not run from where v was pressed to the cursor",
                                      dict(case, expected_range=[min(c0, c1), max(c0, c1)]))
                # whole lines chosen by V and vertical motions only: the field is the lines between the two cursor positions, with
                # their line breaks - worked out from the text, not from the range the editor reports
                # (one direction only: where the fixed end stays when the direction turns is how V works - C02 - not what is cut)
                if mode == 1 and (re.fullmatch(r"V(k|gg)*", cmd) or re.fullmatch(r"V(j|G)*", cmd)):
                    cl_ = clusters(st)
                    def line_of(i_):
                        return sum(1 for x_ in cl_[:min(i_, len(cl_))] if x_ == "\n")
                    la, lb = sorted((line_of(c0), line_of(min(c1, max(0, len(cl_) - 1)))))
                    rows, cur_ = [], ""
                    for x_ in cl_:
                        cur_ += x_
                        if x_ == "\n":
                            rows.append(cur_)
                            cur_ = ""
                    if cur_:
                        rows.append(cur_)
                    expv = "".join(rows[la:lb + 1])
                    dist["V_lines"] = dist.get("V_lines", 0) + 1
                    if rows and ifield != expv:
                        chk.violation("spec:a selection made by V and vertical motions is not the whole lines between the two cursor positions", dict(case, expected=expv))
                # the cursor lies inside the selection it cut
            # the field is a contiguous, cluster-aligned stretch of the buffer
            if ifield and ifield not in st["buf"] and sel is None:
                chk.violation("spec:field is not a contiguous stretch of the buffer", case)
        elif not loop_failed and st["buf"] != "" and sel is None:
            chk.violation("spec:no field although the buffer is not empty", case)
        # ---- motions, selections and yanks leave the text unchanged ----
        if is_nonedit and st["buf"] != before["buf"]:
            chk.violation("spec:a command made only of motions/selections/yanks changed the text", dict(case, buffer_before=before["buf"]))
    # ---- block selections made by <c-v> and plain motions: the field is the rectangle between where <c-v> was pressed and
    # the cursor, worked out here from the two positions alone (not from the windows the editor reports) ----
    breqs, bmeta = [], []
    for _ in range(4000 if thorough else 600):
        text = rng.choice(BLOCK_TEXTS)
        if rng.random() < 0.5 and text.endswith("\n"):
            text = text[:-1]
        keys_ = [rng.choice(["j", "j", "k", "l", "l", "h", "w", "b", "e", "2j", "2l", "3l", "G", "gg", "}", "{", "W", "0", "o", "o"]) for _ in range(rng.randint(1, 4))]
        cmd = "<c-v>" + "".join(keys_)
        pre = rng.choice(["", "", "j", "l", "jl", "w"])           # the place where <c-v> is pressed is reached by a motion
        breqs.append({"op": "keys", "text": text, "cursor": 0, "keys": ([pre] if pre else []) + [cmd], "pre_snm": True})
        bmeta.append((text, pre, cmd))
    bans = server_map(binary, breqs)
    for (text, pre, cmd), a in zip(bmeta, bans):
        steps = a.get("steps", [])
        if len(steps) != (2 if pre else 1) or "panic" in steps[-1] or "pre_snm" not in steps[-1]:
            continue
        st = steps[-1]["pre_snm"]
        field = steps[-1]["field"].get("ok")
        if field is None or st["buf"] != text or not (st.get("select_mode") or "").startswith("Block"):
            continue
        tr = steps[-1].get("cmds", [])
        if not tr or not all(c.get("done") and (c.get("verb") == "SwapVisualAnchor" or (c.get("motion") and not c["motion"].startswith("Null"))) for c in tr[1:]):
            continue
        dist["block_rectangles"] = dist.get("block_rectangles", 0) + 1
        chk.count(("c01-block", text, pre, cmd), nontrivial=True)
        cl = clusters(st)                                  # the characters of the text, as the segmentation library cuts them
        start = tr[0]["c0"]
        # the two corners, followed through the commands: a motion moves the cursor, o swaps the corners
        anchor, cur = start, start
        on_break = False
        for c in tr[1:]:
            if c.get("verb") == "SwapVisualAnchor":
                anchor, cur = cur, anchor
            else:
                cur = min(c["c1"], len(cl) - 1)           # a motion that runs past the end stops on the last character
                if cl[cur] == "\n" and cur > 0 and cl[cur - 1] != "\n":
                    on_break = True
        if on_break:
            # a corner on the line break of a non-empty line (a motion overshot onto it): whether that column counts is
            # a matter of how the motion ends (C02), not of the cut
            dist["block_corner_on_line_break"] = dist.get("block_corner_on_line_break", 0) + 1
            continue
        def pos(i):
            ln = sum(1 for x in cl[:i] if x == "\n")
            ls = max([k_ + 1 for k_ in range(i) if cl[k_] == "\n"] or [0])
            return ln, i - ls
        (l0, k0), (l1, k1) = pos(anchor), pos(cur)
        lines, cur_line = [], []
        for x in cl:
            if x == "\n":
                lines.append(cur_line)
                cur_line = []
            else:
                cur_line.append(x)
        if cur_line or not cl or cl[-1] != "\n":
            lines.append(cur_line)
        rows = ["".join(ln[min(k0, k1):max(k0, k1) + 1]) for ln in lines[min(l0, l1):max(l0, l1) + 1]]
        exp = "\n".join(rows)                 # a line that does not reach the rectangle gives an empty row
        if field != exp:
            chk.violation("spec:a block selection made by <c-v>, motions and o is not the rectangle between its two corners",
                          {"text": text, "before": pre, "cmd": cmd, "corner_where_it_began": anchor, "cursor_after": cur, "field": field, "expected": exp,
                           "selection": [st.get("select_mode"), st.get("select_range")]})
    chk.cov["traces_validated_against_impl"] = len(cases) + len(breqs)
    chk.cov["input_distribution"] = dist
    if cmeta:
        t = cmeta[0]
        chk.sample({"text": t[0], "prefix": t[1], "cmd": t[2], "c0": t[7], "c1": t[8], "field": t[6]})
    chk.cov["rule"] = ("(text from 26 ASCII/multi-byte/combining/emoji/CRLF buffers incl. empty; 0-3 earlier commands to reach a cursor; one command from the motion / text-object / visual-selection / yank grammar with counts (80%) or an edit (20%)); "
                       "the real ViCut::read_field runs in-process, the state before set_normal_mode is dumped; the model read_field_post is evaluated on the dumped buffer/cache/cursors/selection and compared with the field; "
                       "spec oracle on the fresh segmentation: field = clusters between the cursor positions (or the selection); non-editing commands leave the buffer unchanged. non-trivial = cursor moved or selection active")
    chk.assumptions += ["the key loop itself (how a command moves the cursor) is an oracle here: the theorem is parametric in it; unicode-segmentation is observed through the hook (fresh offsets)"]
    return chk.finish()


def replay(path):
    d = json.load(open(path))
    print(json.dumps(d["case"], indent=1, ensure_ascii=False)[:4000])
    return 0
