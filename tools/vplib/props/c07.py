"""C07: undo restores the previous text, redo re-applies it."""
import json
import re

from .. import vim_lang as V
from ..common import C, run_coq_eval, server_map, txt, untxt

IMPORTS = ["Base.Prelude", "Model.Undo", "Model.Obs"]
EX_EDITS = [":s/o/0/<CR>", ":%s/a/A/g<CR>", ":d<CR>", ":2d<CR>", ":1,2d<CR>", ":s/\\w+/W/<CR>", ":%s/é/E/<CR>",
            # ex commands that may fail half-way: a substitute whose pattern does not compile, a range past the end, reading the
            # output of a shell command that prints something and then fails - whatever they did to the text is one change, or none
            ":s/(/x/<CR>", ":9,12d<CR>", ":r !printf 'X\\nY\\n'; exit 3<CR>", ":r !echo in<CR>", ":r !exit 2<CR>", ":2r !printf Z<CR>"]


BLOCK_EDITS = ["<c-v>jcX<esc>", "<c-v>jIab<esc>", "<c-v>jlAé<esc>", "<c-v>jjcnew<esc>", "<c-v>jld", "<c-v>jI<esc>", "l<c-v>jjc<esc>", "<c-v>jr#", "<c-v>j$Aend<esc>"]


SINGLES = ["ifoo bar<c-w>baz<esc>", "Ax y<c-w><c-w>z<esc>", "ohello<BS><BS><esc>", "iab<BS>c<esc>", "Aab cd<c-w>x<esc>", "cwZ<BS>Y<esc>", "Rab<BS>c<esc>", "ia<left>b<esc>", "Aé<left><left>y<esc>", "ox<up>y<esc>", "rx", "ry", "rZ", "x", "~", "cwQ<esc>", "clé<esc>", "oab<esc>", "Oz<esc>", "ix<esc>", "aé<esc>", "Rqq<esc>", "dw", "J", "ccnew<esc>", "s!<esc>", "p", "yl"]


ONE_SESSION_KEYS = {"iab<BS>c<esc>", "Aab cd<c-w>x<esc>", "cwZ<BS>Y<esc>", "Rab<BS>c<esc>", "oab<esc>", "Oz<esc>", "ix<esc>", "aé<esc>", "Rqq<esc>",
                    "cwQ<esc>", "clé<esc>", "ccnew<esc>", "s!<esc>", "ifoo bar<c-w>baz<esc>", "Ax y<c-w><c-w>z<esc>", "ohello<BS><BS><esc>"}


def gen_history(rng):
    n = rng.randint(1, 12)
    keys = []
    for _ in range(n):
        r = rng.random()
        if r < 0.04:
            # a session that the end of the key string closes, repeated at once, then undone: the repeat is a change of its own
            keys.append(rng.choice(["ifoo", "Axy", "oz", "cwQ", "ab<BS>c"]))
            keys += [".", "u"]
            if rng.random() < 0.5:
                keys.append(rng.choice(["u", "<c-r>"]))
        elif r < 0.12:
            # neighbouring changes with nothing, or only motions, between them: each is undone alone
            keys.append(rng.choice(SINGLES))
            for _ in range(rng.randint(0, 2)):
                keys.append(rng.choice(["w", "l", "h", "e", "0", "$", "j", "k", "b"]))
            keys.append(rng.choice(SINGLES))
            keys.append("u")
            if rng.random() < 0.4:
                keys.append(rng.choice(["u", "<c-r>"]))
        elif r < 0.18:
            keys.append(rng.choice(BLOCK_EDITS))
            if rng.random() < 0.5:
                keys += ["u", "<c-r>"]
        elif r < 0.62:
            keys.append(V.edit(rng))
        elif r < 0.70:
            keys.append(rng.choice(EX_EDITS))
        elif r < 0.78:
            keys.append(V.motion(rng))
        elif r < 0.92:
            keys.append("u" if rng.random() < 0.8 else rng.choice(["2u", "3u"]))
        else:
            keys.append("<c-r>")
        if rng.random() < 0.25:
            keys.append(rng.choice(["u", "u", "<c-r>"]))
    return keys


def run(chk, binary):
    rng = chk.rng
    thorough = chk.tier == "thorough"
    chk.proof_obligations()
    n = 12000 if thorough else 1500
    reqs = []
    meta = []
    for _ in range(n):
        text = rng.choice([t for t in V.TEXTS if t])
        hist = gen_history(rng)
        tail = ["u"] * 14            # enough u's to reach the original input
        start = rng.randint(0, max(0, len(text) - 1)) if rng.random() < 0.6 else 0
        reqs.append({"op": "keys", "text": text, "cursor": start, "keys": hist + tail})
        meta.append((text, hist, start))
    # (the histories here name their shell commands themselves - printf, echo, exit - so they get a real shell)
    import os
    os.environ["VERIF_SERVER_SHELL"] = "/bin/sh"
    try:
        ans = server_map(binary, reqs)
    finally:
        os.environ.pop("VERIF_SERVER_SHELL", None)
    cases = []
    cmeta = []
    dist = {"panic": 0, "with_redo": 0, "with_insert_session": 0, "multibyte": 0, "err_steps": 0}
    for (text, hist, start), a in zip(meta, ans):
        steps = a.get("steps", [])
        case0 = {"text": text, "cursor": start, "history": hist}
        chk.count(("c07", text, tuple(hist), start), nontrivial=any(k in ("u", "<c-r>", "2u", "3u") for k in hist))
        if any(ord(c) > 127 for c in text):
            dist["multibyte"] += 1
        if "<c-r>" in hist:
            dist["with_redo"] += 1
        pan = [i for i, s in enumerate(steps) if "panic" in s]
        if pan or "died" in a or len(steps) != len(hist) + 14:
            dist["panic"] += 1
            i = pan[0] if pan else len(steps) - 1
            keys_so_far = (hist + ["u"] * 14)[:i + 1]
            undo_involved = any(k in ("u", "<c-r>", "2u", "3u") for k in keys_so_far[-1:])
            if undo_involved:
                chk.violation("spec:undo/redo panicked", dict(case0, at_key=keys_so_far[-1], index=i, panic=steps[i].get("panic") if pan else str(a)[:200]))
            continue
        # flatten the ViCmd trace into model operations
        ops = []
        seen = [text]
        cur_text = text           # the text after the previous ViCmd
        last_changed = False     # the previous ViCmd was a change (not u/<c-r>) that altered the text
        ok = True
        for k, st in zip(hist + ["u"] * 14, steps):
            for c in st["cmds"]:
                if not c.get("done"):
                    ok = False      # the command returned Err half way: its effect on the stacks is not traced
                    break
                if c["undo_op"]:
                    ops.append((1 if c["verb"] == "Undo" else 2, None, [], 0))
                    # ---- oracles on the implementation's own trace ----
                    if c["after"] not in seen:
                        chk.violation("spec:undo/redo produced a text that was never a state of the buffer",
                                      dict(case0, at_key=k, text_after=c["after"], earlier_states=seen[-6:]))
                    if c["verb"] == "Redo" and last_changed and c["after"] != c["before"]:
                        chk.violation("spec:<c-r> right after a new change altered the text (redo history must be dropped by a change)",
                                      dict(case0, at_key=k, before=c["before"], after=c["after"]))
                    last_changed = False
                else:
                    # the text changed between two commands: handle_block_insert copied the typed text
                    pre = C("Some", txt(c["before"])) if c["before"] != cur_text else None
                    if pre is not None:
                        dist["block_insert_amends"] = dist.get("block_insert_amends", 0) + 1
                        if c["before"] not in seen:
                            seen.append(c["before"])
                    ops.append((0, pre, txt(c["after"]), 2 if c["continues_insert"] else 1 if c["opens_insert"] else 0))
                    last_changed = c["after"] != c["before"]
                    if c["continues_insert"]:
                        dist["with_insert_session"] += 1
                if c.get("after") is not None and c["after"] not in seen:
                    seen.append(c["after"])
                if c.get("after") is not None:
                    cur_text = c["after"]
            if not ok:
                break
            ops.append((3, None, [], 0))          # the end of the key string: set_normal_mode closes an open record
        if not ok:
            dist["err_steps"] += 1
            # a command that failed half-way: whatever it did to the text must be on record - otherwise the next u takes
            # back that and the change before it in one go
            prev = a["init"] if isinstance(a.get("init"), dict) else None
            for k, st in zip(hist + ["u"] * 14, steps):
                if prev is not None and "buf" in prev and "buf" in st and any(not c.get("done") for c in st["cmds"]) and not any(c.get("undo_op") for c in st["cmds"]):
                    if st["buf"] != prev["buf"] and len(st.get("undo") or []) <= len(prev.get("undo") or []) and not st.get("ims"):
                        chk.violation("spec:a command that failed changed the text without an undo record", dict(case0, at_key=k, before=prev["buf"], after=st["buf"]))
                        break
                prev = st
            continue
        final = steps[-1]
        if final["buf"] != text:
            chk.violation("spec:enough u's do not return the original input", dict(case0, final=final["buf"], undo_left=len(final["undo"])))
        keys = hist + ["u"] * 14
        # u right after a key that is one undoable change: a single stand-alone command (r, x, d.., ~, J, p, :s ..), or one
        # insert session made of the opening command and typed characters only
        for i in range(1, len(keys)):
            if keys[i] != "u" or keys[i - 1] in ("u", "<c-r>", "2u", "3u"):
                continue
            cs = [c for c in steps[i - 1]["cmds"] if not c["undo_op"]]
            changing = [c for c in cs if c.get("after") is not None and c["after"] != c["before"]]
            if not changing or any(c["before"] != p["after"] for p, c in zip(cs, cs[1:])):
                continue          # no change, or a block insert copied text between two commands
            sess = [2 if c["continues_insert"] else 1 if c["opens_insert"] else 0 for c in changing]
            one_plain = len(changing) == 1 and sess == [0]
            first, last = cs.index(changing[0]), cs.index(changing[-1])
            # nothing but typed characters between the first and the last change of the session (a motion or any other
            # key in between legitimately starts a new undo step)
            one_session = sess[0] in (1, 2) and all(k == 2 for k in sess[1:]) and all(c["continues_insert"] for c in cs[first + 1:last + 1])
            # these keys are one insert session by what they say (opening command, typed text, <BS>, <c-w>, <esc>), whatever
            # the trace calls their commands
            by_syntax = keys[i - 1] in ONE_SESSION_KEYS or keys[i - 1] == "."      # a repeat is one change as well (a count on the repeat of a session is C20's known class)
            if not (one_plain or one_session or by_syntax):
                continue
            before_key = steps[i - 2]["buf"] if i >= 2 else text
            dist["u_after_single_change"] = dist.get("u_after_single_change", 0) + 1
            if steps[i]["buf"] != before_key:
                chk.violation("spec:u after one change does not return the text before that change",
                              dict(case0, index=i, key=keys[i - 1], before_key=before_key, after_key=steps[i - 1]["buf"], after_u=steps[i]["buf"]))
        # u then <c-r>: find adjacent pairs in the history
        for i in range(len(keys) - 1):
            if keys[i] == "u" and keys[i + 1] == "<c-r>":
                before_u = steps[i - 1]["buf"] if i > 0 else text
                if steps[i + 1]["buf"] != before_u and steps[i]["buf"] != before_u:
                    chk.violation("spec:<c-r> after u does not return the text u replaced",
                                  dict(case0, index=i, before_u=before_u, after_u=steps[i]["buf"], after_redo=steps[i + 1]["buf"]))
        cases.append((txt(text), ops))
        cmeta.append((case0, final))
    model = run_coq_eval("c07", IMPORTS, "undo_obs", cases, shard=300)
    for (case0, final), m in zip(cmeta, model):
        mbuf, mundo, mredo = m
        iundo = [(e["old"], e["new"]) for e in reversed(final["undo"])]
        iredo = [(e["old"], e["new"]) for e in reversed(final["redo"])]
        mu = [(untxt(a), untxt(b)) for a, b in mundo]
        mr = [(untxt(a), untxt(b)) for a, b in mredo]
        if untxt(mbuf) != final["buf"] or mu != iundo or mr != iredo:
            chk.violation("correspondence:undo/redo stacks", dict(case0, impl_buf=final["buf"], model_buf=untxt(mbuf),
                          impl_undo=iundo[:3], model_undo=mu[:3], impl_redo=iredo[:3], model_redo=mr[:3]), concrete=False)
    chk.cov["traces_validated_against_impl"] = len(cases)
    # ---- a change, two repeats in a row, one u - typed as one key string and as four: the same text ----
    dreqs, dmeta = [], []
    for _ in range(400 if thorough else 60):
        text = rng.choice([t for t in V.TEXTS if len(t) > 3 and "\r" not in t])
        chg = rng.choice(["iab<esc>", "Axy<esc>", "ix<BS>é<esc>", "x", "dw", "rZ", "ofoo<esc>", "~", "cwQ<esc>", "i日<esc>"])
        tail = rng.choice(["..u", "..uu", ".2.u", "...u", "..u<c-r>"])
        parts = [chg] + re.findall(r"\d*\.|u|<c-r>", tail)
        for ks in ([chg + tail], parts):
            dreqs.append({"op": "keys", "text": text, "cursor": 0, "keys": ks})
        dmeta.append((text, chg, tail, parts))
    os.environ["VERIF_SERVER_SHELL"] = "/bin/sh"
    try:
        dans = server_map(binary, dreqs)
    finally:
        os.environ.pop("VERIF_SERVER_SHELL", None)
    for k_, (text, chg, tail, parts) in enumerate(dmeta):
        a1, a2 = dans[2 * k_], dans[2 * k_ + 1]
        chk.count(("c07-dots", text, chg, tail), nontrivial=True)
        dist["repeat_repeat_undo"] = dist.get("repeat_repeat_undo", 0) + 1
        b1 = (a1.get("steps") or [{}])[-1].get("buf")
        b2 = (a2.get("steps") or [{}])[-1].get("buf")
        if b1 is None or b2 is None:
            if any(x in tail for x in ("u", "<c-r>")):
                chk.violation("spec:undo/redo panicked", {"text": text, "history": [chg + tail], "answer": str(a1)[:200]})
            continue
        if b1 != b2:
            chk.violation("spec:u after repeats typed in one key string takes back something else than after the same keys typed one by one",
                          {"text": text, "one_string": chg + tail, "one_by_one": parts, "text_one_string": b1, "text_one_by_one": b2})
    chk.cov["input_distribution"] = dist
    if cmeta:
        chk.sample(cmeta[0][0])
    chk.cov["rule"] = ("histories of 1..12 commands (x d/c with motions and text objects, r ~ J p P o O, insert sessions with typed text, <BS>, <c-w>, visual deletes, :s, :d, motions) "
                       "interleaved with u / <c-r>, on ASCII and multi-byte buffers from random cursors, followed by 14 u's; every ViCmd executed by LineBuf::exec_cmd is traced by the hook "
                       "(text after, char-insert flag, undo op) and replayed on the Coq model of the undo stacks, whose final buffer and both stacks must equal the dumped ones; "
                       "oracles: no panic at u/<c-r>, texts after u/<c-r> are earlier states, the tail of u's returns the input, u then <c-r> restores. non-trivial = history contains u or <c-r>")
    chk.assumptions += ["what a command does to the text is taken from the trace (the theorems are parametric in it)"]
    return chk.finish()


def replay(path):
    d = json.load(open(path))
    print(json.dumps(d["case"], indent=1, ensure_ascii=False)[:4000])
    return 0
