"""C09: the editor's position always agrees with its text."""
import json
import re

from .. import vim_lang as V
from ..common import C, Nat, cli_map, run_coq_eval, server_map, txt, untxt

IMPORTS = ["Base.Prelude", "Model.Cursor", "Model.Obs"]
TEXTS = [t for t in V.TEXTS if "\r" not in t]
CRLF_TEXTS = [t for t in V.TEXTS if "\r" in t]
EXTRA = ["/o<CR>", "?a<CR>", "n", "N", ":s/o/0/<CR>", ":%s/a/bb/g<CR>", ":d<CR>", ":2<CR>", ":1,2d<CR>", "u", "<c-r>", ".", "gv", "o<esc>",
         "<c-v>jld", "Vjd", "vly", "R12<esc>", "A<BS><BS><esc>", "ia<left><left>b<esc>", "i<del><esc>", ":s/é/ab/<CR>", ":s/ab/é/<CR>", "jA foo<esc>u", "jofoo<esc>u", "ddu", "Gdd", "ggdG",
         # block selections with a corner on the last character of the text, and visual selections that end on a line break
         # a prompt opened from a selection whose cursor is on a line break, then given up, or a :normal! whose address is no line
         "v3l:<esc>", "v3l/de<esc>", "$vj:<esc>", "v$:<esc>", "Vj:<esc>", "v$?x<esc>", "v$:-9normal! x<CR>", "v$:/nosuchtext/normal! x<CR>", "v$:-9normal! x<CR>.", "$vj:99normal! dd<CR>",
         "G$<c-v>", "G$<c-v>k", "G0<c-v>$", "G<c-v>$h", "G$<c-v>kh", "j<c-v>ll", "$vj", "$vl", "$vjk", "G$v", "$<c-v>j"]
OPENERS = ["i", "a", "A", "o", "R", "v", "V", "<c-v>"]


def gen_history(rng, length):
    keys = []
    for _ in range(length):
        r = rng.random()
        if r < 0.5:
            keys.append(V.any_cmd(rng))
        elif r < 0.8:
            keys.append(rng.choice(EXTRA))
        elif r < 0.9:
            keys.append(rng.choice(OPENERS) + rng.choice(["", "x", "ab", "j", "l", "<left>", "<BS>"]))   # leaves a mode open
        else:
            keys.append("<esc>")
    return keys


def clusters(buf, fresh):
    b = buf.encode("utf-8")
    idx = list(fresh) + [len(b)]
    return [b[idx[i]:idx[i + 1]].decode("utf-8") for i in range(len(idx) - 1)]


def check_state(st):
    """-> list of invariant violations for one dumped state"""
    out = []
    cl = clusters(st["buf"], st["fresh"])
    n = len(cl)
    cur, cmax = st["cursor"], st["cmax"]
    mode = st["mode"]
    if cmax != n:
        out.append(f"cursor.max={cmax} but the text has {n} characters")
    if st["cached"] is not None and st["cached"] != st["fresh"]:
        out.append("the cached character offsets are stale")
    excl = mode in ("Normal", "Visual")
    ub = max(0, n - 1) if excl else n
    if cur > ub:
        out.append(f"cursor {cur} beyond the text ({n} characters, mode {mode})")
    if mode == "Normal" and n and cur < n and cl[cur] == "\n" and cur > 0 and cl[cur - 1] != "\n":
        out.append(f"cursor {cur} rests on the terminator of a non-empty line in normal mode")
    rng_ = st.get("select_range")
    if rng_ and st.get("select_mode"):
        nums = [int(x) for x in re.findall(r"\d+", rng_)]
        if rng_.startswith("OneDim"):
            s, e = nums
            if not (s <= e <= n):
                out.append(f"selection {s}..{e} not inside the text ({n} characters)")
            elif not (s <= cur <= e) and st["select_mode"].startswith(("Char", "Line")):
                out.append(f"cursor {cur} outside the selection {s}..{e}")
        else:
            for i in range(0, len(nums), 2):
                if nums[i] > n or nums[i + 1] > n:
                    out.append(f"block window {nums[i]}..{nums[i+1]} not inside the text")
                    break
            else:
                # the cursor is a corner of the block: the window of its line holds it (windows end behind their last character)
                wins = [(nums[i], nums[i + 1]) for i in range(0, len(nums), 2)]
                if wins and cur < n and cl[cur] != "\n" and not any(a <= cur < b for a, b in wins):
                    out.append(f"cursor {cur} outside every window of the block selection {wins}")
    return out


def run(chk, binary):
    rng = chk.rng
    thorough = chk.tier == "thorough"
    chk.proof_obligations()
    nhist = 4000 if thorough else 500
    hlen = 40 if thorough else 14
    reqs = []
    meta = []
    for _ in range(nhist):
        text = rng.choice(TEXTS if rng.random() < 0.93 else CRLF_TEXTS)
        keys = gen_history(rng, rng.randint(1, hlen))
        start = rng.randint(0, max(0, len(text) - 1)) if rng.random() < 0.5 else 0
        reqs.append({"op": "keys", "text": text, "cursor": start, "keys": keys, "keep_mode": rng.random() < 0.6})
        meta.append((text, keys, start))
    # a fixed corpus of histories that exposed (or are built to expose) stale caches and clamp slips
    CORPUS = [("ñu\nabc", ["j<c-v>ll"]), ("ñu\nabc", ["j<c-v>ll", "h"]), ("abcd\nab\nxyz\n", ["$vj"]), ("abcd\nab\nxyz\n", ["$vj", "x"]),
              ("abc\nxy z", ["jA foo<esc>u"]), ("abc\nxyz\n", ["jofoo<esc>u"]), ("abc\nxy z", ["j", "A foo<esc>", "u", "x"]),
              ("é c", [":s/é/ab/<CR>"]), ("é c", [":s/é/ab/<CR>", "l"]), ("ab c", [":s/ab/é/<CR>"]), ("ab c\nab", [":%s/ab/é/<CR>", "j"]),
              ("ab é ab\n", [":s/é/xy/<CR>", "$"]), ("a\nb", ["Gdd"]), ("a\nb\n", ["Gdd", "x"]), ("one two", ["$", "vld"]), ("x", ["v)"]),
              ("word", ["vis"]), ("a b\nc", ["jddu"]), ("ab\ncd", ["jA<BS><BS><BS><esc>"]), ("ab", ["A<esc>", "u"]), ("ab\n", ["ox<esc>u", "u"]),
              ("é\n", ["rè"]), ("éa", ["~~"]), ("aé\nb", ["J"]), ("x y", ["wD", "p"]), ("ab\ncd\n", ["ddjdd"]), ("abc", ["$", "i<del><esc>"])]
    for t, ks in CORPUS:
        for km in (False, True):
            reqs.append({"op": "keys", "text": t, "cursor": 0, "keys": ks, "keep_mode": km})
            meta.append((t, ks, 0))
    # a change made in an insert session, repeated with . somewhere else - on an empty line, on an emptied text, at the
    # end of a line: the cursor . leaves is a normal-mode cursor again
    for _ in range(600 if thorough else 80):
        t = rng.choice(["abcdef\n\nlast\n", "\n", "a\n\n", "ab\n\n\ncd", "x\n\n", "é\n\nü\n", "one two\n\n  \nthree\n"])
        sess = rng.choice(["Afoo<esc>", "ix<esc>", "a y<esc>", "ofoo<esc>", "Ofoo<esc>", "I-<esc>", "cwnew<esc>", "sX<esc>", "R12<esc>", "A<esc>", "i<CR><esc>", "3ia<esc>", "Aé<esc>"])
        mover = rng.choice(["j", "jj", "k", "G", "gg", "}", "{", ":2<CR>", "ggdG", "Gdd", "$", "0", "jdd", "G$"])
        ks = [sess, mover, rng.choice([".", ".", "2.", "."])] + rng.choice([[], ["."], ["x"], ["j", "."], ["u"]])
        reqs.append({"op": "keys", "text": t, "cursor": 0, "keys": ks, "keep_mode": rng.random() < 0.3})
        meta.append((t, ks, 0))
    # ... and in one key string with a character search before and its repeat under an operator behind: f1 ix<esc> . d;
    for t, ks in [("1ab1", ["f1ix<esc>.d;"]), ("1ab1\nzz\n", ["f1ix<esc>.d;"]), ("a.b.c.\nx\n", ["f.ay<esc>.d;"]), ("1ab1", ["f1ix<esc>.y;"])]:
        reqs.append({"op": "keys", "text": t, "cursor": 0, "keys": ks, "keep_mode": False})
        meta.append((t, ks, 0))
    for _ in range(600 if thorough else 120):
        t = rng.choice(["1ab1", "1ab1\nzz\n", "a.b.c.\nx\n", "x1y1z1\n\n1\n", "é1ü1\n1\n"])
        ch = rng.choice(["1", "1", ".", "b"])
        sess = rng.choice(["ix<esc>", "ay<esc>", "Afoo<esc>", "i<esc>", "iab<BS><esc>", "sQ<esc>"])
        tail = rng.choice(["d;", "d,", "y;", ";", ",", "c;Z<esc>", "d;.", "x", "D"])
        ks = [rng.choice(["f", "t", "F"]) + ch + sess + rng.choice([".", ".", "2."]) + tail]
        reqs.append({"op": "keys", "text": t, "cursor": 0, "keys": ks, "keep_mode": False})
        meta.append((t, ks, 0))
    # exhaustive small scope: depth-3 histories over a compact alphabet on seed buffers (thorough only)
    if thorough:
        alpha = ["x", "dw", "dd", "J", "p", "u", "o<esc>", "ix<esc>", "A<BS><esc>", "vld", "Vd", "j", "$", "w", "G", ":s/a/bb/<CR>", "rZ", "~", "gUw", "."]
        seeds = ["ab cd\nef\n", "é b\n\nx", "a", "\n", "ab\ncd"]
        for t in seeds:
            for a in alpha:
                for b in alpha:
                    for c in alpha:
                        reqs.append({"op": "keys", "text": t, "cursor": 0, "keys": [a, b, c], "keep_mode": False})
                        meta.append((t, [a, b, c], 0))
    ans = server_map(binary, reqs)
    dist = {"states": 0, "panic_histories": 0, "crlf": 0, "modes": {}}
    pcases = []
    pmeta = []
    for (text, keys, start), a in zip(meta, ans):
        steps = a.get("steps", [])
        chk.count(("c09", text, tuple(keys), start), nontrivial=len(keys) >= 2)
        crlf = "\r" in text
        if crlf:
            dist["crlf"] += 1
        # the state the text is loaded into counts as well: nothing has been typed, the tables must already be those of the text
        states = ([(-1, a["init"])] if isinstance(a.get("init"), dict) and "buf" in a["init"] and start == 0 else []) + list(enumerate(steps))
        for i, st in states:
            if "panic" in st or "buf" not in st:
                dist["panic_histories"] += 1
                break
            dist["states"] += 1
            dist["modes"][st["mode"]] = dist["modes"].get(st["mode"], 0) + 1
            bad = check_state(st)
            if bad:
                # (what the character tables say is not a matter of how lines are told apart: no CRLF allowance for that)
                seg = [b_ for b_ in bad if b_.startswith(("cursor.max=", "the cached character offsets"))]
                if crlf and not seg:
                    chk.known("CRLF", "a \\r\\n pair is one character but a line break only by its \\n: " + bad[0])
                    break
                chk.violation("spec:position invariant broken between two commands",
                              {"text": text, "cursor": start, "keys": keys[:i + 1], "broken": bad, "buffer": st["buf"], "cursor_after": st["cursor"], "mode": st["mode"]})
                break
            if not crlf and len(pcases) < (20000 if thorough else 3000) and st["cursor"] < len(st["fresh"]):
                cl = clusters(st["buf"], st["fresh"])
                pcases.append(([txt(c) for c in cl], Nat(st["cursor"])))
                pmeta.append((st, cl))
    # ---- the model's position functions vs the built-ins at the CLI (vic: line col pos char) ----
    jobs = []
    jm = []
    for _ in range(1500 if thorough else 250):
        text = rng.choice([t for t in TEXTS if t])
        keys = "".join(k for k in gen_history(rng, rng.randint(1, 4)) if '"' not in k and "\\" not in k and "$" not in k)
        if not keys:
            keys = "w"
        script = 'move "%s"\necho $line "|" $col "|" $pos "|" $buf_len "|" $char "|"\n' % keys
        jobs.append({"args": [script], "stdin": text})
        jm.append((text, keys))
    res = cli_map(binary, jobs)
    bcases = []
    bmeta = []
    for (text, keys), (rc, out, err) in zip(jm, res):
        chk.count(("builtins", text, keys))
        if rc != 0:
            continue
        so = out.decode("utf-8", errors="replace")
        m = re.match(r"(\d+) \| (\d+) \| (\d+) \| (\d+) \| (.*?) \|\n", so, re.S)
        if not m:
            continue
        line, col, pos, blen = int(m.group(1)), int(m.group(2)), int(m.group(3)), int(m.group(4))
        ch = m.group(5)
        buf = so[m.end():]
        if buf.endswith("\n"):
            buf = buf[:-1]          # framing newline of exec_stdin
        bb = buf.encode("utf-8")
        case = {"text": text, "keys": keys, "line": line, "col": col, "pos": pos, "buf_len": blen, "char": ch, "buffer": buf}
        if blen != len(bb):
            chk.violation("spec:buf_len is not the length of the text that is printed", case)
            continue
        if pos > len(bb):
            chk.violation("spec:pos is beyond the text", case)
            continue
        try:
            before = bb[:pos].decode("utf-8")
        except UnicodeDecodeError:
            chk.violation("spec:pos is not on a character boundary", case)
            continue
        exp_line = before.count("\n") + 1
        exp_col = len(before) - (before.rfind("\n") + 1) + 1        # in code points; compared only for texts without combining marks
        if line != exp_line:
            chk.violation("spec:reported line is not the line of the reported byte offset", dict(case, expected_line=exp_line))
        if ch and not bb[pos:].decode("utf-8", errors="replace").startswith(ch):
            chk.violation("spec:reported char is not the character at the reported byte offset", case)
        import unicodedata
        simple = all(not unicodedata.combining(c) and ord(c) not in (0x200d, 0xfe0f) and not (0x1f1e6 <= ord(c) <= 0x1f1ff) and not (0x1f3fb <= ord(c) <= 0x1f3ff) for c in buf)
        if simple and col != exp_col:
            chk.violation("spec:reported column is not the column of the reported byte offset", dict(case, expected_col=exp_col))
    model = run_coq_eval("c09", IMPORTS, "position_obs", pcases, shard=600)
    for (st, cl), m in zip(pmeta, model):
        lc, lcl, bp, chx, col = m
        b = st["buf"].encode()
        if int(bp) != st["fresh"][st["cursor"]]:
            chk.violation("correspondence:byte offset of the cursor", {"buffer": st["buf"], "cursor": st["cursor"], "model": int(bp), "impl": st["fresh"][st["cursor"]]}, concrete=False)
        if int(lc) != int(lcl):
            chk.violation("correspondence:line number by characters vs by clusters on a text without CRLF", {"buffer": st["buf"], "cursor": st["cursor"]}, concrete=False)
    chk.cov["traces_validated_against_impl"] = len(pcases)
    dist["modes"] = dict(sorted(dist["modes"].items()))
    chk.cov["input_distribution"] = dist
    chk.cov["exhaustive"] = False
    chk.sample({"text": meta[0][0], "keys": meta[0][1], "cursor": meta[0][2]})
    chk.cov["rule"] = ("random key histories (length up to %d) over normal, insert, replace, visual (char/line/block), search and ex commands, undo/redo/dot, modes left open, with and without the per-argument reset, on ASCII and multi-byte buffers; "
                       "after every key string the full editor state is dumped and the invariant evaluated: cursor.max = number of characters, cached offsets fresh, cursor inside the text for its mode, not on a line terminator in normal mode, selection inside the text and around the cursor; "
                       "thorough adds the exhaustive depth-3 histories over a 20-command alphabet on 5 seed buffers; the vic built-ins line/col/pos/buf_len/char are read at the CLI and checked against the printed text; the model's position functions are evaluated on the dumped states") % hlen
    known_lines = [f"KNOWN-FINDING: property=C09 class={k} {v}" for k, v in sorted(chk.known_hits.items())]
    return chk.finish(known_lines)


def replay(path):
    d = json.load(open(path))
    print(json.dumps(d["case"], indent=1, ensure_ascii=False)[:4000])
    return 0
