"""C12: -r N R is exactly the unrolled command list."""
import json
import re

from .. import cli_lang as L
from ..common import (C, cli_map, coq, log, run_cli, run_coq_eval, txt, untxt)

IMPORTS = ["Base.Prelude", "Model.Args", "Spec.Items", "Model.Obs"]


def impl_parse(binary, argvs):
    jobs = [{"args": a, "stdin": "", "env": {"VICUT_VERIF_DUMP": "cmds"}} for a in argvs]
    res = cli_map(binary, jobs)
    out = []
    for rc, so, se in res:
        if rc == 0:
            try:
                out.append(L.opts_of_dump(json.loads(so.decode())))
            except Exception as e:  # dump not produced: e.g. usage/help path
                out.append(C("NoDump", txt(so.decode(errors="replace")[:80])))
        elif rc == 1:
            out.append(C("Exit1"))
        elif rc == 101 or (isinstance(rc, int) and rc < 0):
            out.append(C("Panic", txt(se.decode(errors="replace")[-200:])))
        else:
            out.append(C("Rc", txt(str(rc))))
    return out


def malform(rng, argv):
    """Malformed stream: drop/duplicate/replace arguments."""
    a = list(argv)
    for _ in range(rng.randint(1, 2)):
        r = rng.random()
        if not a:
            break
        i = rng.randrange(len(a))
        if r < 0.3:
            del a[i]
        elif r < 0.5:
            a.insert(i, rng.choice(["-r", "-g", "--end", "--else", "-c", "-m", "-n", "-v", "-d", "-t"]))
        elif r < 0.7:
            a[i] = rng.choice(["99", "x", "-1", "+2", "", "18446744073709551616", "0"])
        elif r < 0.85:
            a = a[:i]
        else:
            a.append(rng.choice(["-r", "-r 3", "-g", "-c", "-m", "-c name=q"]).split(" ")[0])
    # keep out of main()'s other front ends (inline script / help / version / script)
    if not any(x.startswith("-") for x in a) or any(x in ("-h", "--help", "--version", "--script", "--") for x in a):
        return argv
    return a


def avail_ok(items):
    """N never exceeds the number of available commands (the unrolled reading exists)."""
    n = 0
    for it in items:
        if it[0] == "rep":
            N = int(it[2])
            if N > n:
                return False
            n = n - N + 1
        else:
            if it[0] == "glob":
                if not avail_ok(it[4]) or (it[5] is not None and not avail_ok(it[5])):
                    return False
            n += 1
    return True


def gen_shaped(rng):
    """every cut sits inside nested -r groups inside a -g/-v scope (or inside a top-level -r around the scope), the
    pattern often matches no line: what decides 'was a field asked for' has to look through the repeats"""
    def nest(body):
        for _ in range(rng.randint(1, 3)):
            body = body + [("rep", rng.random() < 0.3, str(rng.randint(1, 1 if len(body) < 2 else 2)), str(rng.randint(1, 2)))]
        return body
    cut = lambda: rng.choice([("cut", False, rng.choice(L.CUTS)), ("ncut", False, rng.choice(["a", "key"]), rng.choice(L.CUTS))])
    pat = rng.choice(["qqq", "qqq", "z", "^$", "foo", "o"])
    th = nest([cut()] + ([("move", False, rng.choice(L.MOVES))] if rng.random() < 0.5 else []))
    el = nest([cut()]) if rng.random() < 0.3 else None
    items = [("move", False, rng.choice(L.MOVES + L.EDITS))] if rng.random() < 0.5 else []
    items.append(("glob", rng.random() < 0.3, rng.choice(["g", "g", "v"]), pat, th, el))
    if rng.random() < 0.4:
        items.append(("rep", False, "1", str(rng.randint(1, 2))))
    return items


RAGGED = "abcdefgh\nab\nabcdefgh\nxy\n"
FIXED_EXEC = [
    ([("move", False, "ia"), ("move", False, "."), ("rep", False, "2", "1"), ("move", False, "u")], "x\n"),
    ([("move", False, "ia"), ("move", False, "."), ("rep", False, "1", "2"), ("move", False, "u")], "x\n"),
    ([("move", False, "Ab"), ("move", False, "."), ("move", False, "."), ("rep", False, "2", "1"), ("move", False, "uu")], "x y\n"),
    ([("move", False, "5l"), ("move", False, "j"), ("rep", False, "1", "1"), ("cut", False, "l")], RAGGED),
    ([("move", False, "$"), ("move", False, "j"), ("rep", False, "1", "2"), ("cut", False, "l")], RAGGED),
    ([("move", False, "4l"), ("move", False, "j"), ("move", False, "j"), ("rep", False, "2", "1"), ("cut", False, "h")], RAGGED),
    ([("move", False, "v"), ("move", False, "l"), ("rep", False, "2", "1"), ("cut", False, "e")], "foo bar baz\n"),
]
FIXED_TEXT = {tuple(L.render(it)): t for it, t in FIXED_EXEC}


def gen_rematch(rng):
    """a scope that is repeated and whose body changes, without changing the length of the text, which lines its pattern
    selects: every pass has to look at the text as it then is"""
    pat = rng.choice(["foo", "^f", "o", "a", "b.r", "^[a-z]"])
    body = [("move", False, rng.choice(["~", "rZ", "gUiw", "guw", "g~iw", "0~", "0rQ", "gUU", "g~~"]))]
    if rng.random() < 0.4:
        body.append(("cut", False, rng.choice(["e", "iw", "$"])))
    items = [("glob", rng.random() < 0.3, rng.choice(["g", "g", "v"]), pat, body, None), ("rep", rng.random() < 0.3, "1", str(rng.randint(1, 3)))]
    if rng.random() < 0.3:
        items.append(("cut", False, "$"))
    return items


def run(chk, binary):
    rng = chk.rng
    thorough = chk.tier == "thorough"
    chk.proof_obligations()
    n_struct = 6000 if thorough else 700
    n_mal = 3000 if thorough else 300
    n_exec = 4000 if thorough else 500

    # ---- correspondence: Opts::parse vs model on the Cmd tree ----
    # main() treats a single argument as a vic script: keep to >= 2 arguments (Opts::parse front end)
    items_list = [it for it in ((gen_shaped(rng) if k % 7 == 3 else gen_rematch(rng) if k % 7 == 5 else L.gen_items(rng)) for k in range(n_struct)) if len(L.render(it)) >= 2]
    # fixed cases: what is done between two commands (closing the undo record, forgetting the column j / k aim for, leaving a
    # mode) is done inside a repeated group exactly as between the same commands written out
    items_list = [it for it, _ in FIXED_EXEC] + items_list
    argvs = [L.render(it) for it in items_list]
    mal = [m for m in (malform(rng, rng.choice(argvs)) for _ in range(n_mal)) if len(m) >= 2]
    all_argv = argvs + mal
    impl = impl_parse(binary, all_argv)
    model = run_coq_eval("c12_parse", IMPORTS, "parse_obs []", [[txt(a) for a in av] for av in all_argv])
    kinds = {}
    for i, (av, m, o) in enumerate(zip(all_argv, model, impl)):
        stream = "structured" if i < len(argvs) else "malformed"
        oc = o.name if isinstance(o, C) else "?"
        kinds[(stream, oc)] = kinds.get((stream, oc), 0) + 1
        chk.count(("parse", tuple(av)), nontrivial=("-r" in av or "--repeat" in av))
        if m != o:
            # panic with model Exit1/Ok etc: concrete when the implementation panics
            concrete = isinstance(o, C) and o.name in ("Panic", "Rc")
            chk.violation("correspondence:Opts::parse", {"argv": av, "model": repr(m), "impl": repr(o),
                          "note": "implementation panicked/crashed" if concrete else "model and implementation disagree on the parsed command tree"},
                          concrete=concrete)
    chk.cov["traces_validated_against_impl"] = len(all_argv)
    chk.cov["input_distribution"] = {f"{a}/{b}": n for (a, b), n in sorted(kinds.items())}
    chk.sample({"argv": argvs[0], "parsed": repr(model[0])[:300]})
    chk.sample({"argv(malformed)": mal[0], "parsed": repr(model[len(argvs)])[:200]})

    # ---- spec oracle inside Coq: denote/flatten/unroll agree on generated items ----
    wf = [it for it in items_list if avail_ok(it)][: (3000 if thorough else 400)]
    un = run_coq_eval("c12_unroll", IMPORTS,
                      "fun its => (render (unroll its), forallb (wf_item true) its)",
                      [[L.item_coq(x) for x in it] for it in wf])
    # ---- direct oracle on the implementation: -r form vs textually unrolled form ----
    jobs = []
    meta = []
    for it, (un_argv, wfb) in list(zip(wf, un))[:n_exec]:
        if not wfb:
            continue
        a1 = L.render(it)
        a2 = [untxt(x) for x in un_argv]
        if len(a2) < 2 or not any(x.startswith("-") for x in a2):
            continue
        text = rng.choice(L.TEXTS)
        pre = rng.choice([[], ["--json"], ["-d", ","], ["--linewise"], ["--json", "--linewise"]])
        if tuple(a1) in FIXED_TEXT:
            text, pre = FIXED_TEXT[tuple(a1)], []
        jobs.append({"args": pre + a1, "stdin": text})
        jobs.append({"args": pre + a2, "stdin": text})
        meta.append((pre, a1, a2, text))
    res = cli_map(binary, jobs)
    nontrivial = 0
    for k, (pre, a1, a2, text) in enumerate(meta):
        r1, r2 = res[2 * k], res[2 * k + 1]
        chk.count(("exec", tuple(pre), tuple(a1), text), nontrivial=(a1 != a2))
        if (r1[0], r1[1]) != (r2[0], r2[1]):
            chk.violation("spec:-r form differs from unrolled form",
                          {"argv_r": pre + a1, "argv_unrolled": pre + a2, "stdin": text,
                           "rc": [r1[0], r2[0]], "stdout_r": r1[1].decode(errors="replace"),
                           "stdout_unrolled": r2[1].decode(errors="replace"),
                           "stderr_r": r1[2].decode(errors="replace")[-300:]})
    if meta:
        chk.sample({"argv_r": meta[0][1], "argv_unrolled": meta[0][2], "stdin": meta[0][3]})

    # ---- vic: repeat k { B } vs B written k times ----
    vjobs = []
    vmeta = []
    for _ in range(600 if thorough else 80):
        body = [L.gen_simple(rng, allow_named=False) for _ in range(rng.randint(1, 3))]
        k = rng.randint(0, 4)
        nested = rng.random() < 0.3
        text = rng.choice(L.TEXTS)

        def vic(items):
            out = []
            for it in items:
                s = re.sub(r'(?<!\\)"', r'\\"', it[2]) if it[0] != "next" else None      # a bare quote inside a vic literal is written \"
                if it[0] == "cut":
                    out.append('cut "%s"' % s)
                elif it[0] == "move":
                    out.append('move "%s"' % s)
                else:
                    out.append("next")
            return "\n".join(out)
        b = vic(body)
        if nested:
            s1 = "repeat 2 {\n repeat %d {\n%s\n}\n move \"l\"\n}\n" % (k, b)
            s2 = (("%s\n" % b) * k + 'move "l"\n') * 2
        elif rng.random() < 0.5:
            # the count comes from a variable (0 included: the body is then not run at all); the name may be one a
            # built-in has too - a variable of the script's own goes first
            vn = rng.choice(["k", "k", "n", "count", "lines", "line", "col", "pos"])
            s1 = "let %s = %d\nrepeat $%s {\n%s\n}\n" % (vn, k, vn, b)
            s2 = ("%s\n" % b) * k
            if rng.random() < 0.4:
                # the body keeps variables of its own: a counter of the enclosing scope, and a name that shadows an outer one
                # (the outer one is not read again: written out, the body's let replaces it)
                pre = "let i = 0\nlet n = 7\n"
                vb = 'i += 1\nlet n = 1\nn += $i\ncut "${{n}}l"\n' + b
                s1 = pre + "let %s = %d\nrepeat $%s {\n%s\n}\ncut \"${{i}}l\"\n" % (vn, k, vn, vb) if vn not in ("n",) else pre + "repeat %d {\n%s\n}\ncut \"${{i}}l\"\n" % (k, vb)
                s2 = pre + ("%s\n" % vb) * k + 'cut "${{i}}l"\n'
        else:
            s1 = "repeat %d {\n%s\n}\n" % (k, b)
            s2 = ("%s\n" % b) * k
        if not s2.strip():
            s2 = 'move "0"\n'
            s1 = s1 + 'move "0"\n'
        for s in (s1, s2):
            vjobs.append({"args": ["--json", "--", s] if False else [s], "stdin": text})
        vmeta.append((s1, s2, text))
    vres = cli_map(binary, vjobs)
    for k, (s1, s2, text) in enumerate(vmeta):
        r1, r2 = vres[2 * k], vres[2 * k + 1]
        chk.count(("vic", s1, text))
        if (r1[0], r1[1]) != (r2[0], r2[1]):
            chk.violation("spec:vic repeat differs from written-out body",
                          {"script_repeat": s1, "script_unrolled": s2, "stdin": text, "rc": [r1[0], r2[0]],
                           "stdout_repeat": r1[1].decode(errors="replace"), "stdout_unrolled": r2[1].decode(errors="replace"),
                           "stderr": r1[2].decode(errors="replace")[-300:]})
    if vmeta:
        chk.sample({"vic_repeat": vmeta[0][0], "vic_unrolled": vmeta[0][1]})
    chk.cov["rule"] = ("argv lists generated from the item grammar (-c/-m/-n/-g..--end with -r N R at any position, 0<=N<=len+2, 0<=R<=4, depth<=3, short/long spellings) "
                       "plus a malformed stream; every argv is parsed by the binary (VICUT_VERIF_DUMP=cmds) and by the Coq model (vm_compute in coqc) and the trees compared; "
                       "the -r form and the form unrolled by the Coq spec are both executed on sample texts and compared; vic repeat blocks likewise. "
                       "non-trivial = contains a -r / differs from its unrolled form; distinct = distinct (argv,text)")
    chk.assumptions += ["file arguments are not generated here (file_ok oracle is constantly false)",
                        "exec-level theorem is parametric in the editor core (scope transparency hypotheses, see Props/C12.v)"]
    return chk.finish()


def replay(path):
    import sys
    from ..common import build_impl
    d = json.load(open(path))
    case = d["case"]
    binary = build_impl()
    print(json.dumps(case, indent=1, ensure_ascii=False)[:3000])
    if "argv" in case:
        print("impl:", impl_parse(binary, [case["argv"]])[0])
        print("model:", run_coq_eval("c12_replay", IMPORTS, "parse_obs []", [[txt(a) for a in case["argv"]]])[0])
    if "argv_r" in case:
        for k in ("argv_r", "argv_unrolled"):
            print(k, run_cli(binary, case[k], case["stdin"]))
    return 0
