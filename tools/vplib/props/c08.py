"""C08: edits are local and conserve text."""
import json
import re

from .. import vim_lang as V
from ..common import C, Nat, run_coq_eval, server_map, txt, untxt

IMPORTS = ["Base.Prelude", "Model.Edit", "Model.Obs"]
TEXTS = [t for t in V.TEXTS if t and "\r" not in t]
REGS = ["", "", "", '"a', '"b', '"z', '"A', '"B']


def clusters(text, fresh):
    b = text.encode("utf-8")
    idx = list(fresh) + [len(b)]
    return [b[idx[i]:idx[i + 1]].decode("utf-8") for i in range(len(idx) - 1)]


def regname(cmd):
    """register name as the user typed it: upper case when the command appends"""
    m = re.search(r"name: Some\('(.)'\)", cmd.get("reg", ""))
    if not m:
        return None
    return m.group(1).upper() if "append: true" in cmd.get("reg", "") else m.group(1)


def reg_text(regs, name):
    r = regs.get('"' if name is None else name.lower())
    if r is None:
        return ("span", "")
    t = r["t"]
    return (r["k"], "\n".join(t) if isinstance(t, list) else t)


def find_removed(before, after, piece):
    """all i with before = pre + piece + post and after = pre + post"""
    out = []
    start = 0
    if piece == "":
        return [0] if before == after else []
    while True:
        i = before.find(piece, start)
        if i < 0:
            break
        if before[:i] + before[i + len(piece):] == after:
            out.append(i)
        start = i + 1
    return out


def gen_cmd(rng):
    r = rng.random()
    reg = rng.choice(REGS)
    cnt = V.count(rng, 0.2, 4)
    if r < 0.10:
        return "x", reg + cnt + rng.choice(["x", "X"])
    if r < 0.32:
        return "d", reg + cnt + "d" + (V.motion(rng) if rng.random() < 0.65 else V.textobj(rng))
    if r < 0.38:
        return "dd", reg + cnt + "dd"
    if r < 0.41:
        return "D", reg + "D"
    if r < 0.55:
        m_ = V.motion(rng) if rng.random() < 0.65 else V.textobj(rng)
        if rng.random() < 0.12:
            m_ = rng.choice(["0", "^"])        # may cover nothing (cursor already there): the register is then emptied
        return "y", reg + "y" + m_
    if r < 0.59:
        return "yy", reg + cnt + "yy"
    if r < 0.67:
        return "c", reg + "c" + (V.motion(rng) if rng.random() < 0.65 else V.textobj(rng)) + rng.choice(["new", "X", "é!", "a b"]) + "<esc>"
    if r < 0.74:
        return "case", rng.choice(["g~", "gu", "gU", "g?"]) + (V.motion(rng) if rng.random() < 0.65 else V.textobj(rng))
    if r < 0.78:
        return "case", cnt + "~"
    if r < 0.83:
        return "r", cnt + "r" + rng.choice("Zq9é")
    if r < 0.90:
        return "insert", rng.choice(["i", "a", "I", "A"]) + rng.choice(["typed", "X", "é ü", "a<b", "two words", "(", "  ", "a😀b", "日本", "𠀀x", "🙂"]) + "<esc>"
    if r < 0.95:
        return "vdel", V.selection(rng) + reg + rng.choice(["d", "x", "y"])
    return "put", reg.lower() + rng.choice(["p", "P"])


CASE_OK = {"g~": lambda a, b: a.swapcase() == b, "gu": lambda a, b: a.lower() == b, "gU": lambda a, b: a.upper() == b}


def run(chk, binary):
    rng = chk.rng
    thorough = chk.tier == "thorough"
    chk.proof_obligations()
    n = 16000 if thorough else 2500
    reqs = []
    meta = []
    for _ in range(n):
        text = rng.choice(TEXTS)
        start = rng.randint(0, max(0, len(text) - 1))
        cls, cmd = gen_cmd(rng)
        pre = []
        if rng.random() < 0.35:
            # fill a register first (for puts and for upper-case appends)
            pre = [rng.choice(['"ayiw', "yiw", "yy", '"byy', '"zyw', '"ay$'])]
        if rng.random() < 0.3:
            # an earlier history (counts, sessions, undo, dot, visual operators): what it leaves behind in the editor
            # must not change what the command under test does to text and registers
            hist = [rng.choice(["3p", "2P", "3ix<esc>", "2oab<esc>", "3J", "3x", "2dw", "3~", "2rZ", "xu", "x3.", "5l", "vjd", "Vy", "ddu", "<c-v>jly", '"ayy3"ap', "yiw2P", "3u", "Vg?.",
                                # an insert started from a selection, a block yank: what they leave behind must not turn the next plain insert into a block insert
                                "vlcXY<esc>", "<c-v>jy", "<c-v>jIab<esc>", "vlcXY<esc>j<c-v>jy", "<c-v>jcQ<esc>gg"])
                    if rng.random() < 0.7 else V.edit(rng) for _ in range(rng.randint(1, 2))]
            pre = hist + pre
            r2 = rng.random()
            if r2 < 0.2:
                # the command under test is a repeat of an earlier visual or counted operator
                pre = pre + [rng.choice(["GVg?", "Vjgu", "vlg~", "GVgU", "Vd", "vey", "3x", "dw", "Vg?", "G$vbg?"])]
                cls, cmd = "dot", rng.choice([".", ".", "2.", "3."])
            elif r2 < 0.45:
                cls, cmd = "put", rng.choice(["p", "P", '"ap', '"aP'])
        keys = pre + [cmd]
        twin = None
        if cls == "y":
            twin = pre + [cmd.replace("y", "d", 1) if not cmd.startswith('"') else cmd[:2] + cmd[2:].replace("y", "d", 1)]
        reqs.append({"op": "keys", "text": text, "cursor": start, "keys": keys})
        meta.append((text, start, cls, cmd, keys, None))
        if twin:
            reqs.append({"op": "keys", "text": text, "cursor": start, "keys": twin})
            meta.append((text, start, "twin-d", twin[-1], twin, len(meta) - 1))
    ans = server_map(binary, reqs)
    dist = {}
    ecases = []
    emeta = []
    for i, ((text, start, cls, cmd, keys, twin_of), a) in enumerate(zip(meta, ans)):
        steps = a.get("steps", [])
        dist[cls] = dist.get(cls, 0) + 1
        if twin_of is not None:
            continue
        chk.count(("c08", text, start, tuple(keys)), nontrivial=True)
        case0 = {"text": text, "cursor": start, "keys": keys}
        if len(steps) != len(keys) or any("panic" in s for s in steps):
            continue
        prev = steps[-2] if len(steps) >= 2 else a["init"]
        st = steps[-1]
        regs_before, regs_after = prev["regs"], st["regs"]
        for c in st["cmds"]:
            if not c.get("done"):
                continue
            verb = c.get("verb") or ""
            before, after = c["before"], c["after"]
            name = regname(c)
            # the register typed in front of the command is the register the command works with
            typed = re.match(r'\d*"([a-zA-Z])\d*([a-zA-Z])', cmd)
            opverb = {"d": "Delete", "x": "Delete", "X": "Delete", "D": "Delete", "c": "Change", "s": "Change", "S": "Change", "C": "Change",
                      "y": "Yank", "Y": "Yank", "p": "Put", "P": "Put"}.get(typed.group(2)) if typed else None
            firstverb = next((x for x in st["cmds"] if x.get("verb")), None)
            if opverb and c is firstverb and verb.startswith(opverb):
                if name != typed.group(1):
                    chk.violation("spec:the command did not use the register it was given", dict(case0, typed_register=typed.group(1), used_register=name, verb=verb))
                    continue
            upper = name is not None and name.isupper()
            if "BlockRange" in (c.get("motion") or "") or "Block" in (st.get("last_selection") or "") and cls == "vdel":
                continue
            if verb in ("Delete", "Change"):
                kind, t = reg_text(regs_after, name)
                if before == after and reg_text(regs_before, name) == (kind, t):
                    # the motion failed (no such object, target not found): the operator did not run, text and
                    # register are as before (fix "an operator whose motion failed leaves the register alone")
                    dist["failed_motion_noop"] = dist.get("failed_motion_noop", 0) + 1
                    continue
                if kind == "block":
                    continue
                piece = t
                if upper:
                    ok_, old = reg_text(regs_before, name)
                    if not t.startswith(old):
                        chk.violation("spec:upper-case register did not append", dict(case0, register=name, before=old, after=t))
                        continue
                    piece = t[len(old):]
                pos = find_removed(before, after, piece)
                if not pos and piece.endswith("\n"):
                    # a linewise register always ends in a newline: it is supplied for the unterminated last line,
                    # and cc / cj / Vc leave the last line's own break in the text
                    cand = find_removed(before, after, piece[:-1])
                    pos = [i for i in cand if verb == "Change" or (i + len(piece) - 1 == len(before) and not before.endswith("\n"))]
                    if pos:
                        piece = piece[:-1]
                if not pos:
                    chk.violation("spec:the register does not hold exactly the removed text / text outside the span changed",
                                  dict(case0, verb=verb, before=before, after=after, register=name or '"', register_text=t))
                    continue
                # correspondence of the primitive: same range on the model
                cl = clusters(before, prev["fresh"] if before == prev["buf"] else None) if before == prev["buf"] else None
                if cl is not None:
                    bpos = len(before[:pos[0]].encode())
                    epos = len(before[:pos[0] + len(piece)].encode())
                    fr = list(prev["fresh"]) + [len(before.encode())]
                    if bpos in fr and epos in fr and not upper:
                        ecases.append(([txt(x) for x in cl], Nat(fr.index(bpos)), Nat(fr.index(epos)), 2 if kind == "line" else 0))
                        emeta.append((case0, after, kind, t))
            elif verb == "Yank":
                if after != before:
                    chk.violation("spec:a yank changed the text", dict(case0, before=before, after=after))
                kind, t = reg_text(regs_after, name)
                if kind == "block":
                    continue
                if reg_text(regs_before, name) == (kind, t) and not upper:
                    # the motion failed (or yanked the very same text): the register is what the history left.
                    # 0 and ^ cannot fail: where they cover nothing the register must hold nothing
                    if (c.get("motion") or "") in ("BeginningOfLine", "BeginningOfFirstWord") and c.get("c0") == c.get("c1") and t != "" and \
                            before[:0] == "" and (c["c0"] == 0 or before[c["c0"] - 1:c["c0"]] == "\n"):
                        chk.violation("spec:a yank over nothing left the old text in the register", dict(case0, register_text=t, buffer=before))
                    continue
                piece = t
                if upper:
                    _, old = reg_text(regs_before, name)
                    piece = t[len(old):] if t.startswith(old) else None
                    if piece is None:
                        chk.violation("spec:upper-case register did not append", dict(case0, register=name, before=old, after=t))
                        continue
                linewise_tail = piece.endswith("\n") and not before.endswith("\n") and before.endswith(piece[:-1])
                if piece not in before and not linewise_tail:
                    chk.violation("spec:yanked text is not a contiguous stretch of the buffer", dict(case0, register_text=t, buffer=before))
            elif verb.startswith("Put"):
                kind, t = reg_text(regs_before, name)
                if kind == "block" or t == "":
                    continue
                nput = max(1, int(c.get("vcount") or 1))       # the count the command carries (a repeated put carries its own)
                cands = [t * nput, "\n" + t * nput] if kind == "line" else [t * nput]
                ok_ = False
                for ins in cands:
                    for j in range(len(before) + 1):
                        if before[:j] + ins + before[j:] == after:
                            ok_ = True
                            break
                    if ok_:
                        break
                if not ok_:
                    chk.violation("spec:put did not insert exactly the register's text", dict(case0, register_text=t, kind=kind, before=before, after=after))
            elif verb in ("ToggleCaseRange", "ToLower", "ToUpper", "Rot13") or verb.startswith("ToggleCaseInplace"):
                if len(before) != len(after):
                    chk.violation("spec:a case operator changed the length of the text", dict(case0, verb=verb, before=before, after=after))
                    continue
                for x, y in zip(before, after):
                    if x != y and not (x.isalpha() and y.isalpha() and (x.lower() == y.lower() or verb == "Rot13")):
                        chk.violation("spec:a case operator changed something that is not a letter", dict(case0, verb=verb, before=before, after=after))
                        break
            elif verb.startswith("ReplaceCharInplace"):
                cb = clusters(before, prev["fresh"]) if before == prev["buf"] else None
                ca = clusters(after, st["fresh"]) if after == st["buf"] else None
                if cb is not None and ca is not None and len(cb) != len(ca):
                    chk.violation("spec:r changed the number of characters", dict(case0, before=before, after=after))
        if cls == "insert":
            typed = cmd[1:-5]
            b0, a0 = prev["buf"], st["buf"]
            if not any(b0[:j] + typed + b0[j:] == a0 for j in range(len(b0) + 1)):
                chk.violation("spec:an insert session did not add exactly the typed text", dict(case0, typed=typed, before=b0, after=a0))
        # yank vs delete over the same motion: same register text
        if cls == "y" and i + 1 < len(meta) and meta[i + 1][5] == i:
            tw = ans[i + 1].get("steps", [])
            if len(tw) == len(keys) and not any("panic" in s for s in tw):
                name = None
                m = re.match(r'"(.)', cmd)
                if m:
                    name = m.group(1)
                ky, ty = reg_text(st["regs"], name)
                kd, td = reg_text(tw[-1]["regs"], name)
                if (ky, ty) != (kd, td) and not (name and name.isupper()):
                    chk.violation("spec:yank and delete over the same motion put different text into the register",
                                  dict(case0, yank_register=[ky, ty], delete_keys=meta[i + 1][4], delete_register=[kd, td]))
    model = run_coq_eval("c08", IMPORTS, "edit_obs", ecases, shard=500)
    for (case0, after, kind, t), m in zip(emeta, model):
        mrest, (mk, mrows) = m
        if untxt(mrest) != after or [untxt(r) for r in mrows] != [t]:
            chk.violation("correspondence:drain + register write", dict(case0, impl_after=after, model_after=untxt(mrest), impl_reg=t, model_reg=[untxt(r) for r in mrows]), concrete=False)
    chk.cov["traces_validated_against_impl"] = len(ecases)
    # ---- a plain insert after inserts started from selections and after block yanks: it adds what was typed, on its line only ----
    ireqs, imeta = [], []
    for _ in range(300 if thorough else 50):
        text = rng.choice(["abcd\nefgh\nijkl\nmnop\nqrst\n", "ab cd\nef gh\nij kl\nmn op\n", "é1\nü2\nß3\n日4\n"])
        pre = [rng.choice(["vlcXY<esc>", "<c-v>jIXY<esc>", "<c-v>jcQ<esc>", "vec-<esc>", "<c-v>j$Az<esc>"])]
        if rng.random() < 0.7:
            pre.append(rng.choice(["j<c-v>jy", "<c-v>jy", "gg<c-v>jly", "vly", "Vy"]))
        typed = rng.choice(["QRS", "é!", "a b", "日"])
        ins = rng.choice(["j", "jj", "gg", "k", ""]) + rng.choice(["i", "a", "A", "I"]) + typed + "<esc>"
        ireqs.append({"op": "keys", "text": text, "cursor": 0, "keys": pre + [ins]})
        imeta.append((text, pre, ins, typed))
    for (text, pre, ins, typed), a in zip(imeta, server_map(binary, ireqs)):
        chk.count(("c08-insert-after-visual", text, tuple(pre), ins), nontrivial=True)
        dist["plain_insert_after_visual"] = dist.get("plain_insert_after_visual", 0) + 1
        steps = a.get("steps") or []
        if len(steps) != len(pre) + 1 or "buf" not in steps[-1] or "buf" not in steps[-2]:
            continue
        before, after = steps[-2]["buf"].split("\n"), steps[-1]["buf"].split("\n")
        changed = [k_ for k_ in range(max(len(before), len(after))) if (before[k_] if k_ < len(before) else None) != (after[k_] if k_ < len(after) else None)]
        ok = len(before) == len(after) and len(changed) == 1 and len(after[changed[0]]) == len(before[changed[0]]) + len(typed) and typed in after[changed[0]]
        if not ok:
            chk.violation("spec:an insert session changed more than the text it typed", {"text": text, "keys": pre + [ins], "typed": typed, "before": steps[-2]["buf"], "after": steps[-1]["buf"]})
    # ---- a register read from a vic script (@a) is the register: copied to another one and put, it gives what putting it directly gives ----
    from ..common import cli_map
    vjobs, vmeta = [], []
    for text in ["first line\nsecond line\nthird\n", "é1 x\nü2 y\nend", "a\n\nb\n"]:
        for yank in ['\\"ayy', '\\"ayj', '\\"ayiw', '\\"ay$', '\\"add']:
            for put in ["G", "gg", "j"]:
                s1 = 'move "%s"\nyank @b @a\nmove "%s\\"bP"\n' % (yank, put)
                s2 = 'move "%s"\nmove "%s\\"aP"\n' % (yank, put)
                vjobs += [{"args": [s1], "stdin": text}, {"args": [s2], "stdin": text}]
                vmeta.append((text, s1, s2))
    vres = cli_map(binary, vjobs)
    for k_, (text, s1, s2) in enumerate(vmeta):
        r1, r2 = vres[2 * k_], vres[2 * k_ + 1]
        chk.count(("c08-vic-register", text, s1), nontrivial=True)
        dist["register_read_by_script"] = dist.get("register_read_by_script", 0) + 1
        if (r1[0], r1[1]) != (r2[0], r2[1]):
            chk.violation("spec:a register read from a vic script is not the text the register holds", {"stdin": text, "script_copy": s1, "script_direct": s2,
                          "stdout_copy": r1[1].decode(errors="replace"), "stdout_direct": r2[1].decode(errors="replace"), "rc": [r1[0], r2[0]], "stderr": r1[2].decode(errors="replace")[-200:]})
    # ---- every named register: what goes into one comes out of it, whatever its neighbours hold ----
    import string
    rreqs, rmeta = [], []
    for L_ in string.ascii_lowercase:
        others = [x for x in string.ascii_lowercase if x != L_]
        M_ = rng.choice([chr(ord(L_) - 1) if L_ != "a" else "b", chr(ord(L_) + 1) if L_ != "z" else "y", rng.choice(others)])
        word1, word2 = rng.choice([("foo", "bar"), ("é1", "ü2"), ("one", "two")])
        text = f"{word1} {word2} baz\n"
        variants = [([f'"{L_}yiw', f'w"{M_}yiw', f'$"{L_}p'], text[:-1] + word1 + "\n", word1),
                    ([f'"{M_}yiw', f'w"{L_}yiw', f'$"{L_}p'], text[:-1] + word2 + "\n", word2),
                    ([f'"{L_}yiw', f'w"{L_.upper()}yiw', f'"{M_}yiw', f'$"{L_}p'], text[:-1] + word1 + word2 + "\n", word1 + word2)]
        for keys, exp, regexp in variants:
            rreqs.append({"op": "keys", "text": text, "cursor": 0, "keys": keys})
            rmeta.append((L_, M_, text, keys, exp, regexp))
    for (L_, M_, text, keys, exp, regexp), a in zip(rmeta, server_map(binary, rreqs)):
        chk.count(("c08-register", L_, M_, tuple(keys)), nontrivial=True)
        dist["named_register_roundtrips"] = dist.get("named_register_roundtrips", 0) + 1
        st = (a.get("steps") or [{}])[-1]
        if "buf" not in st:
            chk.violation("spec:panic on a register command", {"text": text, "keys": keys, "answer": str(st)[:200]})
            continue
        got_reg = (st.get("regs", {}).get(L_) or {}).get("t")
        if st["buf"] != exp or got_reg != regexp:
            chk.violation("spec:a named register does not give back what was put into it", {"text": text, "keys": keys, "register": L_, "neighbour": M_,
                          "text_after": st["buf"], "expected_text": exp, "register_holds": got_reg, "expected_register": regexp})
    chk.cov["input_distribution"] = dist
    chk.sample({"text": meta[0][0], "cursor": meta[0][1], "keys": meta[0][4]})
    chk.cov["rule"] = ("(text incl. multi-byte graphemes before/inside/after the span, every start cursor, one operator command: x X d c y dd yy D g~ gu gU g? r ~ with all motions/text objects and counts, "
                       "visual deletes/yanks, i a I A sessions, p P; named registers lower/upper case, optionally pre-filled) run in-process; every ViCmd is traced (text before/after) and the registers dumped; "
                       "oracles: text = pre+mid+post / pre+post with register = mid (append for upper case), yank leaves the text and equals the delete over the same motion, put inserts exactly the register text, "
                       "sessions add exactly the typed text, case operators keep length and touch only ASCII letters; the drain+register primitive is replayed on the Coq model with the same cluster range")
    chk.assumptions += ["which range a motion selects is not part of this property (C02); the theorems hold for every range"]
    return chk.finish()


def replay(path):
    d = json.load(open(path))
    print(json.dumps(d["case"], indent=1, ensure_ascii=False)[:4000])
    return 0
