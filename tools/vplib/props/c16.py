"""C16: ex line commands match the line-oriented reference semantics (Model/Ex.v)."""
import json
import os
import shutil
import subprocess
from concurrent.futures import ThreadPoolExecutor

from ..common import C, NPROC, TMP, Nat, cli_map, run_coq_eval, txt, untxt

IMPORTS = ["Base.Prelude", "Model.Regex", "Model.Ex", "Model.Obs"]

ALPHABETS = [list("ab "), list("abc,"), list("aé b"), list("日本a "), list("xy_1"), list("aß:c"), list("a\\b ")]
WORDS = ["foo", "bar", "baz", "a", "ab", "", "x y", "héllo", "日本語", "a,b,c", "key: val", "  lead", "trail  ", "über", "1 2 3", "aaa", "abab", "a\\b", "x\\", "\\\\", "b😀c", "😀"]
REPS = ["", "X", "--", "é", "日本", "a b", "zz", "_", "1", "😀", "a𠀀"]          # (characters of 1, 2, 3 and 4 bytes)
LIT_CHARS = list("abcxy1 ,:_") + ["é", "日", "ß", "😀"]


def gen_text(rng):
    n = rng.choice([0, 1, 1, 2, 3, 3, 4, 5, 6, 8, 12])
    if rng.random() < 0.5:
        alpha = rng.choice(ALPHABETS)
        lines = ["".join(rng.choice(alpha) for _ in range(rng.randint(0, 6))) for _ in range(n)]
    else:
        lines = [rng.choice(WORDS) for _ in range(n)]
    text = "\n".join(lines)
    if lines and rng.random() < 0.7:
        text += "\n"
    return text


REG_UNKNOWN = [False]
NULLABLE = [False]      # set when a generated pattern can match the empty string (Vim and sed/regex differ at the line end)


# ---- regexes: (coq term, rust syntax, vim very-magic syntax) ------------------------------------
def gen_atom(rng, chars):
    r = rng.random()
    if "\\" in chars and r < 0.3:
        # a literal backslash is written escaped, also when it is the last thing before the closing delimiter
        return C("AChar", 92), "\\\\", "\\\\"
    if r < 0.7:
        c = rng.choice(chars)
        if c == "\\":
            return C("AChar", 92), "\\\\", "\\\\"
        return C("AChar", ord(c)), c, c
    if r < 0.8:
        return C("AAny"), ".", "."
    if r < 0.9:
        cs = rng.sample(chars, min(len(chars), rng.randint(1, 3)))
        cs = [c for c in cs if c not in "^-]\\"] or ["a"]
        neg = rng.random() < 0.3
        src = "[" + ("^" if neg else "") + "".join(cs) + "]"
        return C("AClass", neg, [(ord(c), ord(c)) for c in cs]), src, src
    if r < 0.95:
        return C("AClass", False, [(48, 57)]), "\\d", "\\d"
    return C("AClass", False, [(97, 122)]), "[a-z]", "[a-z]"


def gen_regex(rng, text):
    chars = [c for c in sorted(set(text)) if c != "\n" and (c.isalnum() or c in " ,:_\\" or ord(c) > 127)] or ["a"]
    chars = chars + LIT_CHARS[:3]
    items, rust, vim = [], "", ""
    for _ in range(rng.choice([1, 1, 1, 2, 2, 3])):
        a, rs, vs = gen_atom(rng, chars)
        r = rng.random()
        if r < 0.75:
            items.append(C("ROne", a))
        elif r < 0.85:
            items.append(C("RStar", a)); rs += "*"; vs += "*"
        elif r < 0.93:
            items.append(C("RPlus", a)); rs += "+"; vs += "+"
        else:
            items.append(C("ROpt", a)); rs += "?"; vs += "?"
        rust += rs
        vim += vs
    nullable = all(it.name in ("RStar", "ROpt") for it in items)
    bol = rng.random() < 0.12
    eol = rng.random() < 0.12
    if rng.random() < 0.04:
        items, rust, vim = [], "", ""
        bol, eol = (True, False) if rng.random() < 0.5 else (False, True)
        nullable = False           # a lone ^ or $ matches once per line everywhere
    NULLABLE[0] = NULLABLE[0] or nullable
    return C("mkRe", bol, items, eol), ("^" if bol else "") + rust + ("$" if eol else ""), "\\v" + ("^" if bol else "") + vim + ("$" if eol else "")


# ---- addresses and ranges -----------------------------------------------------------------------
def gen_addr(rng, n, rel_ok):
    r = rng.random()
    if r < 0.55:
        k = rng.choice([0, 1, 1, 2, 2, 3, max(1, n), n + 1, n + 3, rng.randint(0, n + 1)])
        return C("ANum", Nat(k)), str(k)
    if r < 0.75:
        return C("ALast"), "$"
    if rel_ok:
        if r < 0.85:
            return C("ACur"), "."
        k = rng.randint(1, 3)
        neg = rng.random() < 0.5
        return C("AOff", neg, Nat(k)), ("-" if neg else "+") + str(k)
    return C("ALast"), "$"


def gen_range(rng, n, rel_ok, allow_default=True):
    r = rng.random()
    if r < 0.15 and allow_default and rel_ok:
        return C("RDefault"), ""
    if r < 0.3:
        return C("RAll"), "%"
    if r < 0.6:
        a, s = gen_addr(rng, n, rel_ok)
        return C("ROne_", a), s
    a, s1 = gen_addr(rng, n, rel_ok)
    b, s2 = gen_addr(rng, n, rel_ok)
    return C("RTwo", a, b), s1 + "," + s2


NKEYS = [("NX", [], "x"), ("NDD", [], "dd"), ("NAppend", ["!"], "A!"), ("NAppend", ["é;"], "Aé;"), ("NInsert", ["#_"], "I#_")]


def gen_cmd(rng, text, nlines, rel_ok):
    """returns (coq term, vicut keys, vim ex line, kind)"""
    r = rng.random()
    if r < 0.3:
        rg, rs = gen_range(rng, nlines, rel_ok)
        re_, rust, vim = gen_regex(rng, text)
        rep = rng.choice(REPS)
        g = rng.random() < 0.5
        fl = "g" if g else ""
        return C("ESub", rg, re_, rep, g), f":{rs}s/{rust}/{rep}/{fl}<CR>", f"silent! {rs}s/{vim}/{rep}/{fl}", "s"
    if r < 0.45:
        rg, rs = gen_range(rng, nlines, rel_ok)
        return C("EDel", rg), f":{rs}d<CR>", f"silent! {rs}d", "d"
    if r < 0.6:
        # after a :g that deletes, which line is in the register depends on the visiting order: yank afresh (% is always valid)
        rg, rs = (C("RAll"), "%") if REG_UNKNOWN[0] else gen_range(rng, nlines, rel_ok)
        REG_UNKNOWN[0] = False
        a, s = gen_addr(rng, nlines, False)      # where :y leaves the cursor is not part of the property
        put = (C("Some", a), s)
        return [C("EYank", rg), C("EPut", put[0])], f":{rs}y<CR>:{put[1]}pu<CR>", [f"silent! {rs}y", f"silent! {put[1]}pu"], "y-pu"
    if r < 0.9:
        neg = rng.random() < 0.3
        rg, rs = gen_range(rng, nlines, rel_ok=False, allow_default=False) if rng.random() < 0.4 else (C("RDefault"), "")
        re_, rust, vim = gen_regex(rng, text)
        k = rng.random()
        bang = "!" if neg else ""
        if k < 0.4:
            REG_UNKNOWN[0] = True
            return C("EGlobal", neg, rg, re_, C("GDel")), f":{rs}g{bang}/{rust}/d<CR>", f"silent! {rs}g{bang}/{vim}/d", "g-d"
        if k < 0.7:
            re2, rust2, vim2 = gen_regex(rng, text)
            rep = rng.choice(REPS)
            g = rng.random() < 0.5
            fl = "g" if g else ""
            return (C("EGlobal", neg, rg, re_, C("GSub", re2, rep, g)), f":{rs}g{bang}/{rust}/s/{rust2}/{rep}/{fl}<CR>",
                    f"silent! {rs}g{bang}/{vim}/s/{vim2}/{rep}/{fl}", "g-s")
        name, args, keys = rng.choice(NKEYS)
        REG_UNKNOWN[0] = REG_UNKNOWN[0] or name in ("NDD", "NX")
        return C("EGlobal", neg, rg, re_, C("GNormal", C(name, *args))), f":{rs}g{bang}/{rust}/normal! {keys}<CR>", f"silent! {rs}g{bang}/{vim}/normal! {keys}", "g-normal"
    rg, rs = gen_range(rng, nlines, rel_ok)
    name, args, keys = rng.choice(NKEYS)
    REG_UNKNOWN[0] = REG_UNKNOWN[0] or name in ("NDD", "NX")
    return C("ENormal", rg, C(name, *args)), f":{rs}normal! {keys}<CR>", f"silent! {rs}normal! {keys}", "normal"


def gen_case(rng):
    text = gen_text(rng)
    n = len(text.split("\n")) - (1 if text.endswith("\n") else 0) if text else 0
    cmds, keys, vim, kinds = [], "", [], []
    NULLABLE[0] = False
    REG_UNKNOWN[0] = False
    rel_ok = True            # the cursor is on line 1 at the start
    for _ in range(rng.randint(1, 4)):
        if not rel_ok and rng.random() < 0.5:
            k = rng.randint(1, max(1, n))
            cmds.append(C("EGoto", Nat(k)))
            keys += "gg" + (f"{k - 1}j" if k > 1 else "")      # not nG: G ignores its count (a C02 matter)
            vim.append(f"{k}")
            rel_ok = True
        c, ks, vs, kind = gen_cmd(rng, text, n, rel_ok)
        cmds += c if isinstance(c, list) else [c]
        keys += ks
        vim += vs if isinstance(vs, list) else [vs]
        kinds.append(kind)
        rel_ok = False       # where the cursor is after an ex command is not part of the property
    if keys.endswith("<CR>") and rng.random() < 0.25:
        keys = keys[:-4]          # the end of the argument enters a command line that is still open
    return {"text": text, "cmds": cmds, "keys": keys, "vim": vim, "kinds": kinds, "nullable": NULLABLE[0]}


GHOST_WHAT = ("a last line without terminator that becomes empty (e.g. x on its only character) leaves no text behind in the buffer, "
              "so later addresses ($, line numbers) are one line short of the reference")


def lines_of(text):
    if text == "":
        return []
    ls = text.split("\n")
    if ls[-1] == "":
        ls.pop()
    return ls


def lit(sx):
    return C("mkRe", False, [C("ROne", C("AChar", ord(ch))) for ch in sx], False)


def fixed(text, cmds, keys, vim, nullable=False):
    return {"text": text, "cmds": cmds, "keys": keys, "vim": vim, "kinds": ["corpus"], "nullable": nullable}


R = lambda a, b: C("RTwo", C("ANum", Nat(a)), C("ANum", Nat(b)))
# inputs on which the pinned tree differed from the reference (each repaired by a fix: commit) and the probe of the known finding
CORPUS = [
    fixed("foo", [C("ESub", C("RDefault"), lit("foo"), "bar", False)], ":s/foo/bar/<CR>", ["silent! s/\\vfoo/bar/"]),
    # the same pattern twice, with another replacement and another flag: each :s is what was typed for it
    fixed("na na\nna na\nna\nna na\n", [C("ESub", C("ROne_", C("ANum", Nat(1))), lit("na"), "X", False), C("ESub", R(2, 4), lit("na"), "Y", True)],
          ":1s/na/X/<CR>:2,4s/na/Y/g<CR>", ["silent! 1s/\\vna/X/", "silent! 2,4s/\\vna/Y/g"]),
    fixed("ab ab\nab ab\n", [C("ESub", C("RAll"), lit("ab"), "1", True), C("ESub", C("RAll"), lit("1"), "ab", False), C("ESub", C("RAll"), lit("1"), "z", True)],
          ":%s/ab/1/g<CR>:%s/1/ab/<CR>:%s/1/z/g<CR>", ["silent! %s/\\vab/1/g", "silent! %s/\\v1/ab/", "silent! %s/\\v1/z/g"]),
    fixed("éa éa\nzéa\n", [C("ESub", C("RAll"), lit("a"), "ü", True)], ":%s/a/ü/g<CR>", ["silent! %s/\\va/ü/g"]),
    fixed("a\nb\nc\nd\n", [C("EDel", C("ROne_", C("ALast")))], ":$d<CR>", ["silent! $d"]),
    fixed("a\nb\nc\nd\n", [C("EGlobal", False, R(1, 3), C("mkRe", False, [C("ROne", C("AClass", False, [(97, 97), (99, 99)]))], False), C("GDel"))], ":1,3g/[ac]/d<CR>", ["silent! 1,3g/\\v[ac]/d"]),
    fixed("a\nb\nc\nd\n", [C("EGlobal", True, R(2, 3), lit("b"), C("GDel"))], ":2,3g!/b/d<CR>", ["silent! 2,3g!/\\vb/d"]),
    fixed("a\nb\nc\nd\n", [C("EGlobal", False, C("RDefault"), C("mkRe", False, [C("ROne", C("AClass", False, [(98, 99)]))], False), C("GNormal", C("NAppend", "x")))], ":g/[bc]/normal! Ax<CR>", ["silent! g/\\v[bc]/normal! Ax"]),
    fixed("ab\ncd\nef\n", [C("ENormal", R(2, 3), C("NAppend", "z")), C("EDel", C("ROne_", C("ANum", Nat(1))))], ":2,3normal! Az<CR>:1d<CR>", ["silent! 2,3normal! Az", "silent! 1d"]),
    fixed("a\nb\nc\nd\n", [C("EYank", C("ROne_", C("ANum", Nat(2)))), C("EPut", C("Some", C("ANum", Nat(0))))], ":2y<CR>:0pu<CR>", ["silent! 2y", "silent! 0pu"]),
    fixed("a\nb", [C("EYank", R(1, 2)), C("EPut", C("Some", C("ANum", Nat(1))))], ":1,2y<CR>:1pu<CR>", ["silent! 1,2y", "silent! 1pu"]),
    # lines put behind an unterminated last line, the register ending in empty lines
    fixed("a\n\nb", [C("EYank", R(1, 2)), C("EPut", C("Some", C("ALast")))], ":1,2y<CR>:$pu<CR>", ["silent! 1,2y", "silent! $pu"]),
    fixed("x\n\n\nb", [C("EYank", R(1, 3)), C("EPut", C("Some", C("ALast")))], ":1,3y<CR>:$pu<CR>", ["silent! 1,3y", "silent! $pu"]),
    fixed("\n\nb", [C("EYank", R(1, 2)), C("EGoto", Nat(3)), C("EPut", None)], ":1,2y<CR>gg2j:pu<CR>", ["silent! 1,2y", "3", "silent! pu"]),
    fixed("a\nb\nc\nd\n", [C("EGoto", Nat(3)), C("EDel", C("ROne_", C("ANum", Nat(0))))], "gg2j:0d<CR>", ["3", "silent! 0d"]),
    fixed("a\nb\nc\n", [C("EDel", C("RTwo", C("AOff", True, Nat(2)), C("ALast")))], ":-2,$d<CR>", ["silent! -2,$d"]),
    fixed("a\nb\nc\n", [C("EDel", C("RTwo", C("AOff", True, Nat(1)), C("ANum", Nat(2))))], ":-1,2d<CR>", ["silent! -1,2d"]),
    fixed("a\nb\n", [C("ESub", R(2, 3), C("mkRe", False, [C("ROne", C("AAny"))], False), "X", False)], ":2,3s/./X/<CR>", ["silent! 2,3s/\\v./X/"]),
    fixed("a\nb\nc\n", [C("EDel", C("ROne_", C("ANum", Nat(2)))), C("EYank", C("ROne_", C("ANum", Nat(9)))), C("EPut", C("Some", C("ANum", Nat(1))))], ":2d<CR>:9y<CR>:1pu<CR>", ["silent! 2d", "silent! 9y", "silent! 1pu"]),
    fixed("a\nbar\nx\n", [C("EGlobal", True, C("RDefault"), lit("a"), C("GNormal", C("NDD")))], ":g!/a/normal! dd<CR>", ["silent! g!/\\va/normal! dd"]),
    fixed("a\nb\nc\nd\n", [C("EDel", R(3, 1))], ":3,1d<CR>", ["silent! 3,1d"]),
    fixed("  \nab\n", [C("ENormal", C("ROne_", C("ANum", Nat(1))), C("NInsert", "#_"))], ":1normal! I#_<CR>", ["silent! 1normal! I#_"]),
    fixed("é aéb \nbé", [C("EGlobal", False, C("RDefault"), C("mkRe", False, [C("ROne", C("AAny"))], False), C("GSub", C("mkRe", False, [C("RPlus", C("AAny"))], False), "1", False)),
                          C("ENormal", C("RTwo", C("ALast"), C("ALast")), C("NX")), C("EDel", C("ROne_", C("ALast")))], ":g/./s/.+/1/<CR>:$,$normal! x<CR>:$d<CR>", ["silent! g/\\v./s/\\v.+/1/", "silent! $,$normal! x", "silent! $d"]),
]


def run_vim(cases):
    d = os.path.join(TMP, f"c16_vim_{os.getpid()}")
    shutil.rmtree(d, ignore_errors=True)
    os.makedirs(d)

    def one(i):
        c = cases[i]
        f = os.path.join(d, f"b{i}.txt")
        s = os.path.join(d, f"s{i}.vim")
        open(f, "w", encoding="utf-8").write(c["text"])
        open(s, "w", encoding="utf-8").write("set encoding=utf-8\n1\n" + "\n".join(c["vim"]) + "\nw!\nqa!\n")
        try:
            subprocess.run(["vim", "-es", "-N", "-u", "NONE", "-i", "NONE", "-n", "-S", s, f], stdin=subprocess.DEVNULL,
                           stdout=subprocess.DEVNULL, stderr=subprocess.DEVNULL, timeout=10, env={"LANG": "C.UTF-8", "LC_ALL": "C.UTF-8", "HOME": d, "PATH": "/usr/bin:/bin"})
            return lines_of(open(f, encoding="utf-8").read())
        except Exception as e:      # noqa
            return None
    with ThreadPoolExecutor(NPROC) as ex:
        out = list(ex.map(one, range(len(cases))))
    shutil.rmtree(d, ignore_errors=True)
    return out


def run(chk, binary):
    rng = chk.rng
    thorough = chk.tier == "thorough"
    chk.proof_obligations()
    n = 6000 if thorough else 900
    cases = [dict(c) for c in CORPUS] + [gen_case(rng) for _ in range(n)]
    n = len(cases)
    res = cli_map(binary, [{"args": ["-m", c["keys"]], "stdin": c["text"], "timeout": 10, "env": {"SHELL": "/bin/true"}} for c in cases])
    model = run_coq_eval("c16", IMPORTS, "ex_obs", [(txt(c["text"]), c["cmds"]) for c in cases], shard=150)
    have_vim = shutil.which("vim") is not None
    vim = run_vim(cases) if have_vim else [None] * n
    dist = {"kinds": {}, "multibyte": 0, "unterminated_last_line": 0, "empty_text": 0, "impl_error_exit": 0, "panic": 0,
            "model_vs_vim_compared": 0, "model_vs_vim_differ": 0, "changed_by_reference": 0}
    vim_diffs = []
    ghost_examples = []
    for c, (rc, out, err), m, v in zip(cases, res, model, vim):
        for k in c["kinds"]:
            dist["kinds"][k] = dist["kinds"].get(k, 0) + 1
        text = c["text"]
        if any(ord(ch) > 127 for ch in text):
            dist["multibyte"] += 1
        if text and not text.endswith("\n"):
            dist["unterminated_last_line"] += 1
        if not text:
            dist["empty_text"] += 1
        mlines = [untxt(l) for l in m[0]]
        was_empty = m[1]
        ghost_line = m[2] and not text.endswith("\n")
        if mlines != lines_of(text):
            dist["changed_by_reference"] += 1
        chk.count(("c16", text, c["keys"]), nontrivial=True)
        case = {"text": text, "keys": c["keys"], "reference_lines": mlines}
        if v is not None and text and not was_empty and not c["nullable"]:
            dist["model_vs_vim_compared"] += 1
            if v != mlines:
                dist["model_vs_vim_differ"] += 1
                if len(vim_diffs) < 5:
                    vim_diffs.append({"text": text, "vim_script": c["vim"], "vim": v, "model": mlines})
        e = err.decode("utf-8", "replace")
        if was_empty or not text:
            # an empty buffer is "no line" for the reference and "one empty line" for Vim and vicut: what commands do
            # on it is left out of the comparison
            dist["skipped_empty_buffer"] = dist.get("skipped_empty_buffer", 0) + 1
            if "panicked at" in e or rc not in (0, 1):
                chk.violation("spec:ex command panicked", dict(case, stderr=e[-300:]))
            continue
        if rc == "timeout":
            chk.violation("spec:ex command did not terminate", case)
            continue
        if "panicked at" in e or rc not in (0, 1):
            dist["panic"] += 1
            chk.violation("spec:ex command panicked", dict(case, stderr=e[-300:]))
            continue
        if rc == 1:
            dist["impl_error_exit"] += 1
            chk.violation("spec:ex command made vicut exit with an error", dict(case, stderr=e[-300:]))
            continue
        o = out.decode("utf-8", "replace")
        # -m prints the whole buffer followed by one newline
        ibuf = o[:-1] if o.endswith("\n") else o
        ilines = lines_of(ibuf)
        # an empty last line without terminator cannot be told from no line in the buffer text - a text that ends in a
        # line break (or is empty); a text that ends in a character has simply lost the line
        same = ilines == mlines or (mlines and mlines[-1] == "" and not text.endswith("\n") and ilines == mlines[:-1] and (ibuf == "" or ibuf.endswith("\n")))
        if not same and ghost_line and (ibuf == "" or ibuf.endswith("\n") or ilines != mlines[:-1]):
            chk.known("empty-unterminated-last-line", GHOST_WHAT)
            ghost_examples.append(dict(case, impl_lines=ilines))
        elif not same:
            chk.violation("correspondence:buffer lines differ from the reference", dict(case, impl_lines=ilines))
    chk.cov["traces_validated_against_impl"] = n
    chk.cov["input_distribution"] = dist
    chk.cov["model_vs_vim_examples"] = vim_diffs
    chk.cov["known_finding_examples"] = ghost_examples[:3]
    chk.sample({"text": cases[0]["text"], "keys": cases[0]["keys"]})
    chk.cov["rule"] = ("texts of 0..12 lines over small alphabets and word lists (multi-byte, blank lines, last line with and without terminator); 1..4 chained ex commands: :[range]s/pat/rep/[g], :[range]d, "
                       ":[range]y + :[line]pu, :[range]g[!]/pat/{d|s|normal!}, :[range]normal!; ranges from numbers (0, inside, last, past the end), . $ % +n -n, reversed and single; patterns: literals, ., classes, \\d, * + ?, ^ $; "
                       "the reference (Model/Ex.v, Model/Regex.v) is evaluated in coqc on the same case and compared line by line with the CLI result; the reference itself is compared with Vim 9 (vim -es) on every case with a non-empty text.")
    chk.assumptions += ["cursor-relative addresses (. +n -n, default range) are only generated where the cursor line is known (start, or after nG)",
                        "patterns and replacements avoid back-references, alternation and groups; the regex fragment of Model/Regex.v is compared with the regex crate only through these runs",
                        "the reference works on code points: texts are NFC without combining marks, so code points and grapheme clusters coincide"]
    return chk.finish([f"KNOWN-FINDING: property=C16 class={k} {v}" for k, v in sorted(chk.known_hits.items())])


def replay(path):
    d = json.load(open(path))
    print(json.dumps(d["case"], indent=1, ensure_ascii=False)[:4000])
    return 0
