"""Generators for the command-line language (items), shared by C12/C18/C03...

An item mirrors Spec/Items.v:
  ("cut", long, s) ("ncut", long, name, s) ("move", long, s) ("next", long)
  ("rep", long, n_text, r_text) ("glob", long, kind, pat, th, el_or_None)
"""
from .common import C, txt

MOVES = ["w", "e", "b", "l", "h", "$", "0", "W", "E", "fa", "tb", "j", "k", "gg", "G", "^", "ge", "2w", "3l"]
EDITS = ["x", "dw", "iX<esc>", "a-<esc>", "rZ", "~", "D", "yiw", "P", "p", "dd", "cwnew<esc>", "ohi<esc>", "J", "u", "vey", "guw", "gUiw", '\\"ayiw', '\\"ap', '\\"Ayw']
CUTS = ["e", "w", "$", "iw", "vee", "b", "3l", "E", "fa", "vi)", "va)", "0", "vaw", "f\\\\", "t\\\\", 'vi\\"', 'f\\"', '\\"ayiw']
PATS = ["a", "o", "foo", "b.r", "\\d", "x|y", "e$", "^f", "z", "qqq", "^$", "\\$[0-9]", " b", "#", " -", "\\$"]
TEXTS = [
    "foo bar baz\nalpha beta gamma\nfoo2 bar2\n",
    "a b c d e f\ng h i j k l\n",
    "one two three four five six seven",
    "x1 y2 z3\n\nfoo (bar baz) [qux]\nlast line no newline",
    "héllo wörld ñandú\nfoo bär\n",
    "",
    "\n",
    "foo\nbar\nfoo2\n",
    "aXbXc foo,bar;baz\n  indented line\n",
    "path\\to\\file and more\nsecond\\line\n",
    "tea $3 each\n# comment - here\nplain b\n",
]


# key strings that end in the middle of a command or in an open mode: whatever runs them (top level, -r body, -g scope,
# vic block) has to leave the same nothing behind for the next command
OPEN = ["2", "d", "f", '"a', "ve", "vl", "V", "ix", "3", "g", "c", "2d", "vee", "A-", "Rz"]


def gen_cmd_str(rng, kind):
    if rng.random() < 0.1:
        return rng.choice(OPEN)
    if kind == "cut":
        return rng.choice(CUTS if rng.random() < 0.8 else MOVES + EDITS)
    r = rng.random()
    return rng.choice(MOVES if r < 0.5 else EDITS)


def gen_simple(rng, allow_named=True, names=None):
    r = rng.random()
    long = rng.random() < 0.3
    if r < 0.4:
        return ("cut", long, gen_cmd_str(rng, "cut"))
    if r < 0.5 and allow_named:
        name = rng.choice(names or ["a", "b", "key", "n1", "x y"])
        return ("ncut", long, name, gen_cmd_str(rng, "cut"))
    if r < 0.9:
        return ("move", long, gen_cmd_str(rng, "move"))
    return ("next", long)


def gen_items(rng, depth=0, maxdepth=3, minlen=1, maxlen=6, rep_prob=0.3, glob_prob=0.2,
              nmax_extra=2, rmax=4):
    """A list of items with -r inserted at arbitrary positions."""
    n = rng.randint(minlen, maxlen)
    out = []
    ncmds = 0  # commands currently in the list (an earlier -r group counts as one)
    for _ in range(n):
        r = rng.random()
        if r < rep_prob:
            N = rng.randint(0, ncmds + nmax_extra)
            R = rng.randint(0, rmax)
            out.append(("rep", rng.random() < 0.3, str(N), str(R)))
            ncmds = max(0, ncmds - N) + 1
        elif r < rep_prob + glob_prob and depth < maxdepth:
            th = gen_items(rng, depth + 1, maxdepth, 0, 4, rep_prob, glob_prob, nmax_extra, rmax)
            el = None
            if rng.random() < 0.4:
                el = gen_items(rng, depth + 1, maxdepth, 0, 3, rep_prob, glob_prob, nmax_extra, rmax)
            out.append(("glob", rng.random() < 0.3, rng.choice(["g", "g", "v"]), rng.choice(PATS), th, el))
            ncmds += 1
        else:
            out.append(gen_simple(rng))
            ncmds += 1
    return out


def flag(long, s, l):
    return l if long else s


def render(items):
    out = []
    for it in items:
        k = it[0]
        if k == "cut":
            out += [flag(it[1], "-c", "--cut"), it[2]]
        elif k == "ncut":
            out += [flag(it[1], "-c", "--cut"), "name=" + it[2], it[3]]
        elif k == "move":
            out += [flag(it[1], "-m", "--move"), it[2]]
        elif k == "next":
            out += [flag(it[1], "-n", "--next")]
        elif k == "rep":
            out += [flag(it[1], "-r", "--repeat"), it[2], it[3]]
        elif k == "glob":
            f = flag(it[1], "-g", "--global") if it[2] == "g" else flag(it[1], "-v", "--not-global")
            out += [f, it[3]] + render(it[4])
            if it[5] is not None:
                out += ["--else"] + render(it[5])
            out += ["--end"]
    return out


def item_coq(it):
    k = it[0]
    if k == "cut":
        return C("ICut", it[1], txt(it[2]))
    if k == "ncut":
        return C("INamed", it[1], txt(it[2]), txt(it[3]))
    if k == "move":
        return C("IMove", it[1], txt(it[2]))
    if k == "next":
        return C("INext", it[1])
    if k == "rep":
        return C("IRep", it[1], txt(it[2]), txt(it[3]))
    if k == "glob":
        el = None if it[5] is None else C("Some", [item_coq(x) for x in it[5]])
        return C("IGlob", it[1], C("GG" if it[2] == "g" else "GV"), txt(it[3]), [item_coq(x) for x in it[4]], el)
    raise ValueError(k)


def item_of_coq(c):
    n = c.name
    a = c.args
    s = lambda l: "".join(chr(x) for x in l)
    if n == "ICut":
        return ("cut", a[0], s(a[1]))
    if n == "INamed":
        return ("ncut", a[0], s(a[1]), s(a[2]))
    if n == "IMove":
        return ("move", a[0], s(a[1]))
    if n == "INext":
        return ("next", a[0])
    if n == "IRep":
        return ("rep", a[0], s(a[1]), s(a[2]))
    if n == "IGlob":
        el = a[4]
        if isinstance(el, C) and el.name == "Some":
            el = [item_of_coq(x) for x in el.args[0]]
        else:
            el = None
        return ("glob", a[0], "g" if a[1].name == "GG" else "v", s(a[2]), [item_of_coq(x) for x in a[3]], el)
    raise ValueError(n)


def cmd_of_dump(j):
    """hook JSON Cmd tree -> the value the Coq model prints (C objects)."""
    k = j[0]

    def lit(a):
        assert a[0] == "lit", a
        return txt(a[1])
    if k == "next":
        return C("CNext")
    if k == "move":
        return C("CMove", lit(j[1]))
    if k == "cut":
        return C("CCut", lit(j[1]))
    if k == "ncut":
        return C("CNamed", txt(j[1]), lit(j[2]))
    if k == "repeat":
        assert j[1][0] == "count"
        return C("CRepeat", [cmd_of_dump(x) for x in j[2]], j[1][1])
    if k == "global":
        el = None if j[4] is None else C("Some", [cmd_of_dump(x) for x in j[4]])
        return C("CGlobal", j[1], lit(j[2]), [cmd_of_dump(x) for x in j[3]], el)
    raise ValueError(j)


def opts_of_dump(d):
    """hook JSON Opts -> Ok(opts_obs) as printed by the model."""
    opt = lambda v: None if v is None else C("Some", txt(v))
    flags = [d["edit_inplace"], d["json"], d["trace"], d["linewise"], d["trim_fields"], d["keep_mode"],
             d["backup_files"], d["single_thread"], d["global_uses_line_numbers"], d["silent"]]
    return C("Ok", (opt(d["delimiter"]), opt(d["template"]), flags,
                    [cmd_of_dump(c) for c in d["cmds"]], [txt(f) for f in d["files"]]))
