"""Generator of programs in the well-defined core of vic, with a renderer to vic source and to the Coq AST of
Model/Vic.v. Programs are well typed, terminate, keep integers small, never divide by zero and never index out of
bounds; functions only use their parameters and top-level variables."""
from .common import C, Nat, ZInt


class Z(int):
    """an int to be written as a Coq Z"""


def zc(n):
    return ZInt(n)


NAMES = ["a", "b", "c", "n", "k", "acc", "tmp", "x1", "cnt", "s", "t", "w", "arr", "lst", "flag"]
TEXTS = ["", "x", "ab", "hi there", "é", "ne\u0301e", "日本", "a-b", "v=", "[", "1 2", "a\U0001F44D\U0001F3FDb"]
# a string is a sequence of grapheme clusters (loops, indices and pop go by cluster). The reference interpreter's strings are
# lists of numbers: a cluster of several code points is one number there (a private-use code), translated back on output.
CLUSTERS = {"e\u0301": "\U000F0001", "\U0001F44D\U0001F3FD": "\U000F0002"}


def enc(t):
    for k, v in CLUSTERS.items():
        t = t.replace(k, v)
    return t


def dec(t):
    for k, v in CLUSTERS.items():
        t = t.replace(v, k)
    return t


class Scope:
    def __init__(self, parent=None):
        self.parent = parent
        self.vars = {}          # name -> type: 'num' | 'str' | 'bool' | ('arr', n, elem_type)

    def lookup(self, name):
        s = self
        while s:
            if name in s.vars:
                return s.vars[name]
            s = s.parent
        return None

    def all(self):
        out = {}
        s = self
        chain = []
        while s:
            chain.append(s)
            s = s.parent
        for s in reversed(chain):
            out.update(s.vars)
        return out

    def of_type(self, pred):
        return [n for n, t in self.all().items() if pred(t)]


class Gen:
    def __init__(self, rng, builtins=None):
        self.rng = rng
        self.funcs = {}         # name -> (nparams, returns 'num'|'str')
        self.depth = 0
        self.nstmts = 0
        self.counter = 0
        self.in_func = None
        self.loop_depth = 0
        self.builtins = builtins or {}
        self.features = set()
        self.iterating = set()

    def fresh(self, base):
        self.counter += 1
        return f"{base}{self.counter}"

    # ---- expressions: each returns (coq term, vic source) ------------------------------------------------
    def atom_num(self, sc):
        r = self.rng.random()
        nums = sc.of_type(lambda t: t == "num")
        if nums and r < 0.55:
            v = self.rng.choice(nums)
            return C("EVar", v), "$" + v
        n = self.rng.randint(0, 12)
        return C("EInt", zc(n)), str(n)

    def num_expr(self, sc, depth=0):
        """arithmetic: a left-to-right chain of atoms and parenthesised chains"""
        r = self.rng.random()
        if depth > 1 or r < 0.35:
            return self.atom_num(sc)
        n = self.rng.randint(2, 3)
        term, src = self.bin_operand(sc, depth)
        for _ in range(n - 1):
            op = self.rng.choice(["OAdd", "OAdd", "OSub", "OMul", "ODiv", "OMod"])
            sym = {"OAdd": "+", "OSub": "-", "OMul": "*", "ODiv": "/", "OMod": "%"}[op]
            if op in ("ODiv", "OMod"):
                d = self.rng.randint(1, 5)
                t2, s2 = C("EInt", zc(d)), str(d)
                self.features.add("div-mod")
            else:
                t2, s2 = self.bin_operand(sc, depth)
            term = C("EBin", C(op), term, t2)
            src = f"{src} {sym} {s2}"
        return term, src

    def bin_operand(self, sc, depth):
        if depth < 1 and self.rng.random() < 0.25:
            t, s = self.num_expr(sc, depth + 1)
            if t.name == "EBin":
                self.features.add("paren")
                return t, f"({s})"
            return t, s
        if self.rng.random() < 0.1:
            n = self.rng.randint(1, 9)
            self.features.add("negative-literal")
            return C("EInt", zc(-n)), f"-{n}"
        return self.atom_num(sc)

    def atom_cmp(self, sc):
        """an operand of a comparison: a value, never an arithmetic expression"""
        r = self.rng.random()
        if r < 0.75:
            return ("num",) + self.atom_num(sc)
        strs = sc.of_type(lambda t: t == "str")
        if strs and r < 0.9:
            v = self.rng.choice(strs)
            return "str", C("EVar", v), "$" + v
        t = self.rng.choice(TEXTS[1:7])
        return "str", C("ELit", [C("PText", enc(t))]), f'"{t}"'

    def cmp_expr(self, sc):
        ty, a, sa = self.atom_cmp(sc)
        if ty == "num":
            b, sb = self.atom_num(sc)
            op = self.rng.choice(["CEq", "CNe", "CLt", "CLe", "CGt", "CGe"])
        else:
            strs = sc.of_type(lambda t: t == "str")
            if strs and self.rng.random() < 0.5:
                v = self.rng.choice(strs)
                b, sb = C("EVar", v), "$" + v
            else:
                t = self.rng.choice(TEXTS[1:7])
                b, sb = C("ELit", [C("PText", enc(t))]), f'"{t}"'
            op = self.rng.choice(["CEq", "CNe"])
        sym = {"CEq": "==", "CNe": "!=", "CLt": "<", "CLe": "<=", "CGt": ">", "CGe": ">="}[op]
        self.features.add("cmp" + sym)
        return C("ECmp", C(op), a, b), f"{sa} {sym} {sb}"

    def cond(self, sc):
        r = self.rng.random()
        bools = sc.of_type(lambda t: t == "bool")
        if bools and r < 0.12:
            v = self.rng.choice(bools)
            return C("EVar", v), "$" + v
        nums_ = sc.of_type(lambda t: t == "num")
        if nums_ and r < 0.2:
            # a number on its own: everything but 0 counts as true, negative numbers too
            v = self.rng.choice(nums_)
            self.features.add("bare-number-condition")
            if self.rng.random() < 0.3:
                return C("ENot", C("EVar", v)), "!$" + v
            return C("EVar", v), "$" + v
        if r < 0.7:
            return self.cmp_expr(sc)
        a, sa = self.cmp_expr(sc)
        b, sb = self.cmp_expr(sc)
        if self.funcs and not self.in_func and self.loop_depth == 0 and self.rng.random() < 0.5:
            # the right operand calls a function (which may echo or change an outer variable): both operands are evaluated,
            # whatever the left one gave
            fn = self.rng.choice(sorted(self.funcs))
            np_, _ = self.funcs[fn]
            args = [self.atom_num(sc) for _ in range(np_)]
            n_, sn = self.atom_num(sc)
            op = self.rng.choice(["CEq", "CNe", "CLt", "CLe", "CGt", "CGe"])
            sym = {"CEq": "==", "CNe": "!=", "CLt": "<", "CLe": "<=", "CGt": ">", "CGe": ">="}[op]
            b = C("ECmp", C(op), C("ECall", fn, [t for t, _ in args]), n_)
            sb = f"{fn}(" + ", ".join(s_ for _, s_ in args) + f") {sym} {sn}"
            self.features.add("call-in-condition")
        if self.rng.random() < 0.5:
            self.features.add("&&")
            return C("EAnd", a, b), f"{sa} && {sb}"
        self.features.add("||")
        return C("EOr", a, b), f"{sa} || {sb}"

    def str_lit(self, sc, no_strs=False):
        pieces, src = [], ""
        for _ in range(self.rng.randint(1, 3)):
            names = sc.of_type(lambda t: t in (("num", "bool") if no_strs else ("num", "str", "bool")))
            r = self.rng.random()
            hidden = [n for n in NAMES if n not in sc.all()]
            if hidden and r < 0.12:
                # a name that is not visible here (never declared, or declared in a block that has ended) expands to nothing
                v = self.rng.choice(hidden)
                pieces.append(C("PVar", v))
                src += "${{" + v + "}}"
                self.features.add("interpolation-hidden")
            elif names and r < 0.5:
                v = self.rng.choice(names)
                pieces.append(C("PVar", v))
                src += "${{" + v + "}}"
                self.features.add("interpolation")
            else:
                t = self.rng.choice(TEXTS[1:])
                pieces.append(C("PText", enc(t)))
                src += t
        return C("ELit", pieces), '"' + src + '"'

    def echo_atom(self, sc):
        r = self.rng.random()
        allv = sc.all()
        if allv and r < 0.6:
            v = self.rng.choice(sorted(allv))
            return C("EVar", v), "$" + v
        if r < 0.8:
            return self.str_lit(sc)
        n = self.rng.randint(0, 99)
        return C("EInt", zc(n)), str(n)

    # ---- statements: each returns (list of coq stmts, list of source lines) -------------------------------
    def stmt(self, sc):
        self.nstmts += 1
        rng = self.rng
        r = rng.random()
        nums = sc.of_type(lambda t: t == "num")
        arrs = sc.of_type(lambda t: isinstance(t, tuple))
        strs = sc.of_type(lambda t: t == "str")
        deep = self.depth >= 3 or self.nstmts > 34
        if r < 0.04 and self.depth >= 1:
            # shadow an outer number, change the inner one, show both: assignment must hit the innermost
            outer = [v for v in sc.of_type(lambda t: t == "num") if v not in sc.vars and v not in self.protected]
            if outer:
                v = rng.choice(outer)
                e, s = self.atom_num(sc)
                sc.vars[v] = "num"
                self.features.add("shadow-then-assign")
                return ([C("SLet", v, e), C("SSet", v, C("Some", C("OAdd")), C("EInt", zc(100))), C("SEcho", [C("EVar", v)])],
                        [f"let {v} = {s}", f"{v} += 100", f"echo ${v}"])
        if r < 0.16:
            v = rng.choice(NAMES[:9]) if rng.random() < 0.7 else self.fresh("v")
            nb = [k for k, ty in self.builtins.items() if ty == "num"]
            if nb and self.depth == 0 and not self.funcs and rng.random() < 0.2:
                # a variable of the script's own with the name of a built-in: from here on the name means the variable
                # (only in programs without functions: what a function body sees under that name is not modelled)
                v = rng.choice(nb)
                self.protected.discard(v)
                self.shadowed_builtin = True
                self.features.add("variable-named-like-a-builtin")
            if sc.lookup(v) not in (None, "num"):
                v = self.fresh("v")
            if sc.lookup(v) == "num" and v not in sc.vars:
                self.features.add("shadowing")
            e, s = self.num_expr(sc)
            sc.vars[v] = "num"
            return [C("SLet", v, e)], [f"let {v} = {s}"]
        if r < 0.22:
            v = self.fresh("s")
            e, s = self.str_lit(sc)
            sc.vars[v] = "str"
            return [C("SLet", v, e)], [f"let {v} = {s}"]
        if r < 0.26:
            v = self.fresh("b")
            e, s = self.cmp_expr(sc)
            sc.vars[v] = "bool"
            self.features.add("bool-variable")
            return [C("SLet", v, e)], [f"let {v} = {s}"]
        if r < 0.31:
            v = self.fresh("arr")
            n = rng.randint(0, 4)
            items = [self.atom_num(sc) for _ in range(n)]
            sc.vars[v] = ("arr", n, "num")
            self.features.add("array")
            return [C("SLet", v, C("EArr", [t for t, _ in items]))], [f"let {v} = [" + ", ".join(s for _, s in items) + "]"]
        if r < 0.43 and nums:
            v = rng.choice(nums)
            if v in self.protected:
                return self.stmt(sc)
            k = rng.random()
            if k < 0.4:
                e, s = self.num_expr(sc)
                return [C("SSet", v, None, e)], [f"{v} = {s}"]
            op = rng.choice(["OAdd", "OSub", "OMul", "ODiv", "OMod"])
            sym = {"OAdd": "+=", "OSub": "-=", "OMul": "*=", "ODiv": "/=", "OMod": "%="}[op]
            e, s = self.atom_num(sc) if rng.random() < 0.6 else self.num_expr(sc)
            if op == "OMul":
                e, s = C("EInt", zc(2)), "2"
            self.features.add("compound-assign")
            if op in ("ODiv", "OMod"):
                # a literal divisor; half of the time the variable is driven below zero first (/= and %= truncate
                # towards zero, as / and % do)
                d = rng.randint(1, 5)
                e, s = C("EInt", zc(d)), str(d)
                self.features.add("compound-div-mod")
                if rng.random() < 0.5:
                    k = rng.randint(13, 40)
                    self.features.add("compound-div-mod-negative")
                    return ([C("SSet", v, C("Some", C("OSub")), C("EInt", zc(k))), C("SSet", v, C("Some", C(op)), e)],
                            [f"{v} -= {k}", f"{v} {sym} {s}"])
            return [C("SSet", v, C("Some", C(op)), e)], [f"{v} {sym} {s}"]
        if r < 0.5:
            n = rng.randint(1, 3)
            es = [self.echo_atom(sc) for _ in range(n)]
            return [C("SEcho", [t for t, _ in es])], ["echo " + " ".join(s for _, s in es)]
        if r < 0.52 and self.loop_depth == 0 and not self.in_func:
            # pop as an expression, inside a block, on an array declared outside it: the value goes into a variable of the
            # block, the array itself is one shorter afterwards.  The array is a fresh literal, so its length is known: the
            # reference reads the last element and then pops.
            v = self.fresh("stk")
            n = rng.randint(1, 3)
            items = [(C("EInt", zc(k_)), str(k_)) for k_ in (rng.randint(0, 9) for _ in range(n))]
            w = self.fresh("top")
            self.features.add("pop-expression")
            sc.vars[v] = ("arr", 0, "num")          # (whether the block ran is not known here: no indexing afterwards)
            ct, cs = self.cmp_expr(sc)
            return ([C("SLet", v, C("EArr", [t for t, _ in items])),
                     C("SIf", [(ct, [C("SLet", w, C("EIdx", v, C("EInt", zc(n - 1)))), C("SPop", v), C("SEcho", [C("EVar", w), C("EVar", v)])])], None),
                     C("SEcho", [C("EVar", v)])],
                    [f"let {v} = [" + ", ".join(s_ for _, s_ in items) + "]", f"if {cs} {{", f"  let {w} = pop ${v}", f"  echo ${w} ${v}", "}", f"echo ${v}"])
        if r < 0.55 and arrs:
            v = rng.choice(arrs)
            _, n, _ = sc.lookup(v)
            k = rng.random()
            if k < 0.5 and self.loop_depth <= 1 and v not in self.iterating:
                e, s = self.atom_num(sc)
                self.set_type(sc, v, ("arr", n + 1, "num"))
                self.features.add("push")
                return [C("SPush", v, e)], [f"push ${v} {s}"]
            if n > 0 and k < 0.7:
                self.set_type(sc, v, ("arr", n - 1, "num"))
                self.features.add("pop")
                return [C("SPop", v)], [f"pop ${v}"]
            if n > 0:
                i = rng.randint(0, n - 1)
                k2 = rng.random()
                if k2 < 0.3:
                    e, s = self.atom_num(sc)
                    self.features.add("index-assign")
                    return [C("SSetIdx", v, C("EInt", zc(i)), e)], [f"{v}[{i}] = {s}"]
                w = self.fresh("e")
                sc.vars[w] = "num"
                if k2 < 0.6:
                    # index through a variable
                    iv = self.fresh("ix")
                    sc.vars[iv] = "num"
                    self.protected.add(iv)
                    self.features.add("index-by-variable")
                    return ([C("SLet", iv, C("EInt", zc(i))), C("SLet", w, C("EIdx", v, C("EVar", iv)))],
                            [f"let {iv} = {i}", f"let {w} = ${v}[${iv}]"])
                self.features.add("index")
                return [C("SLet", w, C("EIdx", v, C("EInt", zc(i))))], [f"let {w} = ${v}[{i}]"]
            return self.stmt(sc)
        strs_w = [v for v in strs if v not in self.protected]
        if r < 0.58 and strs_w:
            v = rng.choice(strs_w)
            if rng.random() < 0.4:
                # inside a loop a string is not rebuilt from strings (s = "${{s}}${{s}}" doubles per pass): sizes stay linear
                e, s = self.str_lit(sc, no_strs=self.loop_depth > 0 or self.in_func is not None)
                self.features.add("assign-string")
                return [C("SSet", v, None, e)], [f"{v} = {s}"]
            if self.loop_depth > 1 or v in self.iterating:
                return self.stmt(sc)       # no growth inside nested loops or of what is being iterated: sizes stay linear
            t = rng.choice(TEXTS[1:6])
            self.features.add("push-string")
            return [C("SPush", v, C("ELit", [C("PText", enc(t))]))], [f'push ${v} "{t}"']
        if deep:
            es = [self.echo_atom(sc)]
            return [C("SEcho", [t for t, _ in es])], ["echo " + " ".join(s for _, s in es)]
        if r < 0.7:
            return self.if_stmt(sc)
        if r < 0.78:
            return self.while_stmt(sc)
        if r < 0.88:
            return self.for_stmt(sc)
        if r < 0.93 and self.funcs and not self.in_func:
            fn = rng.choice(sorted(self.funcs))
            np_, ret = self.funcs[fn]
            args = [self.atom_num(sc) for _ in range(np_)]
            self.features.add(f"call-{np_}-args")
            if rng.random() < 0.6:
                w = self.fresh("r")
                sc.vars[w] = ret
                return [C("SLet", w, C("ECall", fn, [t for t, _ in args]))], [f"let {w} = {fn}(" + ", ".join(s for _, s in args) + ")"]
            return [C("SCall", fn, [t for t, _ in args])], [f"{fn}(" + ", ".join(s for _, s in args) + ")"]
        if self.loop_depth > 0 and r < 0.97:
            # break / continue, possibly from inside a nested if
            kind = rng.choice(["SBreak", "SContinue"])
            kw = "break" if kind == "SBreak" else "continue"
            if rng.random() < 0.6:
                c, s = self.cmp_expr(sc)
                self.features.add(kw + "-in-if")
                return [C("SIf", [(c, [C(kind)])], None)], [f"if {s} {{", "  " + kw, "}"]
            self.features.add(kw)
            return [C(kind)], [kw]
        if self.in_func and r < 0.99:
            e, s = self.atom_num(sc)
            c, cs = self.cmp_expr(sc)
            self.features.add("return-in-if")
            return [C("SIf", [(c, [C("SReturn", e)])], None)], [f"if {cs} {{", f"  return {s}", "}"]
        es = [self.echo_atom(sc)]
        return [C("SEcho", [t for t, _ in es])], ["echo " + " ".join(s for _, s in es)]

    def set_type(self, sc, v, ty):
        s = sc
        while s:
            if v in s.vars:
                s.vars[v] = ty
                return
            s = s.parent

    def block(self, sc, n, pre=None):
        inner = Scope(sc)
        if pre:
            inner.vars.update(pre)
        terms, lines = [], []
        self.depth += 1
        for _ in range(n):
            t, l = self.stmt(inner)
            terms += t
            lines += ["  " + x for x in l]
        self.depth -= 1
        # array sizes changed inside a conditional block are unknown afterwards: forget them
        return terms, lines

    def freeze_arrays(self, sc):
        """after a block that may or may not have run, array lengths are unknown: make indexing/pop impossible"""
        s = sc
        while s:
            for v, t in list(s.vars.items()):
                if isinstance(t, tuple):
                    s.vars[v] = ("arr", 0, t[2])
            s = s.parent

    def if_stmt(self, sc):
        rng = self.rng
        branches, lines = [], []
        nb = rng.choice([1, 1, 2, 3])
        for i in range(nb):
            c, s = self.cond(sc)
            bt, bl = self.block(sc, rng.randint(1, 3))
            branches.append((c, bt))
            lines += [("if " if i == 0 else "} elif ") + s + " {"] + bl
        els = None
        if rng.random() < 0.5:
            bt, bl = self.block(sc, rng.randint(1, 3))
            els = C("Some", bt)
            lines += ["} else {"] + bl
            self.features.add("else")
        if nb > 1:
            self.features.add("elif")
        lines.append("}")
        self.freeze_arrays(sc)
        return [C("SIf", branches, els)], lines

    def while_stmt(self, sc):
        rng = self.rng
        i = self.fresh("i")
        k = rng.randint(0, 4)
        until = rng.random() < 0.3
        sc.vars[i] = "num"
        self.protected.add(i)
        self.freeze_arrays(sc)
        self.loop_depth += 1
        bt, bl = self.block(sc, rng.randint(1, 3))
        self.loop_depth -= 1
        # the counter moves first, so that continue cannot skip it
        inc = C("SSet", i, C("Some", C("OAdd")), C("EInt", zc(1)))
        if until:
            cond = C("ECmp", C("CGe"), C("EVar", i), C("EInt", zc(k)))
            head = f"until ${i} >= {k} {{"
            self.features.add("until")
        else:
            cond = C("ECmp", C("CLt"), C("EVar", i), C("EInt", zc(k)))
            head = f"while ${i} < {k} {{"
            self.features.add("while")
        self.freeze_arrays(sc)
        return ([C("SLet", i, C("EInt", zc(0))), C("SLoop", until, cond, [inc] + bt)],
                [f"let {i} = 0", head, f"  {i} += 1"] + bl + ["}"])

    def for_stmt(self, sc):
        rng = self.rng
        x = self.fresh("it")
        r = rng.random()
        arrs = sc.of_type(lambda t: isinstance(t, tuple))
        strs = sc.of_type(lambda t: t == "str")
        if r < 0.5:
            lo = rng.randint(0, 3)
            hi = lo + rng.randint(0, 4)
            incl = rng.random() < 0.3
            it = C("ERange", incl, C("EInt", zc(lo)), C("EInt", zc(hi)))
            src = f"{lo}..={hi}" if incl else f"{lo}..{hi}"
            ty = "num"
            self.features.add("for-range")
        elif r < 0.75 and arrs:
            v = rng.choice(arrs)
            it, src, ty = C("EVar", v), "$" + v, "num"
            self.features.add("for-array")
        elif strs:
            v = rng.choice(strs)
            it, src, ty = C("EVar", v), "$" + v, "str"
            self.features.add("for-string")
        else:
            items = [self.atom_num(sc) for _ in range(rng.randint(0, 3))]
            it, src, ty = C("EArr", [t for t, _ in items]), "[" + ", ".join(s for _, s in items) + "]", "num"
            self.features.add("for-array-literal")
        self.freeze_arrays(sc)
        self.loop_depth += 1
        itv = it.args[0] if it.name == "EVar" else None
        if itv:
            self.iterating.add(itv)
        bt, bl = self.block(sc, rng.randint(1, 3), pre={x: ty})
        if itv:
            self.iterating.discard(itv)
        self.loop_depth -= 1
        self.freeze_arrays(sc)
        return [C("SFor", x, it, bt)], [f"for {x} in {src} {{"] + bl + ["}"]

    def func_def(self, top):
        rng = self.rng
        fn = self.fresh("f")
        np_ = rng.choice([0, 1, 1, 2, 2, 3])
        params = [f"p{j}" for j in range(np_)]
        tops = [v for v, t in top.vars.items() if t == "num" and v not in self.protected]
        if tops and np_ and rng.random() < 0.5:
            # a parameter named like a top-level variable: binding it must not touch that variable
            params[0] = rng.choice(sorted(tops))
            self.features.add("param-shadows-global")
        # a function sees its parameters and the top-level variables declared so far
        self.in_func = fn
        saved_loop = self.loop_depth
        self.loop_depth = 0
        fs = Scope(top)
        for p in params:
            fs.vars[p] = "num"
        terms, lines = [], []
        self.depth += 1
        for _ in range(rng.randint(1, 4)):
            t, l = self.stmt(fs)
            terms += t
            lines += ["  " + x for x in l]
        e, s = self.atom_num(fs) if rng.random() < 0.5 else self.num_var_or_int(fs)
        terms.append(C("SReturn", e))
        lines.append(f"  return {s}")
        self.depth -= 1
        self.in_func = None
        self.loop_depth = saved_loop
        self.funcs[fn] = (np_, "num")
        self.features.add("function")
        self.freeze_arrays(top)
        return [C("SDef", fn, params, terms)], [f"def {fn}(" + ", ".join(params) + ") {"] + lines + ["}"]

    def num_var_or_int(self, sc):
        return self.atom_num(sc)

    def program(self):
        rng = self.rng
        self.protected = set(self.builtins)
        top = Scope()
        for k, ty in self.builtins.items():
            top.vars[k] = ty
        terms, lines = [], []
        n = rng.randint(3, 14)
        for _ in range(n):
            if rng.random() < 0.15 and len(self.funcs) < 3 and not getattr(self, "shadowed_builtin", False):
                t, l = self.func_def(top)
            else:
                t, l = self.stmt(top)
            terms += t
            lines += l
        # end with a dump of every top-level variable: scope leaks and wrong values show up here
        for v in sorted(top.vars):
            if v in self.builtins:
                continue
            terms.append(C("SEcho", [C("ELit", [C("PText", v + "=")]), C("EVar", v)]))
            lines.append(f'echo "{v}=" ${v}')
        return terms, lines
