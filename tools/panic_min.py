#!/usr/bin/env python3
"""census + shrink of panics: tools/panic_min.py [seed] [n]"""
import sys, random, re, subprocess, json
sys.path.insert(0, "/verif/tools")
from vplib.common import cli_map, TARGET
from vplib.props import c10
import os
binary = os.path.join(TARGET, "debug", "vicut")
seed = int(sys.argv[1]) if len(sys.argv) > 1 else 1
n = int(sys.argv[2]) if len(sys.argv) > 2 else 3000
rng = random.Random(seed)

def run1(argv, text):
    try:
        p = subprocess.run([binary] + argv, input=text.encode(), capture_output=True, timeout=3, env={"RUST_BACKTRACE": "0", "PATH": "/usr/bin:/bin"})
    except subprocess.TimeoutExpired:
        return "timeout"
    e = p.stderr.decode("utf-8", "replace")
    if "panicked at" in e:
        return c10.site_of(e)
    if p.returncode not in (0, 1):
        return f"rc{p.returncode}"
    return None

jobs = []
for _ in range(n):
    text = rng.choice(c10.TEXTS)
    argv = c10.gen_argv(rng) or [c10.gen_vic(rng)]
    argv = [a.replace("\x00", "") for a in argv]
    if not argv or any(a in ("-h", "--help", "--version") for a in argv):
        continue
    jobs.append((argv, text))
res = cli_map(binary, [{"args": a, "stdin": t, "timeout": 8} for a, t in jobs])
by = {}
for (a, t), (rc, out, err) in zip(jobs, res):
    e = err.decode("utf-8", "replace")
    s = "timeout" if rc == "timeout" else (c10.site_of(e) if "panicked at" in e else (f"rc{rc}" if rc not in (0, 1) else None))
    if s:
        by.setdefault(s, []).append((a, t))

def toks(s):
    return re.findall(r"<[^<>\s]{1,12}>|.", s, re.S)

def shrink(argv, text, site):
    cur = (argv, text)
    changed = True
    while changed:
        changed = False
        argv, text = cur
        cands = []
        # drop arg pairs / single args
        for i in range(len(argv)):
            cands.append((argv[:i] + argv[i + 2:], text))
            cands.append((argv[:i] + argv[i + 1:], text))
        for i, a in enumerate(argv):
            tk = toks(a) if len(argv) > 1 else a.split("\n")
            sep = "" if len(argv) > 1 else "\n"
            for j in range(len(tk)):
                cands.append((argv[:i] + [sep.join(tk[:j] + tk[j + 1:])] + argv[i + 1:], text))
        for t2 in ["", "a", "ab\n", "a b\n", "ab\ncd\n", "é\n", "ab", text[:len(text) // 2], text[1:], text[:-1]]:
            if len(t2) < len(text):
                cands.append((argv, t2))
        for c in cands:
            if not c[0] or (len(c[0]) == 1 and len(argv) > 1):
                continue
            if run1(c[0], c[1]) == site:
                cur = c
                changed = True
                break
    return cur

for s, cs in sorted(by.items(), key=lambda kv: -len(kv[1])):
    if s == "timeout":
        for c in cs[:6]:
            print("timeout", json.dumps(c[0], ensure_ascii=False)[:300], repr(c[1][:60]))
        continue
    cs.sort(key=lambda c: sum(map(len, c[0])) + len(c[1]))
    m = shrink(cs[0][0], cs[0][1], s)
    print(f"{len(cs):4d} {s}: {json.dumps(m[0], ensure_ascii=False)} <<< {m[1]!r}")
