#!/usr/bin/env python3
"""shrink a C10 replay: tools/shrink_case.py replay.json"""
import sys, json, subprocess, re
binary = "/verif/build/target/debug/vicut"
def run1(argv, text):
    try:
        p = subprocess.run([binary] + argv, input=text.encode(), capture_output=True, timeout=5)
    except subprocess.TimeoutExpired:
        return "timeout"
    e = p.stderr.decode("utf-8", "replace")
    m = re.search(r"panicked at ([^:\n]+:\d+)", e)
    return m.group(1) if m else None
c = json.load(open(sys.argv[1]))["case"]
argv, text = c["argv"], c["stdin"]
site = run1(argv, text)
print("site", site)
def toks(s):
    return re.findall(r"<[^<>\s]{1,12}>|.", s, re.S)
cur = (argv, text)
ch = True
while ch:
    ch = False
    argv, text = cur
    cands = []
    for i in range(0, len(argv), 2):
        cands.append((argv[:i] + argv[i + 2:], text))
    for i in range(1, len(argv), 2):
        tk = toks(argv[i])
        for j in range(len(tk)):
            cands.append((argv[:i] + ["".join(tk[:j] + tk[j + 1:])] + argv[i + 1:], text))
    for j in range(len(text)):
        cands.append((argv, text[:j] + text[j + 1:]))
    for c in cands:
        if len(c[0]) >= 2 and run1(*c) == site:
            cur = c
            ch = True
            break
print(json.dumps(cur, ensure_ascii=False), [hex(ord(ch)) for ch in cur[1]])
