#!/usr/bin/env python3
"""triage of C17 disagreements: tools/vic_triage.py [seed] [n]"""
import sys, random, re, collections, json
sys.path.insert(0, "/verif/tools")
from vplib.common import cli_map, TARGET, run_coq_eval, untxt
from vplib.vic_lang import Gen
import os
binary = os.path.join(TARGET, "debug", "vicut")
seed = int(sys.argv[1]) if len(sys.argv) > 1 else 1
n = int(sys.argv[2]) if len(sys.argv) > 2 else 600
rng = random.Random(seed)
progs = []
for _ in range(n):
    g = Gen(rng)
    terms, lines = g.program()
    progs.append((terms, "opts { no_input }\n" + "\n".join(lines) + "\n", sorted(g.features)))
res = cli_map(binary, [{"args": [p[1]], "stdin": "", "timeout": 10} for p in progs])
model = run_coq_eval("c17t", ["Base.Prelude", "Model.Vic", "Model.Obs"], "vic_obs", [([], p[0]) for p in progs], shard=60)
cls = collections.Counter()
ex = {}
for (terms, src, feats), (rc, out, err), (kind, mout) in zip(progs, res, model):
    e = err.decode("utf-8", "replace")
    if kind != 0:
        key = ("reference-error" if kind == 1 else "reference-fuel", "")
    elif rc == "timeout":
        key = ("timeout", "")
    elif "panicked" in e:
        key = ("panic", re.search(r"panicked at ([^\n]*)", e).group(1)[:60])
    elif rc == 1:
        m = re.search(r"-->\s*(\d+):(\d+).*?= (.*)", e, re.S)
        if m:
            line = src.split("\n")[int(m.group(1)) - 1]
            key = ("parse", m.group(3).strip()[:50] + " @ " + re.sub(r"[0-9]+", "N", re.sub(r"[a-z]+[0-9]+", "V", line.strip()))[:50])
        else:
            key = ("runtime", e.strip()[-80:])
    elif out.decode("utf-8", "replace") != untxt(mout):
        key = ("output-differs", "")
    else:
        key = ("ok", "")
    cls[key] += 1
    if key not in ex or len(src) < len(ex[key][0]):
        ex[key] = (src, out.decode("utf-8", "replace"), untxt(mout) if kind == 0 else None, e[-300:])
for key, c in cls.most_common(40):
    print(c, key)
json.dump({f"{k[0]}|{k[1]}": v for k, v in ex.items()}, open("/tmp/vic_triage.json", "w"), ensure_ascii=False, indent=1)
